SPECIFICATION Spec
CONSTANTS
  Procs = {1}
  MaxRev = 8
  MaxOps = 3
  MaxFaults = 3
  MaxCrash = 0
  MaxEdits = 0
  FaultKinds = {"res", "wait"}
  Sequential = TRUE
  Planned = TRUE
  MaxPlan = 36
  InitStores <- StoresEmpty
  LateStart = FALSE
  LogSched = FALSE
  KeepLog = FALSE
  OpMenu <- MenuFault
  EditMenu <- EditsNone
  PreMenu <- PreBy
  Objs <- AllObjs
  MenuGuard <- GuardBias
CONSTRAINT GenExport
CHECK_DEADLOCK FALSE
