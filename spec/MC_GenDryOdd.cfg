SPECIFICATION Spec
CONSTANTS
  Procs = {1}
  MaxRev = 10
  MaxOps = 2
  MaxFaults = 0
  MaxCrash = 0
  MaxEdits = 0
  FaultKinds = {"res", "wait"}
  Sequential = TRUE
  Planned = TRUE
  MaxPlan = 36
  InitStores <- StoresOdd
  LateStart = FALSE
  LogSched = FALSE
  KeepLog = FALSE
  OpMenu <- MenuDryOnly
  EditMenu <- EditsNone
  PreMenu <- PreOdd
  Objs <- AllObjs
  MenuGuard <- GuardTrue
CONSTRAINT GenExport
CHECK_DEADLOCK FALSE
