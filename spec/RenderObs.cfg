SPECIFICATION Spec
CONSTANT ObsFile = "obs.ndjson"
CONSTANT MetaFile = "meta.json"
CHECK_DEADLOCK FALSE
