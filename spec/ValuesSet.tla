------------------------------ MODULE ValuesSet ------------------------------
(***************************************************************************)
(* The --set string grammar (pkg/strvals/parser.go) on the level of tokens. *)
(*                                                                          *)
(* Tokens: plain chunks (a b x 1 007 true null ...), the escapes \. and \,  *)
(* (one token each), and the structural characters . = , { } and [i].      *)
(* The concrete string is the concatenation of the tokens.                 *)
(*                                                                          *)
(* PROPERTY-SHAPED: an expression of the documented grammar is a list of    *)
(* assignments path = value; its meaning is SetPath applied in order: the   *)
(* result differs from the base exactly at the named path (maps / lists are *)
(* created on the way, a list is padded with nulls up to the index), with   *)
(* the documented type rules for unquoted literals (DocTyped).              *)
(*                                                                          *)
(* CODE-SHAPED: CodeParseInto, a transcription of parser.parse / key /      *)
(* listItem / valList / val / runesUntil / set / setIndex.                  *)
(***************************************************************************)
EXTENDS Values

(* ----- tokens ----------------------------------------------------------- *)
EscDot   == "\\."
EscComma == "\\,"
IdxToks  == {"[0]", "[1]", "[2]"}
IdxOf(t) == CASE t = "[0]" -> 0 [] t = "[1]" -> 1 [] t = "[2]" -> 2

\* the rune that decides whether a token stops runesUntil ("" = never stops)
StopCh(t) == IF t \in IdxToks THEN "[" ELSE IF t \in {".", "=", ",", "{", "}"} THEN t ELSE ""
\* what runesUntil appends for a token that does not stop it
Txt(t) == IF t = EscDot THEN "." ELSE IF t = EscComma THEN "," ELSE t

RECURSIVE Concat(_)
Concat(ts) == IF ts = <<>> THEN "" ELSE Head(ts) \o Concat(Tail(ts))
RECURSIVE TxtOf(_)
TxtOf(ts) == IF ts = <<>> THEN "" ELSE Txt(Head(ts)) \o TxtOf(Tail(ts))

(* ----- documented type rules for an unquoted --set value ------------------ *)
\* true/false (any case) -> boolean; null -> null; 0 and integers without a leading zero ->
\* integer; everything else (leading zero, decimals, text, empty) -> string
DocTyped(txt) ==
  CASE txt \in {"true", "TRUE"} -> Sc("b:true")
    [] txt \in {"false", "False"} -> Sc("b:false")
    [] txt \in {"null", "NULL"} -> Null
    [] txt \in {"0", "1", "2", "7", "-3", "12"} -> Sc("i:" \o txt)
    [] OTHER -> Sc("s:" \o txt)

(* ----- PROPERTY-SHAPED ----------------------------------------------------- *)
\* path element: [key |-> name, idx |-> -1]  or  [key |-> "", idx |-> i]
PK(n) == [key |-> n, idx |-> -1]
PI(i) == [key |-> "", idx |-> i]
IsIdx(e) == e.idx >= 0

PadTo(s, n) == [j \in 1..(IF n > Len(s) THEN n ELSE Len(s)) |-> IF j <= Len(s) THEN s[j] ELSE Null]

\* SetPath(t, path, v): t with the value at path replaced by v. t may be Unset (nothing there).
\* Something that is neither map nor unset on a key step (neither list nor unset/null on an index
\* step) is a type conflict: the documented behaviour is an error; if a value is produced anyway it
\* is the one with the conflicting node replaced.  Result [v, conflict].
RECURSIVE SetPath(_, _, _)
SetPath(t, path, v) ==
  IF path = <<>> THEN [v |-> v, conflict |-> FALSE]
  ELSE LET e == path[1] IN
    IF IsIdx(e)
    THEN LET isl == IsSet(t) /\ IsList(t)
             s   == IF isl THEN t.l ELSE <<>>
             old == IF e.idx + 1 <= Len(s) THEN s[e.idx + 1] ELSE Unset
             r   == SetPath(IF IsSet(old) /\ IsNull(old) THEN Unset ELSE old, Tail(path), v)
         IN [v |-> Li([PadTo(s, e.idx + 1) EXCEPT ![e.idx + 1] = r.v]),
             conflict |-> r.conflict \/ (IsSet(t) /\ ~isl)]
    ELSE LET ism == IsSet(t) /\ IsMap(t)
             f   == IF ism THEN t.m ELSE <<>>
             r   == SetPath(Get(f, e.key), Tail(path), v)
         IN [v |-> Mp(Put(f, e.key, r.v)), conflict |-> r.conflict \/ (IsSet(t) /\ ~ism)]

\* expression = [toks, asgs: sequence of [path, val]]
RECURSIVE ApplyAsgs(_, _, _)
ApplyAsgs(t, asgs, i) ==
  IF i > Len(asgs) THEN [v |-> t, conflict |-> FALSE]
  ELSE LET r == SetPath(t, asgs[i].path, asgs[i].val)
           n == ApplyAsgs(r.v, asgs, i + 1) IN
       [v |-> n.v, conflict |-> r.conflict \/ n.conflict]

\* expected result of --set <expr> on the base map function b
SetExpected(b, expr) == LET r == ApplyAsgs(Mp(b), expr.asgs, 1) IN [v |-> r.v.m, conflict |-> r.conflict]

(* ----- CODE-SHAPED ---------------------------------------------------------- *)
\* runesUntil(in, stop): [txt, last, rest, eof]
RECURSIVE RunesUntil(_, _, _)
RunesUntil(ts, stop, acc) ==
  IF ts = <<>> THEN [txt |-> acc, last |-> "", rest |-> <<>>, eof |-> TRUE]
  ELSE IF StopCh(Head(ts)) \in stop THEN [txt |-> acc, last |-> Head(ts), rest |-> Tail(ts), eof |-> FALSE]
  ELSE RunesUntil(Tail(ts), stop, acc \o Txt(Head(ts)))

TypedVal(txt) == DocTyped(txt)     \* typedVal(v, false): bound to the real function by the replay

\* set(data, key, val): an empty key is not set
SetK(f, key, v) == IF key = "" THEN f ELSE Put(f, key, v)
\* setIndex(list, i, val): grow with nil
SetIndex(s, i, v) == [PadTo(s, i + 1) EXCEPT ![i + 1] = v]

\* valList: [st \in {"nil","eof","notlist","err"}, list, rest]
RECURSIVE ValListLoop(_, _)
ValListLoop(ts, acc) ==
  LET r == RunesUntil(ts, {",", "}"}, "") IN
  IF r.eof THEN [st |-> "err", list |-> acc, rest |-> <<>>]
  ELSE IF r.last = "}"
       THEN [st |-> "nil", list |-> Append(acc, TypedVal(r.txt)),
             rest |-> IF r.rest # <<>> /\ Head(r.rest) = "," THEN Tail(r.rest) ELSE r.rest]
       ELSE ValListLoop(r.rest, Append(acc, TypedVal(r.txt)))
ValList(ts) ==
  IF ts = <<>> THEN [st |-> "eof", list |-> <<>>, rest |-> <<>>]
  ELSE IF Head(ts) # "{" THEN [st |-> "notlist", list |-> <<>>, rest |-> ts]
  ELSE ValListLoop(Tail(ts), <<>>)

\* key(data): [st \in {"nil","eof","err"}, data, rest];  listItem(list, i): [st, list, rest]
RECURSIVE Key(_, _), ListItem(_, _, _)
Key(f, ts) ==
  LET r == RunesUntil(ts, {"=", "[", ",", "."}, "")
      k == r.txt IN
  IF r.eof THEN [st |-> IF k = "" THEN "eof" ELSE "err", data |-> f, rest |-> <<>>]
  ELSE IF r.last \in IdxToks THEN
       IF k \in DOMAIN f /\ ~IsList(f[k]) THEN [st |-> "err", data |-> f, rest |-> <<>>]      \* panic, recovered
       ELSE LET li == ListItem(IF k \in DOMAIN f THEN f[k].l ELSE <<>>, IdxOf(r.last), r.rest) IN
            [st |-> li.st, data |-> SetK(f, k, Li(li.list)), rest |-> li.rest]
  ELSE IF r.last = "=" THEN
       LET vl == ValList(r.rest) IN
       CASE vl.st = "nil" -> [st |-> "nil", data |-> SetK(f, k, Li(vl.list)), rest |-> vl.rest]
         [] vl.st = "eof" -> [st |-> "eof", data |-> SetK(f, k, Sc("s:")), rest |-> <<>>]
         [] vl.st = "notlist" ->
              LET v == RunesUntil(r.rest, {","}, "") IN
              [st |-> "nil", data |-> SetK(f, k, TypedVal(v.txt)), rest |-> v.rest]
         [] OTHER -> [st |-> "err", data |-> f, rest |-> <<>>]
  ELSE IF r.last = "," THEN [st |-> "err", data |-> SetK(f, k, Sc("s:")), rest |-> <<>>]
  ELSE \* "."
       IF k \in DOMAIN f /\ ~IsMap(f[k]) THEN [st |-> "err", data |-> f, rest |-> <<>>]        \* panic, recovered
       ELSE LET e == Key(IF k \in DOMAIN f THEN f[k].m ELSE <<>>, r.rest) IN
            IF e.st = "nil" /\ e.data = <<>> THEN [st |-> "err", data |-> f, rest |-> <<>>]
            ELSE [st |-> e.st, data |-> IF e.data # <<>> THEN SetK(f, k, Mp(e.data)) ELSE f, rest |-> e.rest]

ListItem(s, i, ts) ==
  LET r == RunesUntil(ts, {"[", ".", "="}, "") IN
  IF r.txt # "" THEN [st |-> "err", list |-> s, rest |-> <<>>]
  ELSE IF r.eof THEN [st |-> "eof", list |-> s, rest |-> <<>>]
  ELSE IF r.last = "=" THEN
       LET vl == ValList(r.rest) IN
       CASE vl.st = "nil" -> [st |-> "nil", list |-> SetIndex(s, i, Li(vl.list)), rest |-> vl.rest]
         [] vl.st = "eof" -> [st |-> "nil", list |-> SetIndex(s, i, Sc("s:")), rest |-> <<>>]
         [] vl.st = "notlist" ->
              LET v == RunesUntil(r.rest, {","}, "") IN
              [st |-> "nil", list |-> SetIndex(s, i, TypedVal(v.txt)), rest |-> v.rest]
         [] OTHER -> [st |-> "err", list |-> s, rest |-> <<>>]
  ELSE IF r.last \in IdxToks THEN
       LET has == i + 1 <= Len(s) /\ ~IsNull(s[i + 1]) IN
       IF has /\ ~IsList(s[i + 1]) THEN [st |-> "err", list |-> s, rest |-> <<>>]               \* panic, recovered
       ELSE LET l2 == ListItem(IF has THEN s[i + 1].l ELSE <<>>, IdxOf(r.last), r.rest) IN
            \* io.EOF (the expression ends here) still sets the index and is passed on
            IF l2.st = "err" THEN [st |-> "err", list |-> s, rest |-> l2.rest]
            ELSE [st |-> l2.st, list |-> SetIndex(s, i, Li(l2.list)), rest |-> l2.rest]
  ELSE \* "."
       LET inr == i + 1 <= Len(s)
           s1  == IF inr /\ ~IsMap(s[i + 1]) THEN [s EXCEPT ![i + 1] = EmptyMap] ELSE s    \* replaced in place
           e   == Key(IF inr THEN s1[i + 1].m ELSE <<>>, r.rest) IN
       \* io.EOF from key() (an empty value at the end of the expression) still sets the index
       IF e.st = "err" THEN [st |-> "err", list |-> s1, rest |-> e.rest]
       ELSE [st |-> e.st, list |-> SetIndex(s1, i, Mp(e.data)), rest |-> e.rest]

\* parser.parse(): key() until EOF; result [ok, v]
RECURSIVE ParseLoop(_, _)
ParseLoop(f, ts) ==
  LET e == Key(f, ts) IN
  IF e.st = "err" THEN [ok |-> FALSE, v |-> f]
  ELSE IF e.st = "eof" THEN [ok |-> TRUE, v |-> e.data]
  ELSE ParseLoop(e.data, e.rest)
CodeParseInto(toks, base) == ParseLoop(base, toks)

=============================================================================
