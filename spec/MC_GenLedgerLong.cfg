SPECIFICATION Spec
CONSTANTS
  Procs = {1}
  MaxRev = 30
  MaxOps = 14
  MaxFaults = 1
  MaxCrash = 0
  MaxEdits = 0
  FaultKinds = {"res", "wait", "store"}
  Sequential = TRUE
  Planned = TRUE
  MaxPlan = 36
  InitStores <- StoresEmpty
  LateStart = FALSE
  LogSched = FALSE
  KeepLog = FALSE
  OpMenu <- MenuLong
  EditMenu <- EditsNone
  PreMenu <- PreBy
  Objs <- AllObjs
  MenuGuard <- GuardLong
CONSTRAINT GenExport
CHECK_DEADLOCK FALSE
