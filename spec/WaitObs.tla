------------------------------ MODULE WaitObs ------------------------------
(***************************************************************************)
(* Verdict on the real waiters: wait_obs.ndjson holds, per case, how the    *)
(* real Waiter method ended (harness/fam/wait) and which tick had been      *)
(* published at that moment.  The expectation is recomputed here from the   *)
(* case the harness echoes (WaitBase.tla), not read from the file.          *)
(***************************************************************************)
EXTENDS WaitBase, Json

Obs == ndJsonDeserialize("wait_obs.ndjson")

CaseOf(o) == [method |-> o.case.method, strategy |-> o.case.strategy,
              objs |-> [i \in DOMAIN o.case.objs |-> [kind |-> o.case.objs[i].kind, script |-> o.case.objs[i].script]]]

Agrees(o, e) == o.ok = e.ok /\ (o.ok => o.rettick >= e.tick)

\* which clause a case speaks to
CheckOf(c) == CASE c.method = "hook" -> "C12_HookCompleted" [] c.method = "delete" -> "C02_DeleteAwaited" [] OTHER -> "C03_NeverReady"

\* known deviations: L26 WaitForDelete ends well while an object still exists (first event before the first status);
\*                   L27 a failed pod counts as ready for Wait / WaitWithJobs
Tag(o, c) ==
  IF c.method = "delete" /\ o.ok THEN "L26"
  ELSE IF c.method \in {"wait", "waitjobs"} /\ Agrees(o, ExpectedX(TRUE, c)) THEN "L27"
  ELSE "-"

VARIABLE l
Init == l = 0
Report(i) ==
  LET o == Obs[i]  c == CaseOf(o) IN
  IF o.harness # "" THEN PrintT(<<"WAITHARNESS", i, o.harness>>)
  ELSE IF Agrees(o, Expected(c)) THEN TRUE
  ELSE PrintT(<<"WAITVIOL", i, CheckOf(c), Tag(o, c)>>)
Next == l < Len(Obs) /\ l' = l + 1 /\ Report(l + 1)
Spec == Init /\ [][Next]_l
Done == TLCGet("distinct") = Len(Obs) + 1
=============================================================================
