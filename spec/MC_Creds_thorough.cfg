SPECIFICATION Spec
CONSTANTS
  Repos <- ReposThorough
  Paths <- PathsAll
  Variants <- VariantsAll
  Redirects = {FALSE, TRUE}
  PullGated = TRUE
  TLSKinds = {"none", "ca", "cert", "insecure"}
INVARIANTS Inv_CredsModuloKnown Inv_WrittenImpliesOrigin
CONSTRAINT Export
CHECK_DEADLOCK FALSE
