---------------------------- MODULE ValuesChainObs ----------------------------
(***************************************************************************)
(* C13 verdict.  chains.ndjson: the chains TLC enumerated (ValuesChainMC);  *)
(* cobs.ndjson: for every chain and step, all stored revisions as read back *)
(* from release storage after the real action.Install / Upgrade / Rollback  *)
(* (Release.Config, the .Values probe rendered into the manifest).  The     *)
(* predicates are those of ValuesChain, evaluated on the OBSERVED records.  *)
(***************************************************************************)
EXTENDS ValuesChain, Json

Chains == ndJsonDeserialize("chains.ndjson")
Obs    == ndJsonDeserialize("cobs.ndjson")

DefaultsObs == [i \in DOMAIN Chains[1].defaults |-> Chains[1].defaults[i].m]
SubDefaultsObs == [i \in DOMAIN Chains[1].subdefaults |-> Chains[1].subdefaults[i].m]

StepOfJ(s) == [op |-> s.op, mode |-> s.mode, vals |-> s.vals.m, chart |-> s.chart, target |-> s.target, fail |-> s.fail, atomic |-> s.atomic, auto |-> s.auto]
StepsOfJ(j) == [n \in DOMAIN j.steps |-> StepOfJ(j.steps[n])]

EchoOK(j, o) == o.id = j.id /\ o.echo.steps = j.steps /\ o.echo.defaults = Chains[1].defaults /\ o.panic = ""

\* every operation adds exactly one revision; it fails exactly when the chain says its cluster update
\* fails, and the revision it leaves deployed is the one the chain expects (status bookkeeping itself
\* is the subject of C01 / C03: a chain that does not run as planned gives no verdict here)
StepRan(st, o, n) ==
  LET revs == o.steps[n].revs
      d    == DepAt(st, n + 1) IN
  /\ o.steps[n].ok = ~Fails(st[n])
  /\ Len(revs) = n /\ \A r \in 1..n : revs[r].rev = r
  \* (after an atomic upgrade the harness shows revisions 1..n only: its own rollback, revision
  \* n + 1, has already superseded the deployed one and is shown at the next step)
  /\ st[n].atomic \/ \A r \in 1..n : (revs[r].status = "deployed") = (r = d)
  /\ Fails(st[n]) => revs[n].status = "failed"

\* the recorded values of revisions 1..n as read back after step n
ObsCfgs(o, n) == [r \in 1..n |-> o.steps[n].revs[r].cfg.m]

\* the checks at step n of chain j (o: its observations), st = StepsOfJ(j)
ChecksAt(st, o, n) ==
  LET s    == st[n]
      now  == o.steps[n].revs
      was  == IF n > 1 THEN o.steps[n - 1].revs ELSE <<>>
      dep  == IF n > 1 THEN was[DepAt(st, n)].cfg.m ELSE <<>>   \* the deployed revision's recorded values
      tgtOk == s.op # "rollback" \/ s.target \in 1..(n - 1)
      tgt  == IF s.op = "rollback" /\ tgtOk THEN was[s.target].cfg.m ELSE <<>>
  IN <<
    \* the recorded user values are what the flag says
    [n |-> "C13_Config",    v |-> tgtOk /\ IsMap(now[n].cfg) /\ ConfigOk(s, dep, tgt, now[n].cfg.m)],
    \* the templates saw the defaults in force overlaid with those values
    [n |-> "C13_Effective", v |-> EffectiveOk(PropRevs(st, n)[n], now[n].probe)],
    \* a rollback re-creates the target revision's values and rendering unchanged
    [n |-> "C13_Rollback",  v |-> s.op = "rollback" => (tgtOk /\ now[n].cfg = was[s.target].cfg /\ now[n].probe = was[s.target].probe)],
    \* one overlay rule for every key: nulls laid over set keys are all kept or (L18) all dropped
    [n |-> "C13_NullUniform", v |-> NullUniform(st, ObsCfgs(o, n), n) \/ ~NullUniform(st, ObsCfgs(o, n - 1), n - 1)],
    \* no step rewrites what an older revision recorded
    [n |-> "C13_Stored",    v |-> \A r \in 1..(n - 1) : now[r].cfg = was[r].cfg /\ now[r].probe = was[r].probe] >>


Chunk == 200
VARIABLE l
Init == l \in {k * Chunk : k \in 0..(Len(Obs) \div Chunk)}
Report(i) ==
  LET j  == Chains[i]
      o  == Obs[i]
      st == StepsOfJ(j) IN
  IF ~EchoOK(j, o) THEN PrintT(<<"OBSECHO", i, j.id, o.panic>>)
  ELSE \A n \in DOMAIN st :
         IF ~StepRan(st, o, n) THEN PrintT(<<"OBSFAIL", i, n, j.id, o.steps[n].err>>)
         ELSE LET cs == ChecksAt(st, o, n) IN
              \A x \in DOMAIN cs :
                IF cs[x].v THEN TRUE
                ELSE PrintT(<<"OBSVIOL", i, cs[x].n, n, j.id,
                              IF L18Lineage(st, ObsCfgs(o, n), n) THEN "L18"
                              ELSE IF SubLostLineage(st, n) THEN "SUBDEP" ELSE "-">>)
Next == /\ l < Len(Obs)
        /\ l' = l + 1
        /\ Report(l + 1)
Spec == Init /\ [][Next]_l
Done == Len(Obs) = Len(Chains) /\ TLCGet("distinct") = Len(Obs) + 1
=============================================================================
