SPECIFICATION Spec
CONSTANT Inputs <- C08Thorough
CONSTANT Hosts <- HostsOne
INVARIANT DetOrKnown
INVARIANT Partition
INVARIANT Progress
CHECK_DEADLOCK FALSE
