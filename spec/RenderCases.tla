---------------------------- MODULE RenderCases ----------------------------
(***************************************************************************)
(* Bounded input spaces for Render.tla: enumerated by TLC, explored by the *)
(* state machine (configurations MC_Render, MC_Part) and exported as JSON  *)
(* cases (MC_RenderGen) for the Go harness, which concretises every case   *)
(* into a real chart.                                                      *)
(***************************************************************************)
EXTENDS RenderBase, Json

Kinds4 == {"Secret", "Deployment", "Gadget", "Widget"}
AbsCls == {"plain", "hook1", "unk"}     \* one representative per class; the harness draws the flavour
                                        \* (plain|annot, hook1|hookw|hook2, unk|mixed) per document by seed
LitTypes(cls) == {[k |-> k, c |-> c, g |-> "LIT"] : k \in Kinds4, c \in cls}

ChartsSeq(S) == SelectSeq(<<"p", "s1", "s2">>, LAMBDA c : c \in S)
SubsSeq(S)   == SelectSeq(<<"s1", "s2">>, LAMBDA c : c \in S)
RanksSeq(S)  == SortInts(AnySeq(S))

Case(fam, files, parts, notes, subs, crds, dc, sn, dns, schema, at) ==
  [fam |-> fam, files |-> files, parts |-> RanksSeq(parts), notes |-> RanksSeq(notes), subs |-> SubsSeq(subs),
   crds |-> ChartsSeq(crds), decl |-> dc, subNotes |-> sn, dns |-> dns, schema |-> schema, schemaAt |-> at]

(* ----- C08: documents of all kinds and classes in up to three files ---------- *)

FilesAt(segs, paths) == [j \in DOMAIN segs |-> [p |-> paths[j], docs |-> segs[j]]]

\* The document-sequence cases are built as SEQUENCES by index arithmetic (no set of hundreds of thousands of
\* records to normalise): case number i  <->  (document sequence as a base-T number, cut positions)
RECURSIVE Pow(_, _)
Pow(b, e) == IF e = 0 THEN 1 ELSE b * Pow(b, e - 1)
\* at most two cuts of 1..n into consecutive non-empty files
CutsSeq(n) == <<<<>>>> \o [c \in 1..(n - 1) |-> <<c>>]
              \o SetToSeq({<<c1, c2>> : c1 \in 1..(n - 1), c2 \in 1..(n - 1)} \cap {t \in (1..n) \X (1..n) : t[1] < t[2]})
SegsByCuts(ds, cs) ==
  CASE Len(cs) = 0 -> <<ds>>
    [] Len(cs) = 1 -> <<SubSeq(ds, 1, cs[1]), SubSeq(ds, cs[1] + 1, Len(ds))>>
    [] OTHER -> <<SubSeq(ds, 1, cs[1]), SubSeq(ds, cs[1] + 1, cs[2]), SubSeq(ds, cs[2] + 1, Len(ds))>>
PartSeqN(ts, n, cuts, paths, subs) ==
  LET T == Len(ts)  C == Len(cuts) IN
  [i \in 1..(Pow(T, n) * C) |->
     LET q == i - 1
         r == q \div C
         ds == [j \in 1..n |-> ts[((r \div Pow(T, j - 1)) % T) + 1]]
     IN Case("part", FilesAt(SegsByCuts(ds, cuts[(q % C) + 1]), paths), {}, {}, subs, {}, "none", FALSE, FALSE, "none", "p")]
\* files p/templates/{a,b,c}.yaml, lo..hi documents, every cut
PartSeq(ts, lo, hi) == FlattenSeq([k \in 1..(hi - lo + 1) |-> PartSeqN(ts, lo + k - 1, CutsSeq(lo + k - 1), <<Pa, Pb, Pc>>, {})])
\* the first file belongs to a subchart (sorts before the parent's files)
PartSubSeq(ts, lo, hi) == FlattenSeq([k \in 1..(hi - lo + 1) |-> PartSeqN(ts, lo + k - 1, CutsSeq(lo + k - 1), <<S1a, Pa, Pb>>, {"s1"})])
\* the first two files differ only in letter case (A.yaml sorts before a.yaml)
PartTwinSeq(ts, lo, hi) == FlattenSeq([k \in 1..(hi - lo + 1) |-> PartSeqN(ts, lo + k - 1, Tail(CutsSeq(lo + k - 1)), <<PA, Pa, Pb>>, {})])
\* the first file (of parent / of subchart and parent) lives in a directory whose name starts with "_": it is an
\* ordinary template (only a file whose OWN name starts with "_" is a partial) and nothing of it may be lost
PartJobsSeq(ts, lo, hi) ==
  FlattenSeq([k \in 1..(hi - lo + 1) |-> PartSeqN(ts, lo + k - 1, CutsSeq(lo + k - 1), <<PJ, Pa, Pb>>, {})])
  \o FlattenSeq([k \in 1..(hi - lo + 1) |-> PartSeqN(ts, lo + k - 1, CutsSeq(lo + k - 1), <<S1J, PJ, Pa>>, {"s1"})])
\* longer sequences in ONE file (no cut)
OneFileSeq(ts, lo, hi) == FlattenSeq([k \in 1..(hi - lo + 1) |-> PartSeqN(ts, lo + k - 1, <<<<>>>>, <<Pa, Pb, Pc>>, {})])

AbsTypesSeq == SetToSeq(LitTypes(AbsCls))
AllTypesSeq == SetToSeq(LitTypes(AllCls))
HasFlavour(c) == \E j \in DOMAIN c.files : \E i \in DOMAIN c.files[j].docs : c.files[j].docs[i].c \notin AbsCls

\* long files: sort.Slice is stable up to 12 elements (insertion sort), so an unstable kind sort only
\* shows on longer lists (and a document index that no longer fits a small integer only beyond 128) -- n documents, kinds cycling with stride a from offset b, in nf files
LongKinds == <<"Secret", "Widget", "Deployment", "Gadget">>
LongDocs(n, a, b) == [i \in 1..n |-> [k |-> LongKinds[((i * a + b) % 4) + 1],
                                      c |-> IF i % 5 = 0 THEN "hook1" ELSE IF i % 7 = 0 THEN "unk" ELSE "plain", g |-> "LIT"]]
LongCase(n, a, b, nf) ==
  LET ds == LongDocs(n, a, b) IN
  Case("part", FilesAt(IF nf = 1 THEN <<ds>> ELSE <<SubSeq(ds, 1, n \div 2), SubSeq(ds, (n \div 2) + 1, n)>>, <<Pa, Pb, Pc>>),
       {}, {}, {}, {}, "none", FALSE, FALSE, "none", "p")
LongCases == {LongCase(n, a, b, nf) : n \in {14, 25, 40, 140}, a \in {1, 3}, b \in {0, 1}, nf \in {1, 2}}

(* ----- C05: charts on two levels ------------------------------------------- *)

MainOf(c)    == CASE c = "p" -> Pa [] c = "s1" -> S1a [] OTHER -> S2a
KindOfPath(p) == CASE p \in {Pa, PA} -> "Deployment" [] p = Pb -> "Gadget" [] p = Pc -> "Secret"
                   [] p \in {S1a, S1A} -> "Secret" [] p = S1b -> "Widget" [] OTHER -> "Widget"
OneDoc(p, c, g) == [p |-> p, docs |-> <<[k |-> KindOfPath(p), c |-> c, g |-> g]>>]

PartsIn(sb) == {PH, PZ} \cup (IF "s1" \in sb THEN {S1H} ELSE {}) \cup (IF "s2" \in sb THEN {S2H} ELSE {})
NotesIn(sb) == {PN} \cup (IF "s1" \in sb THEN {S1N} ELSE {}) \cup (IF "s2" \in sb THEN {S2N} ELSE {})

\* "order" family: everything whose result could depend on a map order -- which charts have NOTES.txt
\* (x SubNotes), which partials define the same named template, which charts carry CRDs
OrderCase(sb, pa, no, cr, dc, sn) ==
  LET mains == RanksSeq({MainOf(c) : c \in {"p"} \cup sb}) IN
  Case("order", [j \in DOMAIN mains |-> OneDoc(mains[j], IF mains[j] = S1a THEN "hook1" ELSE "plain", IF pa = {} THEN "LIT" ELSE "INC")],
       pa, no, sb, cr, dc, sn, FALSE, "none", "p")
\* (listing the subcharts in Chart.yaml only matters for the CRD order: varied where both subcharts carry CRDs)
DeclOpts(cr) == IF {"s1", "s2"} \subseteq cr THEN {"none", "rev"} ELSE {"none"}
OrderCases ==
  UNION {UNION {{OrderCase(sb, pa, no, cr, dc, sn) : pa \in SUBSET PartsIn(sb), no \in SUBSET NotesIn(sb),
                                                     sn \in BOOLEAN, dc \in DeclOpts(cr)} :
                  cr \in SUBSET ({"p"} \cup sb)} :
           sb \in {{}, {"s1"}, {"s1", "s2"}}}

\* "twin" family: template files whose paths differ only in letter case (A.yaml / a.yaml, in the parent and in
\* the subchart) holding documents of the SAME kind and class, so that only the path order separates them;
\* NOTES.txt at every depth (templates/NOTES.txt, templates/sub/NOTES.txt, parent and subchart) x SubNotes
TwinCase(tw, no, cl, sn) ==
  LET ps == RanksSeq({Pa, S1a} \cup tw) IN
  Case("order", [j \in DOMAIN ps |-> OneDoc(ps[j], cl, "LIT")], {}, no, {"s1"}, {}, "none", sn, FALSE, "none", "p")
TwinCases == {TwinCase(tw, no, cl, sn) : tw \in SUBSET {PA, S1A}, no \in SUBSET {PN, PSN, S1N, S1SN},
                                        cl \in {"plain", "hook1"}, sn \in BOOLEAN}

\* "prog" family: up to n template files in parent and subchart, each computing its payload with one
\* program (values, include / tpl nesting depth 2, Files.Get / Glob, files outside the chart, DNS, state
\* written by one file and read by another of the same chart or of the parent, mutation of a default list, fail);
\* the named templates are defined twice (parent and subchart partial)
ProgsP == {"LIT", "VAL", "INC", "INC2", "TPL", "TPL2", "FGET", "FGLOB", "FOUT", "DNS", "SET", "GET", "GETS", "MUT", "FAIL", "CAPV", "CAPA",
           "FCFG", "FSEC", "FGLOB2", "LOOK"}
\* GETS reads the subchart's state through .Values.s1: only meaningful in a file of the parent
ProgOK(asg) == \A p \in DOMAIN asg : asg[p] = "GETS" => p \in {Pa, Pb}
ProgCase(asg, pa, dns) ==
  LET ps == RanksSeq(DOMAIN asg) IN
  Case("prog", [j \in DOMAIN ps |-> OneDoc(ps[j], "plain", asg[ps[j]])], pa, {PN}, {"s1"}, {}, "none", FALSE, dns, "none", "p")
ProgCases(n) ==
  LET A == {a \in UNION {[S -> ProgsP] : S \in {T \in SUBSET {S1a, S1b, Pa, Pb} : Cardinality(T) \in 1..n}} : ProgOK(a)} IN
  {ProgCase(asg, {S1H, PH}, FALSE) : asg \in A}
  \cup {ProgCase(asg, {S1H, PH}, TRUE) : asg \in {a \in A : "DNS" \in Range(a) /\ Cardinality(DOMAIN a) <= 2}}

\* functions that must not exist (parse error), and a call of an undefined named template (exec error)
ErrCases ==
  {ProgCase(asg, {S1H, PH}, FALSE) : asg \in {a \in [{S1a, Pa} -> {"LIT", "INC", "ENV", "EXPANDENV"}] : Range(a) \cap ErrProgs # {}}}
  \cup {ProgCase(asg, {}, FALSE) : asg \in [{S1a, Pa} -> {"LIT", "INC"}] \cup [{Pa} -> {"TPL2", "LIT"}]}

\* "schema" family: values.schema.json of the parent / the subchart with a "$ref" in each URL form
SchemaCases ==
  {Case("schema", <<OneDoc(S1a, "plain", "LIT"), OneDoc(Pa, "plain", "LIT")>>, {}, {PN}, {"s1"}, {}, "none", FALSE, FALSE, r, at) :
     r \in {"local", "rel", "file", "http"}, at \in {"p", "s1"}}

NPaths(c) == Len(c.files) + Len(c.parts) + Len(c.notes)

(* ----- the bounded spaces per property and tier ------------------------------- *)

\* C05: charts on two levels. State-machine exploration (MC_Render) is limited by the number of
\* template paths (permutations per map walk); the reference function F is evaluated on all of them.
C05All(n)     == OrderCases \cup TwinCases \cup ProgCases(n) \cup ErrCases \cup SchemaCases
C05Machine(m, n) == {c \in OrderCases \cup TwinCases : NPaths(c) <= m} \cup ProgCases(n) \cup ErrCases \cup SchemaCases
\* inputs on which the strict determinism invariants are checked to SHOW where the model is not a function
StrictInputs  == {c \in OrderCases : NPaths(c) <= 4} \cup SchemaCases

\* C08: all document sequences over kind x class (one flavour per class) in up to three files,
\* and every flavour incl. blank / comment-only documents for up to two documents
C08Seq(n, m, one) ==
  PartSeq(AbsTypesSeq, 1, n) \o PartSubSeq(AbsTypesSeq, 1, m) \o PartTwinSeq(AbsTypesSeq, 2, 3) \o PartJobsSeq(AbsTypesSeq, 1, 2) \o OneFileSeq(AbsTypesSeq, n + 1, one)
  \o SelectSeq(PartSeq(AllTypesSeq, 1, 2), HasFlavour) \o SetToSeq(LongCases)
C08MachineSeq(n) == PartSeq(AbsTypesSeq, 1, n) \o PartTwinSeq(AbsTypesSeq, 2, 2) \o PartJobsSeq(AbsTypesSeq, 1, 1) \o SelectSeq(PartSeq(AllTypesSeq, 1, 2), HasFlavour)

(* ----- export ---------------------------------------------------------------- *)

\* one JSON line per case; exp = the reference output F(case); nn / nc = how many different notes
\* texts / CRD orders the code-shaped pipeline can produce for it (> 1: the model is not deterministic)
WithExp(prefix, q) ==
  [i \in DOMAIN q |-> [id |-> prefix \o ToString(i), case |-> q[i], exp |-> F(q[i]),
                       nn |-> Cardinality(PossibleNotes(q[i])), nc |-> Cardinality(PossibleCrds(q[i]))]]
NoExp(prefix, q) == [i \in DOMAIN q |-> [id |-> prefix \o ToString(i), case |-> q[i]]]
=============================================================================
