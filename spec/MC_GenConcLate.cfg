SPECIFICATION Spec
CONSTANTS
  Procs = {1, 2}
  MaxRev = 6
  MaxOps = 1
  MaxFaults = 0
  MaxCrash = 0
  MaxEdits = 0
  FaultKinds = {}
  Sequential = FALSE
  Planned = FALSE
  MaxPlan = 36
  InitStores <- StoresEmpty
  LateStart = TRUE
  LogSched = TRUE
  KeepLog = TRUE
  OpMenu <- MenuConcX
  EditMenu <- EditsNone
  PreMenu <- PreBy
  Objs <- AllObjs
  MenuGuard <- GuardTrue
CONSTRAINT GenExport
CHECK_DEADLOCK FALSE
