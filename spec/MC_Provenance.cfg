SPECIFICATION Spec
CONSTANTS
  MaxTamper = 2
  Keyrings <- KeyringsAll
INVARIANTS Inv_RoundTrip Inv_Authentic Inv_NoForgery Inv_Required
CONSTRAINT Export
CHECK_DEADLOCK FALSE
