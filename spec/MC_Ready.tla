------------------------------ MODULE MC_Ready ------------------------------
(***************************************************************************)
(* Bounded case space of Ready.tla, exported with the expected verdict for  *)
(* the replay on the real ReadyChecker (harness/fam/ready).                 *)
(***************************************************************************)
EXTENDS Ready, Json, SequencesExt

CONSTANT Big        \* larger ranges (thorough tier)

B == BOOLEAN
N(k) == 0..k
IntStr == {[pct |-> FALSE, n |-> 0], [pct |-> FALSE, n |-> 1], [pct |-> TRUE, n |-> 25], [pct |-> TRUE, n |-> 50]}
            \cup (IF Big THEN {[pct |-> FALSE, n |-> 5], [pct |-> TRUE, n |-> 100]} ELSE {})
R == IF Big THEN 3 ELSE 2

Pods == [kind : {"Pod"}, readyCond : {"none", "False", "True"}]
Jobs == [kind : {"Job"}, checkJobs : B, backoffLimit : {0, 1}, completions : {-1, 1, 2}, succeeded : N(2), failed : N(2)]
PVCs == [kind : {"PersistentVolumeClaim"}, phase : {"Pending", "Bound", "Lost"}]
Svcs == [kind : {"Service"}, type : {"ClusterIP", "NodePort", "LoadBalancer", "ExternalName"}, clusterIP : B, externalIPs : B, ingress : B]
Deps == [kind : {"Deployment"}, paused : B, pausedAsReady : B, rsExists : B, rsObserved : B, observed : B,
         strategy : {"RollingUpdate", "Recreate"}, replicas : N(R), maxUnavail : IntStr, maxSurge : {0, 1}, rsReady : N(R)]
DSs  == [kind : {"DaemonSet"}, observed : B, strategy : {"RollingUpdate", "OnDelete"}, desired : 1..R, updated : N(R), ready : N(R),
         maxUnavail : IntStr]
STSs == [kind : {"StatefulSet"}, observed : B, strategy : {"RollingUpdate", "OnDelete"}, replicas : {-1} \cup N(R),
         partition : {-1, 0, 1, 2}, updated : N(R), ready : N(R), sameRevision : B]
Cond == [type : {"Established", "NamesAccepted", "Terminating"}, status : {"True", "False"}]
CRDs == [kind : {"CustomResourceDefinition"}, conds : {<<>>} \cup {<<a>> : a \in Cond} \cup {<<a, b>> : a \in Cond, b \in Cond}]
PodLists == {<<>>} \cup {<<a>> : a \in B} \cup {<<a, b>> : a \in B, b \in B}
RSs  == [kind : {"ReplicaSet", "ReplicationController"}, observed : B, pods : PodLists]
Other == [kind : {"ConfigMap", "Secret"}]

\* combinations that say nothing new are left out (a paused deployment ignores the rest; without a new ReplicaSet
\* its fields do not matter)
Plain(c) ==
  CASE c.kind = "Deployment" ->
         /\ c.paused => (c.rsExists /\ c.rsObserved /\ c.observed /\ c.replicas = 1 /\ c.rsReady = 1 /\ c.maxSurge = 1
                          /\ c.maxUnavail = [pct |-> FALSE, n |-> 0] /\ c.strategy = "RollingUpdate")
         /\ ~c.paused => c.pausedAsReady
         /\ ~c.rsExists => (c.rsObserved /\ c.rsReady = 0)
    [] OTHER -> TRUE

Cases == {c \in Pods \cup Jobs \cup PVCs \cup Svcs \cup Deps \cup DSs \cup STSs \cup CRDs \cup RSs \cup Other : Plain(c)}

CaseJ(c) == [case |-> c, want |-> Expected(c)]
ASSUME ndJsonSerialize("ready_cases.ndjson", SetToSeq({CaseJ(c) : c \in Cases}))

\* one state per case: the verdict is total and one of the three
VARIABLE cs
Init == cs \in Cases
Next == UNCHANGED cs
Spec == Init /\ [][Next]_cs
Total == Expected(cs) \in {"ready", "notready", "error"}
\* only a Job can make the wait give up at once
ErrorOnlyForJobs == Expected(cs) = "error" => cs.kind = "Job"
=============================================================================
