------------------------------ MODULE MC_Batch ------------------------------
(* Configurations of Batch.tla: all kind-sorted lists of up to MaxN resources in up to 3 kinds. *)
EXTENDS Batch, Json, SequencesExt

CONSTANT MaxN

\* non-decreasing vectors over kinds 1..3 that use the kinds 1..k without a gap
Sorted(v) == \A a, b \in DOMAIN v : a < b => v[a] <= v[b]
NoGap(v)  == \A k \in 1..3 : (\E a \in DOMAIN v : v[a] = k) => \A j \in 1..k : \E a \in DOMAIN v : v[a] = j
VecsUpTo(n) == {v \in UNION {[1..m -> 1..3] : m \in 1..n} : Sorted(v) /\ NoGap(v)}
Vecs == VecsUpTo(MaxN)

\* export: one record per distinct (list, completion order) reached at termination
Collect == IF Terminated THEN TLCSet(1, TLCGet(1) \cup {[kinds |-> kinds, order |-> order]}) ELSE TRUE
ASSUME TLCSet(1, {})
ExportDone == LET S == TLCGet(1) IN
  /\ ndJsonSerialize("batch_orders.ndjson", SetToSeq(S))
  /\ PrintT(<<"BATCHORDERS", Cardinality(S)>>)
=============================================================================
