SPECIFICATION Spec
CONSTANTS
  Procs = {1, 2, 3}
  MaxRev = 6
  MaxOps = 1
  MaxFaults = 0
  MaxCrash = 0
  MaxEdits = 0
  FaultKinds = {}
  Sequential = FALSE
  Planned = FALSE
  MaxPlan = 36
  InitStores <- StoresEmpty
  LateStart = FALSE
  LogSched = FALSE
  KeepLog = TRUE
  OpMenu <- MenuConc
  EditMenu <- EditsNone
  PreMenu <- PreBy
  Objs <- AllObjs
  MenuGuard <- GuardTrue
VIEW View
INVARIANTS Inv_C09_LoserClean Inv_C09_DisjointRevisions Inv_C09_Quiescent Inv_C01_OneDeployed
PROPERTIES Act_C09_CreateOnlyFresh Act_C01_NextRevision
CHECK_DEADLOCK FALSE
