--------------------------- MODULE MC_ArchiveC15 ---------------------------
(* C15: the role of the specification is ENUMERATION + ORACLE RELATION      *)
(* (DESIGN 5 C15, 8): TLC enumerates the abstract chart space, the invalid  *)
(* name/version classes and the ignore-rule sets over the documented        *)
(* syntax, fixes the expected relation of every case (what must be equal,   *)
(* which files the ignore rules exclude) and exports the cases.  Byte       *)
(* equality is decided by the harness comparer on the real code.            *)
(* The only model-level checking here is of the ignore-rule semantics.      *)
EXTENDS Archive, Json

CONSTANTS MaxRules

RuleSetSeq == SetToSeq(RuleSets(MaxRules))
RoundSeq   == SetToSeq(RoundTripCases)
InvalidSeq == SetToSeq(InvalidCases)
PkgListSeq == SetToSeq(PkgListCases)
NoList     == [vers |-> <<>>, apps |-> <<>>, vflag |-> FALSE, aflag |-> FALSE, route |-> "action"]

NoChart == Chart15("v2", "min", "text", FALSE, "none", "none", FALSE, "top", "text")
Rec(fam, ch, nm, ver, rules, ign, loadable) ==
  [fam |-> fam, chart |-> ch, name |-> nm, version |-> ver, rules |-> rules, list |-> NoList,
   universe |-> IF fam = "ignore" THEN SetToSeq(IgnUniverseFiles) ELSE <<>>, ignored |-> ign, loadable |-> loadable,
   expect |-> [saveload |-> ExpectRoundTrip(ch, "archive"), savedir |-> ExpectRoundTrip(ch, "dir"),
               invalid |-> "no-archive", ignore |-> "ignored-absent-kept-present"]]

CaseSeq ==
  [j \in 1..Len(RoundSeq) |-> Rec("roundtrip", RoundSeq[j], "ok", "ok", <<>>, <<>>, TRUE)]
  \o [j \in 1..Len(InvalidSeq) |-> Rec("invalid", [NoChart EXCEPT !.api = InvalidSeq[j].api], InvalidSeq[j].name,
                                       InvalidSeq[j].version, <<>>, <<>>, TRUE)]
  \o [j \in 1..Len(RuleSetSeq) |-> Rec("ignore", NoChart, "ok", "ok", SetToSeq(RuleSetSeq[j]),
                                       SetToSeq(IgnoredSet(RuleSetSeq[j])), Loadable(RuleSetSeq[j]))]

PkgRec(c) == [Rec("pkglist", NoChart, "ok", "ok", <<>>, <<>>, TRUE) EXCEPT
                 !.list = c,
                 !.expect = [saveload |-> ExpectRoundTrip(NoChart, "archive"), savedir |-> ExpectRoundTrip(NoChart, "dir"),
                             invalid |-> "no-archive", ignore |-> "ignored-absent-kept-present"]]
PkgExpect(c) == [versions |-> [j \in 1..Len(c.vers) |-> ExpPkgVersion(c, j)], apps |-> [j \in 1..Len(c.vers) |-> ExpPkgApp(c, j)]]
AllSeq == CaseSeq \o [j \in 1..Len(PkgListSeq) |-> PkgRec(PkgListSeq[j])]

Export == ndJsonSerialize("c15_cases.ndjson", [j \in 1..Len(AllSeq) |-> AllSeq[j] @@ [id |-> j, listExpect |-> IF AllSeq[j].fam = "pkglist" THEN PkgExpect(AllSeq[j].list)
                                                                                       ELSE [versions |-> <<>>, apps |-> <<>>]]])
ASSUME Export
ASSUME PrintT(<<"C15CASES", Len(AllSeq)>>)

(* ----- model-level checks of the ignore semantics: one state per rule set ---------- *)
VARIABLE k
Init == k \in 1..Len(RuleSetSeq)
Next == FALSE /\ k' = k
Spec == Init /\ [][Next]_k

RS == RuleSetSeq[k]
\* ignored and kept partition the directory
InvPartition == IgnoredSet(RS) \cap KeptSet(RS) = {} /\ IgnoredSet(RS) \cup KeptSet(RS) = IgnUniverseFiles
\* a file below an ignored directory is ignored
InvDirClosed == \A p \in IgnUniverseFiles : \A j \in 1..(Len(p) - 1) :
                  NodeIgnored(RS, SubSeq(p, 1, j), TRUE) => p \in IgnoredSet(RS)
\* adding a rule never brings a file back (the documented syntax has no re-inclusion: a leading ! negates the MATCH)
InvMonotone == \A r \in RuleUniverse : IgnoredSet(RS) \subseteq IgnoredSet(RS \cup {r})
\* the default rule always applies
InvDefault == <<"templates", ".dot">> \in IgnoredSet(RS)
=============================================================================
