------------------------------- MODULE Shapes -------------------------------
(***************************************************************************)
(* C20 - malformed external input produces an error, never a crash.         *)
(*                                                                          *)
(* Three families of inputs, all enumerated by TLC:                         *)
(*  "doc"    a structured document (Chart.yaml, values, schema, index,      *)
(*           lock, plugin.yaml, provenance block, stored release record)    *)
(*           whose nominal form the harness knows, with at most MaxDev of   *)
(*           its fields replaced by one of the Shapes (absent, null, scalar *)
(*           of the wrong type, empty list, list containing null, map,      *)
(*           deeply nested, two nulls put in front of the list's own        *)
(*           elements, a null and an empty map put in front of them).  Two  *)
(*           deviating fields never lie on one path.                        *)
(*  "tokens" a text assembled from at most MaxTok tokens of a family's      *)
(*           alphabet (manifest stream, --set string, .helmignore lines;    *)
(*           family "recursion": token i is the body of the named template  *)
(*           t_i of a chart whose manifest includes t_1 - plain text, an    *)
(*           include of t_j, a tpl of a literal or of a value that includes *)
(*           t_j, a value that runs tpl on itself - so that the texts are   *)
(*           all call graphs over three templates through include and tpl;  *)
(*           family "layout": which of Chart.yaml / requirements.yaml /     *)
(*           requirements.lock a chart and its vendored subchart have, and  *)
(*           whether the subchart is a directory or an archive; family      *)
(*           "crds": the YAML documents of one file under crds/).           *)
(*  "store"  a release store of Recs records, each intact or damaged in     *)
(*           one of the Damages; the specification says which records a     *)
(*           List / Query must return.                                      *)
(* The postcondition of every case is "every entry point returns" (a value  *)
(* or an error: no panic, no unbounded recursion, no hang); for stores, in  *)
(* addition Listed = exactly the readable records.                          *)
(***************************************************************************)
EXTENDS Integers, Sequences, FiniteSets, TLC, Json

CONSTANTS Docs,       \* document type -> sequence of field paths (a path is a sequence of strings)
          Shapes,     \* set of shapes
          MaxDev,     \* deviating fields per document
          Alphabets,  \* token family -> number of tokens in its alphabet
          MaxTok,     \* tokens per text
          TokCap,     \* token family -> its own cap on the number of tokens (the smaller of the two bounds applies)
          Recs,       \* number of records in a store
          Damages,    \* sequence of damage kinds; the first one is "intact"
          Drivers     \* set of storage drivers

IsPrefix(p, q) == Len(p) <= Len(q) /\ \A i \in 1..Len(p) : p[i] = q[i]
Compatible(p, q) == ~IsPrefix(p, q) /\ ~IsPrefix(q, p)

\* which damaged records can still be read: "yes" must be listed, "no" must not,
\* "same" = decided by the driver's own Get on that record (List must agree with it)
Readable(dmg) == CASE dmg = "intact" -> "yes"
                   [] dmg \in {"notbase64", "badgzip", "truncated", "notjson", "jsonlist", "wrongtype",
                               "nokey", "emptyvalue", "onebyte", "twobytes"} -> "no"
                                               \* the object has no `release` key at all / an empty one / one or two bytes
                   [] OTHER -> "same"          \* "jsonnull", "emptyobject", "nullinfo", "nullchart": decodable

VARIABLES mode, doc, dev, fam, toks, drv, store
vars == <<mode, doc, dev, fam, toks, drv, store>>

NoDev == [f \in {} |-> "none"]

Init ==
  \/ /\ mode = "doc" /\ doc \in DOMAIN Docs /\ dev = NoDev
     /\ fam = "none" /\ toks = <<>> /\ drv = "none" /\ store = <<>>
  \/ /\ mode = "tokens" /\ fam \in DOMAIN Alphabets /\ toks = <<>>
     /\ doc = "none" /\ dev = NoDev /\ drv = "none" /\ store = <<>>
  \/ /\ mode = "store" /\ drv \in Drivers /\ store = <<>>
     /\ doc = "none" /\ dev = NoDev /\ fam = "none" /\ toks = <<>>

Deviate ==
  /\ mode = "doc"
  /\ Cardinality(DOMAIN dev) < MaxDev
  /\ \E i \in DOMAIN Docs[doc], s \in Shapes :
       /\ i \notin DOMAIN dev
       /\ \A j \in DOMAIN dev : Compatible(Docs[doc][i], Docs[doc][j])
       /\ dev' = [f \in DOMAIN dev \cup {i} |-> IF f = i THEN s ELSE dev[f]]
  /\ UNCHANGED <<mode, doc, fam, toks, drv, store>>

AddToken ==
  /\ mode = "tokens"
  /\ Len(toks) < MaxTok
  /\ Len(toks) < TokCap[fam]
  /\ \E t \in 1..Alphabets[fam] : toks' = Append(toks, t)
  /\ UNCHANGED <<mode, doc, dev, fam, drv, store>>

AddRecord ==
  /\ mode = "store"
  /\ Len(store) < Recs
  /\ \E k \in DOMAIN Damages : store' = Append(store, Damages[k])
  /\ UNCHANGED <<mode, doc, dev, fam, toks, drv>>

Next == Deviate \/ AddToken \/ AddRecord
Spec == Init /\ [][Next]_vars

\* sanity of the enumeration itself
Inv_Compatible == \A i, j \in DOMAIN dev : i # j => Compatible(Docs[doc][i], Docs[doc][j])
Inv_Bounds == /\ Cardinality(DOMAIN dev) <= MaxDev /\ Len(toks) <= MaxTok /\ Len(store) <= Recs
              /\ (mode = "tokens" => Len(toks) <= TokCap[fam])

(* ----- export ------------------------------------------------------------------ *)

SetToSeq(S) == LET RECURSIVE f(_)
                   f(T) == IF T = {} THEN <<>>
                           ELSE LET m == CHOOSE x \in T : \A y \in T : x <= y IN <<m>> \o f(T \ {m})
               IN f(S)

IsCase == \/ mode = "doc"
          \/ mode = "tokens" /\ Len(toks) >= 1
          \/ mode = "store" /\ Len(store) = Recs

Case ==
  [mode |-> mode, doc |-> doc, fam |-> fam, toks |-> toks, drv |-> drv,
   devs |-> LET fs == SetToSeq(DOMAIN dev) IN [k \in DOMAIN fs |-> [path |-> Docs[doc][fs[k]], shape |-> dev[fs[k]]]],
   store |-> [k \in DOMAIN store |-> [damage |-> store[k], readable |-> Readable(store[k])]]]

\* every worker appends to its own counter-named files: TLCGet/TLCSet registers are per worker,
\* so the file name carries a random tag drawn once per case
Export ==
  IF IsCase
  THEN JsonSerialize("gen/s" \o ToString(RandomElement(1..1000000000)) \o "_" \o ToString(RandomElement(1..1000000000)) \o ".json", Case)
  ELSE TRUE
=============================================================================
