-------------------------------- MODULE Wait --------------------------------
(***************************************************************************)
(* The wait as a state machine over the statuses the cluster publishes      *)
(* (definitions: WaitBase.tla).                                             *)
(***************************************************************************)
EXTENDS WaitBase

(* ----- the wait as a state machine ---------------------------------------- *)
VARIABLES cs,                 \* the case being waited on (constant along a behaviour)
          tick, ret
wvars == <<cs, tick, ret>>

WInitOn(cases) == cs \in cases /\ tick = 1 /\ ret = "waiting"
Publish == ret = "waiting" /\ tick < Ticks(cs) /\ tick' = tick + 1 /\ UNCHANGED <<cs, ret>>
ReturnOk == /\ ret = "waiting"
            /\ ~Waits(cs.method, cs.strategy) \/ AllDesiredAt(cs, tick)
            /\ ret' = "ok" /\ UNCHANGED <<cs, tick>>
Timeout == /\ ret = "waiting" /\ tick = Ticks(cs)
           /\ Waits(cs.method, cs.strategy) /\ ~AllDesiredAt(cs, tick)
           /\ ret' = "err" /\ UNCHANGED <<cs, tick>>
WNext == Publish \/ ReturnOk \/ Timeout

\* the wait never ends well before the desired state was published, and ends badly only if it never was
OkOnlyWhenDesired == ret = "ok" => (~Waits(cs.method, cs.strategy) \/ AllDesiredAt(cs, tick))
ErrOnlyWhenNever  == ret = "err" => ~Expected(cs).ok
OkNotBefore       == ret = "ok" => tick >= Expected(cs).tick
=============================================================================
