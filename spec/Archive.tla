------------------------------- MODULE Archive -------------------------------
(***************************************************************************)
(* Satellite specification for C15 and C16 (DESIGN 4, 5).                   *)
(*                                                                          *)
(* Part I (C16)  an abstract file system  fs : Path -> Dir | File | Link,   *)
(*   the path semantics of the operating system (OSWalk: links followed),   *)
(*   of filepath-securejoin (SJoin: links resolved with the root as a       *)
(*   chroot) and of the name handling of the four operations that write     *)
(*   files or expose file names:                                            *)
(*     ExtractPlugin  installer.TarGzExtractor.Extract / cleanJoin          *)
(*     ExpandChart    chartutil.Expand (LoadArchiveFiles + SecureJoin)      *)
(*     LoadArchive    loader.LoadArchiveFiles name normalisation, sizes     *)
(*     WriteLock      downloader.Manager.Update -> writeLock                *)
(*   as ONE deterministic step function  Step  over a record state; the     *)
(*   behaviours are  Init: any case of the case space;  Next: s' = Step(s). *)
(*   Invariants: every created / modified path resolves inside the          *)
(*   destination or the operation is an error; every exposed name is a      *)
(*   clean relative path; an oversize stream is rejected and never read     *)
(*   beyond the limit.  Run(c) iterates the same Step and is exported with  *)
(*   every case (the model's outcome, used for conformance only).           *)
(*                                                                          *)
(* Part II (C15)  the abstract chart space, the ignore-rule semantics of    *)
(*   the documented syntax and the expected relation of every round trip.   *)
(*   Byte equality itself is decided by the harness comparer (DESIGN 8).    *)
(***************************************************************************)
EXTENDS Naturals, Sequences, FiniteSets, TLC, SequencesExt

CONSTANTS
  MaxComps,      \* entry names have at most this many components
  MixedUpTo,     \* names up to this length take every separator per gap; longer ones a uniform separator
  SecureJoinOn,  \* TRUE = the code as pinned; FALSE = plain lexical join (negative self-test of the invariant)
  FLim, TLim,    \* per-file / total decompressed limits (bytes; lowered in the harness as well)
  Huge           \* a size far above TLim + every buffer

(* ----------------------------------------------------------------------- *)
(* paths                                                                    *)

Parent(p)      == IF p = <<>> THEN <<>> ELSE SubSeq(p, 1, Len(p) - 1)
IsPrefixOf(a, b) == Len(a) <= Len(b) /\ SubSeq(b, 1, Len(a)) = a
LastOf(p)      == p[Len(p)]

Dest    == <<"dest">>                 \* the chosen destination: a STRICT subdirectory of the sandbox
OutDir  == <<"out", "d">>             \* a directory outside
OutFile == <<"out", "canary">>        \* a file outside
OutNew  == <<"out", "new">>           \* a path outside that does not exist
ChartAt == <<"dest", "chart">>        \* where Expand puts a chart named "chart"

DirN      == [t |-> "dir", abs |-> FALSE, tgt |-> <<>>]
FileN     == [t |-> "file", abs |-> FALSE, tgt |-> <<>>]
LinkN(a, g) == [t |-> "link", abs |-> a, tgt |-> g]

Exists(f, p) == p = <<>> \/ p \in DOMAIN f
IsDirAt(f, p) == p = <<>> \/ (p \in DOMAIN f /\ f[p].t = "dir")

BaseFS == (<<"dest">> :> DirN) @@ (<<"out">> :> DirN) @@ (OutFile :> FileN) @@ (OutDir :> DirN)
          @@ (<<"out", "d", "f">> :> FileN)

Ups(n) == [i \in 1..n |-> ".."]

\* destination layouts: symlinks planted below base B before the operation runs
LayoutNames == {"empty", "dir", "leafOutFile", "parentOutDir", "relOutDir", "nestedLeaf", "dangling", "chartLink"}
LayoutFS(l, B) ==
  LET base == IF B = Dest \/ l \in {"empty", "chartLink"} THEN BaseFS ELSE BaseFS @@ (B :> DirN) IN
  CASE l = "empty"        -> base
    [] l = "dir"          -> base @@ (Append(B, "n1") :> DirN)
    [] l = "leafOutFile"  -> base @@ (Append(B, "n1") :> LinkN(TRUE, OutFile))
    [] l = "parentOutDir" -> base @@ (Append(B, "n1") :> LinkN(TRUE, OutDir))
    [] l = "relOutDir"    -> base @@ (Append(B, "n1") :> LinkN(FALSE, Ups(Len(B)) \o OutDir))
    [] l = "nestedLeaf"   -> base @@ (Append(B, "n1") :> DirN) @@ (B \o <<"n1", "n2">> :> LinkN(TRUE, OutFile))
    [] l = "dangling"     -> base @@ (Append(B, "n1") :> LinkN(TRUE, OutNew))
    [] l = "chartLink"    -> base @@ (ChartAt :> LinkN(TRUE, OutDir))

(* ----------------------------------------------------------------------- *)
(* operating-system path resolution (symlinks followed, also at the leaf)   *)

Fuel == 6

RECURSIVE OSWalk(_, _, _, _)
OSWalk(f, cur, rest, fuel) ==
  IF rest = <<>> THEN [err |-> "", p |-> cur]
  ELSE LET c == Head(rest)  tl == Tail(rest) IN
       IF c \in {"", "."} THEN OSWalk(f, cur, tl, fuel)
       ELSE IF c = ".." THEN OSWalk(f, Parent(cur), tl, fuel)
       ELSE LET nx == Append(cur, c) IN
            IF ~Exists(f, nx) THEN [err |-> IF tl = <<>> THEN "" ELSE "ENOENT", p |-> nx]
            ELSE IF f[nx].t = "link" THEN
                   IF fuel = 0 THEN [err |-> "ELOOP", p |-> nx]
                   ELSE OSWalk(f, IF f[nx].abs THEN <<>> ELSE cur, f[nx].tgt \o tl, fuel - 1)
            ELSE IF f[nx].t = "file" /\ tl # <<>> THEN [err |-> "ENOTDIR", p |-> nx]
            ELSE OSWalk(f, nx, tl, fuel)

OSResolve(f, p) == OSWalk(f, <<>>, p, Fuel)

(* ----------------------------------------------------------------------- *)
(* filepath-securejoin v0.4.1 SecureJoinVFS: components applied lexically,  *)
(* every symlink met is expanded with `root` as the root of the file system *)

RECURSIVE SJoinR(_, _, _, _, _)
SJoinR(f, root, cur, rest, fuel) ==
  IF rest = <<>> THEN [err |-> FALSE, p |-> root \o cur]
  ELSE LET part == Head(rest)  tl == Tail(rest)
           nxt == IF part \in {"", "."} THEN cur ELSE IF part = ".." THEN Parent(cur) ELSE Append(cur, part)
       IN IF nxt = <<>> THEN SJoinR(f, root, <<>>, tl, fuel)
          ELSE LET full == root \o nxt IN
               IF full \in DOMAIN f /\ f[full].t = "link" THEN
                  IF fuel = 0 THEN [err |-> TRUE, p |-> <<>>]
                  ELSE SJoinR(f, root, IF f[full].abs THEN <<>> ELSE cur, f[full].tgt \o tl, fuel - 1)
               ELSE SJoinR(f, root, nxt, tl, fuel)

\* plain filepath.Join(root, name): lexical cleaning only ("..": may climb above root)
RECURSIVE LexJoinR(_, _)
LexJoinR(cur, rest) ==
  IF rest = <<>> THEN cur
  ELSE LET c == Head(rest) IN
       LexJoinR(IF c \in {"", "."} THEN cur ELSE IF c = ".." THEN Parent(cur) ELSE Append(cur, c), Tail(rest))

SJoin(f, root, comps) ==
  IF SecureJoinOn THEN SJoinR(f, root, <<>>, comps, Fuel)
  ELSE [err |-> FALSE, p |-> LexJoinR(root, comps)]

(* ----------------------------------------------------------------------- *)
(* file-system writes: each returns [f, touched, err]                       *)

WErr(w)  == [f |-> w.f, touched |-> w.touched, err |-> TRUE]
WOk(f, t) == [f |-> f, touched |-> t, err |-> FALSE]
Put(f, p, n) == IF p \in DOMAIN f THEN [f EXCEPT ![p] = n] ELSE f @@ (p :> n)

\* os.Mkdir(P): parent resolved following links, the leaf itself must not exist
Mkdir(w, P) ==
  IF P = <<>> THEN WErr(w)
  ELSE LET rp == OSResolve(w.f, Parent(P)) IN
       IF rp.err # "" \/ ~IsDirAt(w.f, rp.p) THEN WErr(w)
       ELSE LET leaf == Append(rp.p, LastOf(P)) IN
            IF LastOf(P) \in {"", ".", ".."} \/ Exists(w.f, leaf) THEN WErr(w)
            ELSE WOk(Put(w.f, leaf, DirN), w.touched \cup {[p |-> leaf, t |-> "dir"]})

\* os.OpenFile(P, O_CREATE|O_RDWR) / os.WriteFile(P): the leaf symlink is followed
WriteAt(w, P) ==
  LET r == OSResolve(w.f, P) IN
  IF r.err # "" THEN WErr(w)
  ELSE IF Exists(w.f, r.p) THEN
         IF IsDirAt(w.f, r.p) THEN WErr(w)
         ELSE WOk(w.f, w.touched \cup {[p |-> r.p, t |-> "file"]})
  ELSE WOk(Put(w.f, r.p, FileN), w.touched \cup {[p |-> r.p, t |-> "file"]})

\* os.MkdirAll(P)
RECURSIVE MkdirAllR(_, _, _)
MkdirAllR(w, P, i) ==
  IF w.err \/ i > Len(P) THEN w
  ELSE LET r == OSResolve(w.f, SubSeq(P, 1, i)) IN
       IF r.err # "" THEN WErr(w)
       ELSE IF Exists(w.f, r.p) THEN (IF IsDirAt(w.f, r.p) THEN MkdirAllR(w, P, i + 1) ELSE WErr(w))
       ELSE MkdirAllR(WOk(Put(w.f, r.p, DirN), w.touched \cup {[p |-> r.p, t |-> "dir"]}), P, i + 1)
MkdirAll(w, P) == MkdirAllR(w, P, 1)

(* ----------------------------------------------------------------------- *)
(* tar entries and their names                                              *)

Comp  == {"n1", "n2", "..", ".", "", "C:"}
Seps  == {"/", "\\"}
Types == {"reg", "dir", "symlink", "hardlink", "xheader"}
\* xheader: a regular file whose name is carried by an extension header (PAX path= / GNU long name)

NamesOfLen(n) ==
  {[comps |-> cs, seps |-> ss] : cs \in [1..n -> Comp],
     ss \in IF n <= MixedUpTo THEN [1..(n - 1) -> Seps] ELSE {[i \in 1..(n - 1) |-> sp] : sp \in Seps}}
NameSpace(k) == UNION {NamesOfLen(n) : n \in 1..k}
\* an extension header cannot carry the empty name (an empty PAX path record means "no override")
TypedNames(k, types) == {x \in NameSpace(k) \X types : ~(x[2] = "xheader" /\ x[1].comps = <<"">>)}

\* link: where the Linkname of a symlink / hardlink entry points: "inside" dest, "outside" (absolute), "sibling" (../<a directory
\* next to dest whose name starts with dest's name>/canary), "updeep" (../../../../out/canary); "any": drawn by the harness
LinkClasses == {"inside", "outside", "sibling", "updeep"}
Entry(nm, ty, sz) == [comps |-> nm.comps, seps |-> nm.seps, type |-> ty, size |-> sz, short |-> FALSE, enc |-> "ustar", link |-> "any"]
EntryL(nm, ty, sz, lk) == [Entry(nm, ty, sz) EXCEPT !.link = lk]
ChartYamlSize == 64
ChartYamlEntry == [comps |-> <<"top", "Chart.yaml">>, seps |-> <<"/">>, type |-> "reg", size |-> ChartYamlSize,
                   short |-> FALSE, enc |-> "ustar", link |-> "any"]

HasBackslash(e) == \E i \in DOMAIN e.seps : e.seps[i] = "\\"
IsAbsC(cs)      == Len(cs) >= 2 /\ cs[1] = ""

\* path.Clean of a relative slash-joined name, on components; <<>> stands for "."
RECURSIVE CleanR(_, _)
CleanR(stack, rest) ==
  IF rest = <<>> THEN stack
  ELSE LET c == Head(rest) IN
       CleanR(IF c \in {"", "."} THEN stack
              ELSE IF c = ".." /\ stack # <<>> /\ LastOf(stack) # ".." THEN Parent(stack)
              ELSE Append(stack, c), Tail(rest))
CleanC(cs) == CleanR(<<>>, cs)

\* installer.cleanJoin(root, name)
CleanJoin(f, root, e) ==
  IF "C:" \in Range(e.comps) \/ ".." \in Range(e.comps) \/ IsAbsC(e.comps) THEN [err |-> TRUE, p |-> <<>>]
  ELSE SJoin(f, root, e.comps)

\* loader.LoadArchiveFiles: the delimiter is "\" when the name contains one; the first part is dropped
FirstBackslash(e) == CHOOSE i \in DOMAIN e.seps : e.seps[i] = "\\" /\ \A j \in 1..(i - 1) : e.seps[j] # "\\"
RestOf(e) == IF HasBackslash(e) THEN SubSeq(e.comps, FirstBackslash(e) + 1, Len(e.comps)) ELSE Tail(e.comps)
LoadNorm(e) ==
  LET rest == RestOf(e)  cl == CleanC(rest) IN
  IF IsAbsC(rest) \/ cl = <<>> \/ cl[1] = ".." \/ (cl[1] = "C:" /\ Len(cl) >= 2) THEN [err |-> TRUE, n |-> <<>>]
  ELSE [err |-> FALSE, n |-> cl]

\* the property's notion of a clean relative path (components of a "/"-separated name)
CleanRel(cs) ==
  /\ cs # <<>>
  /\ \A i \in DOMAIN cs : cs[i] \notin {"", ".", ".."}
  /\ ~(cs[1] = "C:" /\ Len(cs) >= 2)

(* ----------------------------------------------------------------------- *)
(* the case space (C16)                                                     *)

NoName == [comps |-> <<>>, seps |-> <<>>]
CaseRec(fam, op, stream, layout, cname, api, lock) ==
  [fam |-> fam, op |-> op, stream |-> stream, layout |-> layout, cname |-> cname, api |-> api, lock |-> lock]

ExtractLayouts == LayoutNames \ {"chartLink"}
ExpandLayouts  == LayoutNames

\* F1: one adversarial entry into a plugin directory
CasesExtract == {CaseRec("extract1", "extract", <<Entry(x[1], x[2], 8)>>, l, <<>>, "", "") :
                   x \in TypedNames(MaxComps, Types), l \in ExtractLayouts}

\* F2: a chart archive  top/Chart.yaml + one adversarial entry  expanded into dest
CasesExpand == {CaseRec("expand1", "expand", <<ChartYamlEntry, Entry(x[1], x[2], IF x[2] \in {"reg", "xheader"} THEN 8 ELSE 0)>>,
                        l, <<"chart">>, "", "") :
                   x \in TypedNames(MaxComps, Types), l \in ExpandLayouts}

\* F2b: hostile chart NAME (Chart.yaml name: becomes the directory)
ChartNames == {<<"..">>, <<"..", "..", "out", "d">>, <<"ABS", "out", "d">>, <<"chart", "..", "..", "out", "d">>, <<".">>,
               <<"n1">>, <<"n1", "n2">>}
CasesExpandName == {CaseRec("expandname", "expand", <<ChartYamlEntry, Entry(nm, ty, IF ty = "reg" THEN 8 ELSE 0)>>,
                            l, cn, "", "") :
                      nm \in NameSpace(2), ty \in {"reg", "symlink"}, l \in {"empty", "parentOutDir", "leafOutFile", "dangling"},
                      cn \in ChartNames}

\* F3: names exposed by a loaded chart
\* (no file system involved, so EVERY separator per gap is taken at every length: names that mix / and \,
\*  e.g. top/n1\..\..\n2 or top/n1\C:\n2, are part of the space in both tiers)
MixedNameSpace(k) == UNION {{[comps |-> cs, seps |-> ss] : cs \in [1..n -> Comp], ss \in [1..(n - 1) -> Seps]} : n \in 1..k}
CasesLoad == {CaseRec("load1", "load", <<ChartYamlEntry, Entry(x[1], x[2], IF x[2] \in {"reg", "xheader"} THEN 8 ELSE 0)>>,
                      "empty", <<"chart">>, "", "") :
                 x \in {y \in MixedNameSpace(MaxComps) \X Types : ~(y[2] = "xheader" /\ y[1].comps = <<"">>)}}

\* F3s: sizes.  Chart.yaml (64 bytes) + up to 3 files; sizes around both limits
\* (Chart.yaml + one file of FLim bytes + one of TLim - 64 - FLim bytes hits the total limit exactly)
SizeVals == {0, 64, TLim - ChartYamlSize - FLim - 1, TLim - ChartYamlSize - FLim, TLim - ChartYamlSize - FLim + 1,
             FLim - 1, FLim, FLim + 1, Huge}
\* every type flag whose body the tar reader hands out like a file's: '0', NUL (old regular), '7' (contiguous),
\* an unknown vendor flag
DataTypes == {"reg", "rega", "cont", "vendor"}
SizedEntry(i, sz, short, enc, ty) ==
  [comps |-> <<"top", "f" \o ToString(i)>>, seps |-> <<"/">>, type |-> ty, size |-> sz, short |-> short, enc |-> enc,
   link |-> "any"]
SizeStreams(maxn) ==
  UNION {{[i \in 1..n |-> SizedEntry(i, ss[i], FALSE, enc, ty)] : ss \in [1..n -> SizeVals], enc \in {"ustar", "pax"}, ty \in DataTypes} :
           n \in 1..maxn}
  \cup {<<SizedEntry(1, sz, TRUE, "ustar", ty)>> : sz \in SizeVals \ {0}, ty \in DataTypes}
CasesSize(maxn) == {CaseRec("size", "load", <<ChartYamlEntry>> \o st, "empty", <<"chart">>, "", "") : st \in SizeStreams(maxn)}

\* F3r: an entry declaring more than the per-file limit but far LESS than the total budget: it must be rejected from its
\* header, without its body being read.  Own total limit (BigTLim) so that the body is much larger than any buffer.
BigTLim == 2 * Huge
TLimOf(c) == IF c.fam = "sizeread" THEN BigTLim ELSE TLim
SizeReadStreams ==
  {<<SizedEntry(1, sz, FALSE, enc, ty)>> : sz \in {FLim + 1, 300000, Huge}, enc \in {"ustar", "pax"}, ty \in DataTypes}
  \cup {<<SizedEntry(1, small, FALSE, "ustar", "reg"), SizedEntry(2, sz, FALSE, enc, ty)>> :
          small \in {64, FLim}, sz \in {300000, Huge}, enc \in {"ustar", "pax"}, ty \in DataTypes}
CasesSizeRead == {CaseRec("sizeread", "load", <<ChartYamlEntry>> \o st, "empty", <<"chart">>, "", "") : st \in SizeReadStreams}

\* F6: ChartDownloader.DownloadTo: the file is saved under the BASE of the chart URL's (once-decoded) path.
\* URL path = /charts/ + components joined by separators at three encoding levels:
\*   "/" and "%2F" (decoded by url.Parse: both split), "%252F" (decodes to the TEXT %2F: part of the name),
\*   "%5C" / "%255C" (a backslash / the text %5C: part of the name on this platform)
DlSeps  == {"/", "%2F", "%252F", "%5C", "%255C"}
DlComps == {"n1", "..", "."}
DlNames == UNION {{[comps |-> Append(cs, "n1"), seps |-> ss] : cs \in [1..(n - 1) -> DlComps], ss \in [1..(n - 1) -> DlSeps]} : n \in 1..3}
CasesDownload == {CaseRec("download", "download", <<Entry(nm, "reg", 8)>>, l, <<>>, "", "") :
                    nm \in DlNames, l \in {"empty", "leafOutFile", "dangling"}}
\* the components after the last splitting separator; the saved name is "n1" itself or a longer single name
DlSplits(e) == {i \in DOMAIN e.seps : e.seps[i] \in {"/", "%2F"}}
DlGroup(e)  == IF DlSplits(e) = {} THEN e.comps
               ELSE SubSeq(e.comps, (CHOOSE i \in DlSplits(e) : \A j \in DlSplits(e) : j <= i) + 1, Len(e.comps))
DlName(e)   == IF DlGroup(e) = <<"n1">> THEN "n1" ELSE "dlname"

\* F4: Manager.Update with a local dependency and something planted at the lock path
LockLayouts == {"absent", "file", "linkOutEmpty", "linkOutLock", "linkOutJunk", "linkOutDangling", "linkInFile"}
CasesLock == {CaseRec("lock", "lock", <<>>, "empty", <<>>, api, ll) : api \in {"v1", "v2"}, ll \in LockLayouts}

\* F5: two entries (a link or directory first, then a path through it)
\* link entries come with every Linkname class in the plugin archives (a hard link followed by a regular entry of
\* the same name, a symlink followed by a path through it, ...)
E2Name(pre, cs) == [comps |-> pre \o cs, seps |-> [i \in 1..(Len(pre \o cs) - 1) |-> "/"]]
E2Names == {<<"n1">>, <<"n1", "n2">>, <<"n2">>}
E2(pre, lks) == {EntryL(E2Name(pre, cs), ty, IF ty = "reg" THEN 8 ELSE 0, "any") : cs \in E2Names, ty \in {"reg", "dir"}}
                \cup {EntryL(E2Name(pre, cs), ty, 0, lk) : cs \in E2Names, ty \in {"symlink", "hardlink"}, lk \in lks}
CasesTwo == {CaseRec("two", "extract", <<a, b>>, l, <<>>, "", "") :
               a \in E2(<<>>, LinkClasses), b \in E2(<<>>, LinkClasses), l \in {"empty", "parentOutDir", "dir"}}
            \cup {CaseRec("two", "expand", <<ChartYamlEntry, a, b>>, l, <<"chart">>, "", "") :
               a \in E2(<<"top">>, {"outside"}), b \in E2(<<"top">>, {"outside"}), l \in {"empty", "parentOutDir", "dir"}}

(* ----------------------------------------------------------------------- *)
(* the machine: one record state, one deterministic step                    *)

Start(c) ==
  [c |-> c, pc |-> IF c.op = "lock" THEN "lock" ELSE IF c.op = "download" THEN "download" ELSE "entries", k |-> 0,
   files |-> <<>>,                       \* names accepted by LoadArchiveFiles so far
   w |-> [f |-> IF c.op = "lock" THEN BaseFS
                ELSE LayoutFS(c.layout, IF c.op = "expand" THEN ChartAt ELSE Dest),
          touched |-> {}, err |-> FALSE],
   remaining |-> TLimOf(c), payload |-> 0,  \* size accounting of LoadArchiveFiles; payload bytes delivered
   overbody |-> 0,                       \* payload bytes delivered from entries that declare more than FLim
   cd |-> <<>>,                          \* Expand: the chart directory chosen by SecureJoin(dest, chart name)
   res |-> "run", names |-> {}]

Fail(s)   == [s EXCEPT !.res = "err", !.pc = "done"]
Finish(s) == [s EXCEPT !.res = "ok", !.pc = "done"]
WithW(s, w) == IF w.err THEN Fail([s EXCEPT !.w = w]) ELSE [s EXCEPT !.w = w, !.k = s.k + 1]

\* --- TarGzExtractor.Extract: one entry
StepExtract(s) ==
  IF s.k = Len(s.c.stream) THEN Finish(s)
  ELSE LET e == s.c.stream[s.k + 1]  cj == CleanJoin(s.w.f, Dest, e) IN
       IF cj.err THEN Fail(s)
       ELSE CASE e.type = "dir" -> WithW(s, Mkdir(s.w, cj.p))
              [] e.type \in {"reg", "xheader"} -> WithW(s, WriteAt(s.w, cj.p))
              [] OTHER -> Fail(s)

\* --- LoadArchiveFiles: one entry (names and sizes)
StepLoadEntry(s) ==
  IF s.k = Len(s.c.stream) THEN
       IF s.files = <<>> THEN Fail(s)
       ELSE IF s.c.op = "expand" THEN [s EXCEPT !.pc = "chartdir", !.k = 0]
       ELSE Finish([s EXCEPT !.names = Range(s.files)])
  ELSE LET e == s.c.stream[s.k + 1] IN
       IF e.type = "dir" THEN [s EXCEPT !.k = s.k + 1]
       ELSE LET nn == LoadNorm(e) IN
            IF nn.err THEN Fail(s)
            ELSE IF e.size > s.remaining \/ e.size > FLim THEN Fail(s)
            ELSE LET ob(n) == s.overbody + (IF e.size > FLim THEN n ELSE 0) IN
                 IF e.short THEN Fail([s EXCEPT !.payload = s.payload + (e.size \div 2), !.overbody = ob(e.size \div 2)])
                 ELSE LET rem == s.remaining - e.size IN
                      IF rem <= 0 THEN Fail([s EXCEPT !.payload = s.payload + e.size, !.overbody = ob(e.size)])
                      ELSE [s EXCEPT !.k = s.k + 1, !.remaining = rem, !.payload = s.payload + e.size, !.overbody = ob(e.size),
                                     !.files = Append(s.files, nn.n)]

\* --- Expand: chart directory, then one file per step
AbsOut(cn) == IF cn # <<>> /\ cn[1] = "ABS" THEN <<"">> \o Tail(cn) ELSE cn
StepChartDir(s) ==
  LET cn == AbsOut(s.c.cname)
      \* an absolute chart name: securejoin re-roots it; a plain join would concatenate as well
      cd == SJoin(s.w.f, Dest, cn) IN
  IF cd.err THEN Fail(s) ELSE [s EXCEPT !.pc = "writes", !.k = 0, !.cd = cd.p]
StepExpandWrite(s) ==
  IF s.k = Len(s.files) THEN Finish(s)
  ELSE LET n == s.files[s.k + 1]  o == SJoin(s.w.f, s.cd, n) IN
       IF o.err THEN Fail(s)
       ELSE LET w1 == MkdirAll(s.w, Parent(o.p)) IN
            IF w1.err THEN Fail([s EXCEPT !.w = w1]) ELSE WithW(s, WriteAt(w1, o.p))

\* --- Manager.Update: load the chart directory (links followed), pack the local dependency into
\*     charts/, then writeLock: a symlink at the lock path is refused (error, nothing written through it;
\*     /repo fd0be70, lead L11), a regular file or no file is written in place
LockName(api) == IF api = "v1" THEN "requirements.lock" ELSE "Chart.lock"
LockFS(c) ==
  LET lp == Append(Dest, LockName(c.api))
      base == BaseFS @@ (<<"dest", "Chart.yaml">> :> FileN) @@ (<<"out", "dep">> :> DirN)
              @@ (<<"out", "dep", "Chart.yaml">> :> FileN) @@ (<<"dest", "inner">> :> FileN) IN
  CASE c.lock = "absent" -> base
    [] c.lock = "file" -> base @@ (lp :> FileN)
    [] c.lock \in {"linkOutEmpty", "linkOutLock", "linkOutJunk"} -> base @@ (lp :> LinkN(TRUE, OutFile))
    [] c.lock = "linkOutDangling" -> base @@ (lp :> LinkN(TRUE, OutNew))
    [] c.lock = "linkInFile" -> base @@ (lp :> LinkN(FALSE, <<"inner">>))
StepLock(s) ==
  LET f == LockFS(s.c)  lp == Append(Dest, LockName(s.c.api)) IN
  IF s.c.lock \in {"linkOutJunk", "linkOutDangling"} THEN Fail([s EXCEPT !.w.f = f])   \* LoadDir fails first
  ELSE LET w0 == [f |-> f, touched |-> {}, err |-> FALSE]
           w1 == MkdirAll(w0, <<"dest", "charts">>)
           w2 == WriteAt(w1, <<"dest", "charts", "dep.tgz">>) IN
       IF lp \in DOMAIN f /\ f[lp].t = "link" THEN Fail([s EXCEPT !.w = w2])
       ELSE Finish([s EXCEPT !.w = WriteAt(w2, lp)])

\* --- DownloadTo: fileutil.AtomicWriteFile(dest/<base name>): a temporary file is renamed over the target, so a
\*     symlink at the target is REPLACED, not followed; renaming over a directory fails
StepDownload(s) ==
  LET tgt == Append(Dest, DlName(s.c.stream[1])) IN
  IF tgt \in DOMAIN s.w.f /\ s.w.f[tgt].t = "dir" THEN Fail(s)
  ELSE Finish([s EXCEPT !.w = WOk(Put(s.w.f, tgt, FileN), {[p |-> tgt, t |-> "file"]})])

Step(s) ==
  CASE s.pc = "entries" /\ s.c.op = "extract" -> StepExtract(s)
    [] s.pc = "download" -> StepDownload(s)
    [] s.pc = "entries" -> StepLoadEntry(s)
    [] s.pc = "chartdir" -> StepChartDir(s)
    [] s.pc = "writes" -> StepExpandWrite(s)
    [] s.pc = "lock" -> StepLock(s)
    [] OTHER -> s

RECURSIVE RunR(_)
RunR(s) == IF s.pc = "done" THEN s ELSE RunR(Step(s))
Run(c) == RunR(Start(c))

(* ----------------------------------------------------------------------- *)
(* C16 as predicates on a state of the machine                              *)

Escaped(s)  == {x \in s.w.touched : ~IsPrefixOf(Dest, x.p)}

\* (a) every created / modified path resolves inside dest, or the operation is an error
Confined(s) == s.res = "err" \/ Escaped(s) = {}
\* stronger form that the pinned design also satisfies: nothing outside even when the operation fails later
ConfinedAlways(s) == Escaped(s) = {}
\* (b) every exposed file name is a clean relative path
NamesClean(s) == s.res # "ok" \/ s.c.op # "load" \/ \A n \in s.names : CleanRel(n)
\* (c) oversize (declared or delivered, per file or in total) is rejected; payload delivered never passes the limit
SizesOf(c)  == [i \in 1..Len(c.stream) |-> IF c.stream[i].type = "dir" THEN 0 ELSE c.stream[i].size]
RECURSIVE SumSeq(_)
SumSeq(q) == IF q = <<>> THEN 0 ELSE Head(q) + SumSeq(Tail(q))
MustReject(sizes, fl, tl) == (\E i \in DOMAIN sizes : sizes[i] > fl) \/ SumSeq(sizes) > tl
SizeRejected(s) == (s.c.op \in {"load", "expand"} /\ s.pc = "done" /\ MustReject(SizesOf(s.c), FLim, TLimOf(s.c))) => s.res = "err"
SizeBounded(s)  == s.payload <= TLimOf(s.c)
\* an entry declaring more than the per-file limit is rejected from its header: none of its body is delivered
NoOversizeBody(s) == s.overbody = 0

(* ======================================================================= *)
(* Part II (C15): abstract charts, ignore rules, expected relations         *)
(* ======================================================================= *)

\* ("dotunder" / "dotundernested": names beginning with "._" at the top and below a directory: plain chart files)
\* ("template": an ordinary file under templates/; "dotdotname": a name with consecutive dots that are NOT a path
\*  element, e.g. templates/v1..v2-migration.yaml, docs/changes-1.0..2.0.md - valid names;
\*  "dotdotprefix": a file or directory name that BEGINS with two dots without being "..": ..foo, ..data/x,
\*  templates/..x.yaml, files/..hidden - valid names as well)
PathClasses    == {"top", "nested", "unicode", "dotfile", "tpldot", "chartsentry", "dotunder", "dotundernested",
                   "template", "dotdotname", "dotdotprefix"}
\* ("bom": text behind a UTF-8 BOM; "bombinary": bytes that are NOT valid UTF-8 behind EF BB BF; "binary": without)
ContentClasses == {"empty", "text", "binary", "bom", "bombinary", "crlf"}
DepShapes      == {"none", "dir", "tgz", "dirdir", "dirtgz", "tgzdir", "tgztgz", "dirandtgz"}
ValueClasses   == {"none", "text", "bom", "crlf", "multidoc"}
\* lock shapes: complete; without digest; without generated time; with an empty dependency list
LockClasses    == {"none", "native", "nodigest", "nogenerated", "emptydeps"}
MetaClasses    == {"min", "full"}
NameClasses    == {"ok", "empty", "slash", "dotdotslash"}
VersionClasses == {"ok", "empty", "garbage"}

Chart15(api, meta, vals, schema, lock, deps, declared, pc, cc) ==
  [api |-> api, meta |-> meta, values |-> vals, schema |-> schema, lock |-> lock, deps |-> deps,
   declared |-> declared, pc |-> pc, cc |-> cc]

\* the round-trip family: every chart is valid; ops save->load and savedir->loaddir
RoundTripCases ==
  {c \in {Chart15(api, meta, vals, schema, lock, deps, declared, pc, cc) :
            api \in {"v1", "v2"}, meta \in MetaClasses, vals \in ValueClasses, schema \in BOOLEAN, lock \in LockClasses,
            deps \in DepShapes, declared \in BOOLEAN, pc \in PathClasses, cc \in ContentClasses} :
     c.declared => c.deps # "none"}

\* files the directory loader always leaves out (ignore.Rules.AddDefaults: templates/.?*)
DefaultIgnoredClass(pc) == pc = "tpldot"

\* expected relation of one round trip: "equal" on every field, except that a directory round trip
\* leaves out what the ignore rules in effect exclude
ExpectRoundTrip(c, via) ==
  [metadata |-> "equal", values |-> "equal", rawvalues |-> "equal", schema |-> "equal", lock |-> "equal",
   templates |-> IF via = "dir" /\ DefaultIgnoredClass(c.pc) THEN "equal-but-ignored" ELSE "equal",
   files |-> "equal", deps |-> "equal-as-set"]

\* invalid name / version: nothing is packaged
InvalidCases == {[name |-> n, version |-> v, api |-> api] :
                   n \in NameClasses, v \in VersionClasses, api \in {"v1", "v2"}} \ {[name |-> "ok", version |-> "ok", api |-> a] : a \in {"v1", "v2"}}

\* one `helm package` (ONE action.Package value) for a LIST of charts: every chart is packaged with ITS OWN
\* version / appVersion unless the --version / --app-version flag is given, which then applies to all of them
PkgVerTokens == {"va", "vb"}
PkgAppTokens == {"aa", "ab"}
PkgListCases ==
  UNION {{[vers |-> vs, apps |-> as, vflag |-> vf, aflag |-> af, route |-> rt] :
            vs \in [1..n -> PkgVerTokens], as \in [1..n -> PkgAppTokens], vf \in BOOLEAN, af \in BOOLEAN,
            rt \in {"action", "cmd"}} : n \in 2..3}
ExpPkgVersion(c, j) == IF c.vflag THEN "vflag" ELSE c.vers[j]
ExpPkgApp(c, j)     == IF c.aflag THEN "aflag" ELSE c.apps[j]

(* ---- ignore rules: the documented syntax (pkg/ignore/doc.go) ------------ *)
\* a node of the chart directory: path = sequence of names, dir = is a directory
\* names used by the fixed directory universe; Ext gives the extension class of a name
IgnUniverseFiles ==
  {<<"Chart.yaml">>, <<"values.yaml">>, <<"templates", "t.yaml">>, <<"templates", ".dot">>, <<"README.md">>, <<"a.txt">>,
   <<".hidden">>, <<".helmignore">>, <<"docs", "a.txt">>, <<"docs", "b.md">>, <<"docs", "sub", "c.txt">>, <<"sub", "docs", "d.txt">>,
   <<"sub", "a.txt">>, <<"x", "y">>, <<"x", "z", "y">>, <<"charts", "dep", "Chart.yaml">>, <<"charts", "dep", "a.txt">>,
   <<"charts", "dep", "templates", "t.yaml">>}
Ext(n) == CASE n \in {"a.txt", "c.txt", "d.txt"} -> "txt"
            [] n \in {"README.md", "b.md"} -> "md"
            [] n \in {"Chart.yaml", "values.yaml", "t.yaml"} -> "yaml"
            [] OTHER -> ""

\* a rule: kind in name | ext | rooted | path ; dir = trailing slash ; neg = leading !
Rule(kind, arg, dir, neg) == [kind |-> kind, arg |-> arg, dir |-> dir, neg |-> neg]
RuleUniverse ==
  {Rule("name", <<"a.txt">>, FALSE, FALSE),        \* a.txt        any file or directory called a.txt
   Rule("ext", <<"txt">>, FALSE, FALSE),           \* *.txt
   Rule("ext", <<"md">>, FALSE, FALSE),            \* *.md
   Rule("name", <<"docs">>, TRUE, FALSE),          \* docs/        only directories called docs
   Rule("name", <<"docs">>, FALSE, FALSE),         \* docs
   Rule("rooted", <<"a.txt">>, FALSE, FALSE),      \* /a.txt       only at the top
   Rule("rooted", <<"docs">>, FALSE, FALSE),       \* /docs
   Rule("rootedext", <<"txt">>, FALSE, FALSE),     \* /*.txt
   Rule("path", <<"docs", "a.txt">>, FALSE, FALSE),\* docs/a.txt   the whole path
   Rule("path", <<"x", "y">>, FALSE, FALSE),       \* x/y
   Rule("path", <<"sub", "docs">>, TRUE, FALSE),   \* sub/docs/
   Rule("name", <<".hidden">>, FALSE, FALSE),      \* .hidden
   Rule("ext", <<"yaml">>, FALSE, TRUE)}           \* !*.yaml      everything that is not *.yaml

Matches(r, path, isDir) ==
  /\ (r.dir => isDir)
  /\ CASE r.kind = "name"      -> LastOf(path) = r.arg[1]
       [] r.kind = "ext"       -> Ext(LastOf(path)) = r.arg[1]
       [] r.kind = "rooted"    -> path = r.arg
       [] r.kind = "rootedext" -> Len(path) = 1 /\ Ext(path[1]) = r.arg[1]
       [] r.kind = "path"      -> path = r.arg
\* "If a pattern begins with a leading !, the match will be negated."
RuleHits(r, path, isDir) == IF r.neg THEN ~Matches(r, path, isDir) ELSE Matches(r, path, isDir)
DefaultHits(path) == Len(path) = 2 /\ path[1] = "templates" /\ path[2] = ".dot"
NodeIgnored(rules, path, isDir) == DefaultHits(path) \/ \E r \in rules : RuleHits(r, path, isDir)
\* a file is left out when it, or any directory above it, is ignored
FileIgnored(rules, path) ==
  \/ NodeIgnored(rules, path, FALSE)
  \/ \E i \in 1..(Len(path) - 1) : NodeIgnored(rules, SubSeq(path, 1, i), TRUE)
IgnoredSet(rules) == {p \in IgnUniverseFiles : FileIgnored(rules, p)}
KeptSet(rules)    == IgnUniverseFiles \ IgnoredSet(rules)

RuleSets(maxn) == {rs \in SUBSET RuleUniverse : Cardinality(rs) <= maxn}
\* rule sets that leave a loadable chart (Chart.yaml of the chart and of a kept dependency stay)
Loadable(rs) == /\ <<"Chart.yaml">> \in KeptSet(rs)
                /\ (<<"charts", "dep", "Chart.yaml">> \in KeptSet(rs)
                    \/ \A p \in KeptSet(rs) : ~(Len(p) >= 2 /\ p[1] = "charts"))

=============================================================================
