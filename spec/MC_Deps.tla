------------------------------ MODULE MC_Deps ------------------------------
(***************************************************************************)
(* The bounded case space of C11: chart trees (to depth 3, aliases, the     *)
(* same chart used twice) x truth tables of conditions and tags in user     *)
(* values / parent defaults / the dependency's own defaults x value trees   *)
(* with global tables at every level.                                       *)
(***************************************************************************)
EXTENDS Deps

D5 == <<Abs, Sc("true"), Sc("false"), Sc("s:x"), Tb("k", "n:1")>>   \* absent, true, false, non-bool, table
D4 == <<Abs, Sc("true"), Sc("false"), Sc("s:x")>>
D3 == <<Abs, Sc("true"), Sc("false")>>
D2f == <<Abs, Sc("false")>>
G4(t) == <<Abs, Sc(t), Tb("b", t), Tb("a", t)>>
G3(t) == <<Abs, Sc(t), Tb("b", t)>>
G2(t) == <<Abs, Sc(t)>>

Slot(src, p, dom) == [src |-> src, p |-> p, dom |-> dom]
Fix(src, p, v)    == [src |-> src, p |-> p, v |-> v]
Dep(n, a, c, t)   == [name |-> n, alias |-> a, cond |-> c, tags |-> t]
Ch(deps)          == [deps |-> deps, schema |-> <<>>, crds |-> TRUE, notpl |-> FALSE]
\* a pure grouping chart: Chart.yaml, values, dependencies, crds/ - but no templates/ directory
ChNoTpl(deps)     == [deps |-> deps, schema |-> <<>>, crds |-> TRUE, notpl |-> TRUE]
\* a chart whose values.schema.json is violated by its own defaults (zz must be a string, is 1)
ChBad(deps)       == [deps |-> deps, schema |-> <<[k |-> "type", p |-> <<"zz">>, a |-> <<"string">>]>>, crds |-> TRUE, notpl |-> FALSE]

\* every chart has a default of its own that must never leak anywhere else
Own == <<Fix("root", <<"b">>, "s:root"), Fix("mid", <<"b">>, "s:mid"), Fix("leaf", <<"b">>, "s:leaf"),
         Fix("oth", <<"b">>, "s:oth")>>
BadZ == <<Fix("leaf", <<"zz">>, "n:1")>>

NoC == <<>>
NoT == <<>>

(* --- enabling: full truth tables on one dependency ----------------------- *)

\* two condition paths (one in the dependency's section, one a flag of the parent) x two tags, all in user values
Truth2(dc, dt) ==
  [name |-> "t2", fixed |-> Own,
   charts |-> [root |-> Ch(<<Dep("leaf", "", <<<<"leaf", "en">>, <<"flag">>>>, <<"t1", "t2">>)>>), leaf |-> Ch(<<>>)],
   slots |-> <<Slot("user", <<"leaf", "en">>, dc), Slot("user", <<"flag">>, dc),
               Slot("user", <<"tags", "t1">>, dt), Slot("user", <<"tags", "t2">>, dt)>>]

\* the same with the order of the condition paths swapped and everything in the root chart's defaults
Truth2d(dc, dt) ==
  [name |-> "t2d", fixed |-> Own,
   charts |-> [root |-> Ch(<<Dep("leaf", "", <<<<"flag">>, <<"leaf", "en">>>>, <<"t1", "t2">>)>>), leaf |-> Ch(<<>>)],
   slots |-> <<Slot("root", <<"leaf", "en">>, dc), Slot("root", <<"flag">>, dc),
               Slot("root", <<"tags", "t1">>, dt), Slot("root", <<"tags", "t2">>, dt)>>]

\* one condition path x one tag, each set in user values and / or defaults (who overrides whom)
Truth1(dc, dt) ==
  [name |-> "t1", fixed |-> Own,
   charts |-> [root |-> Ch(<<Dep("leaf", "", <<<<"leaf", "en">>>>, <<"t1">>)>>), leaf |-> Ch(<<>>)],
   slots |-> <<Slot("user", <<"leaf", "en">>, dc), Slot("root", <<"leaf", "en">>, dc), Slot("leaf", <<"en">>, dc),
               Slot("user", <<"tags", "t1">>, dt), Slot("root", <<"tags", "t1">>, dt)>>]

\* no condition, two tags; `tags` itself may be a scalar; --set overrides the file
Tags0 ==
  [name |-> "g0", fixed |-> Own,
   charts |-> [root |-> Ch(<<Dep("leaf", "", NoC, <<"t1", "t2">>)>>), leaf |-> Ch(<<>>)],
   slots |-> <<Slot("user", <<"tags", "t1">>, D4), Slot("root", <<"tags", "t1">>, D4), Slot("set", <<"tags", "t2">>, D4),
               Slot("user", <<"tags", "t2">>, D3), Slot("root", <<"tags">>, <<Abs, Sc("s:x"), Sc("{}")>>)>>]

\* no tags; a condition on a global flag, then one on a parent flag
CondGlobal ==
  [name |-> "cg", fixed |-> Own,
   charts |-> [root |-> Ch(<<Dep("leaf", "", <<<<"global", "en">>, <<"flag">>>>, NoT)>>), leaf |-> Ch(<<>>)],
   slots |-> <<Slot("user", <<"global", "en">>, D5), Slot("root", <<"global", "en">>, D3), Slot("user", <<"flag">>, D5),
               Slot("leaf", <<"global", "en">>, D3)>>]

(* --- aliases and the same chart used twice -------------------------------- *)

Alias2(d) ==
  [name |-> "a2", fixed |-> Own \o <<Fix("user", <<"s1", "a">>, "s:u1"), Fix("leaf", <<"a">>, "s:l")>>,
   charts |-> [root |-> Ch(<<Dep("leaf", "s1", <<<<"s1", "en">>>>, <<"t1">>),
                             Dep("leaf", "s2", <<<<"s2", "en">>>>, <<"t1", "t2">>)>>), leaf |-> Ch(<<>>)],
   slots |-> <<Slot("user", <<"s1", "en">>, d), Slot("user", <<"s2", "en">>, d), Slot("leaf", <<"en">>, d),
               Slot("user", <<"tags", "t1">>, d), Slot("user", <<"tags", "t2">>, d),
               Slot("user", <<"leaf", "en">>, D2f)>>]

PlainAlias(d) ==
  [name |-> "pa", fixed |-> Own \o <<Fix("user", <<"s2", "a">>, "s:u2"), Fix("root", <<"leaf", "a">>, "s:rl")>>,
   charts |-> [root |-> Ch(<<Dep("leaf", "", <<<<"leaf", "en">>>>, <<"t1">>),
                             Dep("leaf", "s2", <<<<"s2", "en">>, <<"leaf", "en">>>>, NoT)>>), leaf |-> Ch(<<>>)],
   slots |-> <<Slot("user", <<"leaf", "en">>, d), Slot("user", <<"s2", "en">>, d), Slot("leaf", <<"en">>, d),
               Slot("user", <<"tags", "t1">>, d)>>]

(* --- depth three ------------------------------------------------------------ *)

Depth3(d, dc) ==
  [name |-> "d3", fixed |-> Own,
   charts |-> [root |-> Ch(<<Dep("mid", "", <<<<"mid", "en">>>>, <<"t1">>)>>),
               mid  |-> Ch(<<Dep("leaf", "", <<<<"leaf", "en">>>>, <<"t2">>)>>), leaf |-> Ch(<<>>)],
   slots |-> <<Slot("user", <<"mid", "en">>, d), Slot("root", <<"mid", "en">>, d),
               Slot("user", <<"mid", "leaf", "en">>, dc), Slot("mid", <<"leaf", "en">>, d), Slot("leaf", <<"en">>, d),
               Slot("user", <<"tags", "t1">>, d), Slot("user", <<"tags", "t2">>, D4)>>]

\* tags given in the MIDDLE chart's own values.yaml (the chart that declares the tagged dependency), at the root, or both
Depth3Tags ==
  [name |-> "d3g", fixed |-> Own,
   charts |-> [root |-> Ch(<<Dep("mid", "", NoC, NoT)>>),
               mid  |-> Ch(<<Dep("leaf", "", <<<<"leaf", "en">>>>, <<"t2", "t1">>)>>), leaf |-> Ch(<<>>)],
   slots |-> <<Slot("user", <<"mid", "leaf", "en">>, D3), Slot("mid", <<"tags", "t2">>, D4), Slot("user", <<"tags", "t2">>, D4),
               Slot("root", <<"tags", "t2">>, D3), Slot("mid", <<"tags", "t1">>, D3)>>]

\* the middle chart has no templates at all: its dependencies are rendered all the same
NoTemplates ==
  [name |-> "nt", fixed |-> Own,
   charts |-> [root |-> Ch(<<Dep("mid", "", <<<<"mid", "en">>>>, NoT), Dep("oth", "", NoC, NoT)>>),
               mid  |-> ChNoTpl(<<Dep("leaf", "", <<<<"leaf", "en">>>>, NoT), Dep("leaf", "g2", NoC, <<"t1">>)>>),
               oth |-> ChNoTpl(<<>>), leaf |-> Ch(<<>>)],
   slots |-> <<Slot("user", <<"mid", "en">>, D3), Slot("user", <<"mid", "leaf", "en">>, D3), Slot("user", <<"tags", "t1">>, D3),
               Slot("mid", <<"leaf", "a">>, <<Abs, Sc("s:ml")>>), Slot("user", <<"global", "a">>, <<Abs, Sc("s:ug")>>)>>]

\* a name with a dot: a chart called my.sub with a dependency of its own (aliases may not contain dots).  The values key is the whole
\* name; the condition path my.sub.en addresses my -> sub -> en (Chart.yaml paths are split on every dot)
Dotted ==
  [name |-> "dn", fixed |-> Own \o <<Fix("my.sub", <<"b">>, "s:mid")>>,
   charts |-> ("my.sub" :> Ch(<<Dep("leaf", "", NoC, <<"t1">>)>>)) @@
              [root |-> Ch(<<Dep("my.sub", "", <<<<"my", "sub", "en">>>>, NoT), Dep("leaf", "lx", NoC, <<"t1">>)>>), leaf |-> Ch(<<>>)],
   slots |-> <<Slot("user", <<"my", "sub", "en">>, D3), Slot("user", <<"my.sub", "a">>, G2("s:um")), Slot("my.sub", <<"a">>, G2("s:m")),
               Slot("user", <<"my.sub", "leaf", "a">>, G2("s:uml")), Slot("user", <<"lx", "a">>, G2("s:ux")),
               Slot("user", <<"global", "a">>, G2("s:ug")), Slot("user", <<"tags", "t1">>, D3)>>]

\* the middle chart is used twice (aliases m1, m2) and itself aliases its dependency
Depth3Alias(d) ==
  [name |-> "d3a", fixed |-> Own,
   charts |-> [root |-> Ch(<<Dep("mid", "m1", <<<<"m1", "en">>>>, NoT), Dep("mid", "m2", <<<<"m2", "en">>>>, NoT)>>),
               mid  |-> Ch(<<Dep("leaf", "g1", <<<<"g1", "en">>>>, <<"t1">>)>>), leaf |-> Ch(<<>>)],
   slots |-> <<Slot("user", <<"m1", "en">>, d), Slot("user", <<"m2", "en">>, d),
               Slot("user", <<"m1", "g1", "en">>, d), Slot("user", <<"m2", "g1", "en">>, d),
               Slot("mid", <<"g1", "en">>, d), Slot("leaf", <<"en">>, d), Slot("user", <<"tags", "t1">>, d)>>]

\* two different children, one of which uses the leaf chart twice
Depth3Twice(d) ==
  [name |-> "d3t", fixed |-> Own,
   charts |-> [root |-> Ch(<<Dep("mid", "", <<<<"mid", "en">>>>, NoT), Dep("oth", "", NoC, <<"t1">>)>>),
               mid  |-> Ch(<<Dep("leaf", "g1", <<<<"g1", "en">>>>, NoT), Dep("leaf", "", <<<<"leaf", "en">>>>, <<"t1">>)>>),
               oth |-> Ch(<<>>), leaf |-> Ch(<<>>)],
   slots |-> <<Slot("user", <<"mid", "en">>, d), Slot("user", <<"mid", "g1", "en">>, d), Slot("mid", <<"leaf", "en">>, d),
               Slot("leaf", <<"en">>, d), Slot("user", <<"tags", "t1">>, d), Slot("mid", <<"g1", "a">>, <<Abs, Sc("s:mg")>>)>>]

(* --- scoping: globals at every level, own values, siblings ---------------------- *)


ScopeG(gu, gr, gm, gd) ==
  [name |-> "sg", fixed |-> Own,
   charts |-> [root |-> Ch(<<Dep("mid", "", NoC, NoT)>>), mid |-> Ch(<<Dep("leaf", "", NoC, NoT)>>), leaf |-> Ch(<<>>)],
   slots |-> <<Slot("user", <<"global", "a">>, gu), Slot("root", <<"global", "a">>, gr),
               Slot("user", <<"mid", "global", "a">>, gm), Slot("mid", <<"global", "a">>, gd),
               Slot("mid", <<"leaf", "global", "a">>, G2("s:ml")), Slot("leaf", <<"global", "a">>, G3("s:l"))>>]

\* own (non-global) values: who overrides whom down a chain, and nothing crosses to the sibling
ScopeOwn ==
  [name |-> "so", fixed |-> Own,
   charts |-> [root |-> Ch(<<Dep("mid", "", NoC, NoT), Dep("oth", "", NoC, NoT)>>),
               mid |-> Ch(<<Dep("leaf", "", NoC, NoT)>>), oth |-> Ch(<<>>), leaf |-> Ch(<<>>)],
   slots |-> <<Slot("user", <<"a">>, G2("s:u")), Slot("user", <<"mid", "a">>, G3("s:um")), Slot("root", <<"mid", "a">>, G2("s:rm")),
               Slot("mid", <<"a">>, G3("s:m")), Slot("user", <<"mid", "leaf", "a">>, G2("s:uml")),
               Slot("mid", <<"leaf", "a">>, G2("s:ml")), Slot("leaf", <<"a">>, G3("s:l")),
               Slot("user", <<"oth", "a">>, G2("s:uo")), Slot("oth", <<"a">>, G2("s:o")),
               Slot("oth", <<"global", "a">>, G2("s:og"))>>]

\* charts without any default of their own (their section may hold nothing but the injected global table)
ScopeBare ==
  [name |-> "sb", fixed |-> <<Fix("root", <<"b">>, "s:root")>>,
   charts |-> [root |-> Ch(<<Dep("mid", "", NoC, NoT), Dep("oth", "", NoC, NoT)>>),
               mid |-> Ch(<<Dep("leaf", "", NoC, NoT)>>), oth |-> Ch(<<>>), leaf |-> Ch(<<>>)],
   slots |-> <<Slot("user", <<"a">>, G2("s:u")), Slot("user", <<"mid", "a">>, G2("s:um")), Slot("mid", <<"a">>, G2("s:m")),
               Slot("mid", <<"leaf", "a">>, G2("s:ml")), Slot("leaf", <<"a">>, G2("s:l")),
               Slot("user", <<"oth", "a">>, G2("s:uo")), Slot("oth", <<"a">>, G2("s:o")),
               Slot("user", <<"global", "a">>, G2("s:ug"))>>]

\* the same chart under two aliases: each instance has its own section; globals reach both
ScopeAlias ==
  [name |-> "sa", fixed |-> Own,
   charts |-> [root |-> Ch(<<Dep("leaf", "s1", NoC, NoT), Dep("leaf", "s2", NoC, NoT)>>), leaf |-> Ch(<<>>)],
   slots |-> <<Slot("user", <<"s1", "a">>, G3("s:u1")), Slot("user", <<"s2", "a">>, G2("s:u2")), Slot("leaf", <<"a">>, G3("s:l")),
               Slot("user", <<"leaf", "a">>, G2("s:ul")),
               Slot("user", <<"global", "a">>, G3("s:ug")), Slot("user", <<"s1", "global", "a">>, G3("s:u1g")),
               Slot("leaf", <<"global", "a">>, G2("s:lg")), Slot("set", <<"s2", "global", "c">>, G2("n:2"))>>]

(* --- a disabled dependency brings no schema check -------------------------------- *)

SchemaOff(d) ==
  [name |-> "xo", fixed |-> Own \o BadZ,
   charts |-> [root |-> Ch(<<Dep("mid", "", <<<<"mid", "en">>>>, NoT), Dep("leaf", "s2", <<<<"s2", "en">>>>, <<"t1">>)>>),
               mid |-> Ch(<<Dep("leaf", "", <<<<"leaf", "en">>>>, NoT)>>), leaf |-> ChBad(<<>>)],
   slots |-> <<Slot("user", <<"mid", "en">>, d), Slot("user", <<"mid", "leaf", "en">>, d), Slot("user", <<"s2", "en">>, d),
               Slot("user", <<"tags", "t1">>, d)>>]

-----------------------------------------------------------------------------
QuickShapes == <<Truth2(D5, D4), Truth2d(D3, D4), Truth1(D3, D3), Tags0, CondGlobal,
                 Alias2(D3), PlainAlias(D3), Depth3(D3, D3), Depth3Tags, NoTemplates, Dotted, Depth3Alias(D3), Depth3Twice(D3),
                 ScopeG(G4("s:ug"), G3("s:rg"), G3("s:um"), G3("s:m")), ScopeOwn, ScopeBare, ScopeAlias, SchemaOff(D3)>>

ThoroughShapes == <<Truth2(D5, D4), Truth2d(D5, D4), Truth1(D5, D4), Tags0, CondGlobal,
                    Alias2(D4), PlainAlias(D5), Depth3(D3, D5), Depth3Tags, NoTemplates, Dotted, Depth3Alias(D3), Depth3Twice(D4),
                    ScopeG(G4("s:ug"), G4("s:rg"), G4("s:um"), G4("s:m")), ScopeOwn, ScopeBare, ScopeAlias, SchemaOff(D3)>>

\* beyond exhaustive reach: everything at once on the depth-3 tree with aliases (sampled with -simulate)
Wide ==
  [name |-> "w", fixed |-> Own,
   charts |-> [root |-> Ch(<<Dep("mid", "m1", <<<<"m1", "en">>, <<"global", "en">>>>, <<"t1", "t2">>),
                             Dep("mid", "", <<<<"flag">>, <<"mid", "en">>>>, <<"t2">>),
                             Dep("oth", "", NoC, <<"t1">>)>>),
               mid  |-> Ch(<<Dep("leaf", "", <<<<"leaf", "en">>, <<"global", "en">>>>, <<"t1">>),
                             Dep("leaf", "g2", <<<<"g2", "en">>>>, <<"t2">>)>>),
               oth |-> Ch(<<>>), leaf |-> Ch(<<>>)],
   slots |-> <<Slot("user", <<"m1", "en">>, D5), Slot("user", <<"mid", "en">>, D5), Slot("root", <<"mid", "en">>, D3),
               Slot("user", <<"flag">>, D5), Slot("user", <<"global", "en">>, D4), Slot("root", <<"global", "en">>, D3),
               Slot("user", <<"tags", "t1">>, D4), Slot("root", <<"tags", "t1">>, D4), Slot("set", <<"tags", "t2">>, D4),
               Slot("user", <<"m1", "leaf", "en">>, D5), Slot("user", <<"mid", "leaf", "en">>, D5), Slot("mid", <<"leaf", "en">>, D3),
               Slot("user", <<"mid", "g2", "en">>, D5), Slot("mid", <<"g2", "en">>, D3), Slot("leaf", <<"en">>, D3),
               Slot("mid", <<"tags", "t1">>, D3),
               Slot("user", <<"global", "a">>, G4("s:ug")), Slot("root", <<"global", "a">>, G3("s:rg")),
               Slot("user", <<"m1", "global", "a">>, G3("s:u1")), Slot("mid", <<"global", "a">>, G3("s:m")),
               Slot("mid", <<"leaf", "global", "a">>, G2("s:ml")), Slot("leaf", <<"global", "a">>, G3("s:l")),
               Slot("user", <<"mid", "a">>, G2("s:um")), Slot("mid", <<"a">>, G2("s:m")), Slot("user", <<"m1", "leaf", "a">>, G2("s:u1l")),
               Slot("leaf", <<"a">>, G2("s:l")), Slot("oth", <<"a">>, G2("s:o"))>>]
WideShapes == <<Wide>>
=============================================================================
