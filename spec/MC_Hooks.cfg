SPECIFICATION Spec
CONSTANTS
  Procs = {1}
  MaxRev = 6
  MaxOps = 2
  MaxFaults = 1
  MaxCrash = 0
  MaxEdits = 0
  FaultKinds = {"wait"}
  Sequential = TRUE
  Planned = FALSE
  MaxPlan = 36
  InitStores <- StoresEmpty
  LateStart = FALSE
  LogSched = FALSE
  KeepLog = TRUE
  OpMenu <- XHooks
  EditMenu <- EditsNone
  PreMenu <- PreHook
  Objs <- AllObjs
  MenuGuard <- GuardTrue
VIEW View
INVARIANTS Inv_C12_Order Inv_C12_DeleteBefore Inv_C12_DeletedByPolicy Inv_C12_PreHookGate Inv_C12_PostHookFails Inv_C12_NotInManifest Inv_C12_Disabled
CHECK_DEADLOCK FALSE
