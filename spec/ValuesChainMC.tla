---------------------------- MODULE ValuesChainMC ----------------------------
(***************************************************************************)
(* Bounded space of C13 chains and the model check "code-shaped reuse /     *)
(* reset / rollback policy satisfies the property-shaped one" on all of     *)
(* them.  A state is a chain (sequence of steps); complete chains (MaxLen   *)
(* steps: install followed by upgrades / rollbacks) are exported for the    *)
(* replay on the real action.Install / Upgrade / Rollback.                  *)
(***************************************************************************)
EXTENDS ValuesChain, Json

CONSTANTS MaxLen,    \* steps per chain, the install included
          Full,      \* larger value universe / third chart version
          Term       \* TRUE only in simulation configurations (see Next)

ASSUME TLCSet(1, 0)

D(tag) == Sc("s:" \o tag)
\* the dependency's own values.yaml per chart version: one default changes with the version, one
\* does not.  (All versions define the same keys: a key that only the NEW version's dependency
\* defines shows up under --reuse-values although the deployed defaults should stay in force -
\* chart.Values := old coalesced values covers the root chart only; reported as a finding, not
\* part of this menu.)
SubDefaultsDef ==
  LET sv(t) == [x \in {"x", "y"} |-> IF x = "x" THEN D(t) ELSE D("sd")]
  IN IF Full THEN <<sv("sd1"), sv("sd2"), sv("sd3")>> ELSE <<sv("sd1"), sv("sd2")>>
DefaultsDef ==
  LET d1 == [x \in {"a", "k"} |-> IF x = "a" THEN Mp([y \in {"b", "c"} |-> D("d1")]) ELSE D("d1")]
      d2 == [x \in {"a", "n"} |-> IF x = "a" THEN Mp([y \in {"b"} |-> D("d2")]) ELSE D("d2")]
      d3 == [x \in {"a"} |-> D("d3")]
  IN IF Full THEN <<d1, d2, d3>> ELSE <<d1, d2>>

\* the values given at step n (scalars tagged with the step, so that every source is recognisable)
V(n) ==
  LET t == D("v" \o ToString(n)) IN
  {<<>>, [x \in {"a"} |-> t], [x \in {"a"} |-> Null],
   [x \in {"a"} |-> Mp([y \in {"b"} |-> t])], [x \in {"a"} |-> Mp([y \in {"b"} |-> Null])],
   [x \in {"a"} |-> Mp(<<>>)]}        \* an empty table: adds nothing, removes nothing
  \cup (IF Full THEN {[x \in {"a"} |-> Mp([y \in {"c"} |-> t])], [x \in {"k"} |-> Null],
                      [x \in {"a"} |-> Li(<<t>>)],
                      \* a table below a table, a table next to a scalar, nulls over both at once
                      [x \in {"a"} |-> Mp([y \in {"b"} |-> Mp([z \in {"c"} |-> t])])],
                      [x \in {"a", "k"} |-> IF x = "a" THEN Mp([y \in {"b"} |-> t]) ELSE t],
                      [x \in {"a", "k"} |-> Null]} ELSE {})

Modes == {"default", "reset", "reuse", "rtr"}
\* several value flags in one upgrade (ValuesChain!Eff says which one decides)
ComboModes == {"reset+reuse", "reuse+rtr", "reset+rtr", "reset+reuse+rtr"}
NoVals == <<>>
StepsAt(n) ==
  IF n = 1 THEN {[op |-> "install", mode |-> "", vals |-> v, chart |-> 1, target |-> 0, fail |-> FALSE, atomic |-> FALSE, auto |-> FALSE] : v \in V(1)}
  ELSE {[op |-> "upgrade", mode |-> m, vals |-> v, chart |-> c, target |-> 0, fail |-> f, atomic |-> FALSE, auto |-> FALSE] :
           m \in Modes, v \in V(n), c \in DOMAIN Defaults, f \in BOOLEAN}
       \cup {[op |-> "upgrade", mode |-> m, vals |-> v, chart |-> c, target |-> 0, fail |-> FALSE, atomic |-> FALSE, auto |-> FALSE] :
           m \in ComboModes, v \in V(n), c \in DOMAIN Defaults}
       \* an upgrade --atomic whose cluster update fails: it records a failed revision and then rolls
       \* back by itself; the chain shows that as the next step, a rollback marked auto whose target is
       \* the revision deployed before the upgrade (Allowed)
       \cup {[op |-> "upgrade", mode |-> m, vals |-> v, chart |-> 1, target |-> 0, fail |-> TRUE, atomic |-> TRUE, auto |-> FALSE] :
           m \in {"default", "reuse"}, v \in V(n)}
       \cup {[op |-> "rollback", mode |-> "", vals |-> NoVals, chart |-> 0, target |-> t, fail |-> FALSE, atomic |-> FALSE, auto |-> TRUE] : t \in 1..(n - 1)}
       \cup {[op |-> "rollback", mode |-> "", vals |-> NoVals, chart |-> 0, target |-> t, fail |-> FALSE, atomic |-> FALSE, auto |-> FALSE] : t \in 1..(n - 1)}

\* a state is the sequence of the indexes picked in StepSeq(1), StepSeq(2), ...
StepSeq1 == SetToSeq(StepsAt(1))
StepSeq2 == SetToSeq(StepsAt(2))
StepSeq3 == SetToSeq(StepsAt(3))
StepSeq4 == SetToSeq(StepsAt(4))
StepSeq5 == SetToSeq(StepsAt(5))
StepSeq(n) == CASE n = 1 -> StepSeq1 [] n = 2 -> StepSeq2 [] n = 3 -> StepSeq3 [] n = 4 -> StepSeq4 [] OTHER -> StepSeq5
ASSUME MaxLen <= 5

StepsOf(p) == [n \in DOMAIN p |-> StepSeq(n)[p[n]]]
\* an atomic upgrade is followed by exactly its own rollback (and needs room for it); an auto
\* rollback occurs nowhere else
Allowed(p, i) ==
  LET n  == Len(p) + 1
      s  == StepSeq(n)[i]
      st == StepsOf(p)
      afterAtomic == n > 1 /\ st[n - 1].atomic IN
  /\ s.atomic => n < MaxLen
  /\ afterAtomic => (s.auto /\ s.target = DepAt(Append(st, s), n))
  /\ s.auto => afterAtomic

VARIABLE pick
Init == pick = <<>>
\* Term (simulation only): a complete pick gets one more step that appends 0; TLC evaluates a
\* CONSTRAINT on every candidate successor while simulating, so exporting at the unique successor
\* of a complete case writes exactly the cases of the behaviours drawn.
Next == \/ /\ Term
           /\ Len(pick) = MaxLen
           /\ pick' = Append(pick, 0)
        \/ /\ Len(pick) < MaxLen
           /\ \E i \in 1..Len(StepSeq(Len(pick) + 1)) : Allowed(pick, i) /\ pick' = Append(pick, i)
Spec == Init /\ [][Next]_pick

(* ----- model check ---------------------------------------------------------- *)
\* differences per revision between the code-shaped chain and the property:
\*   "L:config" / "L:effective": not acceptable; "kf:L18..." the same, in the lineage of a null laid
\*   over a set key (finding L18); nothing printed for agreement.
DiffsOf(st) ==
  LET n  == Len(st)
      cr == CodeRevs(st, n)
      pr == PropRevs(st, n)
      cfgs == [i \in 1..n |-> cr[i].cfg]
      one(i) ==
        LET s == st[i]
            depCfg == IF i > 1 THEN cr[DepAt(st, i)].cfg ELSE <<>>
            tgtCfg == IF s.op = "rollback" THEN cr[s.target].cfg ELSE <<>>
            l18 == L18Lineage(st, cfgs, i)
            c == IF ConfigOk(s, depCfg, tgtCfg, cr[i].cfg) THEN {} ELSE {IF l18 THEN "kf:L18-config" ELSE "L:config"}
            e == IF EffectiveOk(pr[i], CodeEffective(cr[i])) THEN {} ELSE {IF l18 THEN "kf:L18-effective" ELSE "L:effective"}
        IN c \cup e
  IN UNION {one(i) : i \in 1..n} \cup (IF NullUniform(st, cfgs, n) THEN {} ELSE {"L:null-nonuniform"})

StepJ(s) == [op |-> s.op, mode |-> s.mode, vals |-> Mp(s.vals), chart |-> s.chart, target |-> s.target, fail |-> s.fail, atomic |-> s.atomic, auto |-> s.auto]
RECURSIVE PickStr(_)
PickStr(p) == IF p = <<>> THEN "" ELSE "_" \o ToString(p[1]) \o PickStr(Tail(p))
ChainJ(p) == LET st == StepsOf(p) IN
             [id |-> "c" \o PickStr(p), defaults |-> [i \in DOMAIN Defaults |-> Mp(Defaults[i])],
              subdefaults |-> [i \in DOMAIN SubDefaults |-> Mp(SubDefaults[i])],
              steps |-> [i \in DOMAIN st |-> StepJ(st[i])], diffs |-> SetToSeq(DiffsOf(st))]

\* exhaustive: every chain one step short of MaxLen writes all its completions
ExportBatch ==
  IF Len(pick) = MaxLen - 1
  THEN LET L   == StepSeq(MaxLen)
           idx == SelectSeq([i \in 1..Len(L) |-> i], LAMBDA i : Allowed(pick, i)) IN
       ndJsonSerialize("gen/c" \o PickStr(pick) \o ".ndjson", [k \in 1..Len(idx) |-> ChainJ(Append(pick, idx[k]))])
  ELSE TRUE

\* simulation (-workers 1): one file per complete chain
ExportOne ==
  IF Len(pick) = MaxLen + 1
  THEN /\ TLCSet(1, TLCGet(1) + 1)
       /\ ndJsonSerialize("gen/s" \o ToString(TLCGet(1)) \o ".ndjson", <<ChainJ(SubSeq(pick, 1, MaxLen))>>)
  ELSE TRUE
=============================================================================
