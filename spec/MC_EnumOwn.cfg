SPECIFICATION Spec
CONSTANTS
  Procs = {1}
  MaxRev = 6
  MaxOps = 2
  MaxFaults = 0
  MaxCrash = 0
  MaxEdits = 0
  FaultKinds = {}
  Sequential = TRUE
  Planned = FALSE
  MaxPlan = 36
  InitStores <- StoresEmpty
  LateStart = FALSE
  LogSched = FALSE
  KeepLog = FALSE
  OpMenu <- MenuOwnEnum
  EditMenu <- EditsNone
  PreMenu <- PreOwnX
  Objs <- AllObjs
  MenuGuard <- GuardTrue
CONSTRAINT GenExport
CHECK_DEADLOCK FALSE
