------------------------------- MODULE Render -------------------------------
(***************************************************************************)
(* The render pipeline of helm as a state machine (properties C05, C08):   *)
(*                                                                         *)
(*   loader.LoadFiles -> ProcessDependencies -> schema validation ->      *)
(*   engine.Render (allTemplates, sortTemplates, parse, execute) ->        *)
(*   action.renderResources (NOTES loop) -> releaseutil.SortManifests      *)
(*   (path sort, SplitManifests, manifestFile.sort, kind sort) ->          *)
(*   CRDObjects -> [manifest, hooks, notes]                                *)
(*                                                                         *)
(* Code-shaped: every place where the Go code ranges over a map is an      *)
(* explicit nondeterministic choice of an iteration order (IterateMap);    *)
(* what the code does with that order afterwards (sort it, or not) is      *)
(* transcribed.  The host (environment variables, working directory,       *)
(* files outside the chart) is a variable that changes freely at any       *)
(* moment (HostChange); the pipeline reads it only where the code does.    *)
(*                                                                         *)
(* Checked by TLC over a bounded set of inputs: when the pipeline is done, *)
(* the output equals F(inp) of RenderBase -- a function of the input       *)
(* alone -- for every iteration order and every host history (Det), and    *)
(* satisfies the partition / order predicates of C08.                      *)
(* The faithful model is NOT a function of its input in one place (schema  *)
(* "$ref" to a host file, history variable kf); DetOrKnown excuses exactly *)
(* that shape, Det does not.  (Two more -- notes order, CRD order -- were  *)
(* found with it and repaired in helm: d8ada2d, 2ac2ff2.)                  *)
(***************************************************************************)
EXTENDS RenderBase

CONSTANTS InputSeq,    \* sequence of the input records (see RenderBase) explored
          Hosts        \* set of host states [canary : {"absent","str","int"}, env : ...]

VARIABLES ci,      \* index of the input (chart, values and options) in InputSeq: never changes
          host,    \* environment, working directory, files outside the chart
          pc,      \* pipeline stage
          deps,    \* Chart.Dependencies(): order in which LoadFiles added the subcharts
          parse,   \* order in which the templates are parsed
          win,     \* rank of the partial whose definition of "shared" is in force (0 = undefined)
          pay,     \* payload of every document: the files are executed in parse order and share state
          notes,   \* notes text
          fo, fi,  \* SortManifests: file paths in processing order, cursor
          gen, hk, \* result.generic / result.hooks (document ids)
          out,     \* final [err, manifest, hooks, notes, crds]
          kf       \* known-finding sites passed in this behaviour
vars == <<ci, host, pc, deps, parse, win, pay, notes, fo, fi, gen, hk, out, kf>>

\* the input is carried as an index (small states); inp is the chart, values and options themselves
InputSeqC == InputSeq      \* (a definition, so that TLC evaluates the configured sequence once)
inp == InputSeqC[ci]

\* "for k := range m": some order of the keys
IterateMap(S) == SetToSeqs(S)

Init ==
  /\ ci \in DOMAIN InputSeqC
  /\ host \in Hosts
  /\ pc = "load"
  /\ deps = <<>> /\ parse = <<>> /\ win = 0 /\ pay = <<>> /\ notes = "" /\ fo = <<>> /\ fi = 0
  /\ gen = <<>> /\ hk = <<>> /\ out = NoOut("none", 0) /\ kf = {}

\* the world outside the chart moves at any time
HostChange ==
  /\ pc # "done"
  /\ host' \in Hosts \ {host}
  /\ UNCHANGED <<ci, pc, deps, parse, win, pay, notes, fo, fi, gen, hk, out, kf>>

\* loader.LoadFiles: the names of the subcharts map are collected ("for n := range subcharts"), sorted, and the
\* subcharts added in that order  (fix 2ac2ff2; before it the map was walked directly: lead L21)
SortCharts(s) == Vals(SortKeyed([j \in DOMAIN s |-> [key |-> ChartRank(s[j]), val |-> s[j]]]))
Load ==
  /\ pc = "load"
  /\ \E o \in IterateMap(Range(inp.subs)) : deps' = SortCharts(o)
  /\ pc' = "deps"
  /\ UNCHANGED <<ci, host, parse, win, pay, notes, fo, fi, gen, hk, out, kf>>

\* chartutil.ProcessDependencies rebuilds the dependency list when Chart.yaml declares dependencies
ProcessDeps ==
  /\ pc = "deps"
  /\ deps' = DepsAfterProcess(inp, deps)
  /\ pc' = "schema"
  /\ UNCHANGED <<ci, host, parse, win, pay, notes, fo, fi, gen, hk, out, kf>>

\* chartutil.ValidateAgainstSingleSchema: jsonschema.NewCompiler() resolves "$ref" with its default
\* loader: "#/..." inside the document, "file:///..." and relative references (resolved against
\* file:///values.schema.json) FROM THE HOST FILE SYSTEM, "http://" has no loader
SchemaEval(i, h) ==
  CASE i.schema \in {"none", "local"} -> "accept"
    [] i.schema = "http" -> "error"
    [] OTHER -> CASE h.canary = "absent" -> "error" [] h.canary = "str" -> "accept" [] OTHER -> "reject"

Schema ==
  /\ pc = "schema"
  /\ kf' = IF inp.schema \in {"rel", "file"} THEN kf \cup {"L8-schema"} ELSE kf
  /\ IF SchemaEval(inp, host) = "accept"
       THEN pc' = "engine" /\ UNCHANGED out
       ELSE pc' = "done" /\ out' = NoOut("schema", 0)
  /\ UNCHANGED <<ci, host, deps, parse, win, pay, notes, fo, fi, gen, hk>>

\* engine.Render: allTemplates builds a map; sortTemplates ranges over it and sorts; all files are
\* parsed in that order (a later definition of a named template replaces an earlier one), then executed
Engine ==
  /\ pc = "engine"
  /\ \E o \in IterateMap(TplPaths(inp) \cup Range(inp.parts) \cup Range(inp.notes)) :
       /\ parse' = SortTemplates(o)
       /\ win' = Winner(parse', Range(inp.parts))
  /\ IF RenderErr(inp, win') = "none"
       THEN pc' = "notes" /\ pay' = PayMap(inp, parse', win') /\ UNCHANGED out       \* "for _, filename := range keys"
       ELSE pc' = "done" /\ out' = NoOut(RenderErr(inp, win'), RenderErrAt(inp, parse', win')) /\ UNCHANGED pay
  /\ UNCHANGED <<ci, host, deps, notes, fo, fi, gen, hk, kf>>

\* renderResources: the NOTES.txt keys of the rendered map are collected, sorted, and the texts of those that
\* pass (subNotes, or the parent's) joined in that order; all are deleted from the map
\* (fix d8ada2d; before it the buffer was filled in map order: lead L8-notes)
Notes ==
  /\ pc = "notes"
  /\ \E o \in IterateMap(Range(inp.notes)) :
       notes' = JoinNotes(SelectSeq(SortInts(o), LAMBDA p : p \in NotesPassing(inp)))
  /\ pc' = "files"
  /\ UNCHANGED <<ci, host, deps, parse, win, pay, fo, fi, gen, hk, out, kf>>

\* SortManifests: "for filePath := range files" then sort.Strings
Files ==
  /\ pc = "files"
  /\ \E o \in IterateMap(TplPaths(inp)) : fo' = SortInts(o)
  /\ fi' = 1
  /\ pc' = "split"
  /\ UNCHANGED <<ci, host, deps, parse, win, pay, notes, gen, hk, out, kf>>

\* per file: SplitManifests returns a map "manifest-N" -> document; manifestFile.sort ranges over it,
\* sorts the keys by N and classifies every entry
Split ==
  /\ pc = "split"
  /\ fi <= Len(fo)
  /\ LET f == FileOf(inp, fo[fi]) IN
     \E o \in IterateMap(Entries(f)) :
       LET eo == SortInts(o) IN
       /\ gen' = gen \o GenericOfFile(f, eo)
       /\ hk' = hk \o HooksOfFile(f, eo)
  /\ fi' = fi + 1
  /\ UNCHANGED <<ci, host, pc, deps, parse, win, pay, notes, fo, out, kf>>

\* sortManifestsByKind / sortHooksByKind (sort.SliceStable), then the CRDs of --include-crds in
\* CRDObjects order (own first, then the dependencies in Dependencies() order)
Finish ==
  /\ pc = "split"
  /\ fi > Len(fo)
  /\ LET gs == KindSort(inp, gen, InstKey)
         hs == KindSort(inp, hk, InstKey) IN
     out' = [err |-> "none", errAt |-> 0,
             manifest |-> [j \in DOMAIN gs |-> ManEntry(inp, gs[j], pay)],
             hooks |-> [j \in DOMAIN hs |-> HookEntry(inp, hs[j], pay)],
             notes |-> notes,
             crds |-> CrdOrder(inp, deps)]
  /\ pc' = "done"
  /\ UNCHANGED <<ci, host, deps, parse, win, pay, notes, fo, fi, gen, hk, kf>>

Next == HostChange \/ Load \/ ProcessDeps \/ Schema \/ Engine \/ Notes \/ Files \/ Split \/ Finish

Spec == Init /\ [][Next]_vars

-----------------------------------------------------------------------------
(* C05: the output is a function of the input alone *)

Det == pc = "done" => out = F(inp)

Excused(o, r) == o = r

DetOrKnown ==
  pc = "done" =>
    \/ Excused(out, F(inp))
    \/ /\ "L8-schema" \in kf /\ KnownSchemaShape(inp)
       /\ (out = NoOut("schema", 0) \/ Excused(out, F([inp EXCEPT !.schema = "none"])))

\* the single components (used to show WHERE the faithful model is not a function of its input)
DetManifest == pc = "done" => (out.manifest = F(inp).manifest /\ out.hooks = F(inp).hooks) \/ out.err # F(inp).err
DetNotes    == pc = "done" => out.notes = F(inp).notes \/ out.err # F(inp).err
DetCrds     == pc = "done" => out.crds = F(inp).crds \/ out.err # F(inp).err
DetSchema   == pc = "done" => (out.err = "schema") = (F(inp).err = "schema")

(* C08: partition, classification, order -- on every final state *)

Partition ==
  (pc = "done" /\ out.err = "none") =>
    /\ C08_Partition(inp, Ids(out.manifest), Ids(out.hooks))
    /\ C08_Classes(inp, Ids(out.manifest), Ids(out.hooks))
    /\ C08_NothingElse(inp, Ids(out.manifest), Ids(out.hooks))
    /\ C08_Order(inp, Ids(out.manifest), Ids(out.hooks))

\* every behaviour ends: the pipeline has no state without a successor before "done"
Progress == pc # "done" => ENABLED (Load \/ ProcessDeps \/ Schema \/ Engine \/ Notes \/ Files \/ Split \/ Finish)
=============================================================================
