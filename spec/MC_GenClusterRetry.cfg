SPECIFICATION Spec
CONSTANTS
  Procs = {1}
  MaxRev = 10
  MaxOps = 4
  MaxFaults = 2
  MaxCrash = 0
  MaxEdits = 1
  FaultKinds = {"res", "wait"}
  Sequential = TRUE
  Planned = TRUE
  MaxPlan = 22
  InitStores <- StoresEmpty
  LateStart = FALSE
  LogSched = FALSE
  KeepLog = FALSE
  OpMenu <- MenuRetry
  EditMenu <- EditsSome
  PreMenu <- PreBy
  Objs <- AllObjs
  MenuGuard <- GuardBias
CONSTRAINT GenExport
CHECK_DEADLOCK FALSE
