----------------------------- MODULE ValuesProps -----------------------------
(***************************************************************************)
(* C04 on the level of a case: what the property demands of the values      *)
(* produced for charts (root first, each the only subchart of the one       *)
(* before) and user-level sources usr (lowest precedence first: -f files in *)
(* order, then --set-json, --set, --set-string, --set-file, --set-literal). *)
(* Used by the model check (ValuesMC) on the code-shaped operators and by   *)
(* the monitor (ValuesObs) on the observations of the real code.            *)
(***************************************************************************)
EXTENDS Values, ValuesSet

(* ----- expectations for a case ------------------------------------------- *)
\* user-level sources as trees, lowest precedence first
SrcTree(s) == IF s.obj THEN s.v ELSE Lift(s.v, s.p)
UserTrees(c) == [i \in DOMAIN c.usr |-> SrcTree(c.usr[i])]

\* the code may refuse (error, no values produced) exactly when an assignment's path runs
\* through something an earlier source set to a non-map (DESIGN C04 "Refusal-allowed")
RECURSIVE RefusalFrom(_, _)
RefusalFrom(usr, i) ==
  IF i > Len(usr) THEN FALSE
  ELSE LET cur == Exp([j \in 1..(i - 1) |-> SrcTree(usr[j])], TRUE)
           s   == usr[i]
           hit == ~s.obj /\ \E n \in 1..(Len(s.p) - 1) :
                     LET q == Section(cur, SubSeq(s.p, 1, n)) IN IsSet(cur) /\ IsSet(q) /\ ~IsMap(q)
       IN hit \/ RefusalFrom(usr, i + 1)
RefusalAllowedUser(c) == RefusalFrom(c.usr, 1)

ChartPath(c, i) == ScopePath(c.charts, i)
AllSources(c) == ChartSources(c.charts) \o UserTrees(c)

\* A source that sets a subchart's KEY ITSELF to null or a scalar: whether that also removes the
\* subchart's own values.yaml is not fixed by C04 (helm: a null removes the parent's section only,
\* anything else is answered with "type mismatch").  The values of such a case are not judged.
SubKeyClobbered(c) ==
  \E i \in 2..Len(c.charts) : \E j \in DOMAIN AllSources(c) :
     LET q == Section(AllSources(c)[j], ChartPath(c, i)) IN IsSet(q) /\ ~IsMap(q)

\* OK-predicates on (normalised) observed / computed values
UserOk(c, o)    == Ok(UserTrees(c), o, TRUE)
RootOk(c, o)    == Ok(AllSources(c), Norm(o), FALSE)
ScopeOk(c, i, o) == Ok([j \in DOMAIN AllSources(c) |-> Section(AllSources(c)[j], ChartPath(c, i))], Norm(o), FALSE)


\* "An explicit null removes a default", literally: where the chart's OWN values.yaml sets a path
\* (to something that is not null) and the highest source that sets the path says null, the key is
\* gone from what the chart's templates are given - not merely nil.  (Where only a parent's
\* section or nothing lies below the null, helm keeps a nil-valued key; the property does not
\* speak about that, see Norm.)  own: the own default at this path; ts: what all sources say
\* here, lowest first; o: the observed value, NOT normalised.  Maps are followed only while every
\* source that sets the path has a map there.
RECURSIVE NullGone(_, _, _)
NullGone(own, ts, o) ==
  LET ds == SelectSeq(ts, IsSet) IN
  IF ~IsSet(own) \/ IsNull(own) \/ ds = <<>> THEN TRUE
  ELSE LET top == ds[Len(ds)] IN
       IF IsNull(top) THEN ~IsSet(o)
       ELSE IF IsMap(own) /\ IsSet(o) /\ IsMap(o) /\ (\A i \in DOMAIN ds : IsMap(ds[i]))
            THEN \A x \in DOMAIN own.m : NullGone(own.m[x], [i \in DOMAIN ds |-> Get(ds[i].m, x)], Get(o.m, x))
            ELSE TRUE

\* for the scope of chart level i (o: what its templates were given); the key of its own subchart
\* belongs to the subchart's scope
NullRemovesKey(c, i, o) ==
  LET own  == c.charts[i].vals
      secs == [j \in DOMAIN AllSources(c) |-> Section(AllSources(c)[j], ChartPath(c, i))]
      sub  == IF i < Len(c.charts) THEN {c.charts[i + 1].name} ELSE {} IN
  (IsSet(o) /\ IsMap(o)) =>
    \A x \in DOMAIN own \ sub :
       NullGone(own[x], [j \in DOMAIN secs |-> IF IsSet(secs[j]) /\ IsMap(secs[j]) THEN Get(secs[j].m, x) ELSE Unset], Get(o.m, x))
=============================================================================
