SPECIFICATION Spec
CONSTANT KindVecs <- Vecs
CONSTANT Barrier = TRUE
CONSTANT AllFail = TRUE
CONSTANT TrackOrder = FALSE
CONSTANT MaxN = 5
INVARIANT BarrierInv
INVARIANT ErrIff
INVARIANT OnceInv
PROPERTY Termination
CHECK_DEADLOCK TRUE
