SPECIFICATION Spec
CONSTANT Inputs <- C05Thorough
CONSTANT Hosts <- HostsFull
INVARIANT DetOrKnown
INVARIANT Partition
INVARIANT Progress
CHECK_DEADLOCK FALSE
