SPECIFICATION MonSpec
POSTCONDITION MonDone
CHECK_DEADLOCK FALSE
