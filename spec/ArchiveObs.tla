----------------------------- MODULE ArchiveObs -----------------------------
(***************************************************************************)
(* Monitor for C15 / C16: the observations recorded from the real code by   *)
(* hv_archive are read back and judged by predicates written here (and in   *)
(* Archive.tla).  One initial state per observation; the invariant never    *)
(* fails, it prints one line per failing observation:                       *)
(*   <<"OBSVIOL",  i, check>>        property predicate false on observation i *)
(*   <<"OBSKNOWN", i, check, kf>>    false, and of the exact shape of a      *)
(*                                   recorded known finding                  *)
(*   <<"OBSDIV",   i, what>>         observation differs from the model's    *)
(*                                   own outcome (conformance, not a verdict) *)
(*   <<"OBSNOTE",  i, what>>         informational                           *)
(* No model action is involved: a verdict never depends on the operational  *)
(* model being right (DESIGN 2.4 case 1).                                   *)
(***************************************************************************)
EXTENDS Archive, Json

CONSTANTS ObsFile, Family      \* Family = "C16" | "C15"

Obs == ndJsonDeserialize(ObsFile)

VARIABLE i
Init == i \in 1..Len(Obs)
Next == FALSE /\ i' = i
Spec == Init /\ [][Next]_i

Say(ok, line) == IF ok THEN TRUE ELSE PrintT(line)

(* ------------------------------ C16 ------------------------------------- *)
SeqRange(q) == {q[k] : k \in DOMAIN q}

AllowedPath(o, p) == \E a \in SeqRange(o.allowed) : IsPrefixOf(a, p)
EscapedChanges(o) == {c \in SeqRange(o.changes) : ~AllowedPath(o, c.path)}

\* every created / modified / deleted path lies inside the destination, or the operation is an error
Obs_Confined(o) == o.err \/ EscapedChanges(o) = {}

\* nothing the operation created inside the destination resolves outside it (a symlink whose target lies outside,
\* a hard link to a file outside), or the operation is an error
Obs_NoOutsideLinks(o) == o.err \/ o.leaks = <<>>

\* every file name exposed by a loaded chart is a clean relative path ("BS": a component holding a backslash or NUL)
Obs_CleanName(cs) == CleanRel(cs) /\ \A k \in DOMAIN cs : cs[k] # "BS"
Obs_Names(o) == o.err \/ \A n \in SeqRange(o.names) : Obs_CleanName(n.comps)

\* oversize (per file or in total) is rejected, and rejected before the stream is read beyond the limit (+ one buffer)
Obs_Over(o)       == o.op = "load" /\ MustReject(o.sizes, o.flim, o.tlim)
Obs_SizeReject(o) == Obs_Over(o) => o.err
Obs_SizeRead(o)   == Obs_Over(o) => o.consumed <= o.bound
\* an entry DECLARING more than the per-file limit is rejected from its header: its body is not read
\* (hdrBound = stream offset of the entry's data + one decompressor window of read-ahead)
Obs_SizeHeader(o) == (o.op = "load" /\ o.firstOver > 0 /\ o.sizes[o.firstOver] > o.flim) => o.consumed <= o.hdrBound

\* conformance with the model's own outcome: error class; files (and extracted directories) written
ObsFiles(o)  == {c.path : c \in {x \in SeqRange(o.changes) : x.t # "dir" \/ (o.op = "extract" /\ x.kind = "created")}}
SpecFiles(o) == {x.p : x \in SeqRange(o.specOut)}
Obs_ConfErr(o)   == o.err = o.specErr
Obs_ConfFiles(o) == (~o.err /\ ~o.specErr) => ObsFiles(o) = SpecFiles(o)

Judge16 ==
  LET o == Obs[i] IN
  /\ Say(Obs_Confined(o), <<"OBSVIOL", i, "C16_Confined">>)
  /\ Say(Obs_NoOutsideLinks(o), <<"OBSVIOL", i, "C16_NoOutsideLinks">>)
  /\ Say(Obs_Names(o), <<"OBSVIOL", i, "C16_CleanNames">>)
  /\ Say(Obs_SizeReject(o), <<"OBSVIOL", i, "C16_SizeReject">>)
  /\ Say(Obs_SizeRead(o), <<"OBSVIOL", i, "C16_SizeRead">>)
  /\ Say(Obs_SizeHeader(o), <<"OBSVIOL", i, "C16_SizeHeader">>)
  /\ Say(~(o.err /\ EscapedChanges(o) # {}), <<"OBSNOTE", i, "escape-with-error">>)
  /\ Say(~o.panic, <<"OBSNOTE", i, "panic">>)
  /\ Say(Obs_ConfErr(o), <<"OBSDIV", i, "error-class">>)
  /\ Say(Obs_ConfFiles(o), <<"OBSDIV", i, "files-written">>)

(* ------------------------------ C15 ------------------------------------- *)
\* The comparer of the harness reports, per operation, WHERE the chart that came back differs from the
\* original (field, dependency path, file, kind of difference, lexical facts).  The relation that must
\* hold is Archive!ExpectRoundTrip: everything equal; a directory load leaves out what the ignore rules
\* in effect exclude (templates/.?* by default).

OpNames == <<"saveload", "savedir", "dirarch", "package">>
CheckOf(x) == CASE x = "saveload" -> "C15_SaveLoad" [] x = "savedir" -> "C15_SaveDir"
                [] x = "dirarch" -> "C15_DirVsArchive" [] OTHER -> "C15_Package"

\* (d.tpldot is lexical: the name is a dotfile directly in templates/, i.e. it matches the default rule templates/.?*)
Excused(o, x, d) ==
  /\ x \in {"savedir", "dirarch"}
  /\ d.field = "templates" /\ d.kind = "missing" /\ d.chart = "" /\ d.tpldot
  /\ (d.class = "tpldot" => ExpectRoundTrip(o.chart, "dir").templates = "equal-but-ignored")

\* shapes of the recorded findings (DESIGN 2.5): anything else that differs is a violation
\* (a lock missing after SaveDir -> LoadDir was such a shape until /repo e39bb76 repaired it: now a plain violation)
KF_Bom  == "KF-L12-loaders-strip-bom"
KF_Prov == "KF-C15-nested-prov-reparented"
KnownBom(x, d)  == x \in {"saveload", "savedir"} /\ d.kind = "content" /\ d.bom
KnownProv(x, d) == /\ d.field = "files" /\ d.prov
                   /\ \/ d.kind = "extra" /\ d.nest >= 2
                      \/ d.kind = "missing" /\ d.chart # "" /\ d.nest >= 1

JudgeOp(o, x) ==
  LET r == o[x]
      bad == {d \in SeqRange(r.diffs) : ~Excused(o, x, d)}
      unexplained == {d \in bad : ~KnownBom(x, d) /\ ~KnownProv(x, d)}
  IN IF ~r.ran \/ r.err THEN PrintT(<<"OBSVIOL", i, CheckOf(x) \o "_failed">>)
     ELSE IF bad = {} THEN TRUE
     ELSE IF unexplained # {} THEN PrintT(<<"OBSVIOL", i, CheckOf(x)>>)
     ELSE /\ Say(\A d \in bad : ~KnownBom(x, d), <<"OBSKNOWN", i, CheckOf(x), KF_Bom>>)
          /\ Say(\A d \in bad : ~KnownProv(x, d) \/ KnownBom(x, d), <<"OBSKNOWN", i, CheckOf(x), KF_Prov>>)

JudgeRoundTrip(o) ==
  /\ \A n \in DOMAIN OpNames : JudgeOp(o, OpNames[n])
  \* files excluded by the ignore rules in effect never appear in the packaged archive
  /\ Say(\A pc \in SeqRange(o.pkgHas) : ~DefaultIgnoredClass(pc), <<"OBSVIOL", i, "C15_IgnoredAbsent">>)

\* a chart whose name or version is invalid is not packaged: error, and nothing left in the output directory
JudgeInvalid(o) ==
  Say(/\ o.saveErr /\ o.saveFiles = 0 /\ o.pkgErr /\ o.pkgFiles = 0 /\ o.pkgVerErr /\ o.pkgVerFiles = 0,
      <<"OBSVIOL", i, "C15_InvalidNotPackaged">>)

\* one Package value / one `helm package` command line for a list of charts: chart j comes out under ITS expected
\* version and appVersion (Archive!ExpPkgVersion / ExpPkgApp), in the file name and in the loaded metadata, and is
\* otherwise equal to what LoadDir makes of its directory; one archive per chart
JudgePkgList(o) ==
  LET c == o.list  n == Len(c.vers) IN
  /\ Say(Len(o.pkgList) = n /\ c \in PkgListCases, <<"OBSDIV", i, "pkglist-case-not-as-specified">>)
  /\ Say(/\ Len(o.pkgList) = n
         /\ o.pkgFiles = n
         /\ \A j \in 1..n : LET r == o.pkgList[j] IN
               /\ ~r.err /\ r.nameOk
               /\ r.fileVer = ExpPkgVersion(c, j) /\ r.metaVer = ExpPkgVersion(c, j)
               /\ r.metaApp = ExpPkgApp(c, j)
               /\ r.diffs = <<>>,
         <<"OBSVIOL", i, "C15_PackageList">>)

\* ignore rules over the documented syntax: the expected sets come from Archive!IgnoredSet on the case's rules
JudgeIgnore(o) ==
  LET rules == SeqRange(o.rules)
      dirN == SeqRange(o.dirNames)  archN == SeqRange(o.archNames)  pkgN == SeqRange(o.pkgNames)
      loadable == Loadable(rules)
  IN /\ Say(rules \subseteq RuleUniverse /\ archN = IgnUniverseFiles, <<"OBSDIV", i, "ignore-case-not-as-specified">>)
     /\ Say(loadable => (~o.dirErr /\ dirN = archN \ IgnoredSet(rules)), <<"OBSVIOL", i, "C15_DirVsArchive">>)
     /\ Say(pkgN \cap IgnoredSet(rules) = {}, <<"OBSVIOL", i, "C15_IgnoredAbsent">>)
     /\ Say(loadable => (~o.pkgErr /\ KeptSet(rules) \subseteq pkgN /\ o.pkgDiffer = <<>>), <<"OBSVIOL", i, "C15_Package">>)
     /\ Say(~loadable => o.pkgFiles = 0, <<"OBSVIOL", i, "C15_Package">>)

Judge15 ==
  LET o == Obs[i] IN
  IF o.genErr # "" THEN PrintT(<<"OBSDIV", i, "generated-chart-not-loadable">>)
  ELSE CASE o.fam = "roundtrip" -> JudgeRoundTrip(o)
         [] o.fam = "invalid" -> JudgeInvalid(o)
         [] o.fam = "ignore" -> JudgeIgnore(o)
         [] o.fam = "pkglist" -> JudgePkgList(o)
         [] OTHER -> PrintT(<<"OBSDIV", i, "unknown-family">>)

Judge == IF Family = "C16" THEN Judge16 ELSE Judge15
=============================================================================
