----------------------------- MODULE SchemaObs -----------------------------
(***************************************************************************)
(* C14 verdicts.  Reads the observations hv_deps recorded from the real     *)
(* code (obs.ndjson, one line per case: the final values of every enabled   *)
(* chart instance, the schema library's verdict on them, and for each of    *)
(* install / dry-run / template / upgrade / upgrade dry-run / lint, with and *)
(* without skip-schema-validation: error or not, the charts the error names, *)
(* the writes in the request log and the storage call log, whether the       *)
(* templates were rendered) and judges them with the predicates of C14.      *)
(* For a seeded share of the cases the same operations were also run through *)
(* the helm command line (pkg/cmd: cli-install, cli-dryrun, cli-template,    *)
(* cli-upgrade, cli-upinstall-empty, cli-upinstall-uninstalled, cli-lint;    *)
(* plain, with --skip-schema-validation, and with other flags that must not  *)
(* switch the gate off).  op.base is the action an operation dispatches to   *)
(* (Schema!Dispatch); only op.skip may change what is expected.              *)
(* History route (hist-<first>-<upgrade mode>, a seeded share + every case   *)
(* with invalid values): the release was made with values no schema judged   *)
(* (install with skip-schema-validation / of the schema-less chart of the    *)
(* same version) and is upgraded with NO new values in the default, reuse,   *)
(* reset-then-reuse and reset modes; the values in force are observed from a *)
(* twin of the upgrade (dry run, gate off) and judged like any others.       *)
(* The schemas are evaluated HERE (Schema!SchemaValid) on the observed       *)
(* final values, so the verdict does not depend on the coalescing model.     *)
(*                                                                           *)
(* One line is printed per failing check:                                    *)
(*   "OBSVIOL  <line> <check> <op> ;"       the property is violated         *)
(*   "OBSKNOWN <line> <check> <op> <id> ;"  ... in the shape of a known finding *)
(*   "OBSMACH  <line> <check> <op> ;"       the machinery cannot decide      *)
(***************************************************************************)
EXTENDS Integers, Sequences, FiniteSets, TLC, Json

S == INSTANCE Schema WITH Shapes <- <<>>, sh <- 0, asg <- <<>>

Obs == ndJsonDeserialize("obs.ndjson")

VARIABLE i

Rng(f) == {f[x] : x \in DOMAIN f}

RealModes == {"install", "dryrun", "upgrade", "upgradedry"}      \* those that talk to the cluster

CaseChecks(o) ==
  LET c   == S!CaseOfJ(o.case)
      En  == Rng(o.enabled)
      FinalAt(P) == Rng((CHOOSE f \in Rng(o.finals) : f.P = P).leaves)
      Inv == S!InvalidObserved(c, En, FinalAt)
      LibInv == {v.P : v \in {w \in Rng(o.lib) : ~w.valid}}
  IN <<
    \* the harness could prepare the case at all
    [n |-> "Prepared", kind |-> "mach", v |-> o.prepOk, kf |-> ""],
    \* the TLA+ evaluator and the schema library agree on every (schema, observed final values)
    [n |-> "EvalAgrees", kind |-> "mach",
     v |-> o.prepOk => (Inv = LibInv /\ o.odd = 0 /\ {w.P : w \in Rng(o.lib)} = {P \in En : S!SchemaOf(c, P) # <<>>}),
     kf |-> ""],
    \* the C14 space keeps enabling unambiguous: what is enabled is what the property says
    [n |-> "EnabledAsSpecified", kind |-> "mach", v |-> o.prepOk => En = S!ExpE(c), kf |-> ""] >>

OpChecks(o, k) ==
  LET c   == S!CaseOfJ(o.case)
      op  == o.ops[k]
      \* the values in force: the request's (observed once per case) or, on the history route, those the release
      \* history carries into this operation (observed from the operation's twin)
      En  == IF op.own THEN Rng(op.enabled) ELSE Rng(o.enabled)
      Fin == IF op.own THEN op.finals ELSE o.finals
      FinalAt(P) == Rng((CHOOSE f \in Rng(Fin) : f.P = P).leaves)
      Inv == S!InvalidObserved(c, En, FinalAt)
      rej == Inv # {} /\ ~op.skip
      crds == \E P \in En : c.charts[S!ChartAt(c, P)].crds
  IN <<
    \* invalid final values => the operation fails, and it is the schema that made it fail
    [n |-> "C14_Rejects", kind |-> "prop", v |-> rej => (~op.ok /\ op.schemaErr), kf |-> ""],
    \* ... with an error naming exactly the violating charts
    [n |-> "C14_Names", kind |-> "prop", v |-> (rej /\ op.schemaErr) => Rng(op.named) = {S!NameOf(P) : P \in Inv}, kf |-> ""],
    \* ... and nothing is sent to the cluster or stored
    [n |-> "C14_NoWrites", kind |-> "prop", v |-> rej => (op.writes = 0 /\ op.storeWrites = 0),
     kf |-> IF op.base = "install" /\ crds /\ op.crdWrites > 0 /\ op.writes = op.crdWrites /\ op.storeWrites = 0
            THEN "KF-L19-crds-installed-before-schema-gate" ELSE ""],
    \* ... and nothing was rendered
    [n |-> "C14_NotRendered", kind |-> "prop", v |-> rej => op.renders = 0, kf |-> ""],
    \* all schemas satisfied => the schema step never rejects (a disabled dependency has no final values: its schema is not applied)
    [n |-> "C14_Accepts", kind |-> "prop", v |-> Inv = {} => ~op.schemaErr,
     \* known: helm lint's values.yaml rule validates the root schema against the root chart's own values file
     \* merged with the user values only (no subchart defaults, no globals): it can reject valid final values
     kf |-> IF op.base = "lint" /\ Rng(op.named) = {} /\ S!SchemaOf(c, <<>>) # <<>>
               /\ ~S!SchemaValid(S!SchemaOf(c, <<>>), S!Merge(S!UserVals(c), S!Defaults(c, S!RootChart)))
            THEN "KF-C14-lint-values-rule-ignores-subchart-defaults" ELSE ""],
    \* the explicit option skips the gate of install / upgrade / template
    [n |-> "C14_SkipOption", kind |-> "prop", v |-> (op.skip /\ op.base # "lint") => ~op.schemaErr, kf |-> ""],
    \* machinery: the harness labelled the operation with the action the specification says it dispatches to
    [n |-> "KnownOp", kind |-> "mach", v |-> op.mode \in S!AllModes /\ op.base = S!Dispatch(op.mode), kf |-> ""],
    \* machinery (history route): the twin showed the values in force, and evaluator and library agree on them
    [n |-> "TwinRuns", kind |-> "mach", v |-> op.own => op.twinOk, kf |-> ""],
    [n |-> "EvalAgreesOp", kind |-> "mach",
     v |-> (op.own /\ op.twinOk) => (Inv = {w.P : w \in {x \in Rng(op.lib) : ~x.valid}} /\ op.odd = 0), kf |-> ""],
    \* machinery: operations that the gate lets pass succeed, and a render is visible in the request log
    [n |-> "OpRuns", kind |-> "mach", v |-> (Inv = {} \/ (op.skip /\ op.base # "lint")) => (op.ok \/ op.schemaErr), kf |-> ""],
    [n |-> "ProbeLive", kind |-> "mach", v |-> (op.ok /\ op.base \in RealModes) => op.renders >= 1, kf |-> ""] >>

Tag(ch) == IF ch.kind = "mach" THEN "OBSMACH" ELSE IF ch.kf # "" THEN "OBSKNOWN" ELSE "OBSVIOL"

ReportSeq(line, chs, k) ==
  \A j \in DOMAIN chs : IF chs[j].v THEN TRUE ELSE PrintT(Tag(chs[j]) \o " " \o ToString(line) \o " " \o chs[j].n \o " " \o ToString(k) \o " " \o chs[j].kf \o " ;")

Report(line) ==
  LET o == Obs[line] IN
  /\ ReportSeq(line, CaseChecks(o), 0)
  /\ IF o.prepOk THEN \A k \in DOMAIN o.ops : ReportSeq(line, OpChecks(o, k), k) ELSE TRUE

Init == i = 0
Next == i < Len(Obs) /\ i' = i + 1 /\ Report(i + 1)
Spec == Init /\ [][Next]_i

Done == TLCGet("stats").diameter = Len(Obs) + 1
=============================================================================
