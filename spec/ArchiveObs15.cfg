CONSTANTS
  ObsFile = "c15_obs.ndjson"
  Family = "C15"
  MaxComps = 3
  MixedUpTo = 3
  SecureJoinOn = TRUE
  FLim = 4096
  TLim = 6000
  Huge = 1000000
SPECIFICATION Spec
INVARIANT Judge
CHECK_DEADLOCK FALSE
