SPECIFICATION Spec
CONSTANTS
  Names = {"n1", "n2"}
  Revs = {1, 2, 3}
  Statuses = {"deployed", "superseded", "failed"}
  Variants = {1, 2}
  Menu <- FullMenu
VIEW KVView
INVARIANTS TypeOK KeyIsBody
PROPERTIES P_ReplyType P_FailedUnchanged P_ReadsUnchanged P_Frame P_Create P_Update P_Modify P_Get P_Delete P_Query P_List
CHECK_DEADLOCK FALSE
