SPECIFICATION Spec
CONSTANTS
  Big = FALSE
INVARIANTS Total ErrorOnlyForJobs
CHECK_DEADLOCK FALSE
