SPECIFICATION Spec
CONSTANTS
  Repos <- ReposQuick
  Paths <- PathsAll
  Variants <- VariantsAll
  Redirects = {FALSE, TRUE}
  PullGated = TRUE
  TLSKinds = {"none", "ca"}
INVARIANTS Inv_CredsStrict Inv_WrittenImpliesOrigin
CHECK_DEADLOCK FALSE
