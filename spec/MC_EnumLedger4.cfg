SPECIFICATION Spec
CONSTANTS
  Procs = {1}
  MaxRev = 10
  MaxOps = 4
  MaxFaults = 0
  MaxCrash = 0
  MaxEdits = 0
  FaultKinds = {}
  Sequential = TRUE
  Planned = FALSE
  MaxPlan = 36
  InitStores <- StoresEmpty
  LateStart = FALSE
  LogSched = FALSE
  KeepLog = FALSE
  OpMenu <- MenuLedgerEnum
  EditMenu <- EditsNone
  PreMenu <- PreBy
  Objs <- AllObjs
  MenuGuard <- GuardTrue
CONSTRAINT GenExport
CHECK_DEADLOCK FALSE
