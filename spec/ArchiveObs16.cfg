CONSTANTS
  ObsFile = "c16_obs.ndjson"
  Family = "C16"
  MaxComps = 3
  MixedUpTo = 3
  SecureJoinOn = TRUE
  FLim = 4096
  TLim = 6000
  Huge = 1000000
SPECIFICATION Spec
INVARIANT Judge
CHECK_DEADLOCK FALSE
