SPECIFICATION TraceSpec
CONSTANTS
  Procs = {1, 2, 3}
  MaxRev = 34
  MaxOps = 1000
  MaxFaults = 1000
  MaxCrash = 1000
  MaxEdits = 1000
  FaultKinds = {"res", "wait", "store"}
  Sequential = FALSE
  OpMenu = {}
  EditMenu = {}
  PreMenu = {}
  Objs <- TObjs
  Planned = FALSE
  MaxPlan = 36
  InitStores = {}
  LateStart = FALSE
  LogSched = FALSE
  KeepLog = FALSE
  MenuGuard <- TGuard
VIEW TView
POSTCONDITION TraceAccepted
CHECK_DEADLOCK FALSE
