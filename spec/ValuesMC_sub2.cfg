SPECIFICATION Spec
CONSTANTS
  Family = "sub2"
  Full = FALSE
  SetPairs = FALSE
CONSTRAINT ExportBatch
CHECK_DEADLOCK FALSE
