SPECIFICATION Spec
CONSTANTS
  Family = "sub3"
  Full = FALSE
  SetPairs = FALSE
CONSTRAINT ExportBatch
CHECK_DEADLOCK FALSE
