----------------------------- MODULE MC_Storage -----------------------------
(***************************************************************************)
(* Model-checking configurations of Storage.tla.                           *)
(*   MC_Storage.cfg           exhaustive, every call of AllCalls, variants {1}    *)
(*   MC_Storage_thorough.cfg  exhaustive, every call of AllCalls, variants {1,2}  *)
(* Menus for the generators (MC_GenStorage, MC_EnumStorage) are defined    *)
(* here as well, so that every configuration draws from one alphabet.      *)
(***************************************************************************)
EXTENDS Storage

FullMenu == AllCalls

Q(n, o, s, v) == [name |-> n, owner |-> o, status |-> s, version |-> v]

\* the selector shapes pkg/storage/storage.go issues (History, DeployedAll) plus single-label,
\* version, foreign-owner and empty selectors
GenSels ==
     {Q(n, "helm", "", "") : n \in Names}
  \cup {Q(n, "helm", s, "") : n \in Names, s \in Statuses}
  \cup {Q(n, "", "", ToString(r)) : n \in Names, r \in Revs}
  \cup {Q("", "helm", "", ""), Q("", "other", "", ""), Q("", "", "", "")}
  \cup {Q("", "", s, "") : s \in Statuses}
  \cup {Q("", "helm", "", ToString(r)) : r \in Revs}

GenFilters ==
     {Q("", "", "", "")}
  \cup {Q("", "", s, "") : s \in Statuses}
  \cup {Q(n, "", "", "") : n \in Names}

\* generator alphabet: all writes and point reads, the list filters, the selector shapes above
GenMenu == Creates \cup Updates \cup Gets \cup Deletes \cup Modifies
           \cup {MkCall("list", "", 0, "", 0, q) : q \in GenFilters}
           \cup {MkCall("query", "", 0, "", 0, q) : q \in GenSels}

\* alphabet of the exhaustive enumeration of short sequences: one name with two revisions, a second
\* name with one, two statuses, one variant (plus the second variant on update), the whole-store reads
N1 == "n1"
N2 == "n2"
ASSUME {N1, N2} \subseteq Names
S1 == "deployed"
S2 == "superseded"
EnumMenu ==
  {MkCall("create", N1, 1, S1, 1, NoSel), MkCall("create", N1, 2, S1, 1, NoSel), MkCall("create", N2, 1, S2, 1, NoSel),
   MkCall("update", N1, 1, S2, 2, NoSel), MkCall("update", N1, 2, S2, 1, NoSel), MkCall("update", N2, 1, S1, 2, NoSel),
   MkCall("get", N1, 1, "", 0, NoSel), MkCall("get", N1, 2, "", 0, NoSel), MkCall("get", N2, 1, "", 0, NoSel),
   MkCall("delete", N1, 1, "", 0, NoSel), MkCall("delete", N1, 2, "", 0, NoSel), MkCall("delete", N2, 1, "", 0, NoSel),
   MkCall("modify", N1, 1, S2, 0, Q(N1, "helm", "", "")),
   MkCall("list", "", 0, "", 0, NoSel),
   MkCall("query", "", 0, "", 0, Q(N1, "helm", "", "")),
   MkCall("query", "", 0, "", 0, Q(N1, "helm", S1, "")),
   MkCall("query", "", 0, "", 0, Q("", "helm", "", "1"))}
=============================================================================
