------------------------------ MODULE ValuesObs ------------------------------
(***************************************************************************)
(* C04 verdict.  cases.ndjson: the cases TLC enumerated (ValuesMC);         *)
(* obs.ndjson: what the real code did for each of them, same order          *)
(* (harness/fam/values/c04.go).  Every check is a predicate of ValuesProps  *)
(* / Values / ValuesSet evaluated on the OBSERVED values; a failing check   *)
(* prints one OBSVIOL line and the run goes on.                             *)
(***************************************************************************)
EXTENDS ValuesProps, Json

Cases == ndJsonDeserialize("cases.ndjson")
Obs   == ndJsonDeserialize("obs.ndjson")

\* JSON -> the case record of ValuesProps
CaseOfJ(j) == [charts |-> [i \in DOMAIN j.charts |-> [name |-> j.charts[i].name, vals |-> j.charts[i].vals.m]],
               files |-> [i \in DOMAIN j.files |-> j.files[i].m],
               usr |-> j.usr]

IsSetFam(j) == j.fam = "set"
SetExp(j) == SetExpected(j.files[1].m, [asgs |-> j.asgs])

EchoOK(j, o) ==
  /\ o.id = j.id
  /\ o.echo.files = j.files
  /\ Len(o.echo.charts) = Len(j.charts)
  /\ \A i \in DOMAIN j.charts : o.echo.charts[i].name = j.charts[i].name /\ o.echo.charts[i].vals = j.charts[i].vals

\* --- the checks: name, applicable?, holds? ---------------------------------------------
\* nothing of the real code may panic
P_NoPanic(j, o) == o.panic = ""

\* user-level values (Options.MergeValues): a refusal only where the property allows one
P_Refusal(j, o) ==
  ~o.merge.ok => IF IsSetFam(j) THEN SetExp(j).conflict ELSE RefusalAllowedUser(CaseOfJ(j))

\* --set changes exactly the path it names
P_SetPath(j, o) == (IsSetFam(j) /\ o.merge.ok) => o.merge.v = Mp(SetExp(j).v)

\* flag-family / file precedence at user level
P_UserPrecedence(j, o) == (~IsSetFam(j) /\ o.merge.ok) => UserOk(CaseOfJ(j), o.merge.v)

Judged(j, o) == ~IsSetFam(j) /\ o.merge.ok /\ ~SubKeyClobbered(CaseOfJ(j))

\* coalescing refuses only where a subchart's key was clobbered
P_CoalesceRefusal(j, o) == Judged(j, o) => (o.root.ok /\ o.coal.ok /\ o.render.ok)

\* ToRenderValues(...)["Values"], CoalesceValues: highest-precedence source per path
P_RootPrecedence(j, o) ==
  (Judged(j, o) /\ o.root.ok /\ o.coal.ok) => (RootOk(CaseOfJ(j), o.root.v) /\ RootOk(CaseOfJ(j), o.coal.v))

\* what the probe template of every chart level saw
P_ScopePrecedence(j, o) ==
  (Judged(j, o) /\ o.root.ok /\ o.render.ok) =>
     \A i \in 1..Len(j.charts) : ScopeOk(CaseOfJ(j), i, o.scopes[i])

\* an explicit null removes the key that the chart's own values.yaml defines
P_NullRemovesKey(j, o) ==
  (Judged(j, o) /\ o.root.ok /\ o.render.ok) =>
     /\ NullRemovesKey(CaseOfJ(j), 1, o.root.v)
     /\ \A i \in 1..Len(j.charts) : NullRemovesKey(CaseOfJ(j), i, o.scopes[i])

\* the same inputs typed on a real `helm template` command line (pkg/cmd flag parsing included):
\* every chart level's templates see the values the property demands; the command fails only
\* where a refusal is allowed
P_CommandLine(j, o) ==
  o.cli.ran =>
    IF ~o.cli.ok THEN RefusalAllowedUser(CaseOfJ(j))
    ELSE \A i \in 1..Len(j.charts) : ScopeOk(CaseOfJ(j), i, o.cli.scopes[i])

\* chart defaults and the caller's maps are unmodified
P_InputsUnmodified(j, o) == o.merge.ok => o.unmod.ok

Checks(j, o) == <<
  [n |-> "C04_NoPanic",           v |-> P_NoPanic(j, o)],
  [n |-> "C04_Refusal",           v |-> P_Refusal(j, o)],
  [n |-> "C04_SetPath",           v |-> P_SetPath(j, o)],
  [n |-> "C04_UserPrecedence",    v |-> P_UserPrecedence(j, o)],
  [n |-> "C04_CoalesceRefusal",   v |-> P_CoalesceRefusal(j, o)],
  [n |-> "C04_RootPrecedence",    v |-> P_RootPrecedence(j, o)],
  [n |-> "C04_ScopePrecedence",   v |-> P_ScopePrecedence(j, o)],
  [n |-> "C04_NullRemovesKey",    v |-> P_NullRemovesKey(j, o)],
  [n |-> "C04_CommandLine",       v |-> P_CommandLine(j, o)],
  [n |-> "C04_InputsUnmodified",  v |-> P_InputsUnmodified(j, o)] >>

\* The cases are consumed in chunks of Chunk lines, one chain of states per chunk, so that several
\* TLC workers share the work; every line is evaluated exactly once (state l = "lines 1..l of the
\* current chunk done"; a chain that reaches the start state of the next chunk stops there because
\* that state has been seen).
Chunk == 500
VARIABLE l
Init == l \in {k * Chunk : k \in 0..(Len(Obs) \div Chunk)}
Report(i) ==
  LET j  == Cases[i]
      o  == Obs[i]
      cs == Checks(j, o) IN
  IF ~EchoOK(j, o) THEN PrintT(<<"OBSECHO", i, j.id>>)
  ELSE \A x \in DOMAIN cs : IF cs[x].v THEN TRUE ELSE PrintT(<<"OBSVIOL", i, cs[x].n, j.id>>)
Next == /\ l < Len(Obs)
        /\ l' = l + 1
        /\ Report(l + 1)
Spec == Init /\ [][Next]_l
Done == Len(Obs) = Len(Cases) /\ TLCGet("distinct") = Len(Obs) + 1
=============================================================================
