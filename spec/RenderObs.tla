------------------------------ MODULE RenderObs ------------------------------
(***************************************************************************)
(* Monitor for C05 and C08: reads the observations the Go harness recorded *)
(* from the REAL code (loader, engine.Render, action.Install dry-run,       *)
(* releaseutil.SortManifests, uninstall on the simulated cluster) and      *)
(* judges every one with the predicates / the reference function F of      *)
(* RenderBase.  No model action is involved: one step = one observation.   *)
(*                                                                         *)
(* A failing check prints  <<"OBSVIOL", line, name>>;  when the failure    *)
(* has exactly the shape of a known finding (the model itself is not a     *)
(* function of its input there) it prints <<"OBSKNOWN", line, name, id>>.  *)
(***************************************************************************)
EXTENDS RenderBase, Json

CONSTANTS ObsFile, MetaFile

Obs  == ndJsonDeserialize(ObsFile)
Meta == ndJsonDeserialize(MetaFile)[1]

VARIABLE l

\* the tables of the code are the tables of the specification
MetaOK == /\ Meta.paths = PathName
          /\ Meta.installOrder = InstallOrder
          /\ Meta.uninstallOrder = UninstallOrder

ManProj(s)  == [j \in DOMAIN s |-> [p |-> s[j].p, i |-> s[j].i, v |-> s[j].v]]
HookProj(s) == [j \in DOMAIN s |-> [p |-> s[j].p, i |-> s[j].i, v |-> s[j].v, ev |-> s[j].ev, w |-> s[j].w, pol |-> s[j].pol]]

\* equality of an observed with an expected document list; payload "*" = not judged (DNS enabled)
SameDocs(o, r) ==
  /\ Len(o) = Len(r)
  /\ \A j \in DOMAIN o : LET a == o[j]  b == r[j] IN
       IF b.v = "*" THEN [a EXCEPT !.v = "*"] = b ELSE a = b

\* the harness leaves out output chunks that hold no YAML at all (comment-only documents, stray markers)
NoComments(c, s) == SelectSeq(s, LAMBDA e : <<e.p, e.i>> \notin CommentIds(c))

EngineKeys(c) == SortInts(AnySeq(TplPaths(c) \cup Range(c.notes)))

Checks(x) ==
  LET c == x.case
      o == x.obs
      r == F(c)
      man == Ids(o.manifest)
      hks == Ids(o.hooks)
      render == c.fam # "schema"
      ok == o.err = "none"
  IN <<
  (* ---- C05: determinism ------------------------------------------------------------- *)
  [n |-> "C05_Det_Manifest", v |-> render => (o.dManifest = 1 /\ o.dErr = 1)],
  [n |-> "C05_Det_Hooks",    v |-> render => o.dHooks = 1],
  [n |-> "C05_Det_Engine",   v |-> render => o.dEngine <= 1],
  [n |-> "C05_Det_Notes",    v |-> render => o.dNotes = 1],
  [n |-> "C05_Det_Crds",     v |-> render => o.dCrds <= 1],
  [n |-> "C05_CrdBodySame",  v |-> render => o.crdBodySame],
  (* ---- C05: the observed output is the specification's -------------------------------- *)
  [n |-> "C05_Eq_Err",       v |-> render => (o.err = r.err /\ (o.err \in {"parse", "exec"} => o.errAt = r.errAt))],
  [n |-> "C05_Det_ErrText",  v |-> render => o.dErrText <= 1],
  \* renders that REUSE one loaded chart object (sequentially, concurrently) equal the first render of a fresh one
  [n |-> "C05_Reuse_Same",   v |-> render => o.reuseSame],
  \* a render through the cluster-connected route (RESTClientGetter set, --dry-run=server) equals the client-only one
  [n |-> "C05_Route_Same",   v |-> render => o.routeSame],
  \* the second render through ONE action.Configuration (the first had --kube-version / --api-versions) equals a render through a fresh one
  \* the helm COMMAND LINE (template / install / upgrade / upgrade --install of a missing release, unrelated flags set,
  \* --enable-dns exactly when the case has it) records the documents of the SDK render: no flag but --enable-dns turns DNS on
  [n |-> "C05_CLI_Same",     v |-> render => o.cliSame],
  [n |-> "C05_CfgReuse_Same", v |-> render => o.cfgReuseSame],
  \* overlapping client-only renders with one --api-versions entry each see their own entry and nobody else's
  [n |-> "C05_CapsConc_Same", v |-> render => o.capsConcSame],
  [n |-> "C05_Eq_Manifest",  v |-> (render /\ ok) => SameDocs(ManProj(o.manifest), NoComments(c, r.manifest))],
  [n |-> "C05_Eq_Hooks",     v |-> (render /\ ok) => SameDocs(HookProj(o.hooks), r.hooks)],
  \* (where several NOTES.txt are joined, any FIXED order satisfies the property: which one is C05_Det_Notes' business)
  [n |-> "C05_Eq_Notes",     v |-> (render /\ ok) => o.notes \in PossibleNotes(c)],
  [n |-> "C05_Eq_Crds",      v |-> (render /\ ok /\ o.dCrds > 0) => o.crds \in PossibleCrds(c) \cup {r.crds}],
  [n |-> "C05_Eq_Engine",    v |-> (render /\ ok /\ o.dEngine > 0) => o.engine = EngineKeys(c)],
  (* ---- C05: the schema outcome does not depend on a file outside the chart ------------ *)
  [n |-> "C05_Schema_Isolated", v |-> ~render => (\A a, b \in DOMAIN o.schema : o.schema[a] = o.schema[b]) /\ o.dErr <= 1],
  \* validating a schema sends no request anywhere (the harness' loopback listener, named by an absolute http "$ref", got none)
  [n |-> "C05_Schema_NoRequest", v |-> ~render => o.httpHits = 0],
  [n |-> "C05_Schema_Outcome", v |-> ~render => (Len(o.schema) = 3 /\ (c.schema = "local" => \A a \in DOMAIN o.schema : o.schema[a] = "accept"))],
  (* ---- C08: every document in exactly one place, in order ----------------------------- *)
  \* NOTES.txt (at any depth) and partials neither reach the manifest nor make the operation fail
  \* nothing is lost under --no-hooks: a dry run with DisableHooks (client-only and through a cluster connection) still lists every hook
  [n |-> "C08_NoHooks_Same", v |-> render => o.noHooksSame],
  [n |-> "C08_NoFailure",    v |-> (render /\ r.err = "none") => (ok /\ o.uninstErr = "")],
  [n |-> "C08_Partition",    v |-> (render /\ ok) => C08_Partition(c, man, hks)],
  [n |-> "C08_Classes",      v |-> (render /\ ok) => C08_Classes(c, man, hks)],
  [n |-> "C08_NothingElse",  v |-> (render /\ ok) => C08_NothingElse(c, man, hks)],
  [n |-> "C08_Unaltered",    v |-> (render /\ ok) => (\A j \in DOMAIN o.manifest : o.manifest[j].same) /\ (\A j \in DOMAIN o.hooks : o.hooks[j].same)],
  [n |-> "C08_Order",        v |-> (render /\ ok) => C08_Order(c, man, hks)],
  [n |-> "C08_HookFields",   v |-> (render /\ ok /\ Range(hks) \subseteq HookIds(c)) =>
                                     \A j \in DOMAIN o.hooks : LET cl == DocAt(c, hks[j]).c IN
                                        o.hooks[j].ev = HookEv(cl) /\ o.hooks[j].w = HookW(cl) /\ o.hooks[j].pol = HookPol(cl)],
  [n |-> "C08_UninstallOrder", v |-> (\A j \in DOMAIN o.uninst : o.uninst[j] \in KindUniverse) /\ C08_UninstallOrder(o.uninst)],
  [n |-> "C08_UninstallAll", v |-> (render /\ ok /\ o.uninst # <<>>) => Len(o.uninst) = Cardinality({id \in PlainIds(c) : DocAt(c, id).c = "plain"})]
  >>

\* the failures that have exactly the shape of a known finding: the case is one on which the faithful
\* model is not a function of its input, and what was seen is within what the model can produce
Known(n, x) ==
  LET c == x.case  o == x.obs IN
  CASE n = "C05_Det_Crds" ->
         \* Chart.CRDObjects walks ch.Files in LOAD order: the chunks of the files under crds/ of ONE chart follow the order
         \* in which the chart's files were loaded. Known exactly when nothing else differs: the charts come in one order and
         \* the CRD parts are equal once the chunks of each chart are put in sorted order (the parent has two files under crds/)
         [k |-> "p" \in Range(c.crds) /\ o.dCrdsCanon = 1 /\ Cardinality(Range(o.crdsSeen)) = 1, kf |-> "KF-L30-crd-order-follows-file-load-order"]
    [] n = "C05_Schema_Isolated" ->
         [k |-> KnownSchemaShape(c) /\ Range(o.schema) \subseteq {"accept", "reject", "error"}, kf |-> "KF-L8-schema-ref-reads-host-files"]
    [] OTHER -> [k |-> FALSE, kf |-> ""]

Report(i) ==
  LET cs == Checks(Obs[i]) IN
  \A j \in DOMAIN cs :
    IF cs[j].v THEN TRUE
    ELSE IF Known(cs[j].n, Obs[i]).k THEN PrintT(<<"OBSKNOWN", i, cs[j].n, Known(cs[j].n, Obs[i]).kf>>)
    ELSE PrintT(<<"OBSVIOL", i, cs[j].n>>)

Init == l = 0 /\ (IF MetaOK THEN TRUE ELSE PrintT(<<"OBSMETA", "tables of the code differ from the specification">>))
Next == /\ l < Len(Obs)
        /\ l' = l + 1
        /\ Report(l + 1)
        /\ (IF l + 1 = Len(Obs) THEN PrintT(<<"OBSDONE", l + 1>>) ELSE TRUE)
Spec == Init /\ [][Next]_l
=============================================================================
