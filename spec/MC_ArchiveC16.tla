--------------------------- MODULE MC_ArchiveC16 ---------------------------
(* C16: exhaustive exploration of the path / size semantics of Archive.tla  *)
(* over the whole bounded case space, and export of every case (with the    *)
(* class the property demands and the model's own outcome) for the harness. *)
EXTENDS Archive, Json

CONSTANTS SizeEntries     \* files besides Chart.yaml in a size stream

Cases == CasesExtract \cup CasesExpand \cup CasesExpandName \cup CasesLoad \cup CasesSize(SizeEntries)
         \cup CasesLock \cup CasesTwo

VARIABLE s

Init == \E c \in Cases : s = Start(c)
Next == s.pc # "done" /\ s' = Step(s)
Spec == Init /\ [][Next]_s

InvConfined   == Confined(s) \/ KnownL11(s)
InvConfinedAlways == ConfinedAlways(s) \/ KnownL11(s)
InvNames      == NamesClean(s)
InvSizeReject == SizeRejected(s)
InvSizeBound  == SizeBounded(s)
\* the step function and its iteration agree (Run is what gets exported)
InvRun        == s.pc = "done" => Run(s.c) = s

(* ----- export ----------------------------------------------------------- *)
CaseSeq == SetToSeq(Cases)
PathsOf(t) == SetToSeq({[p |-> x.p, t |-> x.t] : x \in t})
Exported(i) ==
  LET c == CaseSeq[i]  r == Run(c) IN
  [id |-> i, fam |-> c.fam, op |-> c.op, stream |-> c.stream, layout |-> c.layout, cname |-> c.cname, api |-> c.api,
   lock |-> c.lock, flim |-> FLim, tlim |-> TLim,
   expect |-> "error-or-confined",
   spec |-> [err |-> r.res = "err", touched |-> PathsOf(r.w.touched), names |-> SetToSeq(r.names), kf |-> SetToSeq(r.kf)]]
Export == ndJsonSerialize("c16_cases.ndjson", [i \in 1..Len(CaseSeq) |-> Exported(i)])
ASSUME Export
ASSUME PrintT(<<"C16CASES", Cardinality(Cases)>>)
=============================================================================
