--------------------------- MODULE MC_ArchiveC16 ---------------------------
(* C16: exhaustive exploration of the path / size semantics of Archive.tla  *)
(* over the whole bounded case space, and export of every case (with the    *)
(* class the property demands and the model's own outcome) for the harness. *)
EXTENDS Archive, Json

CONSTANTS SizeEntries     \* files besides Chart.yaml in a size stream

\* the case space: the families are disjoint (field fam), so they are concatenated rather than united
\* (TLC's union of two large enumerated sets is quadratic); a case is addressed by its index = its id
CaseSeq == SetToSeq(CasesLock) \o SetToSeq(CasesTwo) \o SetToSeq(CasesSizeRead) \o SetToSeq(CasesDownload)
           \o SetToSeq(CasesSize(SizeEntries)) \o SetToSeq(CasesExpandName)
           \o SetToSeq(CasesLoad) \o SetToSeq(CasesExtract) \o SetToSeq(CasesExpand)

VARIABLE s

Init == \E i \in 1..Len(CaseSeq) : s = Start(CaseSeq[i])
Next == s.pc # "done" /\ s' = Step(s)
Spec == Init /\ [][Next]_s

InvConfined   == Confined(s)
InvConfinedAlways == ConfinedAlways(s)
InvNames      == NamesClean(s)
InvSizeReject == SizeRejected(s)
InvSizeBound  == SizeBounded(s)
InvNoOversizeBody == NoOversizeBody(s)
\* the step function and its iteration agree (Run is what gets exported)
InvRun        == s.pc = "done" => Run(s.c) = s

(* ----- export ----------------------------------------------------------- *)
PathsOf(t) == SetToSeq({[p |-> x.p, t |-> x.t] : x \in t})
Exported(i) ==
  LET c == CaseSeq[i]  r == Run(c) IN
  [id |-> i, fam |-> c.fam, op |-> c.op, stream |-> c.stream, layout |-> c.layout, cname |-> c.cname, api |-> c.api,
   lock |-> c.lock, flim |-> FLim, tlim |-> TLimOf(c),
   expect |-> "error-or-confined",
   spec |-> [err |-> r.res = "err", touched |-> PathsOf(r.w.touched), names |-> SetToSeq(r.names)]]
Export == ndJsonSerialize("c16_cases.ndjson", [i \in 1..Len(CaseSeq) |-> Exported(i)])
ASSUME Export
ASSUME PrintT(<<"C16CASES", Len(CaseSeq)>>)
=============================================================================
