---------------------------- MODULE MC_GenStorage ----------------------------
(***************************************************************************)
(* Generator: behaviours of Storage.tla exported as call sequences for the *)
(* Go harness (hv_storage), each call with the status the specification    *)
(* replies.  Two uses of the same module:                                  *)
(*   MC_EnumStorage*.cfg  (SPECIFICATION EnumSpec, breadth-first, Menu <-   *)
(*        EnumMenu): EVERY call sequence of length MaxLen over the small    *)
(*        alphabet - the history is part of the state, so each sequence is  *)
(*        one state, generated exactly once;                                *)
(*   MC_GenStorage*.cfg   (SPECIFICATION GenSpec, -simulate -seed S):       *)
(*        random behaviours of length MaxLen over the full key space; the   *)
(*        calls are offered in classes (hit / miss of every operation) so   *)
(*        that both are taken often (all are steps of Storage!Next).        *)
(* A behaviour is written when its final "done" step is taken (in           *)
(* simulation mode TLC evaluates the constraint on every candidate          *)
(* successor, so the export must hang on a step that has no sibling).       *)
(* Run with -workers 1 (the counter lives in TLC register 1).               *)
(***************************************************************************)
EXTENDS MC_Storage, Json

CONSTANT MaxLen

VARIABLES hist, done
gvars == <<kv, last, reply, hist, done>>

ASSUME TLCSet(1, 0)

GenInit == Init /\ hist = <<>> /\ done = FALSE

Record == hist' = Append(hist, [c |-> last', exp |-> reply'.st])

Finish ==
  /\ Len(hist) = MaxLen
  /\ ~done
  /\ done' = TRUE
  /\ UNCHANGED <<kv, last, reply, hist>>

EnumNext ==
  \/ Len(hist) < MaxLen /\ Next /\ Record /\ done' = FALSE
  \/ Finish

\* The random generator offers the calls in classes (hits and misses of every operation), one
\* disjunct per class, so that a random walk takes them about equally often; every class is a set
\* of steps of Storage!Next.
Present(s, c) == s[KeyOf(c)] # NoEntry
Do(C) == Len(hist) < MaxLen /\ (\E c \in C : Step(c)) /\ Record /\ done' = FALSE
\* (calls on the EMPTY store other than create are covered by the exhaustive enumeration)
NonEmpty == Dom(kv) # {}
Hits(c) == Apply(kv, c).reply.set # {}

GCreateNew  == Do({c \in Creates : ~Present(kv, c)})
GCreateDup  == Do({c \in Creates : Present(kv, c)})
GUpdateHit  == Do({c \in Updates : Present(kv, c)})
GUpdateMiss == NonEmpty /\ Do({c \in Updates : ~Present(kv, c)})
GModifyHit  == Do({c \in Modifies : Present(kv, c)})
GModifyMiss == NonEmpty /\ Do({c \in Modifies : ~Present(kv, c)})
GGetHit     == Do({c \in Gets : Present(kv, c)})
GGetMiss    == NonEmpty /\ Do({c \in Gets : ~Present(kv, c)})
GDeleteHit  == Do({c \in Deletes : Present(kv, c)})
GDeleteMiss == NonEmpty /\ Do({c \in Deletes : ~Present(kv, c)})
GListHit    == Do({c \in GenMenu : c.op = "list" /\ Hits(c)})
GListMiss   == NonEmpty /\ Do({c \in GenMenu : c.op = "list" /\ ~Hits(c)})
GQueryHit   == Do({c \in GenMenu : c.op = "query" /\ Hits(c)})
GQueryMiss  == NonEmpty /\ Do({c \in GenMenu : c.op = "query" /\ ~Hits(c)})

GenNext ==
  \/ GCreateNew \/ GCreateNew \/ GCreateDup
  \/ GUpdateHit \/ GUpdateMiss
  \/ GModifyHit \/ GModifyHit \/ GModifyMiss
  \/ GGetHit \/ GGetMiss
  \/ GDeleteHit \/ GDeleteMiss
  \/ GListHit \/ GListMiss \/ GQueryHit \/ GQueryMiss
  \/ Finish

EnumSpec == GenInit /\ [][EnumNext]_gvars
GenSpec  == GenInit /\ [][GenNext]_gvars

GenExport ==
  IF done
  THEN /\ TLCSet(1, TLCGet(1) + 1)
       /\ JsonSerialize("gen/s" \o ToString(TLCGet(1)) \o ".json", [n |-> TLCGet(1), calls |-> hist])
  ELSE TRUE
=============================================================================
