---------------------------- MODULE MC_GenStorage ----------------------------
(***************************************************************************)
(* Generator: behaviours of Storage.tla exported as call sequences for the *)
(* Go harness (hv_storage), each call with the reply the specification     *)
(* gives it.  Two uses of the same module:                                  *)
(*   MC_EnumStorage*.cfg  breadth-first, Menu <- EnumMenu: EVERY call        *)
(*                        sequence of length MaxLen over the small alphabet *)
(*                        (the history is part of the state, so each        *)
(*                        sequence is one state, generated exactly once);   *)
(*   MC_GenStorage*.cfg   -simulate -seed S, Menu <- GenMenu: random         *)
(*                        behaviours of length MaxLen over the full key     *)
(*                        space.                                            *)
(* Run with -workers 1 (the counter lives in TLC register 1).               *)
(***************************************************************************)
EXTENDS MC_Storage, Json

CONSTANT MaxLen

VARIABLE hist
gvars == <<kv, last, reply, hist>>

ASSUME TLCSet(1, 0)

GenInit == Init /\ hist = <<>>

GenNext ==
  /\ Len(hist) < MaxLen
  /\ Next
  /\ hist' = Append(hist, [c |-> last', exp |-> reply'.st])

GenSpec == GenInit /\ [][GenNext]_gvars

GenExport ==
  IF Len(hist) = MaxLen
  THEN /\ TLCSet(1, TLCGet(1) + 1)
       /\ JsonSerialize("gen/s" \o ToString(TLCGet(1)) \o ".json", [n |-> TLCGet(1), calls |-> hist])
  ELSE TRUE
=============================================================================
