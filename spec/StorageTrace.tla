---------------------------- MODULE StorageTrace ----------------------------
(***************************************************************************)
(* Trace validation for C10.  trace.ndjson is recorded by hv_storage from  *)
(* the REAL drivers (driver.Memory, driver.Secrets and driver.ConfigMaps   *)
(* over the simulated API server): per scenario and driver one "reset"     *)
(* line, then one line per call with the call, the reply the driver gave   *)
(* (error class, returned release, returned set - each release mapped back *)
(* to its abstract tuple through the digest of the property's projection)  *)
(* and the store projected after the call.                                 *)
(*                                                                         *)
(* A line is accepted iff it is a step of Storage!Next for the logged call *)
(* whose reply equals the logged reply and whose kv equals the logged      *)
(* store.  The whole file is accepted iff every line is (POSTCONDITION:     *)
(* the search depth equals the number of lines and no mismatch was         *)
(* counted).  A mismatching line is printed (MISMATCH, line, which part)   *)
(* and the rest of that scenario is skipped up to its next "reset", so one *)
(* TLC run reports every rejected trace of the file.  Run with -workers 1. *)
(***************************************************************************)
EXTENDS MC_Storage, Json

Trace == ndJsonDeserialize("trace.ndjson")

VARIABLES l,      \* next line to consume
          good    \* the current trace has matched so far
tvars == <<kv, last, reply, l, good>>

ASSUME TLCSet(2, 0)

Range(s) == {s[i] : i \in DOMAIN s}

(* ----- JSON -> abstract values ------------------------------------------- *)

RelOfJ(j)  == [name |-> j.name, rev |-> j.rev, st |-> j.st, v |-> j.v]
SelOfJ(j)  == [name |-> j.name, owner |-> j.owner, status |-> j.status, version |-> j.version]
CallOfJ(j) == MkCall(j.op, j.name, j.rev, j.st, j.v, SelOfJ(j.q))

KeyStr(k) == k.name \o "/" \o ToString(k.rev)

\* C10: "reading, updating or deleting a missing key FAILS and changes nothing": where the
\* specification answers "notfound" to get / update / delete / modify, any failure of the real driver is
\* that answer ("failed" = an error of another class than not-found); everywhere else the status
\* must be the specified one ("exists" is ErrReleaseExists, a query's "notfound" ErrReleaseNotFound).
StMatches(c, want, got) ==
  \/ got = want
  \/ (want = "notfound" /\ got = "failed" /\ c.op \in {"get", "update", "delete", "modify"})

\* the logged reply equals the specification's reply (sets compared as sets; no duplicates)
ReplyMatches(c, r, jr) ==
  /\ StMatches(c, r.st, jr.st)
  /\ RelOfJ(jr.ret) = r.ret
  /\ {RelOfJ(x) : x \in Range(jr.set)} = r.set
  /\ Len(jr.set) = Cardinality(r.set)

\* the logged store projection equals kv: same keys; under each key the release with that key;
\* and (where the backend exposes them: Secret / ConfigMap metadata) the four system labels
StoreMatches(s, js) ==
  /\ DOMAIN js = {KeyStr(k) : k \in Dom(s)}
  /\ \A k \in Dom(s) :
       LET j == js[KeyStr(k)] IN
       /\ RelOfJ(j) = s[k].rel
       /\ IF "lab" \in DOMAIN j THEN SelOfJ(j.lab) = s[k].labels ELSE TRUE

(* ----- consuming the trace ------------------------------------------------ *)

TraceInit ==
  /\ l = 2
  /\ Trace[1].ev = "reset"
  /\ good = TRUE
  /\ Init

Mismatch(what) ==
  /\ PrintT(<<"MISMATCH", l, what>>)
  /\ TLCSet(2, TLCGet(2) + 1)
  /\ good' = FALSE
  /\ UNCHANGED <<kv, last, reply>>

TraceNext ==
  /\ l <= Len(Trace)
  /\ l' = l + 1
  /\ LET e == Trace[l] IN
     IF e.ev = "reset"
     THEN kv' = EmptyKV /\ last' = NoCall /\ reply' = NoReply /\ good' = TRUE
     ELSE IF ~good
     THEN UNCHANGED <<kv, last, reply, good>>
     ELSE LET c == CallOfJ(e.call) IN
          IF c \notin AllCalls
          THEN Mismatch("call")
          ELSE LET a == Apply(kv, c) IN
               IF ~ReplyMatches(c, a.reply, e.reply) THEN Mismatch("reply")
               ELSE IF ~StoreMatches(a.kv, e.store) THEN Mismatch("store")
               ELSE Step(c) /\ good' = TRUE

TraceSpec == TraceInit /\ [][TraceNext]_tvars

\* depth of the search = number of lines consumed (TraceInit consumes line 1)
TraceAccepted ==
  LET d == TLCGet("stats").diameter IN
  IF d = Len(Trace) /\ TLCGet(2) = 0 THEN TRUE
  ELSE Print(<<"TRACE-REJECTED consumed", d, "of", Len(Trace), "mismatches", TLCGet(2)>>, FALSE)
=============================================================================
