------------------------------- MODULE Schema -------------------------------
(***************************************************************************)
(* C14: values that violate a chart's values.schema.json are never          *)
(* rendered or deployed.                                                     *)
(*                                                                           *)
(*  - SchemaValid(S, v): an evaluator, written in TLA+, of a mini JSON-schema *)
(*    family {type, required, enum, minimum/maximum, nested object,          *)
(*    additionalProperties:false}.  A schema is a sequence of constraints     *)
(*    [k, p, a] attached at the property path p (<<>> = the document);       *)
(*    hv_deps renders it as a values.schema.json and also validates the same  *)
(*    (schema, value) pairs with the santhosh-tekuri/jsonschema library, so   *)
(*    the evaluator itself is validated (SchemaObs.tla, check EvalAgrees).    *)
(*  - Invalid(case): the enabled chart instances whose final values violate   *)
(*    their schema (final values: the coalesced values of Deps.tla; a         *)
(*    subchart's always contain a `global` table).                            *)
(*  - OpSteps: the order of effects of install / upgrade / template / lint as *)
(*    far as the gate is concerned (pkg/action/install.go, upgrade.go,        *)
(*    pkg/lint/rules): TLC checks GateFirst on it - the model-level form of   *)
(*    "nothing is sent to the cluster or stored".                             *)
(* The builder of Deps.tla enumerates schemas x placement (root / subchart /  *)
(* sub-subchart) x values arriving from defaults, the parent's section, a     *)
(* values file or --set x dependency enabled / disabled; every case is        *)
(* exported and run by hv_deps through the real action.Install (real, dry-run,*)
(* template mode), action.Upgrade and action.Lint, with and without           *)
(* skip-schema-validation, over the simulated cluster.                        *)
(***************************************************************************)
EXTENDS Deps

\* besides the small numbers: 2^53 and 2^53 + 1, two integers that differ only in the digit a float64
\* cannot hold (--set gives an int64, a values file a json.Number: the gate must compare them exactly).
\* TLC's integers are 32 bit: NumOf is the RANK of the token in the numeric order, which is all
\* minimum / maximum need.
Big   == "n:9007199254740992"
Big1  == "n:9007199254740993"
NumToks == {"n:0", "n:1", "n:2", "n:3", Big, Big1}
NumOf(t) == CASE t = "n:0" -> 0 [] t = "n:1" -> 1 [] t = "n:2" -> 2 [] t = "n:3" -> 3 [] t = Big -> 4 [] t = Big1 -> 5 [] OTHER -> 0

\* JSON type of ValAt's result
KindOf(x) == IF x \in {"true", "false"} THEN "boolean"
             ELSE IF x \in NumToks THEN "number"
             ELSE IF x = "table" THEN "object" ELSE "string"
TypeOK(x, ty) == IF ty = "integer" THEN KindOf(x) = "number" ELSE KindOf(x) = ty

\* the keys an object at p may have under additionalProperties:false: those listed, and those
\* any constraint gives a sub-schema
Allowed(S, p) ==
  UNION {Range(S[i].a) : i \in {j \in DOMAIN S : S[j].k = "closed" /\ S[j].p = p}}
  \cup {S[i].p[Len(p) + 1] : i \in {j \in DOMAIN S : IsPrefix(p, S[j].p) /\ Len(S[j].p) > Len(p)}}

IsObjectAt(v, p) == HasNode(v, p) /\ TableAt(v, p)

Holds(S, c, v) ==
  LET x == ValAt(v, c.p) IN
  CASE c.k = "type"     -> x = "absent" \/ TypeOK(x, c.a[1])
    [] c.k = "required" -> IsObjectAt(v, c.p) => \A i \in DOMAIN c.a : HasNode(v, c.p \o <<c.a[i]>>)
    [] c.k = "enum"     -> x = "absent" \/ x \in Range(c.a)
    [] c.k = "minimum"  -> x \in NumToks => NumOf(x) >= NumOf(c.a[1])
    [] c.k = "maximum"  -> x \in NumToks => NumOf(x) <= NumOf(c.a[1])
    [] c.k = "closed"   -> IsObjectAt(v, c.p) => TopKeys(Sub(v, c.p)) \subseteq Allowed(S, c.p)
    [] OTHER -> FALSE

SchemaValid(S, v) == \A i \in DOMAIN S : Holds(S, S[i], v)

SchemaOf(case, P) == case.charts[ChartAt(case, P)].schema
NameOf(P) == IF P = <<>> THEN RootChart ELSE Last(P)

\* final values of an instance, from the coalescing model of Deps.tla
FinalOf(case, E, P) == Sub(FinalCodeE(case, E), P)

\* the enabled instances whose final values violate their own schema
Invalid(case) ==
  LET E == ExpE(case) IN
  {P \in E : SchemaOf(case, P) # <<>> /\ ~SchemaValid(SchemaOf(case, P), FinalOf(case, E, P))}

\* ... on a route of the history dimension (the values in force are the carried-over / reset ones)
InvalidOn(case, route) == Invalid(CaseFor(case, route))

\* the same judged on final values OBSERVED from the real code (finals: instance path -> tree)
InvalidObserved(case, E, FinalAt(_)) ==
  {P \in E : SchemaOf(case, P) # <<>> /\ ~SchemaValid(SchemaOf(case, P), FinalAt(P))}

-----------------------------------------------------------------------------
(* Order of effects of the operations, as far as the gate is concerned.       *)
(* step = [l |-> label, w |-> it writes to the cluster or the release store]  *)

Modes == {"install", "dryrun", "template", "upgrade", "upgradedry", "lint"}

\* the same operations through the command line (pkg/cmd) and the action each one dispatches to:
\* `helm install --dry-run=server`, `helm template` and `helm upgrade --install` on a release that does not
\* exist (empty history, or last revision uninstalled with --keep-history) all run the install action
CliModes == {"cli-install", "cli-dryrun", "cli-template", "cli-upgrade", "cli-upinstall-empty",
             "cli-upinstall-uninstalled", "cli-lint"}
\* the history route: the release was first made with values the case's schemas never judged - an install with
\* skip-schema-validation ("skipinstall") or an install of the same chart version without its schema files
\* ("laxinstall") - and is then upgraded with NO new values in each value-carrying mode.  The values in force for
\* the new revision are those of Deps!CaseFor(case, route); the gate must judge THEM, whatever their origin.
HistFirst  == {"skipinstall", "laxinstall"}
HistRoutes == {"upgrade", "upgrade-reuse", "upgrade-reset-then-reuse", "upgrade-reset"}
HistModes  == {"hist-" \o f \o "-" \o r : f \in HistFirst, r \in HistRoutes}
AllModes == Modes \cup CliModes \cup HistModes
Dispatch(m) == CASE m = "cli-install" -> "install" [] m = "cli-dryrun" -> "dryrun" [] m = "cli-template" -> "template"
                 [] m = "cli-upgrade" -> "upgrade" [] m = "cli-upinstall-empty" -> "install"
                 [] m = "cli-upinstall-uninstalled" -> "install" [] m = "cli-lint" -> "lint"
                 [] m \in HistModes -> "upgrade" [] OTHER -> m

St(l, w) == [l |-> l, w |-> w]
HasCrds(case) == \E P \in ExpE(case) : case.charts[ChartAt(case, P)].crds

\* what precedes the gate
Before(mode, crds) ==
  CASE mode = "install"    -> <<St("reachable", FALSE), St("name-check", FALSE), St("process-dependencies", FALSE)>>
                              \o (IF crds THEN <<St("install-crds", TRUE)>> ELSE <<>>)       \* L19
    [] mode = "dryrun"     -> <<St("reachable", FALSE), St("name-check", FALSE), St("process-dependencies", FALSE)>>
    [] mode = "template"   -> <<St("name-check", FALSE), St("process-dependencies", FALSE)>>
    [] mode \in {"upgrade", "upgradedry"}
                           -> <<St("reachable", FALSE), St("read-history", FALSE), St("process-dependencies", FALSE)>>
    [] OTHER               -> <<St("values-rule", FALSE), St("load", FALSE), St("process-dependencies", FALSE)>>
\* what follows it
After(mode) ==
  CASE mode = "install"  -> <<St("render", FALSE), St("build", FALSE), St("create-record", TRUE), St("hooks-and-resources", TRUE),
                              St("update-record", TRUE)>>
    [] mode = "upgrade"  -> <<St("render", FALSE), St("build", FALSE), St("create-record", TRUE), St("hooks-and-resources", TRUE),
                              St("update-records", TRUE)>>
    [] OTHER             -> <<St("render", FALSE)>>

OpSteps(mode, crds, rejected) ==
  Before(mode, crds) \o <<St("schema-gate", FALSE)>> \o (IF rejected THEN <<>> ELSE After(mode))

\* "install, upgrade, template and lint fail ... and nothing is sent to the cluster or stored"
GateFirstFor(mode, crds) == \A i \in DOMAIN OpSteps(mode, crds, TRUE) :
                               ~OpSteps(mode, crds, TRUE)[i].w /\ OpSteps(mode, crds, TRUE)[i].l # "render"
\* the known exception (L19): a real install of a tree that ships crds/ files
KnownGateShape(mode, crds) == mode = "install" /\ crds

-----------------------------------------------------------------------------
(* model check + export over the builder of Deps.tla                          *)

SchemaInv ==
  (Complete /\ WFCase(Case)) =>
     /\ AgreeEnabled(Case)                    \* the C14 space keeps enabling unambiguous
     /\ \A m \in AllModes : GateFirstFor(Dispatch(m), HasCrds(Case)) \/ KnownGateShape(Dispatch(m), HasCrds(Case))

SchemaExport ==
  IF Complete /\ WFCase(Case)
  THEN LET c == Case  E == ExpE(c)  I == Invalid(c) IN
       JsonSerialize("gen/" \o CaseId \o ".json",
         [id |-> CaseId, shape |-> Shape.name, case |-> CaseJ(c),
          exp |-> [enabled |-> SeqOf(E), invalid |-> SeqOf(I), invalidReset |-> SeqOf(InvalidOn(c, "upgrade-reset")),
                   crds |-> HasCrds(c),
                   finals |-> SeqOf({[P |-> P, leaves |-> SeqOf(FinalOf(c, E, P))] : P \in E})]])
  ELSE TRUE
=============================================================================
