INIT Init
NEXT Next
CONSTANT Mode = "c08"
CONSTANT PartN = 4
CONSTANT PartSubN = 2
CONSTANT OneFileN = 0
CONSTANT MachN = 3
CONSTANT ProgN = 0
CONSTANT MachPaths = 0
CONSTANT MachProgN = 0
