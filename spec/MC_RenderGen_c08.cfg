INIT Init
NEXT Next
CONSTANT Mode = "c08"
CONSTANT PartN = 3
CONSTANT PartSubN = 0
CONSTANT OneFileN = 4
CONSTANT MachN = 3
CONSTANT ProgN = 0
CONSTANT MachPaths = 0
CONSTANT MachProgN = 0
