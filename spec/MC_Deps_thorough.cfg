SPECIFICATION BSpec
CONSTANT Shapes <- ThoroughShapes
INVARIANT AgreeInvAll
CONSTRAINT DepsExport
CHECK_DEADLOCK FALSE
