SPECIFICATION BSpec
CONSTANT Shapes <- ThoroughShapes
INVARIANT AgreeInv
CONSTRAINT DepsExport
CHECK_DEADLOCK FALSE
