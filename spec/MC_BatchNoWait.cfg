SPECIFICATION Spec
CONSTANT KindVecs <- Vecs
CONSTANT Barrier = FALSE
CONSTANT AllFail = FALSE
CONSTANT TrackOrder = FALSE
CONSTANT MaxN = 3
INVARIANT BarrierInv
CHECK_DEADLOCK TRUE
