SPECIFICATION Spec
CONSTANTS
  MaxLen = 2
  Pairs = FALSE
INVARIANTS OkOnlyWhenDesired ErrOnlyWhenNever OkNotBefore
CHECK_DEADLOCK FALSE
