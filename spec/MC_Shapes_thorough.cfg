SPECIFICATION Spec
CONSTANTS
  Docs <- DocsDef
  Shapes <- ShapesAll
  MaxDev = 2
  Alphabets <- AlphabetsDef
  MaxTok = 4
  TokCap <- TokCapDef
  Recs = 3
  Damages <- DamagesDef
  Drivers = {"secrets", "configmaps"}
INVARIANTS Inv_Compatible Inv_Bounds
CONSTRAINT Export
CHECK_DEADLOCK FALSE
