SPECIFICATION Spec
CONSTANTS
  MaxLen = 3
  Pairs = TRUE
INVARIANTS OkOnlyWhenDesired ErrOnlyWhenNever OkNotBefore
CHECK_DEADLOCK FALSE
