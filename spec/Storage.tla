------------------------------ MODULE Storage ------------------------------
(***************************************************************************)
(* The contract of helm's storage drivers (pkg/storage/driver: Memory,     *)
(* Secrets, ConfigMaps) as property C10 states it: every backend is the    *)
(* same faithful key-value store                                           *)
(*                                                                         *)
(*      kv : (release name, revision)  -|->  [rel, labels]                 *)
(*                                                                         *)
(* Six calls (driver.Driver): Create, Get, Update, Delete, List, Query.    *)
(* Each call carries its specified reply:                                  *)
(*   - Create on a present key      -> "exists"   (ErrReleaseExists)       *)
(*   - Get / Update / Delete on an absent key -> "notfound", kv unchanged  *)
(*   - Delete                       -> returns the stored release          *)
(*   - List(filter)                 -> exactly the stored releases the     *)
(*                                     filter accepts (always "ok")        *)
(*   - Query(selector)              -> exactly the stored releases whose   *)
(*                                     name/owner/status/version labels    *)
(*                                     match; "notfound" when there is none*)
(*                                                                         *)
(* A seventh call, Modify, is Update fed with the object a Query / List    *)
(* returned (status changed): helm's own read-modify-write; it must leave  *)
(* body and labels of the record agreeing, like Update of a fresh value.   *)
(*                                                                         *)
(* A release is abstract here: [name, rev, st, v]; v (variant) stands for  *)
(* "everything else" (chart, values, manifest, hooks, timestamps, user     *)
(* labels).  The harness concretises it with generated content and maps a  *)
(* release read back from a real driver to this tuple by a digest of the   *)
(* property's projection, so  ret = kv[k].rel  is read-back fidelity.      *)
(*                                                                         *)
(* Absent keys hold the sentinel NoEntry (a total function is what TLC     *)
(* fingerprints reliably); Dom(kv) is the domain of the partial map.       *)
(***************************************************************************)
EXTENDS Naturals, Sequences, FiniteSets, TLC

CONSTANTS Names,      \* release names (strings), e.g. {"n1", "n2"}
          Revs,       \* revisions, e.g. {1, 2, 3}
          Statuses,   \* release statuses (strings)
          Variants,   \* content variants, e.g. {1, 2}
          Menu        \* the calls a configuration explores (a subset of AllCalls)

Key   == [name : Names, rev : Revs]
Rel   == [name : Names, rev : Revs, st : Statuses, v : Variants]
NoRel == [name |-> "", rev |-> 0, st |-> "", v |-> 0]

LabelKeys == {"name", "owner", "status", "version"}

\* the system labels every driver derives from the release (util.go / records.go:newRecord)
SysLabels(r) == [name |-> r.name, owner |-> "helm", status |-> r.st, version |-> ToString(r.rev)]
NoLabels     == [name |-> "", owner |-> "", status |-> "", version |-> ""]

Entry(r) == [rel |-> r, labels |-> SysLabels(r)]
NoEntry  == [rel |-> NoRel, labels |-> NoLabels]
Entries  == {Entry(r) : r \in Rel}

EmptyKV  == [k \in Key |-> NoEntry]
Dom(s)   == {k \in Key : s[k] # NoEntry}

\* a selector / filter: "" = this label is not constrained
Sel   == [name : Names \cup {""}, owner : {"", "helm", "other"},
          status : Statuses \cup {""}, version : {ToString(r) : r \in Revs} \cup {""}]
NoSel == [name |-> "", owner |-> "", status |-> "", version |-> ""]

\* Query: label-selector match on the record's labels (secrets.go / cfgmaps.go: Query; labels.go: match)
Matches(lab, q) == \A f \in LabelKeys : q[f] = "" \/ lab[f] = q[f]
\* List: a predicate on the release itself (the harness builds the Go func from the same fields)
Accepts(r, q)   == (q.name = "" \/ r.name = q.name) /\ (q.status = "" \/ r.st = q.status)

-----------------------------------------------------------------------------
(* calls and replies (uniform record shapes)                                *)

MkCall(op, n, r, s, v, q) == [op |-> op, name |-> n, rev |-> r, st |-> s, v |-> v, q |-> q]
NoCall == MkCall("none", "", 0, "", 0, NoSel)

Creates == {MkCall("create", r.name, r.rev, r.st, r.v, NoSel) : r \in Rel}
Updates == {MkCall("update", r.name, r.rev, r.st, r.v, NoSel) : r \in Rel}
Gets    == {MkCall("get", k.name, k.rev, "", 0, NoSel) : k \in Key}
Deletes == {MkCall("delete", k.name, k.rev, "", 0, NoSel) : k \in Key}
\* modify = read-modify-write, the way helm's own operations change a stored release (upgrade marks the
\* current release superseded): the argument of Update is the OBJECT a preceding Query (q.owner = "helm":
\* selector name + owner, as Storage.History) or List (q.owner = "": filter on the name) returned for this
\* key - with whatever labels the driver put on it - with only its status changed to st.
Modifies == {MkCall("modify", k.name, k.rev, s, 0, [name |-> k.name, owner |-> o, status |-> "", version |-> ""]) :
               k \in Key, s \in Statuses, o \in {"helm", ""}}
Lists   == {MkCall("list", "", 0, "", 0, q) : q \in {s \in Sel : s.owner = "" /\ s.version = ""}}
Queries == {MkCall("query", "", 0, "", 0, q) : q \in Sel}
AllCalls == Creates \cup Updates \cup Gets \cup Deletes \cup Lists \cup Queries \cup Modifies

KeyOf(c) == [name |-> c.name, rev |-> c.rev]
RelOf(c) == [name |-> c.name, rev |-> c.rev, st |-> c.st, v |-> c.v]

MkReply(st, ret, set) == [st |-> st, ret |-> ret, set |-> set]
NoReply   == MkReply("none", NoRel, {})
ReplyType == [st : {"ok", "exists", "notfound"}, ret : Rel \cup {NoRel}, set : SUBSET Rel]

-----------------------------------------------------------------------------
(* the reference semantics: one call applied to a store                      *)

Apply(s, c) ==
  CASE c.op = "create" ->
         IF s[KeyOf(c)] # NoEntry
         THEN [kv |-> s, reply |-> MkReply("exists", NoRel, {})]
         ELSE [kv |-> [s EXCEPT ![KeyOf(c)] = Entry(RelOf(c))], reply |-> MkReply("ok", NoRel, {})]
    [] c.op = "update" ->
         IF s[KeyOf(c)] = NoEntry
         THEN [kv |-> s, reply |-> MkReply("notfound", NoRel, {})]
         ELSE [kv |-> [s EXCEPT ![KeyOf(c)] = Entry(RelOf(c))], reply |-> MkReply("ok", NoRel, {})]
    [] c.op = "modify" ->
         IF s[KeyOf(c)] = NoEntry
         THEN [kv |-> s, reply |-> MkReply("notfound", NoRel, {})]
         ELSE [kv |-> [s EXCEPT ![KeyOf(c)] = Entry([s[KeyOf(c)].rel EXCEPT !.st = c.st])], reply |-> MkReply("ok", NoRel, {})]
    [] c.op = "get" ->
         IF s[KeyOf(c)] = NoEntry
         THEN [kv |-> s, reply |-> MkReply("notfound", NoRel, {})]
         ELSE [kv |-> s, reply |-> MkReply("ok", s[KeyOf(c)].rel, {})]
    [] c.op = "delete" ->
         IF s[KeyOf(c)] = NoEntry
         THEN [kv |-> s, reply |-> MkReply("notfound", NoRel, {})]
         ELSE [kv |-> [s EXCEPT ![KeyOf(c)] = NoEntry], reply |-> MkReply("ok", s[KeyOf(c)].rel, {})]
    [] c.op = "list" ->
         [kv |-> s, reply |-> MkReply("ok", NoRel, {s[k].rel : k \in {j \in Dom(s) : Accepts(s[j].rel, c.q)}})]
    [] c.op = "query" ->
         LET hit == {s[k].rel : k \in {j \in Dom(s) : Matches(s[j].labels, c.q)}} IN
         [kv |-> s, reply |-> MkReply(IF hit = {} THEN "notfound" ELSE "ok", NoRel, hit)]

VARIABLES kv,      \* the store
          last,    \* the call just made
          reply    \* its reply
vars == <<kv, last, reply>>

Init == kv = EmptyKV /\ last = NoCall /\ reply = NoReply

Step(c) ==
  LET a == Apply(kv, c) IN
  /\ kv' = a.kv
  /\ last' = c
  /\ reply' = a.reply

Next == \E c \in Menu : Step(c)

Spec == Init /\ [][Next]_vars

-----------------------------------------------------------------------------
(* Properties, stated without reference to Apply (C10, sentence by sentence). *)
(* TLC checks them on every reachable state / every transition of the spec;   *)
(* the trace validator (StorageTrace) then demands that every reply and store  *)
(* observed from the real drivers equals the specification's.                  *)

TypeOK ==
  /\ kv \in [Key -> Entries \cup {NoEntry}]
  /\ last \in AllCalls \cup {NoCall}
  /\ reply \in ReplyType \cup {NoReply}

\* the record stored under (name, rev) is that release, labelled with its own system labels
KeyIsBody ==
  \A k \in Dom(kv) : /\ kv[k].rel.name = k.name
                     /\ kv[k].rel.rev = k.rev
                     /\ kv[k].labels = SysLabels(kv[k].rel)

A_ReplyType == reply' \in ReplyType

\* "reading, updating or deleting a missing key fails and changes nothing", "creating an existing key fails"
A_FailedUnchanged == reply'.st # "ok" => kv' = kv
A_ReadsUnchanged  == last'.op \in {"get", "list", "query"} => kv' = kv
\* only the addressed key can change
A_Frame == \A k \in Key : kv'[k] # kv[k] => (last'.op \in {"create", "update", "delete", "modify"} /\ k = KeyOf(last'))

A_Create ==
  last'.op = "create" =>
    LET k == KeyOf(last') IN
    IF k \in Dom(kv) THEN reply' = MkReply("exists", NoRel, {})
    ELSE reply' = MkReply("ok", NoRel, {}) /\ kv'[k] = Entry(RelOf(last'))

A_Update ==
  last'.op = "update" =>
    LET k == KeyOf(last') IN
    IF k \in Dom(kv) THEN reply' = MkReply("ok", NoRel, {}) /\ kv'[k] = Entry(RelOf(last'))
    ELSE reply' = MkReply("notfound", NoRel, {})

\* a release that was read, had its status changed and was written back is that release with the new
\* status - in the body AND in the labels queries select on
A_Modify ==
  last'.op = "modify" =>
    LET k == KeyOf(last') IN
    IF k \in Dom(kv)
    THEN /\ reply' = MkReply("ok", NoRel, {})
         /\ kv'[k].rel = [name |-> k.name, rev |-> k.rev, st |-> last'.st, v |-> kv[k].rel.v]
         /\ kv'[k].labels.status = last'.st
    ELSE reply' = MkReply("notfound", NoRel, {})

A_Get ==
  last'.op = "get" =>
    LET k == KeyOf(last') IN
    IF k \in Dom(kv) THEN reply' = MkReply("ok", kv[k].rel, {})
    ELSE reply' = MkReply("notfound", NoRel, {})

\* "delete returns the stored release"
A_Delete ==
  last'.op = "delete" =>
    LET k == KeyOf(last') IN
    IF k \in Dom(kv) THEN reply' = MkReply("ok", kv[k].rel, {}) /\ Dom(kv') = Dom(kv) \ {k}
    ELSE reply' = MkReply("notfound", NoRel, {})

\* "queries return exactly the stored releases whose name/owner/status/version match"
A_Query ==
  last'.op = "query" =>
    LET q == last'.q
        hit(r) == /\ (q.name = "" \/ q.name = r.name)
                  /\ (q.owner = "" \/ q.owner = "helm")
                  /\ (q.status = "" \/ q.status = r.st)
                  /\ (q.version = "" \/ q.version = ToString(r.rev))
        want == {kv[k].rel : k \in {j \in Dom(kv) : hit(kv[j].rel)}} IN
    /\ reply'.set = want
    /\ reply'.ret = NoRel
    /\ reply'.st = IF want = {} THEN "notfound" ELSE "ok"

A_List ==
  last'.op = "list" =>
    LET q == last'.q IN
    reply' = MkReply("ok", NoRel, {kv[k].rel : k \in {j \in Dom(kv) : Accepts(kv[j].rel, q)}})

P_ReplyType       == [][A_ReplyType]_vars
P_FailedUnchanged == [][A_FailedUnchanged]_vars
P_ReadsUnchanged  == [][A_ReadsUnchanged]_vars
P_Frame           == [][A_Frame]_vars
P_Create          == [][A_Create]_vars
P_Update          == [][A_Update]_vars
P_Modify          == [][A_Modify]_vars
P_Get             == [][A_Get]_vars
P_Delete          == [][A_Delete]_vars
P_Query           == [][A_Query]_vars
P_List            == [][A_List]_vars

\* fingerprint: the store alone (replies are checked as action properties on every transition)
KVView == kv
=============================================================================
