--------------------------- MODULE RenderOrderObs ---------------------------
(***************************************************************************)
(* Monitor for the kind ORDER of C08 on arbitrary kinds: each observation  *)
(* is the output of the REAL releaseutil.SortManifests (install or         *)
(* uninstall table of the code) on a small list of kinds; it is judged     *)
(* against the FIXED tables of the specification (RenderBase): table kinds *)
(* by table position, every other kind after them, alphabetically (alpha  *)
(* = the kinds of the case in byte order, as Go's sort.Strings gives it),  *)
(* original order within a kind.  Used when the tables of the code are not *)
(* the tables of the specification: the difference is then shown (or not)  *)
(* on real behaviour.                                                      *)
(***************************************************************************)
EXTENDS RenderBase, Json

CONSTANT ObsFile
Obs == ndJsonDeserialize(ObsFile)
VARIABLE l

KeyOf(tab, alpha, k) == LET q == Pos(tab, k) IN IF q > 0 THEN q ELSE 1000 + Pos(alpha, k)
Expected(o) ==
  LET tab == IF o.table = "install" THEN InstallOrder ELSE UninstallOrder IN
  Vals(SortKeyed([j \in DOMAIN o.kinds |-> [key |-> KeyOf(tab, o.alpha, o.kinds[j]), val |-> o.kinds[j]]]))

Report(i) ==
  LET o == Obs[i] IN
  IF o.out = Expected(o) THEN TRUE
  ELSE PrintT(<<"OBSVIOL", i, IF o.table = "install" THEN "C08_InstallOrder" ELSE "C08_UninstallOrder">>)

Init == l = 0
Next == /\ l < Len(Obs)
        /\ l' = l + 1
        /\ Report(l + 1)
        /\ (IF l + 1 = Len(Obs) THEN PrintT(<<"OBSDONE", l + 1>>) ELSE TRUE)
Spec == Init /\ [][Next]_l
=============================================================================
