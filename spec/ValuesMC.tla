------------------------------ MODULE ValuesMC ------------------------------
(***************************************************************************)
(* Bounded input spaces for C04 and the model check "code-shaped operators  *)
(* satisfy the property-shaped oracle" on every enumerated case.            *)
(*                                                                          *)
(* A case is built in stages (one choice per stage out of a finite list);   *)
(* TLC explores the product exhaustively (breadth first) or draws random    *)
(* cases (-simulate).  Every complete case is exported as JSON for the Go   *)
(* harness (ExportBatch: one file per next-to-last stage state holding all  *)
(* completions; ExportOne: one file per complete case, simulation).         *)
(*                                                                          *)
(* Families (constant Family):                                              *)
(*   pair   root defaults x one -f file, trees over {a,b} depth 2           *)
(*   sub2   child's values.yaml x parent's section x user's section         *)
(*   sub3   grandchild's values.yaml x child's section x root's section x   *)
(*          user's section (three chart levels)                             *)
(*   flags  two -f files (both orders are in the product) x one expression  *)
(*          per flag family in every mixture x chart defaults               *)
(*   set    --set token strings over the documented grammar x base trees    *)
(***************************************************************************)
EXTENDS Values, ValuesSet, Json, SequencesExt

CONSTANTS Family,   \* "pair" | "sub2" | "sub3" | "flags" | "set"
          Full      \* TRUE: leaves {scalar, null, list} at both depths; FALSE: lists only at depth 1

ASSUME TLCSet(1, 0)

(* ----- universes -------------------------------------------------------- *)
Leaf(sc)  == {Sc(sc), Null, Li(<<Sc(sc)>>)}
Inner(sc) == IF Full THEN Leaf(sc) ELSE {Sc(sc), Null}
V1(K, sc) == Leaf(sc) \cup {Mp(f) : f \in MapsOver(K, Inner(sc))}
U(Kt, K, sc) == MapsOver(Kt, V1(K, sc))

AB == {"a", "b"}
A  == {"a"}

\* small value universe for the many-source families: one top key, nested {a,b}
W(sc) == {Sc(sc), Null, Li(<<Sc(sc)>>)} \cup {Mp(f) : f \in MapsOver(AB, {Sc(sc), Null})}
WU(sc) == {Unset} \cup W(sc)

(* ----- family: pair ----------------------------------------------------- *)
PairD == SetToSeq(U(AB, AB, "i:1"))
PairF == SetToSeq(U(AB, AB, "s:f"))

(* ----- family: sub2 / sub3 (what sits under one key of a chart's scope) -- *)
SubOwn  == SetToSeq(MapsOver(A, W("i:1")))                    \* the chart's own values.yaml
SubSecA == SetToSeq({Unset} \cup {Mp(f) : f \in MapsOver(A, W("i:2"))})   \* parent's section (or none)
SubSecB == SetToSeq({Unset} \cup {Mp(f) : f \in MapsOver(A, W("i:3"))})   \* grandparent's section
SubUser == SetToSeq({Unset, Null, Sc("s:u")} \cup {Mp(f) : f \in MapsOver(A, W("s:u"))})

(* ----- family: flags ---------------------------------------------------- *)
\* a flag expression: text (as typed on the command line), fam, and its meaning as user-level
\* sources: srcs = sequence of [p |-> key path, v |-> tree, obj |-> object form (merges)]
Asg(p, v) == [p |-> p, v |-> v, obj |-> FALSE]
NoFlag == [text |-> "", srcs |-> <<>>]
FlagOpts(fam) ==
  CASE fam = "json" ->
         <<NoFlag,
           [text |-> "a=\"j\"",        srcs |-> <<Asg(<<"a">>, Sc("s:j"))>>],
           [text |-> "a.a=7",          srcs |-> <<Asg(<<"a", "a">>, Sc("i:7"))>>],
           [text |-> "a=null",         srcs |-> <<Asg(<<"a">>, Null)>>],
           [text |-> "a.b=[\"j\"]",    srcs |-> <<Asg(<<"a", "b">>, Li(<<Sc("s:j")>>))>>],
           [text |-> "{\"a\":{\"b\":\"j\"}}", srcs |-> <<[p |-> <<>>, v |-> Mp([x \in {"a"} |-> Mp([y \in {"b"} |-> Sc("s:j")])]), obj |-> TRUE]>>] >>
    [] fam = "set" ->
         <<NoFlag,
           [text |-> "a=5",            srcs |-> <<Asg(<<"a">>, Sc("i:5"))>>],
           [text |-> "a.a=set",        srcs |-> <<Asg(<<"a", "a">>, Sc("s:set"))>>],
           [text |-> "a=null",         srcs |-> <<Asg(<<"a">>, Null)>>],
           [text |-> "a.a=null,b=true", srcs |-> <<Asg(<<"a", "a">>, Null), Asg(<<"b">>, Sc("b:true"))>>],
           [text |-> "a.b={x,y}",      srcs |-> <<Asg(<<"a", "b">>, Li(<<Sc("s:x"), Sc("s:y")>>))>>] >>
    [] fam = "str" ->
         <<NoFlag,
           [text |-> "a=6",            srcs |-> <<Asg(<<"a">>, Sc("s:6"))>>],
           [text |-> "a.a=null",       srcs |-> <<Asg(<<"a", "a">>, Sc("s:null"))>>] >>
    [] fam = "file" ->
         <<NoFlag,
           [text |-> "a=@sf",          srcs |-> <<Asg(<<"a">>, Sc("s:sf"))>>],
           [text |-> "a.a=@sf",        srcs |-> <<Asg(<<"a", "a">>, Sc("s:sf"))>>] >>
    [] fam = "lit" ->
         <<NoFlag,
           [text |-> "a=l,{",          srcs |-> <<Asg(<<"a">>, Sc("s:l,{"))>>],
           [text |-> "a.a=true",       srcs |-> <<Asg(<<"a", "a">>, Sc("s:true"))>>] >>
FlagFams == <<"json", "set", "str", "file", "lit">>
\* quick tier: a sub-list of the options per family
QuickSel(fam) == CASE fam = "json" -> <<1, 2, 4, 6>> [] fam = "set" -> <<1, 2, 3, 4>> [] fam = "str" -> <<1, 3>>
                   [] fam = "file" -> <<1, 2>> [] fam = "lit" -> <<1, 3>>
Opts(fam) == IF Full THEN FlagOpts(fam) ELSE [i \in DOMAIN QuickSel(fam) |-> FlagOpts(fam)[QuickSel(fam)[i]]]

WF(sc) == {Sc(sc), Null, Mp([x \in {"a"} |-> Sc(sc)]), Mp([x \in {"a"} |-> Null]), Mp([x \in {"b"} |-> Sc(sc)])}
FlagF1 == SetToSeq({<<>>} \cup MapsOver(A, WF("s:f1")))
FlagF2 == SetToSeq({<<>>} \cup MapsOver(A, WF("s:f2")))
FlagD  == <<  <<>>, [x \in {"a"} |-> Mp([y \in AB |-> Sc("i:1")])], [x \in AB |-> Sc("i:1")] >>

(* ----- stages ----------------------------------------------------------- *)
StageSets ==
  CASE Family = "pair"  -> <<PairD, PairF>>
    [] Family = "sub2"  -> <<SubOwn, SubSecA, SubUser>>
    [] Family = "sub3"  -> <<SubOwn, SubSecA, SubSecB, SubUser>>
    [] Family = "flags" -> <<FlagD, FlagF1, FlagF2, Opts("json"), Opts("set"), Opts("str"),
                             Opts("file"), Opts("lit")>>
    [] Family = "set"   -> <<SetBases, SetExprs>>
NStages == Len(StageSets)

\* optional section -> the map function of a chart's / user's values holding it under key n
Under(n, sec) == IF IsSet(sec) THEN [x \in {n} |-> sec] ELSE <<>>
NoFlags == [f \in {"json", "set", "str", "file", "lit"} |-> <<>>]

\* the case of a complete pick:  charts (root first), files, flag texts, and the user-level sources
CaseOf(p) ==
  LET ch(i) == StageSets[i][p[i]] IN
  CASE Family = "pair" ->
         [charts |-> <<[name |-> "root", vals |-> ch(1)]>>, files |-> <<ch(2)>>, flags |-> NoFlags,
          usr |-> <<[p |-> <<>>, v |-> Mp(ch(2)), obj |-> TRUE]>>]
    [] Family = "sub2" ->
         [charts |-> <<[name |-> "root", vals |-> Under("s1", ch(2))], [name |-> "s1", vals |-> ch(1)]>>,
          files |-> <<Under("s1", ch(3))>>, flags |-> NoFlags,
          usr |-> <<[p |-> <<>>, v |-> Mp(Under("s1", ch(3))), obj |-> TRUE]>>]
    [] Family = "sub3" ->
         [charts |-> <<[name |-> "root", vals |-> Under("s1", IF IsSet(ch(3)) THEN Mp(Under("s2", ch(3))) ELSE Unset)],
                       [name |-> "s1", vals |-> Under("s2", ch(2))],
                       [name |-> "s2", vals |-> ch(1)]>>,
          files |-> <<Under("s1", IF IsSet(ch(4)) THEN Mp(Under("s2", ch(4))) ELSE Unset)>>, flags |-> NoFlags,
          usr |-> <<[p |-> <<>>, v |-> Mp(Under("s1", IF IsSet(ch(4)) THEN Mp(Under("s2", ch(4))) ELSE Unset)), obj |-> TRUE]>>]
    [] Family = "flags" ->
         [charts |-> <<[name |-> "root", vals |-> ch(1)]>>, files |-> <<ch(2), ch(3)>>,
          flags |-> [f \in DOMAIN NoFlags |->
                       LET i == CHOOSE j \in 1..5 : FlagFams[j] = f IN
                       IF ch(3 + i).text = "" THEN <<>> ELSE <<ch(3 + i).text>>],
          usr |-> <<[p |-> <<>>, v |-> Mp(ch(2)), obj |-> TRUE], [p |-> <<>>, v |-> Mp(ch(3)), obj |-> TRUE]>>
                  \o ch(4).srcs \o ch(5).srcs \o ch(6).srcs \o ch(7).srcs \o ch(8).srcs]
    [] Family = "set" ->
         [charts |-> <<[name |-> "root", vals |-> <<>>]>>, files |-> <<ch(1)>>,
          flags |-> [NoFlags EXCEPT !["set"] = <<ch(2).text>>],
          usr |-> <<>>, expr |-> ch(2)]

RECURSIVE IdStr(_)
IdStr(p) == IF p = <<>> THEN "" ELSE "_" \o ToString(p[1]) \o IdStr(Tail(p))
CaseId(p) == Family \o IdStr(p)

(* ----- expectations for a case ------------------------------------------- *)
\* user-level sources as trees, lowest precedence first
SrcTree(s) == IF s.obj THEN s.v ELSE Lift(s.v, s.p)
UserTrees(c) == [i \in DOMAIN c.usr |-> SrcTree(c.usr[i])]

\* the code may refuse (error, no values produced) exactly when an assignment's path runs
\* through something an earlier source set to a non-map (DESIGN C04 "Refusal-allowed")
RECURSIVE RefusalFrom(_, _)
RefusalFrom(usr, i) ==
  IF i > Len(usr) THEN FALSE
  ELSE LET cur == Exp([j \in 1..(i - 1) |-> SrcTree(usr[j])], TRUE)
           s   == usr[i]
           hit == ~s.obj /\ \E n \in 1..(Len(s.p) - 1) :
                     LET q == Section(cur, SubSeq(s.p, 1, n)) IN IsSet(cur) /\ IsSet(q) /\ ~IsMap(q)
       IN hit \/ RefusalFrom(usr, i + 1)
RefusalAllowedUser(c) == RefusalFrom(c.usr, 1)

\* a user source that sets a subchart's key to something that is not a map leaves nothing the
\* subchart could be given: the code answers "type mismatch" (refusal) or drops the setting
ChartPath(c, i) == ScopePath(c.charts, i)
SubKeyClobbered(c) ==
  \E i \in 2..Len(c.charts) : \E j \in DOMAIN c.usr :
     LET q == Section(SrcTree(c.usr[j]), ChartPath(c, i)) IN IsSet(q) /\ ~IsMap(q)

AllSources(c) == ChartSources(c.charts) \o UserTrees(c)

\* OK-predicates on (normalised) observed / computed values
UserOk(c, o)    == Ok(UserTrees(c), o, TRUE)
RootOk(c, o)    == Ok(AllSources(c), Norm(o), FALSE)
ScopeOk(c, i, o) == Ok([j \in DOMAIN AllSources(c) |-> Section(AllSources(c)[j], ChartPath(c, i))], Norm(o), FALSE)

(* ----- code-shaped evaluation of a case ---------------------------------- *)
\* strvals on the AST level: descend / create maps along the path (a non-map on the way is a Go
\* type-assertion panic, recovered into an error), set the last key
RECURSIVE CodeSetPath(_, _, _)
CodeSetPath(f, path, v) ==          \* f map function; result [ok, v]
  IF Len(path) = 1 THEN [ok |-> TRUE, v |-> Put(f, path[1], v)]
  ELSE IF path[1] \in DOMAIN f /\ ~IsMap(f[path[1]]) THEN [ok |-> FALSE, v |-> f]
  ELSE LET r == CodeSetPath(IF path[1] \in DOMAIN f THEN f[path[1]].m ELSE <<>>, Tail(path), v) IN
       IF r.ok THEN [ok |-> TRUE, v |-> Put(f, path[1], Mp(r.v))] ELSE [ok |-> FALSE, v |-> f]

\* values.Options.MergeValues: files in order (MergeMaps), then --set-json, --set, --set-string,
\* --set-file, --set-literal - c.usr lists the sources in exactly that order
RECURSIVE CodeMergeFrom(_, _, _)
CodeMergeFrom(usr, i, base) ==
  IF i > Len(usr) THEN [ok |-> TRUE, v |-> base]
  ELSE LET s == usr[i] IN
       IF s.obj THEN CodeMergeFrom(usr, i + 1, MergeMaps(base, s.v.m))
       ELSE LET r == CodeSetPath(base, s.p, s.v) IN
            IF r.ok THEN CodeMergeFrom(usr, i + 1, r.v) ELSE r
CodeMerge(c) ==
  IF Family = "set" THEN CodeParseInto(c.expr.toks, c.files[1])
  ELSE CodeMergeFrom(c.usr, 1, <<>>)

CodeRoot(c) == LET m == CodeMerge(c) IN
               IF ~m.ok THEN m ELSE CoalesceValues(Nest(c.charts, 1), m.v)

(* ----- the model check --------------------------------------------------- *)
\* classes of difference between code-shaped and property-shaped, printed and counted, never a
\* verdict: every case is replayed on the real code and judged there.
Diffs(c) ==
  LET m == CodeMerge(c)
      r == CodeRoot(c) IN
  IF Family = "set"
  THEN LET e == SetExpected(c.files[1], c.expr) IN
       IF ~m.ok THEN (IF e.conflict THEN {} ELSE {"set-refused"})
       ELSE IF m.v # e.v THEN {"set-value"} ELSE {}
  ELSE
  IF ~m.ok THEN (IF RefusalAllowedUser(c) THEN {} ELSE {"refused"})
  ELSE (IF UserOk(c, Mp(m.v)) THEN {} ELSE {"user"})
       \cup (IF Mp(m.v) # Exp(UserTrees(c), TRUE) THEN {"user-reading"} ELSE {})
       \cup (IF ~r.ok THEN (IF SubKeyClobbered(c) THEN {} ELSE {"coalesce-refused"})
             ELSE (IF RootOk(c, Mp(r.v)) THEN {} ELSE {"root"})
                  \cup (IF Norm(Mp(r.v)) # Exp(AllSources(c), FALSE) THEN {"root-reading"} ELSE {})
                  \cup UNION {IF ScopeOk(c, i, Section(Mp(r.v), ChartPath(c, i))) THEN {} ELSE {"scope"}
                              : i \in 2..Len(c.charts)})

(* ----- JSON ---------------------------------------------------------------- *)
ChartsJ(c) == [i \in DOMAIN c.charts |-> [name |-> c.charts[i].name, vals |-> Mp(c.charts[i].vals)]]
CaseJ(p) ==
  LET c == CaseOf(p) IN
  [id |-> CaseId(p), fam |-> Family, charts |-> ChartsJ(c),
   files |-> [i \in DOMAIN c.files |-> Mp(c.files[i])], flags |-> c.flags,
   usr |-> c.usr,
   exp |-> IF Family = "set" THEN SetExpected(c.files[1], c.expr)
           ELSE [conflict |-> RefusalAllowedUser(c), v |-> <<>>],
   diffs |-> SetToSeq(Diffs(CaseOf(p)))]

(* ----- behaviour ----------------------------------------------------------- *)
VARIABLE pick
Init == pick = <<>>
Next == /\ Len(pick) < NStages
        /\ \E i \in 1..Len(StageSets[Len(pick) + 1]) : pick' = Append(pick, i)
Spec == Init /\ [][Next]_pick

Complete == Len(pick) = NStages

\* exhaustive runs: every state of the next-to-last stage writes all its completions
ExportBatch ==
  IF Len(pick) = NStages - 1
  THEN LET L == StageSets[NStages] IN
       ndJsonSerialize("gen/" \o CaseId(pick) \o ".ndjson", [i \in 1..Len(L) |-> CaseJ(Append(pick, i))])
  ELSE TRUE

\* simulation runs (-workers 1): one file per complete case
ExportOne ==
  IF Complete
  THEN /\ TLCSet(1, TLCGet(1) + 1)
       /\ ndJsonSerialize("gen/s" \o ToString(TLCGet(1)) \o ".ndjson", <<CaseJ(pick)>>)
  ELSE TRUE

\* the model check proper: reported per case (and counted by the caller), TLC keeps going
ModelReport ==
  IF Complete
  THEN LET d == Diffs(CaseOf(pick)) IN IF d = {} THEN TRUE ELSE PrintT(<<"MODELDIFF", CaseId(pick), d>>)
  ELSE TRUE
=============================================================================
