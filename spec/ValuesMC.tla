------------------------------ MODULE ValuesMC ------------------------------
(***************************************************************************)
(* Bounded input spaces for C04 and the model check "code-shaped operators  *)
(* satisfy the property-shaped oracle" on every enumerated case.            *)
(*                                                                          *)
(* A case is built in stages (one choice per stage out of a finite list);   *)
(* TLC explores the product exhaustively (breadth first) or draws random    *)
(* cases (-simulate).  Every complete case is exported as JSON for the Go   *)
(* harness (ExportBatch: one file per next-to-last stage state holding all  *)
(* completions; ExportOne: one file per complete case, simulation).         *)
(*                                                                          *)
(* Families (constant Family):                                              *)
(*   pair   root defaults x one -f file, trees over {a,b} depth 2           *)
(*   deep / deepsub  the same / inside a subchart scope with a third level: *)
(*          nulls laid over defaults that are tables below a table          *)
(*   sub2   child's values.yaml x parent's section x user's section         *)
(*   sub3   grandchild's values.yaml x child's section x root's section x   *)
(*          user's section (three chart levels)                             *)
(*   flags  two -f files (both orders are in the product) x one expression  *)
(*          per flag family in every mixture x chart defaults               *)
(*   set    --set token strings over the documented grammar x base trees    *)
(***************************************************************************)
EXTENDS ValuesProps, Json

CONSTANTS Family,   \* "repeat" | "cli" | "mdoc" | "pair" | "deep" | "sub2" | "deepsub" | "sub3" | "flags" | "set"
          Full,     \* TRUE: leaves {scalar, null, list} at both depths; FALSE: lists only at depth 1
          SetPairs, \* TRUE: also --set expressions with two assignments
          Term      \* TRUE only in simulation configurations (see Next)

ASSUME TLCSet(1, 0)

(* ----- universes -------------------------------------------------------- *)
Leaf(sc)  == {Sc(sc), Null, Li(<<Sc(sc)>>)}
Inner(sc) == IF Full THEN Leaf(sc) ELSE {Sc(sc), Null}
V1(K, sc) == Leaf(sc) \cup {Mp(f) : f \in MapsOver(K, Inner(sc))}
U(Kt, K, sc) == MapsOver(Kt, V1(K, sc))

AB == {"a", "b"}
A  == {"a"}

\* small value universe for the many-source families: one top key, nested {a,b}
W(sc) == {Sc(sc), Null, Li(<<Sc(sc)>>)} \cup {Mp(f) : f \in MapsOver(AB, {Sc(sc), Null})}
WU(sc) == {Unset} \cup W(sc)

(* ----- family: pair ----------------------------------------------------- *)
PairD == SetToSeq(U(AB, AB, "i:1"))
PairF == SetToSeq(U(AB, AB, "s:f"))

(* ----- family: sub2 / sub3 (what sits under one key of a chart's scope) -- *)
SubOwn  == SetToSeq(MapsOver(A, W("i:1")))                    \* the chart's own values.yaml
SubSecA == SetToSeq({Unset} \cup {Mp(f) : f \in MapsOver(A, W("i:2"))})   \* parent's section (or none)
SubSecB == SetToSeq({Unset} \cup {Mp(f) : f \in MapsOver(A, W("i:3"))})   \* grandparent's section
SubUser == SetToSeq({Unset, Null, Sc("s:u")} \cup {Mp(f) : f \in MapsOver(A, W("s:u"))})

(* ----- families: deep / deepsub (a null laid over a default that is a TABLE below a table) ---- *)
\* values under one top key with a third level: a: {a|b: scalar | null | {a: scalar}}
W3(sc) == {Sc(sc), Null, Li(<<Sc(sc)>>)}
          \cup {Mp(f) : f \in MapsOver(AB, {Sc(sc), Null, Mp([x \in {"a"} |-> Sc(sc)])})}
DeepOwn  == SetToSeq(MapsOver(A, W3("i:1")))                   \* the chart's own values.yaml
DeepUser == SetToSeq(MapsOver(A, W3("s:u")))                   \* the user's values (for the chart's scope)
DeepSec  == << Unset,                                           \* the parent's section for the subchart
               Mp([x \in {"a"} |-> Null]),
               Mp([x \in {"a"} |-> Mp([y \in {"a"} |-> Null])]),
               Mp([x \in {"a"} |-> Mp([y \in {"a"} |-> Mp([z \in {"b"} |-> Sc("i:2")])])]) >>
DeepSubUser == [i \in DOMAIN DeepUser |-> Mp(DeepUser[i])]

(* ----- family: mdoc (a values file of two YAML documents) ------------------------------------ *)
\* where the two-document file is: the user's -f file, the root chart's values.yaml, the subchart's
MWhere == <<"file", "root", "sub">>
MDoc1  == SetToSeq(MapsOver(A, W("s:d1")))
MDoc2  == SetToSeq(MapsOver(A, W("s:d2")))
\* the other source of the case (chart defaults for "file", the user's file otherwise)
MOther == << <<>>, [x \in {"a"} |-> Mp([y \in AB |-> Sc("i:9")])], [x \in {"a"} |-> Mp([y \in {"b"} |-> Null])] >>
\* the documents of one file are merged like consecutive -f files
DocMerge(d1, d2) == Exp(<<Mp(d1), Mp(d2)>>, TRUE).m

(* ----- family: flags ---------------------------------------------------- *)
\* a flag expression: text (as typed on the command line), fam, and its meaning as user-level
\* sources: srcs = sequence of [p |-> key path, v |-> tree, obj |-> object form (merges)]
Asg(p, v) == [p |-> p, v |-> v, obj |-> FALSE]
NoFlag == [text |-> "", srcs |-> <<>>]
FlagOpts(fam) ==
  CASE fam = "json" ->
         <<NoFlag,
           [text |-> "a=\"j\"",        srcs |-> <<Asg(<<"a">>, Sc("s:j"))>>],
           [text |-> "a.a=7",          srcs |-> <<Asg(<<"a", "a">>, Sc("i:7"))>>],
           [text |-> "a=null",         srcs |-> <<Asg(<<"a">>, Null)>>],
           [text |-> "a.b=[\"j\"]",    srcs |-> <<Asg(<<"a", "b">>, Li(<<Sc("s:j")>>))>>],
           [text |-> "{\"a\":{\"b\":\"j\"}}", srcs |-> <<[p |-> <<>>, v |-> Mp([x \in {"a"} |-> Mp([y \in {"b"} |-> Sc("s:j")])]), obj |-> TRUE]>>] >>
    [] fam = "set" ->
         <<NoFlag,
           [text |-> "a=5",            srcs |-> <<Asg(<<"a">>, Sc("i:5"))>>],
           [text |-> "a.a=set",        srcs |-> <<Asg(<<"a", "a">>, Sc("s:set"))>>],
           [text |-> "a=null",         srcs |-> <<Asg(<<"a">>, Null)>>],
           [text |-> "a.a=null,b=true", srcs |-> <<Asg(<<"a", "a">>, Null), Asg(<<"b">>, Sc("b:true"))>>],
           [text |-> "a.b={x,y}",      srcs |-> <<Asg(<<"a", "b">>, Li(<<Sc("s:x"), Sc("s:y")>>))>>] >>
    [] fam = "str" ->
         <<NoFlag,
           [text |-> "a=6",            srcs |-> <<Asg(<<"a">>, Sc("s:6"))>>],
           [text |-> "a.a=null",       srcs |-> <<Asg(<<"a", "a">>, Sc("s:null"))>>] >>
    [] fam = "file" ->
         <<NoFlag,
           [text |-> "a=@sf",          srcs |-> <<Asg(<<"a">>, Sc("s:sf"))>>],
           [text |-> "a.a=@sf",        srcs |-> <<Asg(<<"a", "a">>, Sc("s:sf"))>>] >>
    [] fam = "lit" ->
         <<NoFlag,
           [text |-> "a=l,{",          srcs |-> <<Asg(<<"a">>, Sc("s:l,{"))>>],
           [text |-> "a.a=true",       srcs |-> <<Asg(<<"a", "a">>, Sc("s:true"))>>] >>
FlagFams == <<"json", "set", "str", "file", "lit">>
\* quick tier: a sub-list of the options per family
QuickSel(fam) == CASE fam = "json" -> <<1, 2, 4, 6>> [] fam = "set" -> <<1, 2, 3, 4>> [] fam = "str" -> <<1, 3>>
                   [] fam = "file" -> <<1, 2>> [] fam = "lit" -> <<1, 3>>
Opts(fam) == IF Full THEN FlagOpts(fam) ELSE [i \in DOMAIN QuickSel(fam) |-> FlagOpts(fam)[QuickSel(fam)[i]]]

WF(sc) == {Sc(sc), Null, Mp([x \in {"a"} |-> Sc(sc)]), Mp([x \in {"a"} |-> Null]), Mp([x \in {"b"} |-> Sc(sc)])}
FlagF1 == SetToSeq({<<>>} \cup MapsOver(A, WF("s:f1")))
FlagF2 == SetToSeq({<<>>} \cup MapsOver(A, WF("s:f2")))
FlagD  == <<  <<>>, [x \in {"a"} |-> Mp([y \in AB |-> Sc("i:1")])], [x \in AB |-> Sc("i:1")] >>

(* ----- the enumerated grammar ----------------------------------------------- *)
\* key names as chunk sequences
Names1 == << <<"a">>, <<"b">>, <<"a", EscDot, "b">> >>
Names2 == << <<"a">>, <<"b">> >>
Idx    == <<0, 1>>
IdxTok(i) == "[" \o ToString(i) \o "]"

\* paths: [toks, path]
PathsOf ==
  LET k1 == {[toks |-> Names1[n], path |-> <<PK(TxtOf(Names1[n]))>>] : n \in DOMAIN Names1}
      addK(S) == {[toks |-> p.toks \o <<".">> \o Names2[n], path |-> Append(p.path, PK(TxtOf(Names2[n])))] : p \in S, n \in DOMAIN Names2}
      addI(S) == {[toks |-> Append(p.toks, IdxTok(Idx[n])), path |-> Append(p.path, PI(Idx[n]))] : p \in S, n \in DOMAIN Idx}
  IN k1 \cup addK(k1) \cup addI(k1) \cup addI(addK(k1)) \cup addK(addI(k1)) \cup addI(addI(k1))

\* scalar literals as chunk sequences, lists of them
Scalars == << <<"x">>, <<"1">>, <<"0">>, <<"007">>, <<"true">>, <<"False">>, <<"null">>, <<>>, <<"x", EscComma, "y">>,
              <<"-3">>, <<"1.5">>, <<"a", EscDot, "b">>,
              \* not integers by the documented rule (decimal digits with an optional sign, no leading zero):
              \* digit-group underscores, signed 0x / 0o / 0b literals, exponents
              <<"1_000">>, <<"2024_01">>, <<"-0x10">>, <<"+0b11">>, <<"-0o17">>, <<"1e3">> >>
ValsOf ==
  {[toks |-> Scalars[n], val |-> DocTyped(TxtOf(Scalars[n]))] : n \in DOMAIN Scalars}
  \cup {[toks |-> <<"{">> \o Scalars[n] \o <<"}">>, val |-> Li(<<DocTyped(TxtOf(Scalars[n]))>>)] : n \in {1, 7}}
  \cup {[toks |-> <<"{">> \o Scalars[n] \o <<",">> \o Scalars[m] \o <<"}">>,
         val |-> Li(<<DocTyped(TxtOf(Scalars[n])), DocTyped(TxtOf(Scalars[m]))>>)] : n \in {1, 2}, m \in {5, 9}}
  \cup {[toks |-> <<"{">> \o Scalars[13] \o <<",">> \o Scalars[15] \o <<"}">>,
         val |-> Li(<<DocTyped(TxtOf(Scalars[13])), DocTyped(TxtOf(Scalars[15]))>>)]}

Asg1 == {[toks |-> p.toks \o <<"=">> \o v.toks, asgs |-> <<[path |-> p.path, val |-> v.val]>>] : p \in PathsOf, v \in ValsOf}
\* second assignments (a smaller set) appended after a comma
Tail2 == {[toks |-> <<"a", "=", "y">>, asgs |-> <<[path |-> <<PK("a")>>, val |-> DocTyped("y")]>>],
          [toks |-> <<"a", ".", "b", "=", "null">>, asgs |-> <<[path |-> <<PK("a"), PK("b")>>, val |-> Null]>>],
          [toks |-> <<"a", "[1]", "=", "y">>, asgs |-> <<[path |-> <<PK("a"), PI(1)>>, val |-> DocTyped("y")]>>],
          [toks |-> <<"b", ".", "a", "=", "2">>, asgs |-> <<[path |-> <<PK("b"), PK("a")>>, val |-> DocTyped("2")]>>]}
\* a first assignment whose value is empty or a list cannot be followed by ",..." unambiguously
\* in the documented grammar only when the value is a non-empty scalar or a list
Asg2 == {[toks |-> x.toks \o <<",">> \o y.toks, asgs |-> x.asgs \o y.asgs] : x \in {z \in Asg1 : z.asgs[1].val # Sc("s:")}, y \in Tail2}

WithText(S) == {[toks |-> e.toks, asgs |-> e.asgs, text |-> Concat(e.toks)] : e \in S}
SetExprs == SetToSeq(WithText(IF SetPairs THEN Asg1 \cup Asg2 ELSE Asg1))

\* base trees the expression is applied to (as the single -f file)
SetBases == <<
  <<>>,
  [x \in {"a"} |-> Sc("i:1")],
  [x \in {"a"} |-> Mp([y \in {"a", "b"} |-> Sc("s:old")])],
  [x \in {"a", "b"} |-> Li(<<Sc("s:o0"), Sc("s:o1")>>)],
  [x \in {"a"} |-> Li(<<Mp([y \in {"a"} |-> Sc("s:o")])>>)],
  [x \in {"a"} |-> Li(<<Li(<<Sc("s:n0")>>)>>)],
  [x \in {"a.b", "b"} |-> Mp([y \in {"b"} |-> Sc("s:keep")])],
  [x \in {"a"} |-> Null] >>

(* ----- family: cli (the flags as typed on a real `helm template` command line) ----------------- *)
\* an option: texts = one flag occurrence per element; srcs = what the occurrences mean together.
\* --set / --set-string / --set-json / --set-file take several assignments in one comma-separated
\* flag or in several flags; --set-literal takes ONE assignment, everything after the first = is
\* the value: commas, further = signs and backslashes included.
NoCli == [texts |-> <<>>, srcs |-> <<>>]
CliOpts(fam) ==
  CASE fam = "json" ->
         <<NoCli,
           [texts |-> <<"a.a=1", "b=[1,2]">>, srcs |-> <<Asg(<<"a", "a">>, Sc("i:1")), Asg(<<"b">>, Li(<<Sc("i:1"), Sc("i:2")>>))>>],
           [texts |-> <<"a.a=1,b=[1,2]">>,    srcs |-> <<Asg(<<"a", "a">>, Sc("i:1")), Asg(<<"b">>, Li(<<Sc("i:1"), Sc("i:2")>>))>>],
           [texts |-> <<"a.b=\"j,k=l\"">>,   srcs |-> <<Asg(<<"a", "b">>, Sc("s:j,k=l"))>>] >>
    [] fam = "set" ->
         <<NoCli,
           [texts |-> <<"a.a=s1", "b=s2">>,   srcs |-> <<Asg(<<"a", "a">>, Sc("s:s1")), Asg(<<"b">>, Sc("s:s2"))>>],
           [texts |-> <<"a.a=s1,b=s2">>,      srcs |-> <<Asg(<<"a", "a">>, Sc("s:s1")), Asg(<<"b">>, Sc("s:s2"))>>],
           [texts |-> <<"b=x\\,y">>,          srcs |-> <<Asg(<<"b">>, Sc("s:x,y"))>>] >>
    [] fam = "str" ->
         <<NoCli,
           [texts |-> <<"a.b=1", "c=2">>,     srcs |-> <<Asg(<<"a", "b">>, Sc("s:1")), Asg(<<"c">>, Sc("s:2"))>>],
           [texts |-> <<"a.b=1,c=2">>,        srcs |-> <<Asg(<<"a", "b">>, Sc("s:1")), Asg(<<"c">>, Sc("s:2"))>>] >>
    [] fam = "file" ->
         <<NoCli,
           [texts |-> <<"a.c=@sf", "d=@sg">>, srcs |-> <<Asg(<<"a", "c">>, Sc("s:sf")), Asg(<<"d">>, Sc("s:sg"))>>],
           [texts |-> <<"a.c=@sf,d=@sg">>,    srcs |-> <<Asg(<<"a", "c">>, Sc("s:sf")), Asg(<<"d">>, Sc("s:sg"))>>] >>
    [] fam = "lit" ->
         <<NoCli,
           [texts |-> <<"conn=host=db,port=5432">>, srcs |-> <<Asg(<<"conn">>, Sc("s:host=db,port=5432"))>>],
           [texts |-> <<"a.b=x\\,y\\z">>,       srcs |-> <<Asg(<<"a", "b">>, Sc("s:x\\,y\\z"))>>],
           [texts |-> <<"c=1", "a.a={l},m">>,      srcs |-> <<Asg(<<"c">>, Sc("s:1")), Asg(<<"a", "a">>, Sc("s:{l},m"))>>] >>
CliFile == << <<>>, [x \in {"a", "port"} |-> IF x = "a" THEN Mp([y \in AB |-> Sc("s:f1")]) ELSE Sc("i:80")] >>
CliD    == [x \in {"a"} |-> Mp([y \in AB |-> Sc("i:1")])]

(* ----- family: repeat (the same -f file / the same --set expression given more than once) ----- *)
\* a later occurrence overrides what came in between, exactly as a different file with the same
\* content would; order: indexes into <<f1, f2>>
RepF1 == SetToSeq(MapsOver(A, WF("s:f1")))
RepF2 == SetToSeq(MapsOver(A, WF("s:f2")))
RepOrder == << <<1, 2, 1>>, <<2, 1, 2>>, <<1, 2, 1, 2>>, <<1, 1, 2>> >>
RepSet == << NoCli,
             [texts |-> <<"b=1", "b=2", "b=1">>, srcs |-> <<Asg(<<"b">>, Sc("i:1")), Asg(<<"b">>, Sc("i:2")), Asg(<<"b">>, Sc("i:1"))>>] >>
RepD == << <<>>, [x \in {"a"} |-> Mp([y \in AB |-> Sc("i:1")])] >>

(* ----- stages ----------------------------------------------------------- *)
StageSets ==
  CASE Family = "pair"  -> <<PairD, PairF>>
    [] Family = "deep"  -> <<DeepOwn, DeepUser>>
    [] Family = "sub2"  -> <<SubOwn, SubSecA, SubUser>>
    [] Family = "deepsub" -> <<DeepOwn, DeepSec, DeepSubUser>>
    [] Family = "mdoc"  -> <<MWhere, MOther, MDoc1, MDoc2>>
    [] Family = "repeat" -> <<RepD, RepSet, RepOrder, RepF1, RepF2>>
    [] Family = "cli"   -> <<CliFile, CliOpts("json"), CliOpts("set"), CliOpts("str"), CliOpts("file"), CliOpts("lit")>>
    [] Family = "sub3"  -> <<SubOwn, SubSecA, SubSecB, SubUser>>
    [] Family = "flags" -> <<FlagD, FlagF1, FlagF2, Opts("json"), Opts("set"), Opts("str"),
                             Opts("file"), Opts("lit")>>
    [] Family = "set"   -> <<SetBases, SetExprs>>
NStages == Len(StageSets)

\* optional section -> the map function of a chart's / user's values holding it under key n
Under(n, sec) == IF IsSet(sec) THEN [x \in {n} |-> sec] ELSE <<>>
NoFlags == [f \in {"json", "set", "str", "file", "lit"} |-> <<>>]

\* the case of a complete pick:  charts (root first), files, flag texts, and the user-level sources
CaseOf(p) ==
  LET ch(i) == StageSets[i][p[i]] IN
  CASE Family \in {"pair", "deep"} ->
         [charts |-> <<[name |-> "root", vals |-> ch(1)]>>, files |-> <<ch(2)>>, flags |-> NoFlags,
          usr |-> <<[p |-> <<>>, v |-> Mp(ch(2)), obj |-> TRUE]>>]
    [] Family \in {"sub2", "deepsub"} ->
         [charts |-> <<[name |-> "root", vals |-> Under("s1", ch(2))], [name |-> "s1", vals |-> ch(1)]>>,
          files |-> <<Under("s1", ch(3))>>, flags |-> NoFlags,
          usr |-> <<[p |-> <<>>, v |-> Mp(Under("s1", ch(3))), obj |-> TRUE]>>]
    [] Family = "repeat" ->
         LET fs == <<ch(4), ch(5)>> IN
         [charts |-> <<[name |-> "root", vals |-> ch(1)]>>, files |-> fs, fileorder |-> ch(3),
          flags |-> [NoFlags EXCEPT !["set"] = ch(2).texts],
          usr |-> [i \in DOMAIN ch(3) |-> [p |-> <<>>, v |-> Mp(fs[ch(3)[i]]), obj |-> TRUE]] \o ch(2).srcs]
    [] Family = "cli" ->
         [charts |-> <<[name |-> "root", vals |-> CliD]>>, files |-> <<ch(1)>>,
          flags |-> [f \in DOMAIN NoFlags |->
                       LET i == CHOOSE j \in 1..5 : FlagFams[j] = f IN ch(1 + i).texts],
          usr |-> <<[p |-> <<>>, v |-> Mp(ch(1)), obj |-> TRUE]>>
                  \o ch(2).srcs \o ch(3).srcs \o ch(4).srcs \o ch(5).srcs \o ch(6).srcs]
    [] Family = "mdoc" ->
         LET docs == <<Mp(ch(3)), Mp(ch(4))>>
             both == DocMerge(ch(3), ch(4))
             obj(f) == [p |-> <<>>, v |-> Mp(f), obj |-> TRUE] IN
         CASE ch(1) = "file" ->
                [charts |-> <<[name |-> "root", vals |-> ch(2)]>>, files |-> <<both>>, filedocs |-> <<docs>>,
                 flags |-> NoFlags, usr |-> <<obj(ch(3)), obj(ch(4))>>]
           [] ch(1) = "root" ->
                [charts |-> <<[name |-> "root", vals |-> both, docs |-> docs]>>, files |-> <<ch(2)>>,
                 flags |-> NoFlags, usr |-> <<obj(ch(2))>>]
           [] OTHER ->
                [charts |-> <<[name |-> "root", vals |-> <<>>], [name |-> "s1", vals |-> both, docs |-> docs]>>,
                 files |-> <<Under("s1", Mp(ch(2)))>>, flags |-> NoFlags, usr |-> <<obj(Under("s1", Mp(ch(2))))>>]
    [] Family = "sub3" ->
         [charts |-> <<[name |-> "root", vals |-> Under("s1", IF IsSet(ch(3)) THEN Mp(Under("s2", ch(3))) ELSE Unset)],
                       [name |-> "s1", vals |-> Under("s2", ch(2))],
                       [name |-> "s2", vals |-> ch(1)]>>,
          files |-> <<Under("s1", IF IsSet(ch(4)) THEN Mp(Under("s2", ch(4))) ELSE Unset)>>, flags |-> NoFlags,
          usr |-> <<[p |-> <<>>, v |-> Mp(Under("s1", IF IsSet(ch(4)) THEN Mp(Under("s2", ch(4))) ELSE Unset)), obj |-> TRUE]>>]
    [] Family = "flags" ->
         [charts |-> <<[name |-> "root", vals |-> ch(1)]>>, files |-> <<ch(2), ch(3)>>,
          flags |-> [f \in DOMAIN NoFlags |->
                       LET i == CHOOSE j \in 1..5 : FlagFams[j] = f IN
                       IF ch(3 + i).text = "" THEN <<>> ELSE <<ch(3 + i).text>>],
          usr |-> <<[p |-> <<>>, v |-> Mp(ch(2)), obj |-> TRUE], [p |-> <<>>, v |-> Mp(ch(3)), obj |-> TRUE]>>
                  \o ch(4).srcs \o ch(5).srcs \o ch(6).srcs \o ch(7).srcs \o ch(8).srcs]
    [] Family = "set" ->
         [charts |-> <<[name |-> "root", vals |-> <<>>]>>, files |-> <<ch(1)>>,
          flags |-> [NoFlags EXCEPT !["set"] = <<ch(2).text>>],
          usr |-> <<>>, expr |-> ch(2)]

RECURSIVE IdStr(_)
IdStr(p) == IF p = <<>> THEN "" ELSE "_" \o ToString(p[1]) \o IdStr(Tail(p))
CaseId(p) == Family \o IdStr(p)

(* ----- code-shaped evaluation of a case ---------------------------------- *)
\* strvals on the AST level: descend / create maps along the path (a non-map on the way is a Go
\* type-assertion panic, recovered into an error), set the last key
RECURSIVE CodeSetPath(_, _, _)
CodeSetPath(f, path, v) ==          \* f map function; result [ok, v]
  IF Len(path) = 1 THEN [ok |-> TRUE, v |-> Put(f, path[1], v)]
  ELSE IF path[1] \in DOMAIN f /\ ~IsMap(f[path[1]]) THEN [ok |-> FALSE, v |-> f]
  ELSE LET r == CodeSetPath(IF path[1] \in DOMAIN f THEN f[path[1]].m ELSE <<>>, Tail(path), v) IN
       IF r.ok THEN [ok |-> TRUE, v |-> Put(f, path[1], Mp(r.v))] ELSE [ok |-> FALSE, v |-> f]

\* values.Options.MergeValues: files in order (MergeMaps), then --set-json, --set, --set-string,
\* --set-file, --set-literal - c.usr lists the sources in exactly that order
RECURSIVE CodeMergeFrom(_, _, _)
CodeMergeFrom(usr, i, base) ==
  IF i > Len(usr) THEN [ok |-> TRUE, v |-> base]
  ELSE LET s == usr[i] IN
       IF s.obj THEN CodeMergeFrom(usr, i + 1, MergeMaps(base, s.v.m))
       ELSE LET r == CodeSetPath(base, s.p, s.v) IN
            IF r.ok THEN CodeMergeFrom(usr, i + 1, r.v) ELSE r
CodeMerge(c) ==
  IF Family = "set" THEN CodeParseInto(c.expr.toks, c.files[1])
  ELSE CodeMergeFrom(c.usr, 1, <<>>)

\* loader.LoadValues: the documents of a values.yaml are folded with MergeMaps
CodeCharts(c) == [i \in DOMAIN c.charts |->
                    IF "docs" \in DOMAIN c.charts[i]
                    THEN [name |-> c.charts[i].name, vals |-> MergeMaps(c.charts[i].docs[1].m, c.charts[i].docs[2].m)]
                    ELSE c.charts[i]]
CodeRoot(c) == LET m == CodeMerge(c) IN
               IF ~m.ok THEN m ELSE CoalesceValues(Nest(CodeCharts(c), 1), m.v)

(* ----- the model check --------------------------------------------------- *)
\* Classes of difference between code-shaped and property-shaped, exported with the case and
\* counted, never a verdict: every case is replayed on the real code and judged there.
\*   L:...  the code-shaped result is NOT acceptable to the property-shaped oracle (a lead)
\*   i:...  informational: acceptable, but not the strict (layered) reading / not judged
Diffs(c) ==
  LET m == CodeMerge(c)
      r == CodeRoot(c) IN
  IF Family = "set"
  THEN LET e == SetExpected(c.files[1], c.expr) IN
       IF ~m.ok THEN (IF e.conflict THEN {"i:refusal-allowed"} ELSE {"L:set-refused"})
       ELSE IF m.v # e.v THEN {"L:set-value"} ELSE {}
  ELSE
  IF ~m.ok THEN (IF RefusalAllowedUser(c) THEN {"i:refusal-allowed"} ELSE {"L:refused"})
  ELSE (IF UserOk(c, Mp(m.v)) THEN {} ELSE {"L:user"})
       \cup (IF Mp(m.v) # Exp(UserTrees(c), TRUE) THEN {"i:user-reading"} ELSE {})
       \cup (IF SubKeyClobbered(c) THEN {"i:subchart-key-clobbered"}
             ELSE IF ~r.ok THEN {"L:coalesce-refused"}
             ELSE (IF RootOk(c, Mp(r.v)) THEN {} ELSE {"L:root"})
                  \cup (IF Norm(Mp(r.v)) # Exp(AllSources(c), FALSE) THEN {"i:root-reading"} ELSE {})
                  \cup UNION {IF ScopeOk(c, i, Section(Mp(r.v), ChartPath(c, i))) THEN {} ELSE {"L:scope"}
                              : i \in 2..Len(c.charts)}
                  \cup UNION {IF NullRemovesKey(c, i, Section(Mp(r.v), ChartPath(c, i))) THEN {} ELSE {"L:null-key-stays"}
                              : i \in 1..Len(c.charts)})

(* ----- JSON ---------------------------------------------------------------- *)
ChartsJ(c) == [i \in DOMAIN c.charts |-> [name |-> c.charts[i].name, vals |-> Mp(c.charts[i].vals),
                                          docs |-> IF "docs" \in DOMAIN c.charts[i] THEN c.charts[i].docs ELSE <<>>]]
CaseJ(p) ==
  LET c == CaseOf(p) IN
  [id |-> CaseId(p), fam |-> Family, charts |-> ChartsJ(c),
   files |-> [i \in DOMAIN c.files |-> Mp(c.files[i])], flags |-> c.flags,
   filedocs |-> IF "filedocs" \in DOMAIN c THEN c.filedocs ELSE <<>>,
   fileorder |-> IF "fileorder" \in DOMAIN c THEN c.fileorder ELSE [i \in DOMAIN c.files |-> i],
   usr |-> c.usr, asgs |-> IF Family = "set" THEN c.expr.asgs ELSE <<>>,
   exp |-> IF Family = "set" THEN SetExpected(c.files[1], c.expr)
           ELSE [conflict |-> RefusalAllowedUser(c), v |-> <<>>],
   diffs |-> SetToSeq(Diffs(CaseOf(p)))]

(* ----- behaviour ----------------------------------------------------------- *)
VARIABLE pick
Init == pick = <<>>
\* Term (simulation only): a complete pick gets one more step that appends 0; TLC evaluates a
\* CONSTRAINT on every candidate successor while simulating, so exporting at the unique successor
\* of a complete case writes exactly the cases of the behaviours drawn.
Next == \/ /\ Term
           /\ Len(pick) = NStages
           /\ pick' = Append(pick, 0)
        \/ /\ Len(pick) < NStages
           /\ \E i \in 1..Len(StageSets[Len(pick) + 1]) : pick' = Append(pick, i)
Spec == Init /\ [][Next]_pick

Complete == Len(pick) = NStages

\* exhaustive runs: every state of the next-to-last stage writes all its completions
ExportBatch ==
  IF Len(pick) = NStages - 1
  THEN LET L == StageSets[NStages] IN
       ndJsonSerialize("gen/" \o CaseId(pick) \o ".ndjson", [i \in 1..Len(L) |-> CaseJ(Append(pick, i))])
  ELSE TRUE

\* simulation runs (-workers 1): one file per complete case
ExportOne ==
  IF Len(pick) = NStages + 1
  THEN /\ TLCSet(1, TLCGet(1) + 1)
       /\ ndJsonSerialize("gen/s" \o ToString(TLCGet(1)) \o ".ndjson", <<CaseJ(SubSeq(pick, 1, NStages))>>)
  ELSE TRUE

\* the model check proper: reported per case (and counted by the caller), TLC keeps going
ModelReport ==
  IF Complete
  THEN LET d == Diffs(CaseOf(pick)) IN IF \A x \in d : x \notin {"L:set-refused", "L:set-value", "L:refused", "L:user", "L:coalesce-refused", "L:root", "L:scope", "L:null-key-stays"} THEN TRUE ELSE PrintT(<<"MODELDIFF", CaseId(pick), d>>)
  ELSE TRUE
=============================================================================
