INIT Init
NEXT Next
CONSTANT Mode = "c05"
CONSTANT PartN = 0
CONSTANT PartSubN = 0
CONSTANT OneFileN = 0
CONSTANT MachN = 0
CONSTANT ProgN = 3
CONSTANT MachPaths = 7
CONSTANT MachProgN = 2
