SPECIFICATION Spec
CONSTANTS
  Procs = {1}
  MaxRev = 10
  MaxOps = 4
  MaxFaults = 2
  MaxCrash = 0
  MaxEdits = 2
  FaultKinds = {"res", "wait"}
  Sequential = TRUE
  Planned = TRUE
  MaxPlan = 36
  InitStores <- StoresEmpty
  LateStart = FALSE
  LogSched = FALSE
  KeepLog = FALSE
  OpMenu <- MenuOwn
  EditMenu <- EditsNew
  PreMenu <- PreOwn
  Objs <- AllObjs
  MenuGuard <- GuardBias
CONSTRAINT GenExport
CHECK_DEADLOCK FALSE
