SPECIFICATION Spec
CONSTANTS
  Procs = {1}
  MaxRev = 8
  MaxOps = 3
  MaxFaults = 0
  MaxCrash = 0
  MaxEdits = 0
  FaultKinds = {}
  Sequential = TRUE
  Planned = TRUE
  MaxPlan = 36
  KeepLog = FALSE
  OpMenu <- MenuOwn
  EditMenu <- EditsNone
  PreMenu <- PreOwn
  Objs <- AllObjs
  MenuGuard <- GuardBias
CONSTRAINT GenExport
CHECK_DEADLOCK FALSE
