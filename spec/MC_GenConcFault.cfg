SPECIFICATION Spec
CONSTANTS
  Procs = {1, 2}
  MaxRev = 6
  MaxOps = 1
  MaxFaults = 1
  MaxCrash = 0
  MaxEdits = 0
  FaultKinds = {"res", "wait"}
  Sequential = FALSE
  Planned = TRUE
  MaxPlan = 14
  InitStores <- StoresDeployed
  LateStart = TRUE
  LogSched = TRUE
  KeepLog = TRUE
  OpMenu <- MenuConcA
  EditMenu <- EditsNone
  PreMenu <- PreDeployedA
  Objs <- AllObjs
  MenuGuard <- GuardTrue
CONSTRAINT GenExport
CHECK_DEADLOCK FALSE
