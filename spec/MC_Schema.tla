----------------------------- MODULE MC_Schema -----------------------------
(***************************************************************************)
(* The bounded case space of C14: schema forms x placement (root chart,     *)
(* subchart, sub-subchart of the tree root -> mid -> leaf) x the value of    *)
(* the constrained key arriving from the chart's own defaults, the parent    *)
(* chart's section, a values file or --set x the dependency enabled or not.  *)
(***************************************************************************)
EXTENDS Schema

Slot(src, p, dom) == [src |-> src, p |-> p, dom |-> dom]
Fix(src, p, v)    == [src |-> src, p |-> p, v |-> v]
Dep(n, a, c, t)   == [name |-> n, alias |-> a, cond |-> c, tags |-> t]
C(k, p, a)        == [k |-> k, p |-> p, a |-> a]
ChS(deps, schema, crds) == [deps |-> deps, schema |-> schema, crds |-> crds, notpl |-> FALSE]

Own == <<Fix("root", <<"b">>, "s:root"), Fix("mid", <<"b">>, "s:mid"), Fix("leaf", <<"b">>, "s:leaf")>>

(* --- schema forms; every form constrains the key `a` (or n.a) of its chart ---- *)
\* [schema, dom = contents of the key worth trying, good, bad = one valid / invalid content]
FType   == [s |-> <<C("type", <<"a">>, <<"number">>)>>,
            dom |-> <<Abs, Sc("n:1"), Sc("s:x"), Sc("true"), Tb("k", "n:1")>>, good |-> Sc("n:2"), bad |-> Sc("s:y")]
FInt    == [s |-> <<C("type", <<"a">>, <<"integer">>), C("type", <<>>, <<"object">>)>>,
            dom |-> <<Abs, Sc("n:1"), Sc("s:x")>>, good |-> Sc("n:2"), bad |-> Sc("false")]
FReq    == [s |-> <<C("required", <<>>, <<"a">>)>>,
            dom |-> <<Abs, Sc("n:1"), Sc("{}")>>, good |-> Sc("s:x"), bad |-> Abs]
FEnum   == [s |-> <<C("enum", <<"a">>, <<"s:x", "s:y">>)>>,
            dom |-> <<Abs, Sc("s:x"), Sc("s:z"), Sc("n:1")>>, good |-> Sc("s:y"), bad |-> Sc("s:z")]
FRange  == [s |-> <<C("minimum", <<"a">>, <<"n:1">>), C("maximum", <<"a">>, <<"n:2">>)>>,
            dom |-> <<Abs, Sc("n:0"), Sc("n:1"), Sc("n:2"), Sc("n:3"), Sc("s:x")>>, good |-> Sc("n:1"), bad |-> Sc("n:3")]
\* bounds that only digits beyond 2^53 decide
FBigMax == [s |-> <<C("maximum", <<"a">>, <<Big>>)>>,
            dom |-> <<Abs, Sc(Big), Sc(Big1), Sc("n:1")>>, good |-> Sc(Big), bad |-> Sc(Big1)]
FBigMin == [s |-> <<C("minimum", <<"a">>, <<Big1>>)>>,
            dom |-> <<Abs, Sc(Big1), Sc(Big)>>, good |-> Sc(Big1), bad |-> Sc(Big)]
FNested == [s |-> <<C("type", <<"a">>, <<"object">>), C("required", <<"a">>, <<"k">>), C("type", <<"a", "k">>, <<"boolean">>)>>,
            dom |-> <<Abs, Tb("k", "true"), Tb("k", "s:x"), Tb("j", "true"), Sc("n:1"), Sc("{}")>>,
            good |-> Tb("k", "false"), bad |-> Tb("k", "n:1")]
\* additionalProperties:false; the declared keys cover everything the tree itself puts there
FClosed(keys) == [s |-> <<C("closed", <<>>, keys)>>,
                  dom |-> <<Abs, Sc("n:1")>>, good |-> Abs, bad |-> Sc("n:1")]
\* additionalProperties:false inside a nested object
FClosedIn == [s |-> <<C("closed", <<"a">>, <<"k">>)>>,
              dom |-> <<Abs, Tb("k", "n:1"), Tb("j", "n:1"), Sc("s:x")>>, good |-> Tb("k", "n:2"), bad |-> Tb("j", "n:2")]

Tree(sroot, smid, sleaf, crds) ==
  [root |-> ChS(<<Dep("mid", "", <<<<"mid", "en">>>>, <<>>)>>, sroot, crds),
   mid  |-> ChS(<<Dep("leaf", "", <<<<"leaf", "en">>>>, <<>>)>>, smid, FALSE),
   leaf |-> ChS(<<>>, sleaf, crds)]

OnOff == <<Abs, Sc("false")>>

\* the constrained key: `a` for most forms, the extra key `c` for the closed forms
AtRoot(nm, f, key, dpar, dfile, dset, crds) ==
  [name |-> nm, fixed |-> Own, charts |-> Tree(f.s, <<>>, <<>>, crds),
   slots |-> <<Slot("root", <<key>>, f.dom), Slot("user", <<key>>, dfile), Slot("set", <<key>>, dset)>>]

AtMid(nm, f, key, dpar, dfile, dset, crds) ==
  [name |-> nm, fixed |-> Own, charts |-> Tree(<<>>, f.s, <<>>, crds),
   slots |-> <<Slot("mid", <<key>>, f.dom), Slot("root", <<"mid", key>>, dpar), Slot("user", <<"mid", key>>, dfile),
               Slot("set", <<"mid", key>>, dset), Slot("user", <<"mid", "en">>, OnOff)>>]

AtLeaf(nm, f, key, dpar, dfile, dset, crds) ==
  [name |-> nm, fixed |-> Own, charts |-> Tree(<<>>, <<>>, f.s, crds),
   slots |-> <<Slot("leaf", <<key>>, f.dom), Slot("mid", <<"leaf", key>>, dpar), Slot("user", <<"mid", "leaf", key>>, dfile),
               Slot("set", <<"mid", "leaf", key>>, dset), Slot("user", <<"mid", "en">>, OnOff),
               Slot("user", <<"mid", "leaf", "en">>, OnOff)>>]

\* --set cannot write an empty table
ScalarOnly(d) == SelectSeq(d, LAMBDA x : x.v # "{}")

\* one form at the three placements; quick: the parent's section tries only the bad content
Form3(nm, f, key, full) ==
  LET dpar  == IF full THEN <<Abs, f.good, f.bad>> ELSE <<Abs, f.bad>>
      dfile == <<Abs, f.good, f.bad>>
      dset  == IF full THEN ScalarOnly(<<Abs, f.good, f.bad>>) ELSE ScalarOnly(<<Abs, f.good>>)
  IN <<AtRoot(nm \o "r", f, key, dpar, dfile, dset, FALSE), AtMid(nm \o "m", f, key, dpar, dfile, dset, FALSE),
       AtLeaf(nm \o "l", f, key, dpar, dfile, dset, FALSE)>>

\* the lower bound at the root, the bad content also arriving through --set
BigMinRoot(full) == <<AtRoot("bnr", FBigMin, "a", <<Abs>>, <<Abs, FBigMin.good, FBigMin.bad>>,
                             <<Abs, FBigMin.good, FBigMin.bad>>, FALSE)>>

\* closed forms: the declared keys per placement; "ng" = `global` not declared (a subchart's final values always have one)
ClosedShapes(full) ==
  LET dpar  == IF full THEN <<Abs, Sc("n:1")>> ELSE <<Abs>>
      dfile == <<Abs, Sc("n:1")>>
      dset  == IF full THEN <<Abs, Sc("n:2")>> ELSE <<Abs>>
  IN <<AtRoot("cdr", FClosed(<<"a", "b", "mid", "global">>), "c", dpar, dfile, dset, FALSE),
       AtRoot("cnr", FClosed(<<"a", "b", "global">>), "c", dpar, dfile, dset, FALSE),       \* the subchart's section is an additional property
       AtMid("cdm", FClosed(<<"a", "b", "leaf", "global", "en">>), "c", dpar, dfile, dset, FALSE),
       AtMid("cgm", FClosed(<<"a", "b", "leaf", "en">>), "c", dpar, dfile, dset, FALSE),     \* no `global`: rejects by definition
       AtLeaf("cdl", FClosed(<<"a", "b", "global", "en">>), "c", dpar, dfile, dset, FALSE),
       AtLeaf("cgl", FClosed(<<"a", "b", "en">>), "c", dpar, dfile, dset, FALSE)>>

\* schemas at two levels at once: the error must name every violating chart
Both ==
  [name |-> "bo", fixed |-> Own, charts |-> Tree(FType.s, <<>>, FEnum.s, FALSE),
   slots |-> <<Slot("user", <<"a">>, <<Abs, Sc("n:1"), Sc("s:x")>>), Slot("leaf", <<"a">>, <<Abs, Sc("s:x"), Sc("s:z")>>),
               Slot("set", <<"mid", "leaf", "a">>, <<Abs, Sc("s:y"), Sc("n:3")>>), Slot("user", <<"mid", "leaf", "en">>, OnOff)>>]

\* the root schema constrains the section of its subchart; the required key may come from the subchart's defaults
RootOverSub ==
  [name |-> "ros", fixed |-> Own,
   charts |-> Tree(<<C("required", <<"mid">>, <<"a">>), C("type", <<"mid", "a">>, <<"string">>)>>, <<>>, <<>>, FALSE),
   slots |-> <<Slot("mid", <<"a">>, <<Abs, Sc("s:m"), Sc("n:1")>>), Slot("user", <<"mid", "a">>, <<Abs, Sc("s:u"), Sc("n:2")>>),
               Slot("user", <<"mid", "c">>, <<Abs, Sc("n:1")>>), Slot("user", <<"mid", "en">>, OnOff)>>]

\* an override INSIDE a table whose sibling key comes from the chart's values.yaml: the schema requires both
\* keys (and closes the table); every entry point must judge the MERGED table (values.yaml a.k + override a.j)
NestedOverride ==
  [name |-> "no", fixed |-> Own \o <<Fix("root", <<"a", "k">>, "s:repo")>>,
   charts |-> Tree(<<C("type", <<"a">>, <<"object">>), C("required", <<"a">>, <<"k", "j">>), C("closed", <<"a">>, <<"k", "j">>),
                     C("type", <<"a", "j">>, <<"string">>)>>, <<>>, <<>>, FALSE),
   slots |-> <<Slot("set", <<"a", "j">>, <<Abs, Sc("s:v2")>>), Slot("user", <<"a", "j">>, <<Abs, Sc("s:v1"), Sc("n:1")>>),
               Slot("user", <<"a", "x">>, <<Abs, Sc("s:extra")>>)>>]

\* the same chart under two aliases: the error names the alias whose values violate the schema, not the chart
AliasSchema ==
  [name |-> "as", fixed |-> Own,
   charts |-> [root |-> ChS(<<Dep("leaf", "s1", <<<<"s1", "en">>>>, <<>>), Dep("leaf", "s2", <<>>, <<>>)>>, <<>>, FALSE),
               leaf |-> ChS(<<>>, FType.s, FALSE)],
   slots |-> <<Slot("user", <<"s1", "a">>, <<Abs, Sc("n:1"), Sc("s:x")>>), Slot("set", <<"s2", "a">>, <<Abs, Sc("n:2"), Sc("s:y")>>),
               Slot("leaf", <<"a">>, <<Abs, Sc("n:1"), Sc("true")>>), Slot("user", <<"s1", "en">>, OnOff),
               Slot("user", <<"leaf", "a">>, <<Abs, Sc("s:z")>>)>>]

\* the empty-values corner: a chart without dependencies and (possibly) without any default value, nothing supplied:
\* the final values are {} - which `required` rejects like any other value tree
EmptyVals ==
  [name |-> "ev", fixed |-> <<>>, charts |-> [root |-> ChS(<<>>, FReq.s, FALSE)],
   slots |-> <<Slot("root", <<"a">>, <<Abs, Sc("n:1")>>), Slot("user", <<"a">>, <<Abs, Sc("s:x")>>), Slot("set", <<"a">>, <<Abs, Sc("n:2")>>),
               Slot("root", <<"b">>, <<Abs, Sc("s:root")>>)>>]

\* charts that ship crds/ (root and leaf): what has reached the cluster when the gate rejects? (L19)
WithCrds ==
  <<AtRoot("kr", FType, "a", <<Abs>>, <<Abs, Sc("n:2"), Sc("s:y")>>, <<Abs>>, TRUE),
    AtLeaf("kl", FReq, "a", <<Abs>>, <<Abs, Sc("s:x")>>, <<Abs>>, TRUE)>>

QuickShapes == Form3("ty", FType, "a", FALSE) \o Form3("in", FInt, "a", FALSE) \o Form3("rq", FReq, "a", FALSE)
               \o Form3("en", FEnum, "a", FALSE) \o Form3("rg", FRange, "a", FALSE) \o Form3("ne", FNested, "a", FALSE)
               \o Form3("bx", FBigMax, "a", FALSE) \o BigMinRoot(FALSE)
               \o Form3("ci", FClosedIn, "a", FALSE) \o ClosedShapes(FALSE) \o <<Both, RootOverSub, NestedOverride, AliasSchema, EmptyVals>> \o WithCrds

ThoroughShapes == Form3("ty", FType, "a", TRUE) \o Form3("in", FInt, "a", TRUE) \o Form3("rq", FReq, "a", TRUE)
               \o Form3("en", FEnum, "a", TRUE) \o Form3("rg", FRange, "a", TRUE) \o Form3("ne", FNested, "a", TRUE)
               \o Form3("bx", FBigMax, "a", TRUE) \o BigMinRoot(TRUE)
               \o Form3("ci", FClosedIn, "a", TRUE) \o ClosedShapes(TRUE) \o <<Both, RootOverSub, NestedOverride, AliasSchema, EmptyVals>> \o WithCrds
=============================================================================
