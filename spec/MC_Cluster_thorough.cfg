SPECIFICATION Spec
CONSTANTS
  Procs = {1}
  MaxRev = 10
  MaxOps = 4
  MaxFaults = 0
  MaxCrash = 0
  MaxEdits = 2
  FaultKinds = {}
  Sequential = TRUE
  Planned = FALSE
  MaxPlan = 36
  InitStores <- StoresEmpty
  LateStart = FALSE
  LogSched = FALSE
  KeepLog = FALSE
  OpMenu <- MenuCluster
  EditMenu <- EditsX
  PreMenu <- PreOwnX
  Objs <- AllObjs
  MenuGuard <- GuardTrue
VIEW View
INVARIANTS Inv_C02_Success Inv_C02_Uninstall
PROPERTIES Act_C02_Bystanders
CHECK_DEADLOCK FALSE
