SPECIFICATION Spec
CONSTANTS
  Procs = {1}
  MaxRev = 8
  MaxOps = 3
  MaxFaults = 1
  MaxCrash = 0
  MaxEdits = 0
  FaultKinds = {"res", "wait"}
  Sequential = TRUE
  Planned = FALSE
  MaxPlan = 36
  InitStores <- StoresEmpty
  LateStart = FALSE
  LogSched = FALSE
  KeepLog = FALSE
  OpMenu <- XDry
  EditMenu <- EditsNone
  PreMenu <- PreHook
  Objs <- AllObjs
  MenuGuard <- GuardTrue
VIEW View
INVARIANTS Inv_C06_EndSame
PROPERTIES Act_C06_ReadOnly
CHECK_DEADLOCK FALSE
