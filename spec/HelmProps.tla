------------------------------ MODULE HelmProps ------------------------------
(***************************************************************************)
(* The listed properties C01 C02 C03 C06 C07 C12 (and the ledger part of    *)
(* C09) as predicates over abstract states and operation summaries.         *)
(*                                                                          *)
(* The SAME operators are evaluated                                         *)
(*   - by TLC on every state / step of the specification (Helm.tla, MC modules), *)
(*   - by TLC on the states OBSERVED from the real code (HelmMon.tla reads  *)
(*     the recorded trace; verdicts come only from there, DESIGN §2.4).     *)
(*                                                                          *)
(* An abstract state S is [store, cluster]:                                 *)
(*   store   : revision -> [st, ch, cfg, man, hooks]   (st = "none": absent)*)
(*   cluster : object id -> [f1, f2, own, pol]          (own = "absent")    *)
(* An operation summary s is                                                *)
(*   [u     : the operation and its flags as the user gave them,            *)
(*    ok    : it returned without error,                                    *)
(*    crs   : set of revisions whose record this operation created,         *)
(*    flt   : classes of faults injected into it ("res","wait","store"),    *)
(*    posted: manifest resources it created (POST ok),                      *)
(*    log   : sequence of the labels of its calls,                          *)
(*    fsub  : a cluster fault was injected after the atomic sub-operation   *)
(*            (uninstall inside install, rollback inside upgrade) began]    *)
(***************************************************************************)
EXTENDS HelmBase

Revs(st)         == {r \in DOMAIN st : st[r].st # "none"}
DeployedRevs(st) == {r \in Revs(st) : st[r].st = "deployed"}
MaxOr0(S)        == IF S = {} THEN 0 ELSE MaxOf(S)
IsAbsent(o)      == o.own = "absent"
Core(o)          == [f1 |-> o.f1, f2 |-> o.f2, own |-> o.own, pol |-> o.pol]

IUR == {"install", "upgrade", "rollback"}

IsWrite(lab) ==
  \/ lab.kind = "store" /\ lab.verb \in {"create", "update", "delete"}
  \/ lab.kind = "res"   /\ lab.verb \in {"POST", "PUT", "PATCH", "DELETE"}

\* ids named by a manifest or hook of any revision of the ledger, or of chart c
NamedIn(st) == UNION {(DOMAIN st[r].man) \cup (DOMAIN st[r].hooks) : r \in Revs(st)}
NamedByChart(c) == IF c \in ChartIds THEN (DOMAIN ChartMan(c)) \cup (DOMAIN ChartHooks(c)) \cup Range(ChartCRDs(c)) ELSE {}
HookIdsIn(st) == UNION {DOMAIN st[r].hooks : r \in Revs(st)}

-----------------------------------------------------------------------------
(* C01 -- the ledger                                                         *)

C01_AtMostOneDeployed(st) == Cardinality(DeployedRevs(st)) <= 1

\* every newly appearing revision is exactly one above the highest one that existed
C01_NextRevision(preSt, before, after) ==
  LET newr == Revs(after) \ Revs(before) IN
  newr # {} => /\ Cardinality(newr) = 1
               /\ \A n \in newr : n = 1 + MaxOr0(Revs(before) \cup Revs(preSt))

RollbackTarget(preSt, u) == IF u.ver = 0 THEN MaxOr0(Revs(preSt)) - 1 ELSE u.ver

\* after an operation reported success
C01_Success(pre, post, s) ==
  CASE s.u.kind \in IUR /\ ~s.u.dry ->
         /\ Cardinality(s.crs) = 1
         /\ \A n \in s.crs :
              /\ n \in Revs(post.store)
              /\ n = MaxOf(Revs(post.store))
              /\ post.store[n].st = "deployed"
              /\ \A r \in DeployedRevs(pre.store) :
                   r # n => r \in Revs(post.store) /\ post.store[r].st = "superseded"
              /\ s.u.kind = "rollback" =>
                   LET t == RollbackTarget(pre.store, s.u) IN
                   /\ t \in Revs(pre.store)
                   /\ post.store[n].ch = pre.store[t].ch
                   /\ post.store[n].cfg = pre.store[t].cfg
                   /\ post.store[n].man = pre.store[t].man
    [] s.u.kind = "uninstall" /\ ~s.u.keep /\ ~s.u.dry -> Revs(post.store) = {}
    [] OTHER -> TRUE

\* pruning with history limit N (evaluated when the operation that asked for it returns)
C01_Prune(pre, post, s) ==
  (s.u.kind \in {"upgrade", "rollback"} /\ s.u.lim > 0 /\ ~s.u.dry /\ s.crs # {} /\ "store" \notin s.flt) =>
    LET N     == s.u.lim
        h     == Revs(pre.store)
        dep   == MaxOr0(DeployedRevs(pre.store))
        gone  == h \ Revs(post.store)
        need  == Cardinality(h) - (N - 1)
        depRank == Cardinality({r \in h : r <= dep})
    IN /\ dep \notin gone
       /\ MaxOf(s.crs) \in Revs(post.store)                                       \* never the newest one
       /\ \A d \in gone : \A r \in h : (r < d /\ r # dep) => r \in gone          \* only the oldest
       /\ \/ Cardinality(Revs(post.store)) <= N
          \/ /\ Cardinality(Revs(post.store)) = N + 1
             /\ dep # 0 /\ depRank <= need                                          \* the deployed one would have gone

-----------------------------------------------------------------------------
(* C02 -- cluster matches the recorded manifest                               *)

MatchOne(m, o) ==
  /\ ~IsAbsent(o)
  /\ m.f1 # "-" => o.f1 = m.f1
  /\ m.f2 # "-" => o.f2 = m.f2
  /\ m.pol # "none" => o.pol = m.pol
  /\ o.own = "me"

Match(man, cl) == \A r \in DOMAIN man : MatchOne(man[r], cl[r])

\* success of install / upgrade / rollback on a cluster that accepted every request
C02_Success(pre, post, s) ==
  (s.u.kind \in IUR /\ ~s.u.dry /\ s.flt = {} /\ s.crs # {}) =>
    LET n == MaxOf(s.crs)
        newman == post.store[n].man
        dep == MaxOr0(DeployedRevs(pre.store)) IN
    /\ n \in Revs(post.store)
    /\ Match(newman, post.cluster)
    \* dropped resources are deleted unless the LIVE object carried keep, in which case it is left untouched
    /\ dep # 0 => \A r \in (DOMAIN pre.store[dep].man) \ (DOMAIN newman) :
                     IF pre.cluster[r].pol = "keep" THEN Core(post.cluster[r]) = Core(pre.cluster[r])
                     ELSE IsAbsent(post.cluster[r])

\* objects outside the release's manifests and hooks are never touched (any step, any outcome)
C02_Bystanders(preSt, before, after, chart) ==
  \A o \in DOMAIN after.cluster :
    (o \notin NamedIn(preSt) \cup NamedIn(before.store) \cup NamedIn(after.store) \cup NamedByChart(chart))
      => after.cluster[o] = before.cluster[o]

\* ... and an object somebody else created under a name the restored manifest uses (it is not in the manifest the
\* rollback starts from, it exists, it does not carry this release's ownership metadata) is not the release's
\* either: a rollback that succeeds has not touched it (install / upgrade: refusal, C07)
C02_Strangers(pre, post, s) ==
  (s.u.kind = "rollback" /\ ~s.u.dry /\ s.ok /\ s.crs # {} /\ Revs(pre.store) # {}) =>
    LET cur == pre.store[MaxOf(Revs(pre.store))].man
        new == post.store[MaxOf(s.crs)].man IN
    \A o \in (DOMAIN new) \ (DOMAIN cur) :
      (~IsAbsent(pre.cluster[o]) /\ pre.cluster[o].own # "me") => post.cluster[o] = pre.cluster[o]

C02_Uninstall(pre, post, s) ==
  (s.u.kind = "uninstall" /\ ~s.u.dry /\ s.flt = {} /\ Revs(pre.store) # {}) =>
    LET man == pre.store[MaxOf(Revs(pre.store))].man IN
    \A r \in DOMAIN man :
      IF man[r].pol = "keep" THEN post.cluster[r] = pre.cluster[r]
      ELSE IsAbsent(post.cluster[r])

-----------------------------------------------------------------------------
(* C03 -- failure containment and --atomic                                    *)

ClusterFault(s) == s.flt \cap {"res", "wait"} # {}

C03_Error(s) == (s.u.kind \in IUR /\ ~s.u.dry /\ ClusterFault(s)) => ~s.ok

C03_Failed(pre, post, s) ==
  (s.u.kind \in IUR /\ ~s.u.dry /\ ClusterFault(s) /\ ~s.ok /\ ~s.u.atomic) =>
    /\ \A n \in s.crs : n \in Revs(post.store) => post.store[n].st = "failed"
    /\ s.u.kind \in {"install", "upgrade"} =>
         \A r \in DeployedRevs(pre.store) : r \in Revs(post.store) /\ post.store[r].st = "deployed"

C03_Cleanup(pre, post, s) ==
  (s.u.kind = "upgrade" /\ s.u.cleanup /\ ~s.u.dry /\ ClusterFault(s) /\ ~s.ok) =>
    \* (with --atomic the rollback that follows the cleanup may create the resource once more, when the
    \*  revision it restores has it: that object belongs to the restored revision, not to the failed upgrade)
    LET top == MaxOr0(Revs(post.store))
        restored == IF s.u.atomic /\ top # 0 /\ top \notin Revs(pre.store) /\ post.store[top].st = "deployed"
                    THEN DOMAIN post.store[top].man ELSE {} IN
    \A r \in s.posted : IsAbsent(post.cluster[r]) \/ r \in restored

C03_AtomicUpgrade(pre, post, s) ==
  \* (a fault that hits the rollback itself is outside the statement: the cluster must accept the recovery)
  (s.u.kind = "upgrade" /\ s.u.atomic /\ ~s.u.dry /\ ClusterFault(s) /\ ~s.fsub /\ ~s.ok /\ s.crs # {}) =>
    LET good == {r \in Revs(pre.store) : pre.store[r].st \in {"deployed", "superseded"}}
        top  == MaxOr0(Revs(post.store)) IN
    good # {} =>
      /\ top # 0 /\ top \notin Revs(pre.store)
      /\ post.store[top].st = "deployed"
      /\ post.store[top].man = pre.store[MaxOf(good)].man
      /\ Match(post.store[top].man, post.cluster)
      \* "a cluster that matches it": what the failed upgrade itself created and the restored manifest does not
      \* name is gone again (unless the live object carries the keep policy)
      /\ \A r \in s.posted : r \in DOMAIN post.store[top].man \/ IsAbsent(post.cluster[r]) \/ post.cluster[r].pol = "keep"
      /\ C01_AtMostOneDeployed(post.store)

C03_AtomicInstall(pre, post, s) ==
  (s.u.kind = "install" /\ s.u.atomic /\ ~s.u.dry /\ ClusterFault(s) /\ ~s.fsub /\ ~s.ok /\ s.crs # {}) =>
    /\ Revs(post.store) = {}
    /\ \A r \in DOMAIN ChartMan(s.u.chart) : IsAbsent(post.cluster[r])

-----------------------------------------------------------------------------
(* C06 -- dry-run never writes                                                *)

C06_StepReadOnly(u, lab, before, after) ==
  u.dry => /\ ~IsWrite(lab)
           /\ after = before
           /\ u.clientOnly => lab.ev # "call"

-----------------------------------------------------------------------------
(* C07 -- ownership                                                           *)

\* the release the code diffs against (deployed, else last failed/superseded)
CurrentRev(st) == IF DeployedRevs(st) # {} THEN MaxOf(DeployedRevs(st)) ELSE MaxOr0(Revs(st))

ToBeCreated(pre, u) ==
  CASE u.kind = "install" -> DOMAIN ChartMan(u.chart)
    [] u.kind = "upgrade" -> IF CurrentRev(pre.store) = 0 THEN {}
                             ELSE LET cur == pre.store[CurrentRev(pre.store)].man  tgt == ChartMan(u.chart) IN
                                  {r \in DOMAIN tgt : r \notin DOMAIN cur \/ ~SameKey(cur[r], tgt[r])}
    [] OTHER -> {}

Conflict(pre, u) == \E r \in ToBeCreated(pre, u) : pre.cluster[r].own \notin {"absent", "me"}

C07_Refusal(pre, post, s) ==
  (s.u.kind \in {"install", "upgrade"} /\ ~s.u.takeown /\ ~s.u.clientOnly /\ Conflict(pre, s.u)) =>
    /\ ~s.ok
    /\ post = pre
    /\ \A i \in DOMAIN s.log : ~IsWrite(s.log[i])

\* every manifest resource helm writes carries the ownership metadata of this release
C07_Stamped(lab, after, manIds) ==
  (lab.ev = "call" /\ lab.kind = "res" /\ lab.verb \in {"POST", "PUT", "PATCH"} /\ lab.ok /\ lab.id \in manIds)
     => after.cluster[lab.id].own = "me"

\* helm deletes only what a manifest or hook of this release names
C07_DeleteNamed(lab, named) ==
  (lab.ev = "call" /\ lab.kind = "res" /\ lab.verb = "DELETE") => lab.id \in named

-----------------------------------------------------------------------------
(* C12 -- hooks                                                               *)

\* hook-related calls of a log, as indices
HookCalls(log, hids) == {i \in DOMAIN log : log[i].kind \in {"res", "wait"} /\ log[i].id \in hids}

HookKey(defs, h) == (defs[h].weight + 50) * 100 + IdRank(h)

\* phase of position i: 0 before the first call on a manifest resource / readiness wait, 1 after
Phase(log, i, hids) ==
  IF \E j \in 1..(i - 1) : \/ log[j].kind = "wait" /\ log[j].verb = "wait"
                           \/ log[j].kind = "res" /\ log[j].id \notin hids /\ log[j].verb # "GET"
  THEN 1 ELSE 0

\* one run of execHook = a maximal stretch of calls on hook objects (and the recordRelease
\* updates between them) with no failed create / watch inside
HookStep(log, k, hids) == \/ (log[k].kind \in {"res", "wait"} /\ log[k].id \in hids)
                          \/ (log[k].kind = "store" /\ log[k].verb = "update")
SameRun(log, i, j, hids) ==
  /\ \A k \in i..j : HookStep(log, k, hids)
  /\ \A k \in i..(j - 1) : ~(log[k].kind = "wait" /\ log[k].verb = "watch" /\ ~log[k].ok)
                           /\ ~(log[k].kind = "res" /\ log[k].verb = "POST" /\ ~log[k].ok)

\* creates of the hooks of one lifecycle event come in (weight, name) order, each after the
\* previous one's watch returned ok
C12_Order(log, defs) ==
  LET hids == DOMAIN defs
      posts == {i \in DOMAIN log : log[i].kind = "res" /\ log[i].verb = "POST" /\ log[i].id \in hids} IN
  \A i, j \in posts :
    (i < j /\ SameRun(log, i, j, hids)) =>
      /\ HookKey(defs, log[i].id) < HookKey(defs, log[j].id)
      /\ \E k \in (i + 1)..(j - 1) : log[k].kind = "wait" /\ log[k].verb = "watch" /\ log[k].id = log[i].id /\ log[k].ok

EffPolsP(d) == IF d.pols = {} THEN {"before-hook-creation"} ELSE d.pols

\* a hook create is preceded by a delete of the same object iff its policy says so
C12_DeleteBefore(log, defs) ==
  LET hids == DOMAIN defs IN
  \A i \in DOMAIN log :
    (log[i].kind = "res" /\ log[i].verb = "POST" /\ log[i].id \in hids) =>
      LET h == log[i].id
          prevs == {k \in 1..(i - 1) : log[k].kind \in {"res", "wait"}}
          k == IF prevs = {} THEN 0 ELSE MaxOf(prevs)
          deletedJustBefore == k # 0 /\ log[k].kind = "res" /\ log[k].verb = "DELETE" /\ log[k].id = h IN
      ("before-hook-creation" \in EffPolsP(defs[h])) <=> deletedJustBefore

\* outcome of the last run of hook h in the log: "none" | "ok" | "fail"
LastRun(log, h) ==
  LET ws == {i \in DOMAIN log : log[i].kind = "wait" /\ log[i].verb = "watch" /\ log[i].id = h} IN
  IF ws = {} THEN "none" ELSE IF log[MaxOf(ws)].ok THEN "ok" ELSE "fail"

\* after the operation a hook object is gone exactly when its policy demands it for its outcome
\* (only when the cluster accepted every delete: no injected "res" fault)
C12_DeletedByPolicy(log, defs, post, flt) ==
  ("res" \notin flt) =>
    \A h \in DOMAIN defs :
      LET out == LastRun(log, h) IN
      CASE out = "ok"   -> ("hook-succeeded" \in EffPolsP(defs[h])) <=> IsAbsent(post.cluster[h])
        [] out = "fail" -> ("hook-failed" \in EffPolsP(defs[h])) <=> IsAbsent(post.cluster[h])
        [] OTHER -> TRUE

\* a failing pre-hook: no release resource is written and no later hook runs (without --atomic)
C12_PreHookGate(log, defs, manIds, u) ==
  LET hids == DOMAIN defs IN
  ~u.atomic =>
    \A i \in DOMAIN log :
      (log[i].kind = "wait" /\ log[i].verb = "watch" /\ ~log[i].ok /\ Phase(log, i, hids) = 0) =>
        \A j \in (i + 1)..Len(log) :
          /\ ~(log[j].kind = "res" /\ log[j].id \in manIds /\ log[j].verb # "GET")
          /\ ~(log[j].kind = "res" /\ log[j].verb = "POST" /\ log[j].id \in hids)

\* a failing post-hook fails the operation
C12_PostHookFails(log, defs, ok) ==
  (\E i \in DOMAIN log : log[i].kind = "wait" /\ log[i].verb = "watch" /\ ~log[i].ok) => ~ok

\* hooks never appear in the manifest; with hooks disabled no hook object is touched
C12_NotInManifest(st) == \A r \in Revs(st) : (DOMAIN st[r].man) \cap (DOMAIN st[r].hooks) = {}
C12_Disabled(log, hids, u) == u.nohooks => \A i \in DOMAIN log : ~(log[i].kind \in {"res", "wait"} /\ log[i].id \in hids)
=============================================================================
