INIT Init
NEXT Next
CONSTANT Mode = "c08"
CONSTANT PartN = 3
CONSTANT PartSubN = 3
CONSTANT OneFileN = 4
CONSTANT MachN = 1
CONSTANT ProgN = 0
CONSTANT MachPaths = 0
CONSTANT MachProgN = 0
