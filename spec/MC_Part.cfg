SPECIFICATION Spec
CONSTANT Inputs <- C08Quick
CONSTANT Hosts <- HostsOne
INVARIANT DetOrKnown
INVARIANT Partition
INVARIANT Progress
CHECK_DEADLOCK FALSE
