SPECIFICATION Spec
CONSTANT InputSeq <- SeqFromFile
CONSTANT Hosts <- HostsOne
INVARIANT DetOrKnown
INVARIANT Partition
INVARIANT Progress
CHECK_DEADLOCK FALSE
