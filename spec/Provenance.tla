---------------------------- MODULE Provenance ----------------------------
(***************************************************************************)
(* C17 - provenance verification, symbolic (Dolev-Yao style) model.         *)
(*                                                                          *)
(* Terms.  An archive is [content, name]; the provenance body is            *)
(* Msg(meta, fname |-> digest) where digest is the content it was computed  *)
(* from (Digest is injective: perfect hashing); a signature is              *)
(* Sig(key, over, intact) - made by key over the body `over`, intact unless *)
(* the signature packet was edited (perfect signatures: a signature checks  *)
(* only for the exact body it was made over, only with its key).            *)
(*                                                                          *)
(* The signer signs once; then the attacker applies a sequence of at most   *)
(* MaxTamper actions.  The attacker owns the key "other" and none of the    *)
(* signer's secrets: it can change bytes anywhere, rename the archive,      *)
(* rewrite the body and sign any body with "other".  The verifier's keyring *)
(* is one of {signer}, {signer, other, third}, {other, third}, {}.          *)
(*                                                                          *)
(*   Verify accepts  iff  the provenance file is whole, the signature is    *)
(*   intact, made over the present body by a key of the keyring, and the    *)
(*   body lists under the archive's present name the digest of its present  *)
(*   content.                                                               *)
(*                                                                          *)
(* Download strategies: never / if-possible / always / later, with the      *)
(* provenance file present or missing on the server; helm pull with every   *)
(* combination of --verify and --prov; a dependency update with             *)
(* verification required over two dependencies in either order.             *)
(*                                                                          *)
(* TLC enumerates every tamper sequence x keyring, checks the security      *)
(* invariants of the model and exports each state as a case with the        *)
(* expected verdicts.  The harness concretises every abstract action with   *)
(* real OpenPGP keys and many concrete byte mutations and compares what the *)
(* real code answers.                                                       *)
(***************************************************************************)
EXTENDS Integers, Sequences, FiniteSets, TLC, Json

CONSTANTS MaxTamper,     \* length of the attacker's action sequence
          Keyrings       \* set of keyring kinds: "signer", "both", "others", "empty"

Ring(k) == CASE k = "signer" -> {"signer"}
             [] k = "both"   -> {"signer", "other", "third"}
             [] k = "others" -> {"other", "third"}
             [] k = "empty"  -> {}

OrigArchive == [content |-> "orig", name |-> "orig"]
OrigBody    == [meta |-> "orig", fname |-> "orig", digest |-> "orig"]

VARIABLES arch,      \* the archive file: [content, name]
          body,      \* the signed text of the provenance file: [meta, fname, digest]
          sig,       \* [key, over, intact]
          whole,     \* the provenance file is not truncated
          ring,      \* keyring kind of the verifier
          hist       \* the attacker's actions so far
vars == <<arch, body, sig, whole, ring, hist>>

Init == /\ arch = OrigArchive
        /\ body = OrigBody
        /\ sig = [key |-> "signer", over |-> OrigBody, intact |-> TRUE]
        /\ whole = TRUE
        /\ ring \in Keyrings
        /\ hist = <<>>

Step(a) == hist' = Append(hist, a) /\ UNCHANGED ring

\* every change of bytes yields content never seen before (two edits never cancel out)
Fresh(what) == what \o ToString(Len(hist) + 1)

FlipArchive   == arch' = [arch EXCEPT !.content = Fresh("flipped")] /\ UNCHANGED <<body, sig, whole>> /\ Step("FlipArchive")
TruncArchive  == arch' = [arch EXCEPT !.content = Fresh("truncated")] /\ UNCHANGED <<body, sig, whole>> /\ Step("TruncArchive")
Rename        == arch' = [arch EXCEPT !.name = "renamed"] /\ UNCHANGED <<body, sig, whole>> /\ Step("Rename")
\* the same letters in another case: another file name all the same
RenameCase    == arch' = [arch EXCEPT !.name = "recased"] /\ UNCHANGED <<body, sig, whole>> /\ Step("RenameCase")
EditBody      == body' = [body EXCEPT !.meta = Fresh("edited")] /\ UNCHANGED <<arch, sig, whole>> /\ Step("EditBody")
FixDigest     == body' = [body EXCEPT !.digest = arch.content] /\ UNCHANGED <<arch, sig, whole>> /\ Step("FixDigest")
BreakDigest   == body' = [body EXCEPT !.digest = Fresh("garbage")] /\ UNCHANGED <<arch, sig, whole>> /\ Step("BreakDigest")
FixName       == body' = [body EXCEPT !.fname = arch.name] /\ UNCHANGED <<arch, sig, whole>> /\ Step("FixName")
SwapSig       == sig' = [key |-> "other", over |-> body, intact |-> TRUE] /\ UNCHANGED <<arch, body, whole>> /\ Step("SwapSig")
EditSigPacket == sig' = [sig EXCEPT !.intact = FALSE] /\ UNCHANGED <<arch, body, whole>> /\ Step("EditSigPacket")
TruncProv     == whole' = FALSE /\ UNCHANGED <<arch, body, sig>> /\ Step("TruncProv")

\* A broken signing tool of the SIGNER (not the attacker): the message is validly signed by the signer
\* but records, for the archive, something that is not its digest - nothing at all, only the trailing
\* or only the leading hex digits, or the digest without the "sha256:" marker.  Only as the first step.
Craft(form) == /\ hist = <<>>
               /\ body' = [body EXCEPT !.digest = form]
               /\ sig' = [key |-> "signer", over |-> body', intact |-> TRUE]
               /\ UNCHANGED <<arch, whole>> /\ Step(form)
CraftForms == {"SignEmpty", "SignTail", "SignHead", "SignNoMarker"}

\* the archive reached under another name through a symbolic link (the provenance file copied next to
\* the link): the file name that counts is the one the archive is presented under
RenameLink    == arch' = [arch EXCEPT !.name = "renamed"] /\ UNCHANGED <<body, sig, whole>> /\ Step("RenameLink")
\* the same files packed again (other compression): other bytes, still a chart that loads and installs
Repack        == arch' = [arch EXCEPT !.content = Fresh("repacked")] /\ UNCHANGED <<body, sig, whole>> /\ Step("Repack")

Tamper == \/ FlipArchive \/ TruncArchive \/ Rename \/ RenameCase \/ RenameLink \/ Repack
          \/ \E f \in CraftForms : Craft(f)
          \/ EditBody \/ FixDigest \/ BreakDigest \/ FixName
          \/ SwapSig \/ EditSigPacket \/ TruncProv

Next == Len(hist) < MaxTamper /\ whole /\ Tamper
Spec == Init /\ [][Next]_vars

(* ----- verification ---------------------------------------------------------- *)

SigChecks == whole /\ sig.intact /\ sig.over = body /\ sig.key \in Ring(ring)
DigestOK  == body.fname = arch.name /\ body.digest = arch.content
Accept    == SigChecks /\ DigestOK

\* the verdict under another keyring: it depends on the keyring as it is NOW, whatever keyrings
\* (also under the same file name) were used for earlier verifications
AcceptWith(k) == whole /\ sig.intact /\ sig.over = body /\ sig.key \in Ring(k) /\ DigestOK
\* a history: the keyring file is first written with keyring k and the chart verified, then rewritten
\* with the case's keyring and the chart verified again
History(k) == <<AcceptWith(k), Accept>>


\* outcome of ChartDownloader.DownloadTo: TRUE = returns without error
Download(strategy, provOnServer) ==
  CASE strategy = "never"      -> TRUE
    [] strategy = "later"      -> TRUE
    [] strategy = "ifpossible" -> IF provOnServer THEN Accept ELSE TRUE
    [] strategy = "always"     -> IF provOnServer THEN Accept ELSE FALSE

\* install / upgrade / template / show --verify, the chart given by name with or without --repo
Locate(verify, repo) == IF verify THEN Download("always", TRUE) ELSE TRUE

\* The command line.  verify / pull --verify / install --verify / upgrade --verify on an existing release /
\* upgrade --install --verify on a release that does not exist (the install fallback): with --verify every one
\* of them returns without error only if the chart verifies.
Commands == <<"verify", "pull", "install", "upgrade", "upgrade-install">>
CLI(cmd, verify) == IF verify \/ cmd = "verify" THEN Accept ELSE TRUE

\* How the verifying Signatory was built: from the keyring alone, from the keyring and the id of one of
\* its keys, or from a key file (private key k) and the keyring.  Its own Entity is for signing: the
\* verdict depends on the keyring only.
Built(how, own) == Accept

\* helm pull: --verify asks for verification (required), --prov only for the provenance file;
\* with both, verification is still required
PullStrategy(verify, later) == IF verify THEN "always" ELSE IF later THEN "later" ELSE "never"
Pull(verify, later, provOnServer) == Download(PullStrategy(verify, later), provOnServer)

\* helm dependency update --verify of a chart with two repository dependencies: this chart (as the
\* attacker left it) and a second, untampered chart signed by the signer, in either order.  The
\* update succeeds iff EVERY dependency verifies, wherever in the list the bad one stands.
GoodAccept == "signer" \in Ring(ring)
DepVerdict(d) == IF d = "this" THEN Accept ELSE GoodAccept
DepsUpdate(strategy, deps) ==
  IF strategy = "always" THEN \A i \in DOMAIN deps : DepVerdict(deps[i]) ELSE TRUE
DepOrders == << <<"this", "good">>, <<"good", "this">> >>

(* ----- security invariants of the model --------------------------------------- *)

Untampered == hist = <<>>

\* sign-then-verify with the signer's key in the keyring passes
Inv_RoundTrip == (Untampered /\ "signer" \in Ring(ring)) => Accept

\* whatever is accepted was signed, as it stands, by a key the verifier trusts, and
\* describes the archive as it stands
Inv_Authentic == Accept => /\ sig.key \in Ring(ring)
                           /\ sig.over = body
                           /\ body.digest = arch.content /\ body.fname = arch.name

\* without a trusted key of his own the attacker gets nothing but the original accepted
Inv_NoForgery == (Accept /\ "other" \notin Ring(ring)) =>
                    (arch = OrigArchive /\ body = OrigBody /\ sig.key = "signer")

\* required verification never lets a rejected chart through
Inv_Required == /\ \A p \in BOOLEAN : Download("always", p) => Accept
                /\ \A l \in BOOLEAN : Pull(TRUE, l, TRUE) => Accept
                /\ \A i \in DOMAIN DepOrders : DepsUpdate("always", DepOrders[i]) => Accept
                /\ \A r \in BOOLEAN : Locate(TRUE, r) => Accept
                /\ \A i \in DOMAIN Commands : CLI(Commands[i], TRUE) => Accept
                /\ \A k \in Keyrings : History(k)[2] = Accept

(* ----- export --------------------------------------------------------------------- *)

ActNo(a) == CASE a = "FlipArchive" -> 1 [] a = "TruncArchive" -> 2 [] a = "Rename" -> 3 [] a = "EditBody" -> 4
              [] a = "FixDigest" -> 5 [] a = "BreakDigest" -> 6 [] a = "FixName" -> 7 [] a = "SwapSig" -> 8
              [] a = "EditSigPacket" -> 9 [] a = "TruncProv" -> 10 [] a = "RenameCase" -> 11
              [] a = "SignEmpty" -> 12 [] a = "SignTail" -> 13 [] a = "SignHead" -> 14 [] a = "SignNoMarker" -> 15
              [] a = "RenameLink" -> 16 [] a = "Repack" -> 17
RingNo(k) == CASE k = "signer" -> 1 [] k = "both" -> 2 [] k = "others" -> 3 [] k = "empty" -> 4
RECURSIVE HistNo(_)
HistNo(h) == IF h = <<>> THEN 0 ELSE ActNo(Head(h)) + 18 * HistNo(Tail(h))
CaseNo == RingNo(ring) + 5 * HistNo(hist)

Strategies == <<"never", "ifpossible", "always", "later">>

Export ==
  JsonSerialize("gen/p" \o ToString(CaseNo) \o ".json",
    [id |-> CaseNo, hist |-> hist, ring |-> ring, keys |-> [k \in {"signer", "other", "third"} |-> k \in Ring(ring)],
     arch |-> arch, body |-> body, sig |-> sig, whole |-> whole,
     sigChecks |-> SigChecks, digestOK |-> DigestOK, accept |-> Accept,
     download |-> [i \in 1..4 |-> [strategy |-> Strategies[i], withProv |-> Download(Strategies[i], TRUE),
                                   withoutProv |-> Download(Strategies[i], FALSE)]],
     pull |-> [i \in 1..4 |-> LET v == i > 2  l == i % 2 = 0 IN
                 [verify |-> v, later |-> l, withProv |-> Pull(v, l, TRUE), withoutProv |-> Pull(v, l, FALSE)]],
     history |-> LET ks == <<"signer", "both", "others", "empty">> IN
                   [i \in 1..4 |-> [first |-> ks[i], verdicts |-> History(ks[i])]],
     cli |-> [i \in DOMAIN Commands |-> [cmd |-> Commands[i], verify |-> TRUE, ok |-> CLI(Commands[i], TRUE)]],
     built |-> LET hows == << <<"keyfile+ring", "signer">>, <<"keyfile+ring", "other">>, <<"ring+id", "signer">>, <<"ring+id", "other">> >> IN
                 [i \in 1..4 |-> [how |-> hows[i][1], own |-> hows[i][2], ok |-> Built(hows[i][1], hows[i][2])]],
     locate |-> [i \in 1..2 |-> [verify |-> i = 1, repo |-> TRUE, ok |-> Locate(i = 1, TRUE)]],
     deps |-> [i \in DOMAIN DepOrders |-> [order |-> DepOrders[i], strategy |-> "always",
                                           ok |-> DepsUpdate("always", DepOrders[i])]]])
=============================================================================
