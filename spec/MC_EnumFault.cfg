SPECIFICATION Spec
CONSTANTS
  Procs = {1}
  MaxRev = 6
  MaxOps = 2
  MaxFaults = 0
  MaxCrash = 0
  MaxEdits = 0
  FaultKinds = {}
  Sequential = TRUE
  Planned = FALSE
  MaxPlan = 36
  InitStores <- StoresEmpty
  LateStart = FALSE
  LogSched = FALSE
  KeepLog = FALSE
  OpMenu <- MenuFaultEnum
  EditMenu <- EditsNone
  PreMenu <- PreBy
  Objs <- AllObjs
  MenuGuard <- GuardBias
CONSTRAINT GenExport
CHECK_DEADLOCK FALSE
