SPECIFICATION Spec
CONSTANTS
  Procs = {1}
  MaxRev = 9
  MaxOps = 3
  MaxFaults = 1
  MaxCrash = 0
  MaxEdits = 1
  FaultKinds = {"res", "wait"}
  Sequential = TRUE
  OpMenu <- Menu
  EditMenu <- Edits
  PreMenu <- Pre0
  Objs <- AllObjs
VIEW View
CHECK_DEADLOCK FALSE
