SPECIFICATION Spec
CONSTANTS
  Family = "flags"
  Full = FALSE
  SetPairs = FALSE
CONSTRAINT ExportBatch
CHECK_DEADLOCK FALSE
