----------------------------- MODULE BatchBase -----------------------------
(* The barrier statements of C08 on an event log -- shared by Batch.tla (the specification of    *)
(* perform / batchPerform) and BatchObs.tla (the monitor of the real kube.Client).               *)
EXTENDS Integers, Sequences, FiniteSets, TLC

(* The same statements on an observed event log (used by BatchObs on the real code):        *)
(* events = sequence of [e : "arr" | "dep", i : resource]; arr = the request arrived at the *)
(* server, dep = the server let its response go.                                            *)
PosOf(ev, e, i) == {p \in DOMAIN ev : ev[p].e = e /\ ev[p].i = i}
ObsBarrier(ks, ev) ==
  \A p \in DOMAIN ev : ev[p].e = "arr" =>
     \A i \in DOMAIN ks : ks[i] < ks[ev[p].i] => \E q \in PosOf(ev, "dep", i) : q < p
ObsOnce(ks, ev) == \A i \in DOMAIN ks : Cardinality(PosOf(ev, "arr", i)) = 1 /\ Cardinality(PosOf(ev, "dep", i)) = 1
=============================================================================
