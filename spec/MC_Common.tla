----------------------------- MODULE MC_Common -----------------------------
(***************************************************************************)
(* Menus (operations with flags, out-of-band edits, initial clusters) and   *)
(* the model-level invariants shared by the MC_* configurations of          *)
(* Helm.tla.  The invariants apply the predicates of HelmProps.tla to the   *)
(* specification's own states; the same predicates are applied to observed  *)
(* states by HelmMon.tla.                                                   *)
(***************************************************************************)
EXTENDS Helm, HelmProps

AllObjs == {"r1", "r2", "r3", "r4", "h1", "h2", "h3", "h4", "by1", "c1", "c2"}
Empty == [o \in AllObjs |-> Absent]
By    == [f1 |-> "x", f2 |-> "-", own |-> "none", pol |-> "none"]
Obj(own, f1) == [f1 |-> f1, f2 |-> "-", own |-> own, pol |-> "none"]

PreBy   == {[Empty EXCEPT !["by1"] = By]}
EmptyStore == [r \in Rev |-> NoRec]
StoresEmpty == {EmptyStore}
\* a release of chart cA deployed at revision 1 (ledger and cluster)
StoresDeployed == {[EmptyStore EXCEPT ![1] = MkRec("deployed", "cA")]}
\* ledgers that no sequence of successful operations produces (written into release storage as they are), next to a
\* cluster that holds chart cB's objects
OddRec(st, c) == MkRec(st, c)
StoresOdd == {[EmptyStore EXCEPT ![1] = OddRec("deployed", "cA"), ![2] = OddRec("deployed", "cB"), ![3] = OddRec("failed", "cA")],
              [EmptyStore EXCEPT ![1] = OddRec("deployed", "cB"), ![2] = OddRec("pending-upgrade", "cA")],
              [EmptyStore EXCEPT ![1] = OddRec("superseded", "cA"), ![2] = OddRec("uninstalled", "cB")],
              [EmptyStore EXCEPT ![1] = OddRec("failed", "cB")],
              [EmptyStore EXCEPT ![1] = OddRec("deployed", "cB"), ![2] = OddRec("deployed", "cB")],
              [EmptyStore EXCEPT ![1] = OddRec("pending-install", "cB")],
              [EmptyStore EXCEPT ![1] = OddRec("superseded", "cA"), ![2] = OddRec("pending-rollback", "cB"), ![3] = OddRec("failed", "cB")]}
PreOdd == {[Empty EXCEPT !["by1"] = By, !["r1"] = NewObj(ChartMan("cB")["r1"]), !["r3"] = NewObj(ChartMan("cB")["r3"])]}
PreDeployedA == {[Empty EXCEPT !["by1"] = By, !["r1"] = NewObj(ChartMan("cA")["r1"]), !["r2"] = NewObj(ChartMan("cA")["r2"])]}
PreOwn  == {[Empty EXCEPT !["by1"] = By, ![r] = Obj(own, "q")] :
               r \in {"r1", "r3", "r4"}, own \in {"none", "othername", "otherns", "partial", "me"}}
           \cup {[Empty EXCEPT !["by1"] = By, !["h2"] = Obj(own, "q")] : own \in {"none", "othername"}}
           \* (a stranger's object that carries the keep resource policy is a stranger's object all the same)
           \cup {[Empty EXCEPT !["by1"] = By, ![r] = [Obj(own, "q") EXCEPT !.pol = "keep"]] :
                    r \in {"r1", "r3"}, own \in {"none", "othername"}}
           \cup PreBy
PreHook == {[Empty EXCEPT !["by1"] = By], [Empty EXCEPT !["by1"] = By, !["h1"] = HookObj],
            [Empty EXCEPT !["by1"] = By, !["c1"] = HookObj],
            \* an object half-marked as the release's own (one of the three marks missing): not adoptable, never repaired by a dry run
            [Empty EXCEPT !["by1"] = By, !["r1"] = Obj("partial", "q")]}

U(kind, chart) == [NoU EXCEPT !.kind = kind, !.chart = chart]
B == BOOLEAN

Installs(charts, reps, atoms, nohs, tos, drys) ==
  {[U("install", c) EXCEPT !.replace = r, !.atomic = a, !.nohooks = nh, !.takeown = t, !.dry = d] :
     c \in charts, r \in reps, a \in atoms, nh \in nohs, t \in tos, d \in drys}
Upgrades(charts, atoms, cls, lims, nohs, tos, drys) ==
  {[U("upgrade", c) EXCEPT !.atomic = a, !.cleanup = cl, !.lim = lm, !.nohooks = nh, !.takeown = t, !.dry = d] :
     c \in charts, a \in atoms, cl \in cls, lm \in lims, nh \in nohs, t \in tos, d \in drys}
Rollbacks(vers, lims, nohs, cls, drys) ==
  {[U("rollback", "none") EXCEPT !.ver = v, !.lim = lm, !.nohooks = nh, !.cleanup = cl, !.dry = d] :
     v \in vers, lm \in lims, nh \in nohs, cl \in cls, d \in drys}
Uninstalls(keeps, nohs, drys) ==
  {[U("uninstall", "none") EXCEPT !.keep = k, !.nohooks = nh, !.dry = d] : k \in keeps, nh \in nohs, d \in drys}

F == {FALSE}
Forced(S) == {[m EXCEPT !.force = TRUE] : m \in S}
\* helm upgrade --install (command line only)
UpInstalls(charts, atoms, nohs, drys, nss, skips) ==
  {[U("upgrade", c) EXCEPT !.install = TRUE, !.atomic = a, !.nohooks = nh, !.dry = d, !.createNS = n, !.skipCRDs = k] :
     c \in charts, a \in atoms, nh \in nohs, d \in drys, n \in nss, k \in skips}
CRDInstalls(reps, drys, nss, skips) ==
  {[U("install", "cR") EXCEPT !.replace = r, !.dry = d, !.createNS = n, !.skipCRDs = k] :
     r \in reps, d \in drys, n \in nss, k \in skips}

\* ledger family (C01): all four operations, replace / atomic / keep-history / history limits
MenuLedger == Installs({"cA", "cB"}, B, B, F, F, F) \cup Upgrades({"cA", "cB"}, B, B, {0, 1, 2}, F, F, F)
              \cup UpInstalls({"cA", "cB"}, B, F, F, F, F)
              \cup Rollbacks({0, 1, 2}, {0, 2}, F, F, F) \cup Uninstalls(B, F, F)
\* cluster family (C02): growing / shrinking / changing / keep-toggling manifests
MenuCluster == Installs({"cA", "cB", "cC", "cK"}, B, F, F, B, F) \cup Upgrades({"cA", "cB", "cC", "cK", "cV"}, F, F, {0}, F, B, F)
               \cup Rollbacks({0, 1}, {0}, F, F, F) \cup Uninstalls(B, F, F)
               \cup Forced(Upgrades({"cA", "cB", "cC"}, F, F, {0}, F, F, F) \cup Rollbacks({0}, {0}, F, F, F))
\* failed operations followed by retries (C02: what a retry diffs against)
MenuRetry == Installs({"cA", "cC"}, B, F, F, F, F) \cup Upgrades({"cA", "cB", "cC", "cK", "cV"}, F, B, {0, 1}, F, F, F)
             \cup Rollbacks({0}, {0}, F, F, F)
\* fault family (C03): atomic x cleanup x no-hooks
MenuFault == Installs({"cA", "cH", "cR"}, B, B, B, F, F) \cup Upgrades({"cB", "cI", "cC"}, B, B, {0}, B, F, F)
             \cup Rollbacks({0, 1}, {0}, B, B, F) \cup Uninstalls(F, F, F)
             \cup UpInstalls({"cA", "cH"}, B, F, F, F, F)          \* upgrade --install [--atomic] (command line only)
\* dry-run family (C06)
MenuDry == Installs({"cA", "cH"}, B, B, B, B, B) \cup CRDInstalls(B, B, B, B) \cup Upgrades({"cR"}, F, F, {0}, F, F, B) \cup Upgrades({"cB", "cI"}, B, B, {0, 1}, B, B, B)
           \cup Rollbacks({0, 1}, {0, 1}, B, F, B) \cup Uninstalls(B, B, B)
           \cup UpInstalls({"cA", "cR", "cH"}, B, F, B, B, B)
           \cup {[U("install", "cA") EXCEPT !.dry = TRUE, !.clientOnly = TRUE],
                 [U("install", "cH") EXCEPT !.dry = TRUE, !.clientOnly = TRUE, !.replace = TRUE],
                 \* cQ: a template that calls lookup; only ever rendered client-only (nothing is sent, the answer is empty)
                 [U("install", "cQ") EXCEPT !.dry = TRUE, !.clientOnly = TRUE],
                 [U("install", "cQ") EXCEPT !.dry = TRUE, !.clientOnly = TRUE, !.nohooks = TRUE]}
MenuDryOnly == {m \in MenuDry : m.dry}
\* small menu whose operation sequences are enumerated exhaustively: every dry spelling of every operation after
\* every short real history (incl. an uninstalled last revision)
MenuDryEnum == Installs({"cH"}, B, F, F, F, B) \cup Upgrades({"cI"}, F, F, {0, 1}, F, F, B)
               \cup Rollbacks({0}, {0}, F, F, B) \cup Uninstalls(B, F, B)
\* cluster family: every sequence of three operations with one out-of-band step anywhere in between
MenuClusterEnum == Installs({"cA"}, F, F, F, F, F) \cup Upgrades({"cA", "cB", "cC"}, F, F, {0}, F, F, F) \cup Rollbacks({0}, {0}, F, F, F)
EditsClusterEnum == {[kind |-> "edit", res |-> "r1", field |-> "f1", value |-> "z"],
                     [kind |-> "oobdel", res |-> "r2", field |-> "", value |-> ""],
                     [kind |-> "oobkeep", res |-> "r2", field |-> "", value |-> ""],
                     [kind |-> "oobdisown", res |-> "r2", field |-> "", value |-> ""],
                     [kind |-> "oobnew", res |-> "r2", field |-> "", value |-> "none"],
                     [kind |-> "oobnew", res |-> "r3", field |-> "", value |-> "none"]}
\* fault family: every history of up to two operations is a base of the fault sweep
\* (cR -> cI: an upgrade that adds a resource AND has a post-upgrade hook, with no hook object left in its way)
MenuFaultEnum == Installs({"cA", "cR"}, B, B, F, F, F) \cup Upgrades({"cB", "cI"}, B, B, {0}, F, F, F) \cup Rollbacks({0}, {0}, F, B, F)
                 \cup UpInstalls({"cA"}, B, F, F, F, F) \cup Uninstalls(B, F, F)
\* ownership family: a hook's name re-used by a template, with a stranger of that name arriving in between
MenuOwnHookEnum == Installs({"cH"}, F, F, B, F, F) \cup Upgrades({"cU", "cA"}, F, F, {0}, F, B, F)
EditsOwnHookEnum == {[kind |-> "oobnew", res |-> "h2", field |-> "", value |-> own] : own \in {"none", "othername", "me"}}
\* ownership family: install --replace over a kept history with a stranger's object in the way
MenuOwnReplaceEnum == Installs({"cA"}, B, F, F, B, F) \cup Uninstalls({TRUE}, F, F) \cup Upgrades({"cB"}, F, F, {0}, F, F, F)
EditsOwnReplaceEnum == {[kind |-> "oobnew", res |-> r, field |-> "", value |-> "none"] : r \in {"r2", "r3"}}
MenuLedgerEnum == Installs({"cA"}, B, F, F, F, F) \cup Upgrades({"cB"}, F, F, {0, 2}, F, F, F) \cup Rollbacks({0, 1}, {0}, F, F, F)
                  \cup Uninstalls(B, F, F) \cup UpInstalls({"cB"}, F, F, F, F, F)
MenuHooksEnum == {U("test", "none")} \cup Installs({"cH", "cJ"}, F, F, B, F, F) \cup Upgrades({"cI", "cJ"}, F, F, {0}, F, F, F) \cup Rollbacks({0}, {0}, F, F, F)
                 \cup Uninstalls(B, F, F)
MenuOwnEnum == Installs({"cA", "cB"}, B, F, F, B, F) \cup Upgrades({"cB", "cL"}, F, F, {0}, F, B, F) \cup Uninstalls(F, F, F)
\* ownership family (C07)
\* (cS: a CLUSTER-SCOPED custom object r4 in the manifest)
MenuOwn == Installs({"cA", "cB", "cL", "cS"}, B, F, F, B, F) \cup Upgrades({"cB", "cC", "cL", "cA", "cS"}, F, F, {0}, F, B, F)
           \cup {[U("install", c) EXCEPT !.createNS = TRUE, !.takeown = t] : c \in {"cA", "cB"}, t \in B}
           \* cH has a hook named h2 (deleted once it succeeded); cU ships an ordinary ConfigMap of that name: a
           \* template that stopped being a hook is a resource "to be created" like any other
           \cup Installs({"cH"}, F, F, B, F, F) \cup Upgrades({"cU"}, F, F, {0}, F, B, F)
           \cup Uninstalls({TRUE}, F, F)                      \* (a kept history: install --replace over it)
           \cup Uninstalls(F, F, F) \cup Rollbacks({0}, {0}, F, F, F)
\* hooks family (C12)
Tests == {U("test", "none")}
MenuHooks == Tests \cup Installs({"cH", "cI", "cJ"}, B, B, B, F, F) \cup Upgrades({"cH", "cI", "cJ"}, B, F, {0}, B, F, F)
             \cup Rollbacks({0, 1}, {0}, B, F, F) \cup Uninstalls(B, B, F)
\* concurrency family (C09): plain installs and upgrades racing on one release name
MenuConc == Installs({"cA", "cB"}, F, F, F, F, F) \cup Upgrades({"cB", "cC"}, F, F, {0}, F, F, F)
MenuConcA == Upgrades({"cB", "cC"}, {TRUE}, B, {0}, F, F, F) \cup Upgrades({"cB"}, F, F, {0}, F, F, F)
MenuConcAX == MenuConcA \cup Installs({"cA"}, F, B, F, F, F)
MenuConcLim == Upgrades({"cB", "cC"}, F, F, {2}, F, F, F)
\* (cI: a chart with pre-upgrade / pre-install hooks; upgrade --install: the command-line wiring of two racing "upsert"s)
MenuConcX == MenuConc \cup Installs({"cB"}, {TRUE}, F, F, F, F) \cup Upgrades({"cB"}, F, F, {2}, F, F, F)
             \cup Upgrades({"cI"}, F, F, {0}, F, F, F) \cup Installs({"cI"}, F, F, F, F, F)
             \cup UpInstalls({"cA"}, F, F, F, F, F)
\* long histories (C01 pruning over two-digit revision numbers: storage lists records by NAME, v1 v10 v11 v2 ...)
MenuLong == Installs({"cA"}, F, F, F, F, F) \cup Upgrades({"cA", "cB"}, F, F, {0, 3, 10, 11}, F, F, F)
            \cup Rollbacks({0, 2}, {0, 10}, F, F, F) \cup Uninstalls(B, F, F)
MenuAll == MenuLedger \cup MenuCluster \cup MenuFault \cup MenuDry \cup MenuOwn \cup MenuHooks

\* smaller menus for the exhaustive configurations (the generators use the large ones)
XLedger == Installs({"cA"}, B, B, F, F, F) \cup Upgrades({"cB"}, B, F, {0, 2}, F, F, F) \cup UpInstalls({"cB"}, B, F, F, F, F)
           \cup Rollbacks({0, 1}, {0, 2}, F, F, F) \cup Uninstalls(B, F, F)
XCluster == Installs({"cA", "cC"}, F, F, F, B, F) \cup Upgrades({"cB", "cC", "cK"}, F, F, {0}, F, B, F)
            \cup Rollbacks({0}, {0}, F, F, F) \cup Uninstalls(F, F, F) \cup Forced(Upgrades({"cB"}, F, F, {0}, F, F, F))
XFault == Installs({"cA"}, F, B, F, F, F) \cup Upgrades({"cB"}, B, B, {0}, F, F, F)
          \cup Rollbacks({0}, {0}, F, B, F) \cup Uninstalls(F, F, F)
XDry == Installs({"cH"}, B, F, F, F, B) \cup CRDInstalls(F, B, B, B) \cup UpInstalls({"cR"}, F, F, B, F, B) \cup Upgrades({"cI"}, F, F, {0, 1}, F, F, B)
        \cup Rollbacks({0}, {0, 1}, F, F, B) \cup Uninstalls(B, F, B)
        \cup {[U("install", "cH") EXCEPT !.dry = TRUE, !.clientOnly = TRUE]}
XOwn == Installs({"cA", "cB"}, F, F, F, B, F) \cup Upgrades({"cB", "cL"}, F, F, {0}, F, B, F)
XHooks == {U("test", "none")} \cup Installs({"cH", "cI", "cJ"}, F, F, B, F, F) \cup Upgrades({"cI", "cH", "cJ"}, F, F, {0}, F, F, F)
          \cup Rollbacks({0}, {0}, F, F, F) \cup Uninstalls(B, F, F)

EditsNone == {}
EditsX == {[kind |-> "edit", res |-> "r1", field |-> "f1", value |-> "z"],
           [kind |-> "edit", res |-> "r3", field |-> "f2", value |-> "z"],
           [kind |-> "oobdel", res |-> "r2", field |-> "", value |-> ""],
           [kind |-> "oobkeep", res |-> "r2", field |-> "", value |-> ""],
           [kind |-> "oobunkeep", res |-> "r1", field |-> "", value |-> ""]}
PreOwnX == {[Empty EXCEPT !["by1"] = By, !["r3"] = Obj(own, "q")] : own \in {"none", "othername", "otherns", "partial", "me"}}
           \cup {[Empty EXCEPT !["by1"] = By, !["r1"] = Obj("none", "q")]} \cup PreBy
EditsSome == {[kind |-> "edit", res |-> "r1", field |-> "f1", value |-> "z"],
              [kind |-> "edit", res |-> "r1", field |-> "f2", value |-> "z"],
              [kind |-> "edit", res |-> "r3", field |-> "f2", value |-> "z"],
              [kind |-> "edit", res |-> "r3", field |-> "f1", value |-> "-"],
              [kind |-> "oobdel", res |-> "r2", field |-> "", value |-> ""],
              [kind |-> "oobdel", res |-> "r1", field |-> "", value |-> ""],
              [kind |-> "oobkeep", res |-> "r2", field |-> "", value |-> ""],
              [kind |-> "oobkeep", res |-> "r3", field |-> "", value |-> ""],
              [kind |-> "oobunkeep", res |-> "r1", field |-> "", value |-> ""],
              [kind |-> "oobdisown", res |-> "r2", field |-> "", value |-> ""],
              [kind |-> "oobdisown", res |-> "r3", field |-> "", value |-> ""]}

EditsNew == {[kind |-> "oobnew", res |-> r, field |-> "", value |-> own] :
                r \in {"r3", "r2"}, own \in {"none", "othername", "me"}}
            \cup {[kind |-> "oobnew", res |-> "h2", field |-> "", value |-> "none"]}   \* (a stranger under a hook's name)
EditsSomeNew == EditsSome \cup EditsNew
GuardTrue(m) == TRUE
\* simulation bias: on an empty ledger start with an install (other operations just fail at once)
GuardBias(m) == (Used = {}) => (m.kind = "install" \/ (m.kind = "upgrade" /\ m.install) \/ (m.kind # "install" /\ m = U(m.kind, m.chart)))
\* long histories: an uninstall only once revision numbers with two digits exist (drivers list records by NAME)
GuardLong(m) == GuardBias(m) /\ (m.kind = "uninstall" => \E r \in Used : r >= 10)
\* real operations until one of them has died half-way (a revision left pending), dry runs from then on
GuardDryAfterCrash(m) == IF ncrash < MaxCrash THEN ~m.dry /\ GuardBias(m) ELSE m.dry

-----------------------------------------------------------------------------
(* model-level invariants                                                    *)

Cur == [store |-> store, cluster |-> cluster]
Sum(p) == [u |-> op[p].u, ok |-> op[p].result = "ok", crs |-> op[p].crs, flt |-> op[p].flt,
           posted |-> op[p].posted \cap NamedByChart(op[p].u.chart), log |-> op[p].log, fsub |-> op[p].fsub]
AtEndM(p) == pc[p] = "End"

\* known findings triggered so far in this behaviour (finished operations and running ones)
KF == kfg \cup UNION {op[p].kf : p \in Procs}
Known(ids) == KF \cap ids # {}
Ends(P(_)) == \A p \in Procs : AtEndM(p) => P(p)

\* ---- C01
Inv_C01_OneDeployed == C01_AtMostOneDeployed(store) \/ Known({"L1", "L2u", "L2r", "L22", "L23", "L24"})
Inv_C01_Success == Ends(LAMBDA p : Sum(p).ok => (C01_Success(pre[p], Cur, Sum(p)) \/ Known({"L1", "L2i", "L2u", "L2r", "L22", "L23", "L24"})))
Inv_C01_Prune   == Ends(LAMBDA p : C01_Prune(pre[p], Cur, Sum(p)) \/ Known({"L15"}))
Act_C01_NextRevision ==
  [][\A p \in Procs : (last'.ev = "call" /\ last'.p = p) => C01_NextRevision(pre[p].store, store, store')]_vars
\* ---- C02
Inv_C02_Success   == Ends(LAMBDA p : Sum(p).ok => (C02_Success(pre[p], Cur, Sum(p)) \/ Known({"L6", "L1", "L2u", "L28"})))
Inv_C02_Uninstall == Ends(LAMBDA p : Sum(p).ok => (C02_Uninstall(pre[p], Cur, Sum(p)) \/ Known({"L7"})))
Act_C02_Bystanders ==
  [][\A p \in Procs : (last'.ev = "call" /\ last'.p = p) =>
       C02_Bystanders(pre[p].store, Cur, [store |-> store', cluster |-> cluster'], op[p].u.chart)]_vars
\* ---- C03
Inv_C03_Error   == Ends(LAMBDA p : C03_Error(Sum(p)) \/ Known({"L5"}))
Inv_C03_Failed  == Ends(LAMBDA p : C03_Failed(pre[p], Cur, Sum(p)) \/ Known({"L3"}))
Inv_C03_Cleanup == Ends(LAMBDA p : C03_Cleanup(pre[p], Cur, Sum(p)))
Inv_C03_AtomicUpgrade == Ends(LAMBDA p : C03_AtomicUpgrade(pre[p], Cur, Sum(p)) \/ Known({"L3", "L4", "L6", "L1", "L2u", "L22"}))
Inv_C03_AtomicInstall == Ends(LAMBDA p : C03_AtomicInstall(pre[p], Cur, Sum(p)))
\* ---- C06
Act_C06_ReadOnly ==
  [][\A p \in Procs : (last'.ev = "call" /\ last'.p = p) =>
       C06_StepReadOnly(op[p].u, last', Cur, [store |-> store', cluster |-> cluster'])]_vars
Inv_C06_EndSame == Ends(LAMBDA p : op[p].u.dry => (Cur = pre[p] /\ (op[p].u.clientOnly => op[p].n = 0)))
\* ---- C07
Inv_C07_Refusal == Ends(LAMBDA p : C07_Refusal(pre[p], Cur, Sum(p)))
Act_C07_Stamped ==
  [][\A p \in Procs : (last'.ev = "call" /\ last'.p = p) =>
       C07_Stamped(last', [store |-> store', cluster |-> cluster'], DOMAIN op[p].tgtman)]_vars
Act_C07_DeleteNamed ==
  [][\A p \in Procs : (last'.ev = "call" /\ last'.p = p) =>
       C07_DeleteNamed(last', NamedIn(pre[p].store) \cup NamedIn(store) \cup NamedByChart(op[p].u.chart))]_vars
\* ---- C09 (Sequential = FALSE, KeepLog = TRUE)
ResWrite(lab) == lab.kind = "res" /\ lab.verb \in {"POST", "PUT", "PATCH", "DELETE"}
\* an operation that created no revision failed and touched no release resource
Inv_C09_LoserClean ==
  Ends(LAMBDA p : (op[p].u.kind \in {"install", "upgrade"} /\ op[p].crs = {}) =>
                    (op[p].result # "ok" /\ \A i \in DOMAIN op[p].log :
                        ~ResWrite(op[p].log[i]) /\ ~(op[p].log[i].kind = "store" /\ op[p].log[i].ok /\ op[p].log[i].verb \in {"create", "update"}))
                    \/ Known({"L23", "L24"}))
\* no two running operations hold the same revision; a record is created only where none exists
Inv_C09_DisjointRevisions == (\A p, q \in Procs : p # q => op[p].crs \cap op[q].crs = {}) \/ Known({"L23", "L24"})
Act_C09_CreateOnlyFresh ==
  [][(last'.ev = "call" /\ last'.kind = "store" /\ last'.verb = "create" /\ last'.ok) =>
       \E r \in Rev : store[r].st = "none" /\ store'[r].st # "none" /\ last'.id = ToString(r)]_vars
\* once all have returned the ledger is well formed
Quiescent == \A p \in Procs : pc[p] = "idle"
Inv_C09_Quiescent == Quiescent => (C01_AtMostOneDeployed(store) \/ Known({"L1", "L2u", "L2r", "L22", "L23", "L24"}))

\* ---- C12 (needs KeepLog = TRUE)
SubOpM(p) == op[p].u.atomic /\ op[p].result # "ok"
HookFaultM(p) == \E i \in DOMAIN op[p].log : op[p].log[i].inj /\ ~(op[p].log[i].kind = "wait" /\ op[p].log[i].verb = "watch")
DefsM(p) ==
  CASE op[p].u.kind \in {"install", "upgrade"} -> ChartHooks(op[p].u.chart)
    [] op[p].u.kind = "rollback" -> op[p].newrec.hooks
    [] op[p].u.kind \in {"uninstall", "test"} -> op[p].hdefs
    [] OTHER -> <<>>
ManIdsM(p) ==
  CASE op[p].u.kind \in {"install", "upgrade"} -> DOMAIN ChartMan(op[p].u.chart)
    [] OTHER -> DOMAIN op[p].tgtman
Inv_C12_Order        == Ends(LAMBDA p : ~SubOpM(p) => C12_Order(op[p].log, DefsM(p)))
Inv_C12_DeleteBefore == Ends(LAMBDA p : ~SubOpM(p) => C12_DeleteBefore(op[p].log, DefsM(p)))
Inv_C12_DeletedByPolicy == Ends(LAMBDA p : (~SubOpM(p) /\ ~HookFaultM(p)) => (C12_DeletedByPolicy(op[p].log, DefsM(p), Cur, op[p].flt) \/ Known({"L14"})))
Inv_C12_PreHookGate  == Ends(LAMBDA p : ~HookFaultM(p) => C12_PreHookGate(op[p].log, DefsM(p), ManIdsM(p), op[p].u))
Inv_C12_PostHookFails == Ends(LAMBDA p : C12_PostHookFails(op[p].log, DefsM(p), op[p].result = "ok"))
Inv_C12_NotInManifest == C12_NotInManifest(store)
Inv_C12_Disabled     == Ends(LAMBDA p : C12_Disabled(op[p].log, HookIdsIn(pre[p].store) \cup HookIdsIn(store) \cup DOMAIN DefsM(p), op[p].u))
=============================================================================
