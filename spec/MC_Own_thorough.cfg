SPECIFICATION Spec
CONSTANTS
  Procs = {1}
  MaxRev = 8
  MaxOps = 3
  MaxFaults = 1
  MaxCrash = 0
  MaxEdits = 1
  FaultKinds = {"res"}
  Sequential = TRUE
  Planned = FALSE
  MaxPlan = 36
  InitStores <- StoresEmpty
  LateStart = FALSE
  LogSched = FALSE
  KeepLog = TRUE
  OpMenu <- MenuOwn
  EditMenu <- EditsNew
  PreMenu <- PreOwn
  Objs <- AllObjs
  MenuGuard <- GuardTrue
VIEW View
INVARIANTS Inv_C07_Refusal
PROPERTIES Act_C07_Stamped Act_C07_DeleteNamed
CHECK_DEADLOCK FALSE
