------------------------------- MODULE Values -------------------------------
(***************************************************************************)
(* Value trees and the two descriptions of "which value does a template    *)
(* see" (properties C04, C13).                                              *)
(*                                                                          *)
(*  1. CODE-SHAPED operators: transcriptions of the case analysis of        *)
(*     loader.MergeMaps, chartutil.coalesceTablesFullKey / coalesceValues / *)
(*     coalesceDeps / coalesceGlobals, values.Options.MergeValues (order of *)
(*     the flag families), strvals.parser (key / listItem / valList /       *)
(*     typedVal / runesUntil on a token level) and action.Upgrade.          *)
(*     reuseValues (in ValuesChain.tla).                                    *)
(*  2. PROPERTY-SHAPED operators (Exp, Ok, SetPath ...): for every key path *)
(*     the value comes from the highest-precedence source that sets it;     *)
(*     maps merge key by key; scalars and lists replace; an explicit null   *)
(*     removes a default.  They never mention the fold structure of the     *)
(*     code.                                                                *)
(*                                                                          *)
(* TLC compares (1) with (2) on the whole bounded input space (ValuesMC),   *)
(* exports every enumerated case, and judges the observations recorded from *)
(* the real code with the predicates of (2) (ValuesObs).                    *)
(*                                                                          *)
(* A tree is a record with a kind field k:                                  *)
(*   [k |-> "s", s |-> "i:1" | "s:txt" | "b:true"]   scalar (typed token)    *)
(*   [k |-> "n"]                                      explicit null          *)
(*   [k |-> "l", l |-> <<tree, ...>>]                 list                   *)
(*   [k |-> "m", m |-> [key |-> tree, ...]]           map                    *)
(* (a different field per kind: TLC refuses to compare a string with a      *)
(* sequence, and records with different field sets are compared by fields)  *)
(*   [k |-> "u"]                                      "not set" (never part  *)
(*                                                    of a tree)            *)
(* The same shape is used in the JSON exchanged with the Go harness (JSON   *)
(* null cannot be read by TLC, and an empty object equals an empty array).  *)
(***************************************************************************)
EXTENDS Integers, Sequences, FiniteSets, TLC, SequencesExt

Unset == [k |-> "u"]
Null  == [k |-> "n"]
Sc(x) == [k |-> "s", s |-> x]
Li(s) == [k |-> "l", l |-> s]
Mp(f) == [k |-> "m", m |-> f]
EmptyMap == Mp(<<>>)

IsSet(t)  == t.k # "u"
IsMap(t)  == t.k = "m"
IsNull(t) == t.k = "n"
IsList(t) == t.k = "l"
IsScalar(t) == t.k = "s"

\* f is the function of a map node
Get(f, key) == IF key \in DOMAIN f THEN f[key] ELSE Unset
Put(f, key, t) == [x \in DOMAIN f \cup {key} |-> IF x = key THEN t ELSE f[x]]
Del(f, key) == [x \in DOMAIN f \ {key} |-> f[x]]

MapsOver(K, V) == UNION {[S -> V] : S \in SUBSET K}

RunStartOf(ds) ==      \* least j such that ds[j..Len(ds)] are all maps (ds non-empty, last one a map)
  LET js == {j \in 1..Len(ds) : \A i \in j..Len(ds) : IsMap(ds[i])} IN
  CHOOSE j \in js : \A x \in js : j <= x

-----------------------------------------------------------------------------
(* CODE-SHAPED                                                                *)

\* pkg/chart/v2/loader/load.go:MergeMaps(a, b): b wins, maps merge recursively, anything else
\* (including nil) of b replaces.
RECURSIVE MergeMaps(_, _)
MergeMaps(a, b) ==
  [x \in DOMAIN a \cup DOMAIN b |->
     IF x \notin DOMAIN b THEN a[x]
     ELSE IF IsMap(b[x]) /\ x \in DOMAIN a /\ IsMap(a[x]) THEN Mp(MergeMaps(a[x].m, b[x].m))
     ELSE b[x]]

\* pkg/chart/v2/util/coalesce.go:coalesceTablesFullKey(dst, src, merge): dst is authoritative;
\* for a key of src: dst has nil and ~merge -> delete; dst lacks it -> copy; both tables -> recurse;
\* otherwise dst stays.
RECURSIVE CoalT(_, _, _)
CoalT(dst, src, merge) ==
  LET del == {x \in DOMAIN src : x \in DOMAIN dst /\ ~merge /\ IsNull(dst[x])} IN
  [x \in (DOMAIN dst \cup DOMAIN src) \ del |->
     IF x \notin DOMAIN dst THEN src[x]
     ELSE IF x \in DOMAIN src /\ IsMap(src[x]) /\ IsMap(dst[x]) THEN Mp(CoalT(dst[x].m, src[x].m, merge))
     ELSE dst[x]]

CoalesceTables(dst, src) == CoalT(dst, src, FALSE)

\* a chart: [name, vals (map function), deps (sequence of charts)]
DepNames(c) == {c.deps[i].name : i \in DOMAIN c.deps}

\* coalesceValues(c, v, merge): for every key of the chart's defaults: v has nil and ~merge ->
\* delete from v; v has a table and the default is a table -> coalesceTablesFullKey with
\* merge := TRUE for a subchart's key; v lacks it -> copy the default.
CoalVals(c, v, merge) ==
  LET D == c.vals
      del == {x \in DOMAIN D : x \in DOMAIN v /\ IsNull(v[x]) /\ ~merge} IN
  [x \in (DOMAIN v \cup DOMAIN D) \ del |->
     IF x \notin DOMAIN v THEN D[x]
     ELSE IF x \in DOMAIN D /\ IsMap(v[x]) /\ IsMap(D[x])
          THEN Mp(CoalT(v[x].m, D[x].m, (x \in DepNames(c)) \/ merge))
     ELSE v[x]]

\* coalesceGlobals(dest, src): generated trees never use the key "global" (C11's subject), so src
\* has none or the empty table the level above put there: every subchart's table receives
\* global = {} and nothing else happens.
CoalGlobals(dv, parent) == Put(dv, "global", EmptyMap)

\* coalesce = coalesceValues then coalesceDeps; result [ok, v]; ~ok = "type mismatch on <subchart>"
RECURSIVE Coalesce(_, _, _)
Coalesce(c, dest, merge) ==
  LET RECURSIVE deps(_, _)
      deps(i, d) ==
        IF i > Len(c.deps) THEN [ok |-> TRUE, v |-> d]
        ELSE LET s == c.deps[i]
                 n == s.name IN
             IF n \in DOMAIN d /\ ~IsMap(d[n]) THEN [ok |-> FALSE, v |-> d]
             ELSE LET dv == IF n \in DOMAIN d THEN d[n].m ELSE <<>>
                      r  == Coalesce(s, CoalGlobals(dv, d), merge) IN
                  IF ~r.ok THEN r ELSE deps(i + 1, Put(d, n, Mp(r.v)))
  IN deps(1, CoalVals(c, dest, merge))

\* chartutil.CoalesceValues(chart, vals): deep copy of vals, then coalesce with merge = FALSE
CoalesceValues(c, vals) == Coalesce(c, vals, FALSE)

-----------------------------------------------------------------------------
(* PROPERTY-SHAPED                                                            *)

\* ts: the values (or Unset) that the sources give at ONE key path, lowest precedence first.
\* Strict reading (sources are layered one after the other): the highest source that sets the
\* path decides; if it is a map it merges key by key with the maps directly below it, down to
\* the first source that set the path to something that is not a map.
\* keepNull: at user level (before a chart is involved) a null is kept as a value - it is what
\* later removes the default; for what a template sees a null removes the key.
RECURSIVE Exp(_, _)
Exp(ts, keepNull) ==
  LET ds == SelectSeq(ts, IsSet) IN
  IF ds = <<>> THEN Unset
  ELSE LET top == ds[Len(ds)] IN
       IF IsNull(top) THEN (IF keepNull THEN Null ELSE Unset)
       ELSE IF ~IsMap(top) THEN top
       ELSE LET run == SubSeq(ds, RunStartOf(ds), Len(ds))
                ks  == UNION {DOMAIN run[i].m : i \in DOMAIN run}
                sub(x) == Exp([i \in DOMAIN run |-> Get(run[i].m, x)], keepNull)
            IN Mp([x \in {y \in ks : IsSet(sub(y))} |-> sub(x)])

\* The statement of C04 does not say whether a map of a higher source still merges with a map
\* that lies BELOW an intermediate source which set the same path to a scalar / list / null
\* (per-path reading: yes, the lower map's other keys are still "set by the highest source that
\* sets them"; layered reading: no; helm itself layers the user-supplied sources and reads the
\* chart levels per path).  Ok accepts every such reading exactly there and is a function
\* everywhere else: o is acceptable for ts iff, key by key, it is what the strict run gives
\* together with any choice of the maps that lie below the interruption.
SubSeqBy(ds, S) == LET n == Cardinality(S)
                       RECURSIVE pickFrom(_, _)
                       pickFrom(i, acc) == IF i > Len(ds) THEN acc
                                           ELSE pickFrom(i + 1, IF i \in S THEN Append(acc, ds[i]) ELSE acc)
                   IN pickFrom(1, <<>>)
RECURSIVE Ok(_, _, _)
Ok(ts, o, keepNull) ==
  LET ds == SelectSeq(ts, IsSet) IN
  IF ds = <<>> THEN ~IsSet(o)
  ELSE LET top == ds[Len(ds)] IN
       IF IsNull(top) THEN (IF keepNull THEN o = Null ELSE ~IsSet(o))
       ELSE IF ~IsMap(top) THEN o = top
       ELSE /\ IsMap(o)
            /\ LET lo  == RunStartOf(ds)
                   low == {j \in 1..(lo - 1) : IsMap(ds[j])}
                   ks  == UNION {DOMAIN ds[i].m : i \in {j \in DOMAIN ds : IsMap(ds[j])}} IN
               \A x \in ks \cup DOMAIN o.m :
                 \E S \in SUBSET low :
                   LET run == SubSeqBy(ds, S \cup lo..Len(ds)) IN
                   Ok([i \in DOMAIN run |-> Get(run[i].m, x)], Get(o.m, x), keepNull)

\* normal form of an observed tree: a key whose value is nil renders like a missing key (the
\* property speaks of the value a template sees), so null-valued map entries are dropped; and the
\* table "global" that coalesceGlobals adds to every subchart belongs to C11, not C04.
RECURSIVE Norm(_)
Norm(t) ==
  IF IsMap(t)
  THEN Mp([x \in {y \in DOMAIN t.m : ~IsNull(t.m[y]) /\ y # "global"} |-> Norm(t.m[x])])
  ELSE t

\* wrap a tree under a key path (a chart's own defaults as a source of the root's values)
RECURSIVE Lift(_, _)
Lift(t, path) == IF path = <<>> THEN t ELSE Mp([x \in {path[1]} |-> Lift(t, Tail(path))])

\* section of a tree at a key path (Unset when the path leaves the tree)
RECURSIVE Section(_, _)
Section(t, path) ==
  IF path = <<>> THEN t
  ELSE IF IsSet(t) /\ IsMap(t) /\ path[1] \in DOMAIN t.m THEN Section(t.m[path[1]], Tail(path))
  ELSE Unset

\* charts: sequence root, child, grandchild ... (a chain); names[i] the chart's name.
\* scope path of chart i = <<name_2, ..., name_i>>
ScopePath(charts, i) == [j \in 1..(i - 1) |-> charts[j + 1].name]

\* the sources of the root's values, lowest precedence first: the deepest chart's own
\* values.yaml ... the root's values.yaml (parents' sections are part of the parents' files),
\* then the user-supplied values.
ChartSources(charts) ==
  [j \in 1..Len(charts) |-> LET i == Len(charts) + 1 - j IN Lift(Mp(charts[i].vals), ScopePath(charts, i))]

\* nested chart record for the code-shaped operators
RECURSIVE Nest(_, _)
Nest(charts, i) ==
  [name |-> charts[i].name, vals |-> charts[i].vals,
   deps |-> IF i < Len(charts) THEN <<Nest(charts, i + 1)>> ELSE <<>>]

=============================================================================
