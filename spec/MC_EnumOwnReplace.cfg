SPECIFICATION Spec
CONSTANTS
  Procs = {1}
  MaxRev = 6
  MaxOps = 3
  MaxFaults = 0
  MaxCrash = 0
  MaxEdits = 1
  FaultKinds = {}
  Sequential = TRUE
  Planned = FALSE
  MaxPlan = 36
  InitStores <- StoresEmpty
  LateStart = FALSE
  LogSched = FALSE
  KeepLog = FALSE
  OpMenu <- MenuOwnReplaceEnum
  EditMenu <- EditsOwnReplaceEnum
  PreMenu <- PreBy
  Objs <- AllObjs
  MenuGuard <- GuardTrue
CONSTRAINT GenExport
CHECK_DEADLOCK FALSE
