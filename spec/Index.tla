------------------------------- MODULE Index -------------------------------
(***************************************************************************)
(* C18 - version queries on a repository index.                             *)
(*                                                                          *)
(* An index file is a sequence of entries of ONE chart, in file order.      *)
(* Every entry is of one of the abstract kinds of Kinds (a version string   *)
(* id, or null / metadata-less, with or without a download URL).  The       *)
(* specification decides what is Helm's:                                    *)
(*   Load      drop null, metadata-less and invalid entries; order the rest *)
(*             by semantic-version precedence, newest first (ties free);    *)
(*   Get("")   the highest stable entry;                                    *)
(*   Get(v)    an entry whose version string is identical to v if there is  *)
(*             one, else the highest entry satisfying v, else an error;     *)
(*   Lock(c)   the highest entry that has a URL and satisfies c, else error *)
(* and it does NOT decide whether a concrete constraint is satisfied by a   *)
(* concrete version: that relation (Sat) and whether a string parses as a   *)
(* constraint (COk) are read from index_vocab.json, which the harness fills *)
(* by asking Masterminds/semver (a trusted dependency) about the strings it *)
(* chose for this seed.                                                     *)
(*                                                                          *)
(* TLC enumerates every sequence of at most MaxLen kinds (every order,      *)
(* duplicates included).  In every state it checks that the code-shaped     *)
(* operators (filter + insertion sort + first match, as pkg/repo/index.go   *)
(* and internal/resolver do it) return an answer the property-shaped        *)
(* operators allow, and exports the case with the property-shaped expected  *)
(* outcome (Export).  The harness replays every exported case on the real   *)
(* code; the observation must lie in the exported expected outcome.         *)
(***************************************************************************)
EXTENDS Integers, Sequences, FiniteSets, TLC, Json

CONSTANTS MaxLen,      \* maximal number of entries of the chart in one index file
          Strings,     \* vid -> [rank, pre, build, leadv, valid]   (version strings)
          Kinds,       \* kind id -> [vid, null, meta, url]
          Queries      \* query id -> [type, vid, form, a, b]

Vocab == JsonDeserialize("index_vocab.json")
\* Vocab.sat[q][v]  : Masterminds/semver says constraint string q admits version string v
\* Vocab.cok[q]     : string q parses as a constraint
Sat(q, v) == Vocab.sat[q][v]
COk(q)    == Vocab.cok[q]

KindIds  == 1..Len(Kinds)
QueryIds == 1..Len(Queries)

VARIABLES idx,          \* the index file: sequence of kind ids, file order
          d             \* what the specification derives from idx (a function of idx, kept as a
                        \* variable only so that TLC computes it once per state)
vars == <<idx, d>>

(* ----- what an entry is ---------------------------------------------------- *)

KindOf(s, p) == Kinds[s[p]]
StrOf(s, p)  == Strings[KindOf(s, p).vid]

\* an entry survives loading iff it is a non-null entry with metadata and a valid version
SurvivesIn(s, p) == /\ ~KindOf(s, p).null
                    /\ KindOf(s, p).meta
                    /\ ~KindOf(s, p).bad
                    /\ StrOf(s, p).valid

\* semantic-version precedence of the strings used here: rank, then pre-release < release;
\* build metadata and a leading "v" do not take part in precedence
KeyIn(s, p) == 2 * StrOf(s, p).rank + (IF StrOf(s, p).pre THEN 0 ELSE 1)

MaxOf(S) == CHOOSE k \in S : \A j \in S : j <= k

\* the entries of S with the highest precedence (key : position -> precedence)
Best(S, key) == IF S = {} THEN {} ELSE LET m == MaxOf({key[p] : p \in S}) IN {p \in S : key[p] = m}

(* ----- property-shaped: what the statement of C18 allows ------------------- *)

\* the surviving entries as the sequence of their tie groups (sets of positions), newest first
RECURSIVE GroupsOf(_, _)
GroupsOf(S, key) == IF S = {} THEN <<>> ELSE LET b == Best(S, key) IN <<b>> \o GroupsOf(S \ b, key)

\* Get: the set of acceptable answers; the empty set means that an error is required
GetOKIn(s, surv, key, q) ==
  LET Q == Queries[q] IN
  IF Q.type = "empty" THEN Best({p \in surv : ~StrOf(s, p).pre}, key)
  ELSE IF ~COk(q) THEN {}
  ELSE LET same == {p \in surv : KindOf(s, p).vid = Q.vid} IN
       IF Q.type = "exact" /\ same # {} THEN same
       ELSE Best({p \in surv : Sat(q, KindOf(s, p).vid)}, key)

\* dependency lock: highest satisfying entry that can be downloaded
LockOKIn(s, surv, key, q) ==
  IF ~COk(q) THEN {}
  ELSE Best({p \in surv : KindOf(s, p).url /\ Sat(q, KindOf(s, p).vid)}, key)

(* ----- code-shaped: what pkg/repo/index.go and internal/resolver do -------- *)

\* loadIndex: walk the slice, delete what does not validate (null entries are to be
\* skipped), then SortEntries = sort.Sort(sort.Reverse(ChartVersions)): here a stable
\* insertion sort, one of the orders an unstable sort may produce
RECURSIVE Insert(_, _, _)
Insert(l, p, key) == IF l = <<>> THEN <<p>>
                     ELSE IF key[p] > key[Head(l)] THEN <<p>> \o l
                     ELSE <<Head(l)>> \o Insert(Tail(l), p, key)

RECURSIVE LoadFrom(_, _, _)
LoadFrom(s, n, key) ==
  IF n = 0 THEN <<>>
  ELSE IF SurvivesIn(s, n) THEN Insert(LoadFrom(s, n - 1, key), n, key) ELSE LoadFrom(s, n - 1, key)

Derive(s) ==
  LET pos  == 1..Len(s)
      key  == [p \in pos |-> KeyIn(s, p)]
      surv == {p \in pos : SurvivesIn(s, p)}
  IN [surv   |-> surv,
      key    |-> key,
      groups |-> GroupsOf(surv, key),
      loaded |-> LoadFrom(s, Len(s), key),
      get    |-> [q \in QueryIds |-> GetOKIn(s, surv, key, q)],
      lock   |-> [q \in QueryIds |-> LockOKIn(s, surv, key, q)]]

Init == idx = <<>> /\ d = Derive(<<>>)
Next == /\ Len(idx) < MaxLen
        /\ \E k \in KindIds : idx' = Append(idx, k)
        /\ d' = Derive(idx')
Spec == Init /\ [][Next]_vars

Pos    == 1..Len(idx)
Surv   == d.surv
Key(p) == d.key[p]
Loaded == d.loaded
Vid(p) == KindOf(idx, p).vid
Str(p) == StrOf(idx, p)
GetOK(q)  == d.get[q]
TagOK(q)  == d.get[q]          \* tag matching (OCI): the same rule over bare version strings
LockOK(q) == d.lock[q]

\* a load result is any arrangement of the surviving entries with non-increasing precedence
IsLoadResult(l) ==
  /\ Len(l) = Cardinality(Surv)
  /\ {l[i] : i \in DOMAIN l} = Surv
  /\ \A i, j \in DOMAIN l : i < j => Key(l[i]) >= Key(l[j])

\* position of the first element of l with P, 0 if none
First(l, P(_)) ==
  LET hits == {i \in DOMAIN l : P(l[i])} IN
  IF hits = {} THEN 0 ELSE l[CHOOSE i \in hits : \A j \in hits : i <= j]

\* IndexFile.Get: constraint parse error first; exact string match over the whole list;
\* then the first entry the constraint admits ("" is the constraint "*": no pre-releases)
GetCode(q) ==
  LET Q == Queries[q]
      L == Loaded
      same == First(L, LAMBDA p : Vid(p) = Q.vid)
  IN IF Q.type = "empty" THEN First(L, LAMBDA p : ~Str(p).pre)
     ELSE IF ~COk(q) THEN 0
     ELSE IF Q.type = "exact" /\ same # 0 THEN same
     ELSE First(L, LAMBDA p : Sat(q, Vid(p)))

\* resolver.Resolve: first entry of the sorted list with a URL that the constraint admits
LockCode(q) ==
  IF ~COk(q) THEN 0 ELSE First(Loaded, LAMBDA p : KindOf(idx, p).url /\ Sat(q, Vid(p)))

(* ----- model check: code-shaped answers are allowed answers ---------------- *)

Agrees(code, ok) == IF code = 0 THEN ok = {} ELSE code \in ok

Inv_Load == IsLoadResult(Loaded)
Inv_Get  == \A q \in QueryIds : Agrees(GetCode(q), GetOK(q))
Inv_Lock == \A q \in QueryIds : Agrees(LockCode(q), LockOK(q))

\* "" never yields a pre-release, and yields an error only if no stable entry survives
Inv_Stable == \A q \in QueryIds : Queries[q].type = "empty" =>
                 /\ \A p \in GetOK(q) : ~Str(p).pre
                 /\ (GetOK(q) = {} <=> \A p \in Surv : Str(p).pre)

\* an acceptable answer is never beaten by another satisfying entry
Inv_Highest == \A q \in QueryIds : \A p \in LockOK(q) :
                 \A r \in Surv : (KindOf(idx, r).url /\ Sat(q, Vid(r))) => Key(r) <= Key(p)

\* the groups are the load results: concatenating them in any internal order is sorted
Inv_Groups == /\ UNION {d.groups[i] : i \in DOMAIN d.groups} = Surv
              /\ \A i, j \in DOMAIN d.groups : i < j =>
                    \A p \in d.groups[i], r \in d.groups[j] : Key(p) > Key(r)
              /\ \A i \in DOMAIN d.groups : \A p, r \in d.groups[i] : Key(p) = Key(r)

(* ----- export of the enumerated cases -------------------------------------- *)

\* unique number of a sequence of kind ids (digits in base Len(Kinds)+1)
RECURSIVE CodeOf(_)
CodeOf(s) == IF s = <<>> THEN 0 ELSE Head(s) + (Len(Kinds) + 1) * CodeOf(Tail(s))

SetToSeq(S) == LET RECURSIVE f(_)
                   f(T) == IF T = {} THEN <<>>
                           ELSE LET m == CHOOSE x \in T : \A y \in T : x <= y IN <<m>> \o f(T \ {m})
               IN f(S)

\* Dependency lists.  A chart may depend on several charts of one repository, and on the same chart
\* more than once (under aliases) with different ranges.  Every dependency is locked on its own:
\* the lock of a list is the list of the locks, whatever the order and whatever the other entries.
LockList(qs) == [i \in DOMAIN qs |-> LockOK(qs[i])]

\* the list replayed for a case: all queries as ranges, rotated by the case number; for every other
\* case all dependencies name the SAME chart (aliased), else each names a chart of its own
NQ == Len(Queries)
DepOrder == [i \in 1..NQ |-> ((i - 1 + (CodeOf(idx) \div 2)) % NQ) + 1]
SameChart == CodeOf(idx) % 2 = 1

\* the deprecated mark of an entry takes no part in anything above: no operator reads Kinds[..].dep
\* (the kinds that carry it are enumerated so that the replay shows the real code ignores it too)

Inv_LockList == \A i \in 1..NQ : LockList(DepOrder)[i] = LockOK(DepOrder[i])

CaseRecord ==
  [code    |-> CodeOf(idx),
   sameChart |-> SameChart,
   depOrder |-> DepOrder,
   entries |-> idx,
   groups  |-> [i \in DOMAIN d.groups |-> SetToSeq(d.groups[i])],
   loaded  |-> Loaded,
   get     |-> [q \in QueryIds |-> SetToSeq(GetOK(q))],
   lock    |-> [q \in QueryIds |-> SetToSeq(LockOK(q))]]

Export == JsonSerialize("gen/c" \o ToString(CodeOf(idx)) \o ".json", CaseRecord)
=============================================================================
