-------------------------------- MODULE Helm --------------------------------
(***************************************************************************)
(* Core specification of helm's release engine: the release ledger, the    *)
(* cluster object store and the hook lifecycle, driven by install /        *)
(* upgrade / rollback / uninstall.                                          *)
(*                                                                          *)
(* The module is written to be BOUND to pkg/action, pkg/kube and           *)
(* pkg/storage: every step of Next is exactly one event of the trace that  *)
(* harness/scen records from the real code                                  *)
(*        begin | call | end | crash | edit                                 *)
(* where a "call" is one storage-driver call, one HTTP request to the      *)
(* cluster for a release resource or hook, or one waiter call.  The label  *)
(* of the step is kept in the variable `last`; trace validation            *)
(* (HelmTrace.tla) is Next constrained to the logged label and the logged  *)
(* projected state.  Program counters are named after the code:            *)
(*   I_*  pkg/action/install.go      U_*  pkg/action/upgrade.go            *)
(*   R_*  pkg/action/rollback.go     X_*  pkg/action/uninstall.go          *)
(*   H_*  pkg/action/hooks.go        K_*  pkg/kube/client.go:update        *)
(*   P_*  pkg/storage/storage.go:removeLeastRecent                          *)
(*   C_*  cleanup-on-fail deletes    A_*  atomic upgrade -> rollback       *)
(* Places where the code deviates from the listed properties are modelled  *)
(* as the code behaves and tagged with their lead number (DESIGN.md §9).   *)
(***************************************************************************)
EXTENDS Integers, Sequences, FiniteSets, TLC, HelmBase

CONSTANTS
  Procs,       \* process ids (one helm invocation at a time per process)
  MaxRev,      \* bound on revision numbers (chosen so that it never binds)
  MaxOps,      \* operations per process
  MaxFaults,   \* injected faults in a behaviour
  MaxCrash,    \* process deaths in a behaviour
  MaxEdits,    \* out-of-band edits in a behaviour
  FaultKinds,  \* subset of {"res","wait","store"}
  Sequential,  \* TRUE: an operation starts only when every process is idle
  OpMenu,      \* set of operation descriptors (kind + flags) to explore
  EditMenu,    \* set of out-of-band edit descriptors
  PreMenu,     \* set of initial cluster contents
  Objs,        \* object ids of the cluster (resources, hooks, bystander)
  MenuGuard(_),\* state-dependent filter on the menu (TRUE for exhaustive runs; biases simulation)
  Planned,     \* TRUE (generators): fault / crash positions are drawn when the operation begins, so that
               \* random simulation spreads them uniformly over the calls; FALSE: any call may fail
  MaxPlan,     \* largest planned position
  InitStores,  \* set of initial ledgers (each a function Rev -> record)
  LateStart,   \* TRUE (concurrency generators): processes other than 1 begin only after process 1 has made a
               \* number of calls drawn at Init, so that simulation also samples late arrivals
  LogSched,    \* TRUE: hist also records which process took every step (schedule export, C09)
  KeepLog      \* TRUE: keep the per-operation call log (needed by the ordering properties)

VARIABLES store, cluster, pc, op, nops, nfaults, ncrash, nedits, last, pre, hist, kfg

vars == <<store, cluster, pc, op, nops, nfaults, ncrash, nedits, last, pre, hist, kfg>>

Rev == 1..MaxRev

NoHk == [ev |-> "", seq |-> <<>>, i |-> 0, j |-> 0, rev |-> 0, defs |-> <<>>, okpc |-> "", errpc |-> ""]

NoU == [kind |-> "none", chart |-> "none", replace |-> FALSE, atomic |-> FALSE, cleanup |-> FALSE,
        keep |-> FALSE, nohooks |-> FALSE, lim |-> 0, ver |-> 0, dry |-> FALSE, takeown |-> FALSE,
        clientOnly |-> FALSE, createNS |-> FALSE, skipCRDs |-> FALSE, force |-> FALSE, install |-> FALSE,
        incCRDs |-> FALSE]      \* helm template --include-crds: the crds/ objects join the rendered manifest of a dry run

NoOp == [u |-> NoU,
         keep |-> FALSE, nohooks |-> FALSE, ver |-> 0, lim |-> 0, cleanup |-> FALSE,
         new |-> 0, orig |-> 0, tgt |-> 0, newrec |-> NoRec, origRec |-> NoRec, tgtRec |-> NoRec, lastRev |-> 0, lastSt |-> "",
         curman |-> <<>>, tgtman |-> <<>>, hdefs |-> <<>>, adopted |-> {}, k3 |-> FALSE, snap |-> Absent,
         todo |-> {}, tseq |-> <<>>, dseq |-> <<>>, hrevs |-> {},
         created |-> {}, posted |-> {}, crs |-> {}, log |-> <<>>, uerr |-> FALSE, errs |-> FALSE,
         memSt |-> "", origSt |-> "",
         hk |-> NoHk, kctx |-> "", pctx |-> "", ret |-> "",
         result |-> "", n |-> 0, faultAt |-> 0, flt |-> {}, kf |-> {}, plan |-> 0, cplan |-> 0, sub |-> FALSE, fsub |-> FALSE]

Used     == {r \in Rev : store[r].st # "none"}
Last     == MaxOf(Used)
Deployed == {r \in Used : store[r].st = "deployed"}
Present(o) == cluster[o].own # "absent"

SetSt(s, r, st) == IF s[r].st = "none" THEN s ELSE [s EXCEPT ![r].st = st]

\* Storage.Update writes the WHOLE in-memory release object the operation holds (not just a status): if another
\* process replaced the record meanwhile (findings L22 / L23) its content is overwritten too.
WriteRec(s, r, rec, st) == IF s[r].st = "none" THEN s ELSE [s EXCEPT ![r] = [rec EXCEPT !.st = st]]
\* the release object an operation holds for the revision it created
NewRecOf(o) == IF o.u.kind = "rollback" \/ o.ret = "atomicUpgrade" THEN o.newrec ELSE MkRec("", o.u.chart)
\* ... and for any revision r it writes: its own new one, the original / current one as read, or the uninstall target as read
MemRec(o, r) == IF r = o.new THEN NewRecOf(o) ELSE IF r = o.orig /\ o.origRec.st # "none" THEN o.origRec
                ELSE IF r = o.tgt /\ o.tgtRec.st # "none" THEN o.tgtRec ELSE store[r]

Done(o, res) == [pc |-> "End", op |-> [o EXCEPT !.result = res]]


-----------------------------------------------------------------------------
(* ======================================================================= *)
(* Part A.  Pure transition functions.  A transition is [pc, op]: where the  *)
(* process goes next.  Some continuations are decisions rather than calls    *)
(* ("pseudo pcs"); Resolve turns them into the next real call so that every  *)
(* step of Next is one logged event.                                         *)
(* ======================================================================= *)

(* ----- hooks: pkg/action/hooks.go:execHook ------------------------------ *)

EffPols(d) == IF d.pols = {} THEN {"before-hook-creation"} ELSE d.pols   \* default delete policy

HookFailOut(o) == [pc |-> o.hk.errpc, op |-> [o EXCEPT !.hk = NoHk, !.errs = TRUE]]

HookFirst(o, i) ==
  LET h == o.hk.seq[i] IN
  IF "before-hook-creation" \in EffPols(o.hk.defs[h])
  THEN [pc |-> "H_DelBefore", op |-> [o EXCEPT !.hk.i = i]]
  ELSE [pc |-> "H_Record",    op |-> [o EXCEPT !.hk.i = i]]

\* all hooks succeeded: delete the hook-succeeded ones, last to first
RECURSIVE HookSuccNext(_, _)
HookSuccNext(o, i) ==
  IF i = 0 THEN [pc |-> o.hk.okpc, op |-> [o EXCEPT !.hk = NoHk]]
  ELSE IF "hook-succeeded" \in EffPols(o.hk.defs[o.hk.seq[i]])
       THEN [pc |-> "H_DelSucc", op |-> [o EXCEPT !.hk.i = i]]
       ELSE HookSuccNext(o, i - 1)

\* hook i failed: delete earlier hook-succeeded ones (ascending), then fail
RECURSIVE HookPrevNext(_, _)
HookPrevNext(o, j) ==
  IF j >= o.hk.i THEN HookFailOut(o)
  ELSE IF "hook-succeeded" \in EffPols(o.hk.defs[o.hk.seq[j]])
       THEN [pc |-> "H_DelPrev", op |-> [o EXCEPT !.hk.j = j]]
       ELSE HookPrevNext(o, j + 1)

EnterHooks(o, ev, rev, defs, okpc, errpc) ==
  LET seq == SortedHooks(defs, ev) IN
  IF o.nohooks \/ seq = <<>>
  THEN [pc |-> okpc, op |-> o]
  ELSE HookFirst([o EXCEPT !.hk = [ev |-> ev, seq |-> seq, i |-> 1, j |-> 0, rev |-> rev,
                                   defs |-> defs, okpc |-> okpc, errpc |-> errpc]], 1)

(* ----- sub-operation returns --------------------------------------------- *)

XEnd(o, res) == IF o.ret = "atomicInstall" THEN Done(o, "err") ELSE Done(o, res)
REnd(o, res) == IF o.ret = "atomicUpgrade" THEN Done(o, "err") ELSE Done(o, res)

(* ----- install ------------------------------------------------------------ *)

IFail(o) == IF o.u.atomic
            THEN [pc |-> "X_Hist", op |-> [o EXCEPT !.ret = "atomicInstall", !.keep = FALSE]]
            ELSE [pc |-> "I_FailRec", op |-> o]

IAfterNS(o) ==
  IF o.u.replace THEN [pc |-> "I_ReplHist", op |-> o]
  ELSE [pc |-> "I_Create", op |-> [o EXCEPT !.new = 1]]

IAfterOwn(o) ==
  IF o.u.dry THEN Done(o, "ok")                                  \* "Bail out here if it is a dry run"
  ELSE IF o.u.createNS THEN [pc |-> "I_CreateNS", op |-> o]
  ELSE IAfterNS(o)

IOwnNext(o) ==
  IF Len(o.tseq) <= 1 THEN IAfterOwn([o EXCEPT !.tseq = <<>>])
  ELSE [pc |-> "I_Own", op |-> [o EXCEPT !.tseq = Tail(@)]]

IOwnStart(o) ==
  LET o1 == [o EXCEPT !.tseq = ManOrder(o.tgtman), !.adopted = {}] IN
  IF o1.tseq = <<>> \/ o.u.clientOnly THEN IAfterOwn([o1 EXCEPT !.tseq = <<>>]) ELSE [pc |-> "I_Own", op |-> o1]

\* crds/ objects are installed before rendering (and before the schema gate, L19), never on a dry run
ICRDStart(o) ==
  IF o.u.dry \/ o.u.clientOnly \/ o.u.skipCRDs \/ ChartCRDs(o.u.chart) = <<>> THEN IOwnStart(o)
  ELSE [pc |-> "I_CRD", op |-> [o EXCEPT !.dseq = ChartCRDs(o.u.chart), !.uerr = FALSE]]

(* ----- kube.Client.update -------------------------------------------------- *)

KFail(o) ==
  CASE o.kctx = "install"  -> IFail(o)
    [] o.kctx = "upgrade"  -> [pc |-> "U_ReRecord", op |-> o]
    [] o.kctx = "rollback" -> [pc |-> "R_FailCur", op |-> o]

KDone(o) ==
  CASE o.kctx = "install"  -> [pc |-> "I_Wait", op |-> o]
    [] o.kctx = "upgrade"  -> [pc |-> "U_Wait", op |-> o]
    [] o.kctx = "rollback" -> [pc |-> "R_Wait", op |-> o]

\* deletion phase: original \ target, in the order of the original list
KDelStart(o) ==
  LET ds == SelectSeq(ManOrder(o.curman), LAMBDA r : r \notin DOMAIN o.tgtman) IN
  IF ds = <<>> THEN KDone(o) ELSE [pc |-> "K_DGet", op |-> [o EXCEPT !.dseq = ds]]

KDelNext(o) ==
  IF Len(o.dseq) <= 1 THEN KDone([o EXCEPT !.dseq = <<>>])
  ELSE [pc |-> "K_DGet", op |-> [o EXCEPT !.dseq = Tail(@)]]

KAfterLoop(o) == IF o.uerr THEN KFail(o) ELSE KDelStart(o)

KNext(o) ==
  IF Len(o.tseq) <= 1 THEN KAfterLoop([o EXCEPT !.tseq = <<>>])
  ELSE [pc |-> "K_Get", op |-> [o EXCEPT !.tseq = Tail(@)]]

KStart(o, ctx, cur, tgt, k3) ==
  LET o1 == [o EXCEPT !.kctx = ctx, !.curman = cur, !.tgtman = tgt, !.k3 = k3,
                      !.tseq = ManOrder(tgt), !.created = {}, !.uerr = FALSE] IN
  IF o1.tseq = <<>> THEN KAfterLoop(o1) ELSE [pc |-> "K_Get", op |-> o1]

(* ----- pruning --------------------------------------------------------------- *)

PCreatePc(o) == IF o.pctx = "upgrade" THEN "U_Create" ELSE "R_Create"
PFail(o) == IF o.pctx = "rollback" THEN REnd(o, "err") ELSE Done(o, "err")

PStart(o, ctx) ==
  LET o1 == [o EXCEPT !.pctx = ctx] IN
  IF o1.lim > 0 THEN [pc |-> "P_Hist", op |-> o1] ELSE [pc |-> PCreatePc(o1), op |-> o1]

(* ----- uninstall --------------------------------------------------------------- *)

XPurgeStart(o, revs, res) ==
  LET s == SetToSortSeq(revs) IN
  IF s = <<>> THEN XEnd(o, res) ELSE [pc |-> "X_Purge", op |-> [o EXCEPT !.dseq = s]]

\* filterManifestsToKeep: "keep" documents are kept, un-annotated ones deleted, and a
\* document whose policy annotation has any other value lands in neither list (L7)
XDelSet(man) == {r \in DOMAIN man : man[r].pol = "none"}

XAfterDel(o) == EnterHooks(o, "post-delete", o.tgt, o.hdefs, "X_Fin", "X_Fin")

X_FinT(o) ==
  IF o.keep THEN [pc |-> "X_RecUn", op |-> o]
  ELSE XPurgeStart(o, o.hrevs, IF o.errs THEN "err" ELSE "ok")

(* ----- upgrade ------------------------------------------------------------------ *)

UOwnDone(o) ==
  \* toBeUpdated is appended to `current`; ResourceList.Get returns the FIRST match and matches on
  \* kind/name only, so an object that is already in the current manifest (apiVersion bump) keeps its
  \* old entry as "original"; only objects new to the release are their own original
  LET fresh == o.adopted \ DOMAIN o.curman
      cur == [r \in (DOMAIN o.curman) \cup o.adopted |->
                IF r \in fresh THEN o.tgtman[r] ELSE o.curman[r]]
      o1 == [o EXCEPT !.curman = cur, !.adopted = fresh] IN
  IF o.u.dry THEN Done(o1, "ok") ELSE PStart(o1, "upgrade")

UOwnNext(o) ==
  IF Len(o.tseq) <= 1 THEN UOwnDone([o EXCEPT !.tseq = <<>>])
  ELSE [pc |-> "U_Own", op |-> [o EXCEPT !.tseq = Tail(@)]]

\* lastRev: the revision Releases.Last returned (the new revision number is computed from THAT object,
\* not from the ledger as it is now: another process may have written in between)
UPrepared(o, orig, lastRev) ==
  LET tgt == ChartMan(o.u.chart)
      cur == store[orig].man
      tbc == SelectSeq(ManOrder(tgt), LAMBDA r : r \notin DOMAIN cur \/ ~SameKey(cur[r], tgt[r]))
      o1 == [o EXCEPT !.orig = orig, !.origSt = store[orig].st, !.origRec = store[orig], !.new = lastRev + 1,
                      !.tgtman = tgt, !.curman = cur, !.tseq = tbc, !.adopted = {}] IN
  IF lastRev = MaxRev THEN Done(o, "err")
  ELSE IF tbc = <<>> THEN UOwnDone(o1) ELSE [pc |-> "U_Own", op |-> o1]

UAfterFailRec(o) ==
  IF o.u.cleanup /\ o.created # {}
  THEN [pc |-> "C_Del", op |-> [o EXCEPT !.todo = o.created, !.uerr = FALSE, !.kctx = "upgrade"]]
  ELSE IF o.u.atomic THEN [pc |-> "A_Hist", op |-> o] ELSE Done(o, "err")

CAfter(o) ==
  IF o.uerr THEN (IF o.kctx = "rollbackC" THEN REnd(o, "err") ELSE Done(o, "err"))   \* "unable to cleanup resources": returns before the atomic rollback
  ELSE IF o.kctx = "upgrade" THEN (IF o.u.atomic THEN [pc |-> "A_Hist", op |-> o] ELSE Done(o, "err"))
  ELSE REnd(o, "err")

(* ----- pseudo program counters ---------------------------------------------------- *)

Resolve1(t) ==
  CASE t.pc = "I_Apply"    -> IF t.op.adopted = {}
                              THEN [pc |-> "I_CreateRes", op |-> [t.op EXCEPT !.todo = DOMAIN t.op.tgtman, !.uerr = FALSE]]
                              ELSE KStart(t.op, "install", [r \in t.op.adopted |-> t.op.tgtman[r]], t.op.tgtman, t.op.u.takeown)
    [] t.pc = "I_Fail"     -> IFail(t.op)
    [] t.pc = "U_Apply"    -> KStart(t.op, "upgrade", t.op.curman, t.op.tgtman, t.op.u.takeown)
    [] t.pc = "R_Apply"    -> KStart(t.op, "rollback", t.op.curman, t.op.tgtman, FALSE)
    [] t.pc = "R_HookFail" -> REnd([t.op EXCEPT !.kf = @ \cup {"L3"}], "err")              \* returns without recording: stays pending-rollback (L3)
    [] t.pc = "X_HookFail" -> XEnd(t.op, "err")
    [] t.pc = "X_Fin"      -> X_FinT(t.op)
    [] OTHER               -> t

Resolve(t) == Resolve1(Resolve1(t))

-----------------------------------------------------------------------------
(* ======================================================================= *)
(* Part B.  Step plumbing and call primitives.                               *)
(* ======================================================================= *)

Lab(p, ev, kind, verb, id, ok, inj) ==
  [p |-> p, ev |-> ev, kind |-> kind, verb |-> verb, id |-> id, ok |-> ok, inj |-> inj]

CallL(p, kind, verb, id, ok, inj) == last' = Lab(p, "call", kind, verb, id, ok, inj)

\* move p along transition t, counting one more visible call
Go(p, t) ==
  LET r == Resolve(t) IN
  /\ pc' = [pc EXCEPT ![p] = r.pc]
  /\ op' = [op EXCEPT ![p] = [r.op EXCEPT !.n = op[p].n + 1,
                                          \* a history query after the record was created: the atomic
                                          \* sub-operation (uninstall / rollback) has begun
                                          !.sub = @ \/ (last'.kind = "store" /\ last'.verb = "query" /\ last'.id = "history" /\ op[p].crs # {}),
                                          !.log = IF KeepLog THEN Append(@, last') ELSE @]]
  /\ hist' = IF LogSched THEN Append(hist, [step |-> "c", p |-> p]) ELSE hist

\* index in hist of the running operation of process p
OpIdx(p) == CHOOSE i \in DOMAIN hist : /\ hist[i].step = "op" /\ hist[i].p = p
                                       /\ \A j \in DOMAIN hist : (j > i /\ hist[j].step = "op") => hist[j].p # p

\* same, and the fault plan hit this call (class cls)
GoF(p, t, cls) ==
  LET r == Resolve(t) IN
  /\ pc' = [pc EXCEPT ![p] = r.pc]
  /\ op' = [op EXCEPT ![p] = [r.op EXCEPT !.n = op[p].n + 1, !.faultAt = op[p].n + 1, !.flt = @ \cup {cls},
                                          !.fsub = @ \/ (op[p].sub /\ cls # "store"),
                                          !.log = IF KeepLog THEN Append(@, last') ELSE @]]
  /\ hist' = LET h == [hist EXCEPT ![OpIdx(p)].fault = op[p].n + 1, ![OpIdx(p)].flab = last'] IN
              IF LogSched THEN Append(h, [step |-> "c", p |-> p]) ELSE h

CanInj(p, cls) ==
  /\ cls \in FaultKinds /\ nfaults < MaxFaults
  /\ op[p].faultAt = 0                                 \* one injected fault per operation
  /\ Planned => op[p].plan = op[p].n + 1
\* with a plan, the planned call fails whenever it is a fault point
MustInj(p, cls) == Planned /\ CanInj(p, cls)
Inj   == nfaults' = nfaults + 1
NoInj == UNCHANGED nfaults

Budgets == UNCHANGED <<nops, ncrash, nedits, pre, kfg>>

\* One storage write.  possible: the driver finds the key state it needs; eff: the store
\* afterwards; okT / failT / injT: transitions on success / natural failure / injected failure.
StoreWrite(p, verb, r, possible, eff, okT, failT, injT) ==
  /\ UNCHANGED cluster
  /\ \/ /\ possible /\ ~MustInj(p, "store")
        /\ store' = eff
        /\ CallL(p, "store", verb, ToString(r), TRUE, FALSE)
        /\ Go(p, okT) /\ NoInj
     \/ /\ ~possible /\ ~MustInj(p, "store")
        /\ UNCHANGED store
        /\ CallL(p, "store", verb, ToString(r), FALSE, FALSE)
        /\ Go(p, failT) /\ NoInj
     \/ /\ CanInj(p, "store") /\ Inj
        /\ UNCHANGED store
        /\ CallL(p, "store", verb, ToString(r), FALSE, TRUE)
        /\ GoF(p, injT, "store")

\* Storage reads are not fault points (the properties speak of storage writes).
StoreRead(p, verb, id, ok, t) ==
  /\ UNCHANGED <<store, cluster>> /\ NoInj
  /\ CallL(p, "store", verb, id, ok, FALSE)
  /\ Go(p, t)

\* One HTTP request for object o.
ResCall(p, verb, o, okNat, clNat, natT, injT) ==
  /\ UNCHANGED store
  /\ \/ /\ ~MustInj(p, "res")
        /\ cluster' = clNat
        /\ CallL(p, "res", verb, o, okNat, FALSE)
        /\ Go(p, natT) /\ NoInj
     \/ /\ CanInj(p, "res") /\ Inj
        /\ UNCHANGED cluster
        /\ CallL(p, "res", verb, o, FALSE, TRUE)
        /\ GoF(p, injT, "res")

WaitCall(p, verb, id, okT, injT) ==
  /\ UNCHANGED <<store, cluster>>
  /\ \/ /\ ~MustInj(p, "wait")
        /\ CallL(p, "wait", verb, id, TRUE, FALSE)
        /\ Go(p, okT) /\ NoInj
     \/ /\ CanInj(p, "wait") /\ Inj
        /\ CallL(p, "wait", verb, id, FALSE, TRUE)
        /\ GoF(p, injT, "wait")

DelEff(o) == [cluster EXCEPT ![o] = Absent]

\* members of S with the least rank: the kind batch perform() is working on
Batch(S, rank(_)) == {r \in S : \A s \in S : rank(r) <= rank(s)}

\* a swallowed injected failure: the operation goes on as if nothing happened (L5)
Swallow(t) == [pc |-> t.pc, op |-> [t.op EXCEPT !.kf = @ \cup {"L5"}]]

-----------------------------------------------------------------------------
(* ======================================================================= *)
(* Part C.  Actions: one per storage / cluster / waiter call site.           *)
(* ======================================================================= *)

(* ----- hooks ---------------------------------------------------------------- *)

H_DelBefore(p) ==
  /\ pc[p] = "H_DelBefore" /\ Budgets
  /\ LET o == op[p]  h == o.hk.seq[o.hk.i] IN
     ResCall(p, "DELETE", h, Present(h), DelEff(h), [pc |-> "H_Record", op |-> o], HookFailOut(o))

H_Record(p) ==
  /\ pc[p] = "H_Record" /\ Budgets
  /\ LET o == op[p]  t == [pc |-> "H_Create", op |-> o] IN
     StoreWrite(p, "update", o.hk.rev, store[o.hk.rev].st # "none",
                WriteRec(store, o.hk.rev, MemRec(o, o.hk.rev), o.memSt), t, t, t)            \* cfg.recordRelease: error swallowed

H_Create(p) ==
  /\ pc[p] = "H_Create" /\ Budgets
  /\ LET o == op[p]  h == o.hk.seq[o.hk.i] IN
     \* a rejected create returns at once: earlier succeeded hooks are not deleted by policy (L14)
     LET f == HookFailOut([o EXCEPT !.kf = @ \cup {"L14"}]) IN
     IF Present(h)
     THEN ResCall(p, "POST", h, FALSE, cluster, f, f)                               \* 409 already exists
     ELSE ResCall(p, "POST", h, TRUE,
                  \* (a hook manifest may carry the keep resource policy: it is an annotation of the object, nothing more -
                  \*  hooks are deleted by their delete policies regardless)
                  [cluster EXCEPT ![h] = IF o.hk.defs[h].keep THEN [HookObj EXCEPT !.pol = "keep"] ELSE HookObj],
                  [pc |-> "H_Watch", op |-> o], f)

H_Watch(p) ==
  /\ pc[p] = "H_Watch" /\ Budgets
  /\ LET o == op[p]  i == o.hk.i  h == o.hk.seq[i]
         okT == IF i < Len(o.hk.seq) THEN HookFirst(o, i + 1) ELSE HookSuccNext(o, Len(o.hk.seq))
         failT == IF "hook-failed" \in EffPols(o.hk.defs[h])
                  THEN [pc |-> "H_DelFailed", op |-> o]
                  ELSE HookPrevNext(o, 1) IN
     WaitCall(p, "watch", h, okT, failT)

H_DelFailed(p) ==
  /\ pc[p] = "H_DelFailed" /\ Budgets
  /\ LET o == op[p]  h == o.hk.seq[o.hk.i]  t == HookPrevNext(o, 1) IN
     ResCall(p, "DELETE", h, Present(h), DelEff(h), t, t)              \* deletion error only logged

H_DelPrev(p) ==
  /\ pc[p] = "H_DelPrev" /\ Budgets
  /\ LET o == op[p]  h == o.hk.seq[o.hk.j] IN
     ResCall(p, "DELETE", h, Present(h), DelEff(h), HookPrevNext(o, o.hk.j + 1), HookFailOut(o))

H_DelSucc(p) ==
  /\ pc[p] = "H_DelSucc" /\ Budgets
  /\ LET o == op[p]  h == o.hk.seq[o.hk.i] IN
     ResCall(p, "DELETE", h, Present(h), DelEff(h), HookSuccNext(o, o.hk.i - 1), HookFailOut(o))

(* ----- kube.Client.update ------------------------------------------------------ *)

K_Get(p) ==
  /\ pc[p] = "K_Get" /\ Budgets
  /\ LET o == op[p]  r == Head(o.tseq) IN
     IF ~Present(r)
     THEN ResCall(p, "GET", r, FALSE, cluster,
                  [pc |-> "K_Post", op |-> [o EXCEPT !.created = @ \cup {r}]], KFail(o))
     ELSE IF r \notin DOMAIN o.curman
          THEN ResCall(p, "GET", r, TRUE, cluster, KFail([o EXCEPT !.kf = @ \cup {"L4"}]), KFail(o))   \* "no X with the name found" (L4)
          ELSE ResCall(p, "GET", r, TRUE, cluster, [pc |-> IF o.u.force THEN "K_PutGet" ELSE "K_Get2", op |-> o], KFail(o))

K_Post(p) ==
  /\ pc[p] = "K_Post" /\ Budgets
  /\ LET o == op[p]  r == Head(o.tseq) IN
     IF Present(r)
     THEN ResCall(p, "POST", r, FALSE, cluster, KFail(o), KFail(o))
     ELSE ResCall(p, "POST", r, TRUE, [cluster EXCEPT ![r] = NewObj(o.tgtman[r])],
                  KNext([o EXCEPT !.posted = IF o.ret = "" THEN @ \cup {r} ELSE @]), KFail(o))

\* --force: helper.Replace, the rendered object replaces the live one wholesale (no patch is computed)
\* (resource.Helper.Replace with overwrite first fetches the live object for its resourceVersion)
K_PutGet(p) ==
  /\ pc[p] = "K_PutGet" /\ Budgets
  /\ LET o == op[p]  r == Head(o.tseq)
         errT == KNext([o EXCEPT !.uerr = TRUE]) IN
     \* whatever the GET says, Replace goes on to the PUT ("the object does not exist, but we want it created")
     ResCall(p, "GET", r, Present(r), cluster, [pc |-> "K_Put", op |-> o], [pc |-> "K_Put", op |-> o])

K_Put(p) ==
  /\ pc[p] = "K_Put" /\ Budgets
  /\ LET o == op[p]  r == Head(o.tseq)
         errT == KNext([o EXCEPT !.uerr = TRUE]) IN
     IF ~Present(r)
     THEN ResCall(p, "PUT", r, FALSE, cluster, errT, errT)
     ELSE ResCall(p, "PUT", r, TRUE, [cluster EXCEPT ![r] = NewObj(o.tgtman[r])], KNext(o), errT)

\* createPatch reads the live object again
K_Get2(p) ==
  /\ pc[p] = "K_Get2" /\ Budgets
  /\ LET o == op[p]  r == Head(o.tseq)
         empty == PatchEmpty(o.curman[r], o.tgtman[r], cluster[r], r \in o.adopted, o.k3)
         o6 == [o EXCEPT !.kf = IF ~Typed(o.tgtman[r].kind) /\ ~o.k3 THEN @ \cup {"L6"} ELSE @]
         errT == KNext([o EXCEPT !.uerr = TRUE]) IN
     IF ~Present(r)
     THEN ResCall(p, "GET", r, FALSE, cluster, [pc |-> "K_Patch", op |-> [o EXCEPT !.snap = Absent]], errT)
     ELSE ResCall(p, "GET", r, TRUE, cluster,
                  [pc |-> IF empty THEN "K_Refresh" ELSE "K_Patch", op |-> [o6 EXCEPT !.snap = IF empty THEN Absent ELSE cluster[r]]], errT)

K_Patch(p) ==
  /\ pc[p] = "K_Patch" /\ Budgets
  /\ LET o == op[p]  r == Head(o.tseq)
         errT == KNext([o EXCEPT !.uerr = TRUE, !.snap = Absent]) IN
     IF ~Present(r)
     THEN ResCall(p, "PATCH", r, FALSE, cluster, errT, errT)
     ELSE ResCall(p, "PATCH", r, TRUE,
                  [cluster EXCEPT ![r] = PatchedOn(o.curman[r], o.tgtman[r], o.snap, cluster[r], r \in o.adopted, o.k3)],
                  KNext([o EXCEPT !.snap = Absent]), errT)

K_Refresh(p) ==
  /\ pc[p] = "K_Refresh" /\ Budgets
  /\ LET o == op[p]  r == Head(o.tseq)
         errT == KNext([o EXCEPT !.uerr = TRUE]) IN
     ResCall(p, "GET", r, Present(r), cluster, IF Present(r) THEN KNext(o) ELSE errT, errT)

\* obsolete resources: GET, keep check on the LIVE object, DELETE; every error swallowed (L5)
K_DGet(p) ==
  /\ pc[p] = "K_DGet" /\ Budgets
  /\ LET o == op[p]  r == Head(o.dseq) IN
     ResCall(p, "GET", r, Present(r), cluster,
             IF Present(r) /\ cluster[r].pol # "keep" THEN [pc |-> "K_Del", op |-> o] ELSE KDelNext(o),
             Swallow(KDelNext(o)))

K_Del(p) ==
  /\ pc[p] = "K_Del" /\ Budgets
  /\ LET o == op[p]  r == Head(o.dseq) IN
     ResCall(p, "DELETE", r, Present(r), DelEff(r), KDelNext(o), Swallow(KDelNext(o)))

(* ----- pruning: storage.Create with MaxHistory ---------------------------------- *)

P_Hist(p) ==
  /\ pc[p] = "P_Hist" /\ Budgets
  /\ LET o == op[p] IN
     StoreRead(p, "query", "history", Used # {},
               IF Cardinality(Used) <= o.lim - 1
               THEN [pc |-> PCreatePc(o), op |-> o]
               ELSE [pc |-> "P_Dep", op |-> [o EXCEPT !.hrevs = Used]])

P_Dep(p) ==
  /\ pc[p] = "P_Dep" /\ Budgets
  /\ LET o == op[p]
         dep == IF Deployed = {} THEN 0 ELSE MaxOf(Deployed)
         h == o.hrevs
         need == Cardinality(h) - (o.lim - 1)
         cand == SetToSortSeq(h \ {dep})
         del == SubSeq(cand, 1, IF need < Len(cand) THEN need ELSE Len(cand)) IN
     StoreRead(p, "query", "status=deployed", Deployed # {},
               IF del = <<>> THEN [pc |-> PCreatePc(o), op |-> o]
               ELSE [pc |-> "P_Del", op |-> [o EXCEPT !.dseq = del, !.uerr = FALSE]])

P_Del(p) ==
  /\ pc[p] = "P_Del" /\ Budgets
  /\ LET o == op[p]  r == Head(o.dseq)
         nxt(oo) == IF Len(oo.dseq) <= 1
                    THEN IF oo.uerr THEN PFail([oo EXCEPT !.dseq = <<>>])
                         ELSE [pc |-> PCreatePc(oo), op |-> [oo EXCEPT !.dseq = <<>>]]
                    ELSE [pc |-> "P_Del", op |-> [oo EXCEPT !.dseq = Tail(@)]] IN
     \* pruning does not look at the status: it can delete the pending record of an operation that is still
     \* running in another process, which then no longer holds its revision number (finding L23)
     \* (the list of victims was computed from earlier reads: by now the record may even be the deployed one)
     LET o23 == [o EXCEPT !.kf = IF store[r].st = "deployed" \/ (\E q \in Procs : q # p /\ r \in op[q].crs)
                                 THEN @ \cup {"L23"} ELSE @] IN
     StoreWrite(p, "delete", r, store[r].st # "none", [store EXCEPT ![r] = NoRec],
                nxt(o23), nxt([o EXCEPT !.uerr = TRUE]), nxt([o EXCEPT !.uerr = TRUE]))

(* ----- install ------------------------------------------------------------------- *)

\* availableName
I_Name(p) ==
  /\ pc[p] = "I_Name" /\ Budgets
  /\ LET o == op[p] IN
     StoreRead(p, "query", "history", Used # {},
               IF Used = {} \/ (o.u.replace /\ store[Last].st \in {"uninstalled", "failed"})
               THEN ICRDStart(o)
               ELSE Done(o, "err"))

\* installCRDs: one Create per file; already-exists is skipped; then a readiness wait for those created
I_CRD(p) ==
  /\ pc[p] = "I_CRD" /\ Budgets
  /\ LET o == op[p]  c == Head(o.dseq)
         nxt(oo) == IF Len(oo.dseq) <= 1
                    THEN IF oo.uerr THEN [pc |-> "I_CRDWait", op |-> [oo EXCEPT !.dseq = <<>>]]
                         ELSE IOwnStart([oo EXCEPT !.dseq = <<>>])
                    ELSE [pc |-> "I_CRD", op |-> [oo EXCEPT !.dseq = Tail(@)]] IN
     IF Present(c)
     THEN ResCall(p, "POST", c, FALSE, cluster, nxt(o), Done(o, "err"))            \* 409: "CRD is already present. Skipping"
     ELSE ResCall(p, "POST", c, TRUE, [cluster EXCEPT ![c] = HookObj], nxt([o EXCEPT !.uerr = TRUE]), Done(o, "err"))

I_CRDWait(p) ==
  /\ pc[p] = "I_CRDWait" /\ Budgets
  /\ LET o == op[p] IN
     WaitCall(p, "wait", "all", IOwnStart([o EXCEPT !.uerr = FALSE]), Done(o, "err"))

\* --create-namespace: the namespace exists in every scenario, AlreadyExists is tolerated
I_CreateNS(p) ==
  /\ pc[p] = "I_CreateNS" /\ Budgets
  /\ LET o == op[p] IN
     ResCall(p, "POST", "ns1", FALSE, cluster, IAfterNS(o), Done(o, "err"))

\* existingResourceConflict / requireAdoption: one GET per rendered resource
I_Own(p) ==
  /\ pc[p] = "I_Own" /\ Budgets
  /\ LET o == op[p]  r == Head(o.tseq) IN
     ResCall(p, "GET", r, Present(r), cluster,
             IF ~Present(r) THEN IOwnNext(o)
             ELSE IF o.u.takeown \/ cluster[r].own = "me"
                  THEN IOwnNext([o EXCEPT !.adopted = @ \cup {r}])
                  ELSE Done(o, "err"),
             Done(o, "err"))

\* replaceRelease
I_ReplHist(p) ==
  /\ pc[p] = "I_ReplHist" /\ Budgets
  /\ LET o == [op[p] EXCEPT !.kf = IF Deployed # {} /\ MaxOf(Deployed) # Last THEN @ \cup {"L1"} ELSE @] IN
     StoreRead(p, "query", "history", Used # {},
               IF Used = {} THEN [pc |-> "I_Create", op |-> [o EXCEPT !.new = 1]]
               ELSE IF Last = MaxRev THEN Done(o, "err")
               ELSE IF store[Last].st = "failed"      \* "do not change the status of a failed release" (L1)
                    THEN [pc |-> "I_Create", op |-> [o EXCEPT !.new = Last + 1]]
                    \* (the name check ran on an earlier read: by now the last revision may be the pending record
                    \* of an install running in another process, and replaceRelease supersedes it - finding L24)
                    ELSE [pc |-> "I_ReplUpdate", op |-> [o EXCEPT !.new = Last + 1, !.orig = Last,
                                                          !.kf = IF IsPending(store[Last].st) THEN @ \cup {"L24"} ELSE @]])

I_ReplUpdate(p) ==
  /\ pc[p] = "I_ReplUpdate" /\ Budgets
  /\ LET o == op[p] IN
     StoreWrite(p, "update", o.orig, store[o.orig].st # "none", WriteRec(store, o.orig, MemRec(o, o.orig), "superseded"),
                [pc |-> "I_Create", op |-> o], Done(o, "err"), Done(o, "err"))

I_Create(p) ==
  /\ pc[p] = "I_Create" /\ Budgets
  /\ LET o == op[p]
         rec == MkRec("pending-install", o.u.chart)
         o1 == [o EXCEPT !.memSt = "pending-install", !.crs = @ \cup {o.new}]
         okT == EnterHooks(o1, "pre-install", o.new, rec.hooks, "I_Apply", "I_Fail") IN
     StoreWrite(p, "create", o.new, store[o.new].st = "none", [store EXCEPT ![o.new] = rec],
                okT, Done(o, "err"), Done(o, "err"))

\* kube.Client.Create: per-kind batches, every resource attempted
I_CreateRes(p) ==
  /\ pc[p] = "I_CreateRes" /\ Budgets
  /\ LET o == op[p] IN
     \E r \in Batch(o.todo, LAMBDA x : InstRank(o.tgtman[x].kind)) :
       LET rest == o.todo \ {r}
           nxt(oo) == IF rest = {} THEN IF oo.uerr THEN IFail(oo) ELSE [pc |-> "I_Wait", op |-> oo]
                      ELSE [pc |-> "I_CreateRes", op |-> oo]
           good == nxt([o EXCEPT !.todo = rest, !.posted = @ \cup {r}])
           bad  == nxt([o EXCEPT !.todo = rest, !.uerr = TRUE]) IN
       IF Present(r)
       THEN ResCall(p, "POST", r, FALSE, cluster, bad, bad)
       ELSE ResCall(p, "POST", r, TRUE, [cluster EXCEPT ![r] = NewObj(o.tgtman[r])], good, bad)

I_Wait(p) ==
  /\ pc[p] = "I_Wait" /\ Budgets
  /\ LET o == op[p] IN
     WaitCall(p, "wait", "all",
              EnterHooks(o, "post-install", o.new, ChartHooks(o.u.chart), "I_Deployed", "I_Fail"),
              IFail(o))

I_Deployed(p) ==
  /\ pc[p] = "I_Deployed" /\ Budgets
  /\ LET o == op[p]  t == Done(o, "ok") IN
     StoreWrite(p, "update", o.new, store[o.new].st # "none", WriteRec(store, o.new, MemRec(o, o.new), "deployed"), t, t,
                Done([o EXCEPT !.kf = @ \cup {"L2i"}], "ok"))                       \* error swallowed (L2)

I_FailRec(p) ==
  /\ pc[p] = "I_FailRec" /\ Budgets
  /\ LET o == op[p]  t == Done(o, "err") IN
     StoreWrite(p, "update", o.new, store[o.new].st # "none", WriteRec(store, o.new, MemRec(o, o.new), "failed"), t, t, t)

(* ----- uninstall -------------------------------------------------------------------- *)

X_Hist(p) ==
  /\ pc[p] = "X_Hist" /\ Budgets
  /\ LET o == op[p] IN
     StoreRead(p, "query", "history", Used # {},
       IF Used = {} THEN XEnd(o, "err")
       ELSE IF o.u.dry /\ o.ret = "" THEN Done(o, "ok")
       ELSE IF store[Last].st = "uninstalled"
            THEN IF o.keep THEN XEnd(o, "err") ELSE XPurgeStart([o EXCEPT !.errs = FALSE], Used, "ok")
            ELSE LET o1 == [o EXCEPT !.tgt = Last, !.tgtRec = store[Last], !.hrevs = Used, !.memSt = "uninstalling", !.errs = FALSE,
                                     !.tgtman = store[Last].man, !.hdefs = store[Last].hooks] IN
                 EnterHooks(o1, "pre-delete", Last, store[Last].hooks, "X_Mark", "X_HookFail"))

X_Mark(p) ==
  /\ pc[p] = "X_Mark" /\ Budgets
  /\ LET o == op[p]
         dels == XDelSet(o.tgtman)
         o2 == [o EXCEPT !.kf = IF \E r \in DOMAIN o.tgtman : o.tgtman[r].pol = "other" THEN @ \cup {"L7"} ELSE @]
         t == IF dels = {} THEN XAfterDel(o2)
              ELSE [pc |-> "X_Del", op |-> [o2 EXCEPT !.todo = dels, !.uerr = FALSE]] IN
     StoreWrite(p, "update", o.tgt, store[o.tgt].st # "none", WriteRec(store, o.tgt, MemRec(o, o.tgt), "uninstalling"), t, t, t)

X_Del(p) ==
  /\ pc[p] = "X_Del" /\ Budgets
  /\ LET o == op[p] IN
     \E r \in Batch(o.todo, LAMBDA x : UninstRank(o.tgtman[x].kind)) :
       LET rest == o.todo \ {r}
           nxt(oo) == IF rest = {} THEN IF oo.uerr THEN XEnd(oo, "err") ELSE XAfterDel(oo)
                      ELSE [pc |-> "X_Del", op |-> oo]
           good == nxt([o EXCEPT !.todo = rest])
           bad  == nxt([o EXCEPT !.todo = rest, !.uerr = TRUE]) IN
       ResCall(p, "DELETE", r, Present(r), DelEff(r), good, bad)

X_RecUn(p) ==
  /\ pc[p] = "X_RecUn" /\ Budgets
  /\ LET o == op[p]  t == XEnd(o, IF o.errs THEN "err" ELSE "ok") IN
     StoreWrite(p, "update", o.tgt, store[o.tgt].st # "none", WriteRec(store, o.tgt, MemRec(o, o.tgt), "uninstalled"), t, t, t)

X_Purge(p) ==
  /\ pc[p] = "X_Purge" /\ Budgets
  /\ LET o == op[p]  r == Head(o.dseq)
         nxt == IF Len(o.dseq) <= 1 THEN XEnd([o EXCEPT !.dseq = <<>>], IF o.errs THEN "err" ELSE "ok")
                ELSE [pc |-> "X_Purge", op |-> [o EXCEPT !.dseq = Tail(@)]]
         bad == XEnd([o EXCEPT !.dseq = <<>>], "err") IN
     StoreWrite(p, "delete", r, store[r].st # "none", [store EXCEPT ![r] = NoRec], nxt, bad, bad)

(* ----- helm test: pkg/action/release_testing.go ----------------------------------------- *)

\* Last, the test hooks of the last revision (execHook, event "test"), then the release is written back as read
T_Last(p) ==
  /\ pc[p] = "T_Last" /\ Budgets
  /\ LET o == op[p] IN
     StoreRead(p, "query", "history", Used # {},
       IF Used = {} THEN Done(o, "err")
       ELSE LET o1 == [o EXCEPT !.tgt = Last, !.tgtRec = store[Last], !.memSt = store[Last].st, !.hdefs = store[Last].hooks] IN
            EnterHooks(o1, "test", Last, store[Last].hooks, "T_Update", "T_UpdateErr"))

T_Update(p) ==
  /\ pc[p] = "T_Update" /\ Budgets
  /\ LET o == op[p] IN
     StoreWrite(p, "update", o.tgt, store[o.tgt].st # "none", WriteRec(store, o.tgt, MemRec(o, o.tgt), o.memSt),
                Done(o, "ok"), Done(o, "err"), Done(o, "err"))

T_UpdateErr(p) ==
  /\ pc[p] = "T_UpdateErr" /\ Budgets
  /\ LET o == op[p]  t == Done(o, "err") IN
     StoreWrite(p, "update", o.tgt, store[o.tgt].st # "none", WriteRec(store, o.tgt, MemRec(o, o.tgt), o.memSt), t, t, t)

(* ----- upgrade ------------------------------------------------------------------------ *)

\* helm upgrade --install (pkg/cmd/upgrade.go): History first; no release, or a last revision that is
\* uninstalled, hands the operation over to an Install client with the options copied (and --replace set
\* in the second case); otherwise it is a plain upgrade
U_InstallFallback(o) ==
  LET u2 == [o.u EXCEPT !.kind = "install", !.replace = (Used # {}), !.install = FALSE, !.cleanup = FALSE, !.lim = 0]
      o1 == [o EXCEPT !.u = u2, !.tgtman = ChartMan(o.u.chart), !.cleanup = FALSE, !.lim = 0] IN
  IF u2.dry THEN ICRDStart(o1) ELSE [pc |-> "I_Name", op |-> o1]

UI_Hist(p) ==
  /\ pc[p] = "UI_Hist" /\ Budgets
  /\ LET o == op[p] IN
     StoreRead(p, "query", "history", Used # {},
               IF Used = {} \/ store[Last].st = "uninstalled" THEN U_InstallFallback(o)
               ELSE [pc |-> "U_Last", op |-> o])

U_Last(p) ==
  /\ pc[p] = "U_Last" /\ Budgets
  /\ LET o == op[p] IN
     StoreRead(p, "query", "history", Used # {},
       IF Used = {} THEN Done(o, "err")
       ELSE IF IsPending(store[Last].st) THEN Done(o, "err")                  \* errPending
       ELSE IF store[Last].st = "deployed" THEN UPrepared(o, Last, Last)
       ELSE [pc |-> "U_Deployed", op |-> [o EXCEPT !.lastRev = Last, !.lastSt = store[Last].st]])

U_Deployed(p) ==
  /\ pc[p] = "U_Deployed" /\ Budgets
  /\ LET o == op[p] IN
     StoreRead(p, "query", "status=deployed", Deployed # {},
       IF Deployed # {} THEN UPrepared(o, MaxOf(Deployed), o.lastRev)
       ELSE IF o.lastSt \in {"failed", "superseded"} /\ store[o.lastRev].st # "none"
            THEN UPrepared(o, o.lastRev, o.lastRev)            \* currentRelease = the cached lastRelease
       ELSE Done(o, "err"))

U_Own(p) ==
  /\ pc[p] = "U_Own" /\ Budgets
  /\ LET o == op[p]  r == Head(o.tseq) IN
     ResCall(p, "GET", r, Present(r), cluster,
             IF ~Present(r) THEN UOwnNext(o)
             ELSE IF o.u.takeown \/ cluster[r].own = "me"
                  THEN UOwnNext([o EXCEPT !.adopted = @ \cup {r}])
                  ELSE Done(o, "err"),
             Done(o, "err"))

U_Create(p) ==
  /\ pc[p] = "U_Create" /\ Budgets
  /\ LET o == op[p]
         rec == MkRec("pending-upgrade", o.u.chart)
         o1 == [o EXCEPT !.memSt = "pending-upgrade", !.created = {}, !.crs = @ \cup {o.new}]
         okT == EnterHooks(o1, "pre-upgrade", o.new, rec.hooks, "U_Apply", "U_FailRec") IN
     StoreWrite(p, "create", o.new, store[o.new].st = "none", [store EXCEPT ![o.new] = rec],
                okT, Done(o, "err"), Done(o, "err"))

\* u.cfg.recordRelease(originalRelease): the in-memory original, status as read
U_ReRecord(p) ==
  /\ pc[p] = "U_ReRecord" /\ Budgets
  /\ LET o == op[p]  t == [pc |-> "U_FailRec", op |-> o] IN
     StoreWrite(p, "update", o.orig, store[o.orig].st # "none", WriteRec(store, o.orig, MemRec(o, o.orig), o.origSt), t, t, t)

U_Wait(p) ==
  /\ pc[p] = "U_Wait" /\ Budgets
  /\ LET o == op[p] IN
     WaitCall(p, "wait", "all",
              EnterHooks(o, "post-upgrade", o.new, ChartHooks(o.u.chart), "U_Supersede", "U_FailRec"),
              [pc |-> "U_ReRecord", op |-> o])

U_Supersede(p) ==
  /\ pc[p] = "U_Supersede" /\ Budgets
  /\ LET o == op[p]  t == [pc |-> "U_RecDeployed", op |-> o] IN
     StoreWrite(p, "update", o.orig, store[o.orig].st # "none", WriteRec(store, o.orig, MemRec(o, o.orig), "superseded"), t, t,
                [pc |-> "U_RecDeployed", op |-> [o EXCEPT !.kf = @ \cup {"L2u"}]])   \* swallowed (L2)

U_RecDeployed(p) ==
  /\ pc[p] = "U_RecDeployed" /\ Budgets
  /\ LET o == op[p] IN
     StoreWrite(p, "update", o.new, store[o.new].st # "none", WriteRec(store, o.new, MemRec(o, o.new), "deployed"),
                Done(o, "ok"), Done(o, "err"), Done(o, "err"))

\* failRelease
U_FailRec(p) ==
  /\ pc[p] = "U_FailRec" /\ Budgets
  /\ LET o == op[p]  t == UAfterFailRec(o) IN
     StoreWrite(p, "update", o.new, store[o.new].st # "none", WriteRec(store, o.new, MemRec(o, o.new), "failed"), t, t, t)

\* cleanup-on-fail: kube.Client.Delete(created), batched by kind
C_Del(p) ==
  /\ pc[p] = "C_Del" /\ Budgets
  /\ LET o == op[p] IN
     \E r \in Batch(o.todo, LAMBDA x : InstRank(o.tgtman[x].kind)) :
       LET rest == o.todo \ {r}
           nxt(oo) == IF rest = {} THEN CAfter(oo) ELSE [pc |-> "C_Del", op |-> oo]
           good == nxt([o EXCEPT !.todo = rest])
           bad  == nxt([o EXCEPT !.todo = rest, !.uerr = TRUE]) IN
       ResCall(p, "DELETE", r, Present(r), DelEff(r), good, bad)

\* atomic: History.Run, pick the highest superseded|deployed revision, roll back to it
A_Hist(p) ==
  /\ pc[p] = "A_Hist" /\ Budgets
  /\ LET o == op[p]
         good == {r \in Used : store[r].st \in {"superseded", "deployed"}} IN
     StoreRead(p, "query", "history", Used # {},
       IF good = {} THEN Done(o, "err")
       ELSE [pc |-> "R_Last", op |-> [o EXCEPT !.kf = IF o.u.lim > 0 THEN @ \cup {"L15"} ELSE @,
                                               !.ret = "atomicUpgrade", !.ver = MaxOf(good), !.lim = 0,
                                               !.cleanup = FALSE, !.nohooks = o.u.nohooks]])   \* rollin.MaxHistory stays 0 (L15)

(* ----- rollback ---------------------------------------------------------------------- *)

R_Last(p) ==
  /\ pc[p] = "R_Last" /\ Budgets
  /\ LET o == op[p] IN
     StoreRead(p, "query", "history", Used # {},
       IF Used = {} THEN REnd(o, "err")
       ELSE [pc |-> "R_Hist", op |-> [o EXCEPT !.orig = Last, !.origSt = store[Last].st, !.origRec = store[Last], !.curman = store[Last].man,
                                               !.tgt = IF o.ver = 0 THEN Last - 1 ELSE o.ver]])

R_Hist(p) ==
  /\ pc[p] = "R_Hist" /\ Budgets
  /\ LET o == op[p] IN
     StoreRead(p, "query", "history", Used # {},
       IF o.tgt \notin Used THEN REnd(o, "err") ELSE [pc |-> "R_GetTgt", op |-> o])

R_GetTgt(p) ==
  /\ pc[p] = "R_GetTgt" /\ Budgets
  /\ LET o == op[p]  ok == o.tgt \in Used IN
     StoreRead(p, "get", ToString(o.tgt), ok,
       IF ~ok \/ o.orig = MaxRev THEN REnd(o, "err")
       ELSE LET o1 == [o EXCEPT !.new = o.orig + 1, !.tgtman = store[o.tgt].man,
                                !.newrec = [store[o.tgt] EXCEPT !.st = "pending-rollback"]] IN
            IF o.u.dry /\ o.ret = "" THEN Done(o1, "ok") ELSE PStart(o1, "rollback"))

R_Create(p) ==
  /\ pc[p] = "R_Create" /\ Budgets
  /\ LET o == op[p]
         \* the rollback of a failed upgrade --atomic creates its record without any check of the ledger: an
         \* upgrade that started while the last revision read "failed" runs side by side with it (finding L22)
         racing == o.ret = "atomicUpgrade" /\ \E q \in Procs : q # p /\ pc[q] \notin {"idle"}
         \* the rollback diffs against the LAST revision's manifest: when that revision never became deployed, what
         \* the deployed revision has and the last one lacks is neither deleted nor re-applied (finding L28)
         stale == o.origSt # "deployed" /\ \E dd \in Deployed : store[dd].man # o.curman
         o1 == [o EXCEPT !.memSt = "pending-rollback", !.created = {}, !.crs = @ \cup {o.new},
                         !.kf = (IF racing THEN @ \cup {"L22"} ELSE @) \cup (IF stale THEN {"L28"} ELSE {})]
         okT == EnterHooks(o1, "pre-rollback", o.new, o.newrec.hooks, "R_Apply", "R_HookFail") IN
     StoreWrite(p, "create", o.new, store[o.new].st = "none", [store EXCEPT ![o.new] = o.newrec],
                okT, REnd(o, "err"), REnd(o, "err"))

R_FailCur(p) ==
  /\ pc[p] = "R_FailCur" /\ Budgets
  /\ LET o == op[p]  t == [pc |-> "R_FailNew", op |-> o] IN
     \* only a deployed revision is superseded; one that never became deployed keeps the status it was read with
     StoreWrite(p, "update", o.orig, store[o.orig].st # "none",
                WriteRec(store, o.orig, MemRec(o, o.orig), IF o.origSt = "deployed" THEN "superseded" ELSE o.origSt), t, t, t)

R_FailNew(p) ==
  /\ pc[p] = "R_FailNew" /\ Budgets
  /\ LET o == op[p]
         t == IF o.cleanup /\ o.created # {}
              THEN [pc |-> "C_Del", op |-> [o EXCEPT !.todo = o.created, !.uerr = FALSE, !.kctx = "rollbackC"]]
              ELSE REnd(o, "err") IN
     StoreWrite(p, "update", o.new, store[o.new].st # "none", WriteRec(store, o.new, MemRec(o, o.new), "failed"), t, t, t)

R_Wait(p) ==
  /\ pc[p] = "R_Wait" /\ Budgets
  /\ LET o == op[p] IN
     WaitCall(p, "wait", "all",
              EnterHooks(o, "post-rollback", o.new, o.newrec.hooks, "R_DepAll", "R_HookFail"),
              [pc |-> "R_WFailCur", op |-> o])

R_WFailCur(p) ==
  /\ pc[p] = "R_WFailCur" /\ Budgets
  /\ LET o == op[p]  t == [pc |-> "R_WFailNew", op |-> o] IN
     StoreWrite(p, "update", o.orig, store[o.orig].st # "none", WriteRec(store, o.orig, MemRec(o, o.orig), o.origSt), t, t, t)

R_WFailNew(p) ==
  /\ pc[p] = "R_WFailNew" /\ Budgets
  /\ LET o == op[p]  t == REnd(o, "err") IN
     StoreWrite(p, "update", o.new, store[o.new].st # "none", WriteRec(store, o.new, MemRec(o, o.new), "failed"), t, t, t)

R_DepAll(p) ==
  /\ pc[p] = "R_DepAll" /\ Budgets
  /\ LET o == op[p]  ds == OrderBy(Deployed, LexKey) IN          \* in the order the driver listed them
     StoreRead(p, "query", "status=deployed", Deployed # {},
       IF ds = <<>> THEN [pc |-> "R_RecDeployed", op |-> o]
       ELSE [pc |-> "R_Sup", op |-> [o EXCEPT !.dseq = ds]])

R_Sup(p) ==
  /\ pc[p] = "R_Sup" /\ Budgets
  /\ LET o == op[p]  r == Head(o.dseq)
         nx(oo) == IF Len(oo.dseq) <= 1 THEN [pc |-> "R_RecDeployed", op |-> [oo EXCEPT !.dseq = <<>>]]
                   ELSE [pc |-> "R_Sup", op |-> [oo EXCEPT !.dseq = Tail(@)]] IN
     StoreWrite(p, "update", r, store[r].st # "none", SetSt(store, r, "superseded"), nx(o), nx(o),
                nx([o EXCEPT !.kf = @ \cup {"L2r"}]))                            \* cfg.recordRelease: error swallowed (L2)

R_RecDeployed(p) ==
  /\ pc[p] = "R_RecDeployed" /\ Budgets
  /\ LET o == op[p] IN
     StoreWrite(p, "update", o.new, store[o.new].st # "none", WriteRec(store, o.new, MemRec(o, o.new), "deployed"),
                REnd(o, "ok"), REnd(o, "err"), REnd(o, "err"))

-----------------------------------------------------------------------------
(* ======================================================================= *)
(* Part D.  Operation begin / end, crashes, out-of-band edits.               *)
(* ======================================================================= *)

Idle == \A q \in Procs : pc[q] = "idle"

BeginT(m) ==
  LET o == [NoOp EXCEPT !.u = m, !.keep = m.keep, !.nohooks = m.nohooks, !.ver = m.ver,
                        !.lim = m.lim, !.cleanup = m.cleanup] IN
  CASE m.kind = "install"   -> LET crds == IF m.dry /\ m.incCRDs THEN Range(ChartCRDs(m.chart)) ELSE {}
                                   \* (the included CRD documents are built and pre-flighted like any resource of the manifest;
                                   \*  they are written in front of the sorted templates: kind rank 0)
                                   man  == [r \in (DOMAIN ChartMan(m.chart)) \cup crds |->
                                             IF r \in crds THEN [kind |-> "IncludedCRD", f1 |-> "-", f2 |-> "-", pol |-> "none", ver |-> "v1"]
                                             ELSE ChartMan(m.chart)[r]]
                                   o1 == [o EXCEPT !.tgtman = man] IN
                               IF m.clientOnly THEN Done(o1, "ok")
                               ELSE IF m.dry THEN ICRDStart(o1) ELSE [pc |-> "I_Name", op |-> o1]
    [] m.kind = "upgrade"   -> IF m.install THEN [pc |-> "UI_Hist", op |-> o] ELSE [pc |-> "U_Last", op |-> o]
    [] m.kind = "rollback"  -> [pc |-> "R_Last", op |-> o]
    [] m.kind = "uninstall" -> [pc |-> "X_Hist", op |-> o]
    [] m.kind = "test"      -> [pc |-> "T_Last", op |-> o]

BeginWith(p, m) ==
  /\ pc[p] = "idle" /\ nops[p] < MaxOps
  /\ Sequential => Idle
  /\ (LateStart /\ p # 1) => (op[1].n >= hist[1].late \/ (pc[1] = "idle" /\ nops[1] > 0))
  /\ \E pl \in (IF Planned /\ nfaults < MaxFaults THEN 0..MaxPlan ELSE {0}),
        cp \in (IF Planned /\ ncrash < MaxCrash THEN 0..MaxPlan ELSE {0}) :
     LET t == Resolve(BeginT(m)) IN
       /\ pl # 0 => cp = 0
       /\ pc' = [pc EXCEPT ![p] = t.pc]
       /\ op' = [op EXCEPT ![p] = [t.op EXCEPT !.plan = pl, !.cplan = cp]]
       /\ last' = Lab(p, "begin", m.kind, "", "", TRUE, FALSE)
       /\ hist' = Append(hist, [step |-> "op", p |-> p, m |-> m, fault |-> 0, crash |-> 0, flab |-> Lab(0, "", "", "", "", TRUE, FALSE)])
  /\ nops' = [nops EXCEPT ![p] = @ + 1]
  /\ pre' = [pre EXCEPT ![p] = [store |-> store, cluster |-> cluster]]
  /\ UNCHANGED <<store, cluster, nfaults, ncrash, nedits, kfg>>

Begin(p) == \E m \in OpMenu : MenuGuard(m) /\ BeginWith(p, m)

End(p) ==
  /\ pc[p] = "End"
  /\ pc' = [pc EXCEPT ![p] = "idle"]
  /\ op' = [op EXCEPT ![p] = NoOp]
  /\ last' = Lab(p, "end", op[p].u.kind, "", "", op[p].result = "ok", FALSE)
  /\ pre' = [pre EXCEPT ![p] = [store |-> <<>>, cluster |-> <<>>]]
  /\ kfg' = kfg \cup op[p].kf
  /\ hist' = IF LogSched THEN Append(hist, [step |-> "e", p |-> p]) ELSE hist
  /\ UNCHANGED <<store, cluster, nops, nfaults, ncrash, nedits>>

\* the process dies before its next call; nothing it did afterwards can reach shared state
Crash(p) ==
  /\ pc[p] \notin {"idle", "End"} /\ ncrash < MaxCrash
  /\ Planned => op[p].cplan = op[p].n + 1
  /\ ncrash' = ncrash + 1
  /\ pc' = [pc EXCEPT ![p] = "idle"]
  /\ op' = [op EXCEPT ![p] = NoOp]
  /\ last' = Lab(p, "crash", op[p].u.kind, "", "", FALSE, FALSE)
  /\ hist' = [hist EXCEPT ![OpIdx(p)].crash = op[p].n + 1]
  /\ pre' = [pre EXCEPT ![p] = [store |-> <<>>, cluster |-> <<>>]]
  /\ kfg' = kfg \cup op[p].kf
  /\ UNCHANGED <<store, cluster, nops, nfaults, nedits>>

SetField(obj, f, v) == IF f = "f1" THEN [obj EXCEPT !.f1 = v] ELSE [obj EXCEPT !.f2 = v]

EditWith(e) ==
  /\ Idle /\ nedits < MaxEdits
  /\ (e.kind = "oobnew") # Present(e.res)          \* somebody else creates an object only where none exists
  /\ cluster' = CASE e.kind = "edit"    -> [cluster EXCEPT ![e.res] = SetField(@, e.field, e.value)]
                  [] e.kind = "oobdel"  -> [cluster EXCEPT ![e.res] = Absent]
                  [] e.kind = "oobkeep" -> [cluster EXCEPT ![e.res].pol = "keep"]
                  [] e.kind = "oobunkeep" -> [cluster EXCEPT ![e.res].pol = "none"]
                  \* somebody relabels the object (managed-by no longer says Helm; the release annotations stay)
                  [] e.kind = "oobdisown" -> [cluster EXCEPT ![e.res].own = "partial"]
                  [] e.kind = "oobnew"  -> [cluster EXCEPT ![e.res] = [f1 |-> "q", f2 |-> "-", own |-> e.value, pol |-> "none"]]
  /\ last' = Lab(0, "edit", e.kind, IF e.kind = "edit" THEN e.field \o "=" \o e.value ELSE "", e.res, TRUE, FALSE)
  /\ hist' = Append(hist, [step |-> "edit", e |-> e])
  /\ nedits' = nedits + 1
  /\ UNCHANGED <<store, pc, op, nops, nfaults, ncrash, pre, kfg>>

Edit == \E e \in EditMenu : EditWith(e) /\ cluster' # cluster

CallStep(p) ==
  \/ H_DelBefore(p) \/ H_Record(p) \/ H_Create(p) \/ H_Watch(p) \/ H_DelFailed(p) \/ H_DelPrev(p) \/ H_DelSucc(p)
  \/ K_Get(p) \/ K_Post(p) \/ K_PutGet(p) \/ K_Put(p) \/ K_Get2(p) \/ K_Patch(p) \/ K_Refresh(p) \/ K_DGet(p) \/ K_Del(p)
  \/ P_Hist(p) \/ P_Dep(p) \/ P_Del(p)
  \/ I_Name(p) \/ I_CRD(p) \/ I_CRDWait(p) \/ I_CreateNS(p) \/ I_Own(p) \/ I_ReplHist(p) \/ I_ReplUpdate(p) \/ I_Create(p) \/ I_CreateRes(p)
  \/ I_Wait(p) \/ I_Deployed(p) \/ I_FailRec(p)
  \/ X_Hist(p) \/ X_Mark(p) \/ X_Del(p) \/ X_RecUn(p) \/ X_Purge(p)
  \/ T_Last(p) \/ T_Update(p) \/ T_UpdateErr(p)
  \/ UI_Hist(p) \/ U_Last(p) \/ U_Deployed(p) \/ U_Own(p) \/ U_Create(p) \/ U_ReRecord(p) \/ U_Wait(p)
  \/ U_Supersede(p) \/ U_RecDeployed(p) \/ U_FailRec(p) \/ C_Del(p) \/ A_Hist(p)
  \/ R_Last(p) \/ R_Hist(p) \/ R_GetTgt(p) \/ R_Create(p) \/ R_FailCur(p) \/ R_FailNew(p) \/ R_Wait(p)
  \/ R_WFailCur(p) \/ R_WFailNew(p) \/ R_DepAll(p) \/ R_Sup(p) \/ R_RecDeployed(p)

MustCrash(p) == Planned /\ ncrash < MaxCrash /\ pc[p] \notin {"idle", "End"} /\ op[p].cplan = op[p].n + 1

Next == \/ \E p \in Procs : Begin(p) \/ End(p) \/ Crash(p) \/ (~MustCrash(p) /\ CallStep(p))
        \/ Edit

Init ==
  /\ store \in InitStores
  /\ cluster \in PreMenu
  /\ pc = [p \in Procs |-> "idle"]
  /\ op = [p \in Procs |-> NoOp]
  /\ nops = [p \in Procs |-> 0]
  /\ nfaults = 0 /\ ncrash = 0 /\ nedits = 0
  /\ last = Lab(0, "init", "", "", "", TRUE, FALSE)
  /\ pre = [p \in Procs |-> [store |-> <<>>, cluster |-> <<>>]]
  /\ \E k \in (IF LateStart THEN 0..(2 * MaxPlan) ELSE {0}) :
       hist = <<[step |-> "init", cluster |-> cluster, store |-> [r \in Rev |-> store[r].ch],
                 sts |-> [r \in Rev |-> store[r].st], late |-> k]>>
  /\ kfg = {}

Spec == Init /\ [][Next]_vars

\* Scenario export for simulation runs (CONSTRAINT GenExport, -workers 1): when the last
\* operation of a behaviour has returned, write the scenario (operations with flags, fault /
\* crash ordinals and the label of the faulted call, out-of-band edits, initial cluster).
GenExport ==
  IF (\A p \in Procs : pc[p] = "idle" /\ nops[p] = MaxOps) /\ last.ev \in {"end", "crash"}
  THEN /\ TLCSet(1, TLCGet(1) + 1)
       /\ JsonSerialize("gen/s" \o ToString(TLCGet(1)) \o ".json", [steps |-> hist, n |-> TLCGet(1)])
  ELSE TRUE

\* fingerprint without the observation-only variables
View == <<store, cluster, pc, op, nops, nfaults, ncrash, nedits, pre, kfg>>
=============================================================================
