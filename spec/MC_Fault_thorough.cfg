SPECIFICATION Spec
CONSTANTS
  Procs = {1}
  MaxRev = 8
  MaxOps = 3
  MaxFaults = 1
  MaxCrash = 0
  MaxEdits = 0
  FaultKinds = {"res", "wait"}
  Sequential = TRUE
  Planned = FALSE
  MaxPlan = 36
  InitStores <- StoresEmpty
  LateStart = FALSE
  LogSched = FALSE
  KeepLog = FALSE
  OpMenu <- MenuFault
  EditMenu <- EditsNone
  PreMenu <- PreBy
  Objs <- AllObjs
  MenuGuard <- GuardTrue
VIEW View
INVARIANTS Inv_C03_Error Inv_C03_Failed Inv_C03_Cleanup Inv_C03_AtomicUpgrade Inv_C03_AtomicInstall
CHECK_DEADLOCK FALSE
