---------------------------- MODULE MC_IndexKinds ----------------------------
(* writes the abstract strings / kinds / queries of IndexKinds for the harness *)
EXTENDS IndexKinds, TLC, Json
ASSUME JsonSerialize("index_kinds.json", [strings |-> StringsDef, kinds |-> KindsDef, queries |-> QueriesDef])
VARIABLE x
Spec == x = 0 /\ [][UNCHANGED x]_x
=============================================================================
