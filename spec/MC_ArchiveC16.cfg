CONSTANTS
  MaxComps = 3
  MixedUpTo = 2
  SecureJoinOn = TRUE
  FLim = 4096
  TLim = 6000
  Huge = 1000000
  SizeEntries = 2
SPECIFICATION Spec
INVARIANT InvConfined
INVARIANT InvConfinedAlways
INVARIANT InvNames
INVARIANT InvSizeReject
INVARIANT InvSizeBound
INVARIANT InvNoOversizeBody
INVARIANT InvRun
CHECK_DEADLOCK FALSE
