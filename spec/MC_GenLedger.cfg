SPECIFICATION Spec
CONSTANTS
  Procs = {1}
  MaxRev = 10
  MaxOps = 4
  MaxFaults = 2
  MaxCrash = 1
  MaxEdits = 0
  FaultKinds = {"res", "wait", "store"}
  Sequential = TRUE
  Planned = TRUE
  MaxPlan = 36
  InitStores <- StoresEmpty
  LateStart = FALSE
  LogSched = FALSE
  KeepLog = FALSE
  OpMenu <- MenuLedger
  EditMenu <- EditsNone
  PreMenu <- PreBy
  Objs <- AllObjs
  MenuGuard <- GuardBias
CONSTRAINT GenExport
CHECK_DEADLOCK FALSE
