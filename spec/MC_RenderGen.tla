---------------------------- MODULE MC_RenderGen ----------------------------
(* Enumerates the bounded input spaces of Render.tla and writes them as JSON:                 *)
(*   cases_<mode>.ndjson  [id, case, (exp, nn, nc)]  for the Go harness                       *)
(*   mc_<mode>.ndjson     the cases the state machine explores (MC_Render / MC_Part)          *)
EXTENDS RenderCases

CONSTANTS Mode,       \* "c05" | "c08"
          PartN,      \* c08: documents per case in p/templates (exhaustive up to this number)
          PartSubN,   \* c08: same with the first file in a subchart
          OneFileN,   \* c08: sequences of PartN+1 .. OneFileN documents in a single file (0 = none)
          MachN,      \* c08: documents per case explored by the state machine
          ProgN,      \* c05: template files of the prog family
          MachPaths,  \* c05: state machine explores order cases with at most this many template paths
          MachProgN   \* c05: ... and prog cases with at most this many files

Write(file, q) == ndJsonSerialize(file, q)

ASSUME Mode = "c08" =>
  /\ Write("cases_c08.ndjson", NoExp("p", C08Seq(PartN, PartSubN, OneFileN)))
  /\ Write("mc_c08.ndjson", C08MachineSeq(MachN))
ASSUME Mode = "c05" =>
  /\ Write("cases_c05.ndjson", WithExp("c", SetToSeq(C05All(ProgN))))
  /\ Write("mc_c05.ndjson", SetToSeq(C05Machine(MachPaths, MachProgN)))
  /\ Write("mc_strict.ndjson", SetToSeq(StrictInputs))

VARIABLE x
Init == x = 0
Next == x' = x
=============================================================================
