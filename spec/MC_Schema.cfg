SPECIFICATION BSpec
CONSTANT Shapes <- QuickShapes
INVARIANT SchemaInv
CONSTRAINT SchemaExport
CHECK_DEADLOCK FALSE
