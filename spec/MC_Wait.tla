------------------------------ MODULE MC_Wait ------------------------------
(***************************************************************************)
(* Bounded case space of Wait.tla: every (method, strategy, objects with    *)
(* their scripts) up to MaxLen statuses per script; the wait state machine  *)
(* is checked on every case and the cases are exported, with the expected   *)
(* outcome, for the replay on the real waiters (harness/fam/wait).          *)
(***************************************************************************)
EXTENDS Wait, Json, SequencesExt

CONSTANTS MaxLen,      \* statuses per script
          Pairs        \* also lists of two objects (wait / waitjobs / delete)

RangeOf(f) == {f[x] : x \in DOMAIN f}
ScriptsOf(kind) ==
  LET U == RangeOf(StOf(kind)) \cup {"gone"} IN
  {sc \in UNION {[1..n -> U] : n \in 1..MaxLen} : IsScript(kind, sc)}

Obj(kind, sc) == [kind |-> kind, script |-> sc]
Singles == UNION {{<<Obj(k, sc)>> : sc \in ScriptsOf(k)} : k \in Kinds}
\* lists of two: a Pod next to a Job or a ConfigMap (what a release with --wait typically holds)
Doubles == UNION {{<<Obj("Pod", a), Obj(k, b)>> : a \in ScriptsOf("Pod"), b \in ScriptsOf(k)} : k \in {"Job", "ConfigMap"}}

KindsOf(objs) == {objs[i].kind : i \in DOMAIN objs}
Cases ==
  {c \in [method : Methods, strategy : Strategies, objs : Singles \cup (IF Pairs THEN Doubles ELSE {})] :
     /\ Stable(c)
     /\ c.method = "hook" => Len(c.objs) = 1                       \* execHook waits for one hook at a time
     /\ c.method = "wait" => "Job" \notin KindsOf(c.objs)          \* plain --wait does not wait for Jobs
     /\ c.strategy = "hookonly" => Len(c.objs) = 1
     \* (the legacy hook watch takes the DELETION of the hook object as its end: hook objects deleted by somebody
     \*  else while helm waits are outside what the cases assume for that strategy)
     /\ (c.strategy = "legacy" /\ c.method = "hook") => \A i \in DOMAIN c.objs[1].script : c.objs[1].script[i] # "gone"}

Init == WInitOn(Cases)
Next == WNext
Spec == Init /\ [][Next]_wvars

CaseJ(c) == [method |-> c.method, strategy |-> c.strategy, objs |-> c.objs,
             ok |-> Expected(c).ok, tick |-> Expected(c).tick, ticks |-> Ticks(c)]
\* exported once (ASSUME is evaluated before the search starts)
ASSUME ndJsonSerialize("wait_cases.ndjson", SetToSeq({CaseJ(c) : c \in Cases}))
=============================================================================
