------------------------------ MODULE MC_Smoke ------------------------------
EXTENDS Helm

AllObjs == {"r1", "r2", "r3", "h1", "h2", "h3", "by1"}
Empty == [o \in AllObjs |-> Absent]
Pre0 == {[Empty EXCEPT !["by1"] = [f1 |-> "x", f2 |-> "-", own |-> "none", pol |-> "none"]]}

U(kind, chart) == [NoU EXCEPT !.kind = kind, !.chart = chart]
Menu == {U("install", "cA"), U("install", "cH"),
         [U("install", "cB") EXCEPT !.replace = TRUE],
         U("upgrade", "cB"), U("upgrade", "cI"), [U("upgrade", "cA") EXCEPT !.lim = 2],
         [U("upgrade", "cC") EXCEPT !.atomic = TRUE],
         U("rollback", "none"), [U("rollback", "none") EXCEPT !.ver = 1],
         U("uninstall", "none"), [U("uninstall", "none") EXCEPT !.keep = TRUE]}
Edits == {[kind |-> "edit", res |-> "r1", field |-> "f1", value |-> "z"],
          [kind |-> "oobdel", res |-> "r2", field |-> "", value |-> ""]}
=============================================================================
