SPECIFICATION Spec
CONSTANTS
  Family = "set"
  Full = FALSE
  SetPairs = FALSE
CONSTRAINT ExportBatch
CHECK_DEADLOCK FALSE
