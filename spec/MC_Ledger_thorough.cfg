SPECIFICATION Spec
CONSTANTS
  Procs = {1}
  MaxRev = 10
  MaxOps = 4
  MaxFaults = 1
  MaxCrash = 1
  MaxEdits = 0
  FaultKinds = {"res", "wait", "store"}
  Sequential = TRUE
  Planned = FALSE
  MaxPlan = 36
  InitStores <- StoresEmpty
  LateStart = FALSE
  LogSched = FALSE
  KeepLog = FALSE
  OpMenu <- XLedger
  EditMenu <- EditsNone
  PreMenu <- PreBy
  Objs <- AllObjs
  MenuGuard <- GuardTrue
VIEW View
INVARIANTS Inv_C01_OneDeployed Inv_C01_Success Inv_C01_Prune
PROPERTIES Act_C01_NextRevision
CHECK_DEADLOCK FALSE
