SPECIFICATION MSpec
CONSTANT ObsFile = "batch_obs.ndjson"
CHECK_DEADLOCK FALSE
