------------------------------ MODULE BatchObs ------------------------------
(***************************************************************************)
(* Monitor for the C08 barrier: reads what the simulated API server saw    *)
(* while the REAL kube.Client.Create / Delete ran (each response held and  *)
(* released in a completion order exported by TLC from Batch.tla) and      *)
(* judges it with the predicates of Batch.tla.  arr / dep events carry     *)
(* sequence numbers taken under the gate's lock; no wall clock.            *)
(***************************************************************************)
EXTENDS BatchBase, Json

CONSTANT ObsFile
Obs == ndJsonDeserialize(ObsFile)

VARIABLE l

Checks(o) == <<
  \* the list the real Build produced from the rendered manifest is the kind-sorted list of the case
  [n |-> "C08_B_Built",    v |-> o.built = o.kinds],
  \* no request of a later kind arrives while a response of an earlier kind is still held
  [n |-> "C08_B_Barrier",  v |-> ObsBarrier(o.kinds, o.events)],
  \* every resource is created (deleted) exactly once
  [n |-> "C08_B_Once",     v |-> o.stalled \/ ObsOnce(o.kinds, o.events)],
  \* the call comes back (no deadlock) ...
  [n |-> "C08_B_Returns",  v |-> o.stalled \/ o.returned],
  \* ... with an error iff some request was rejected, one error per rejected request
  [n |-> "C08_B_ErrIff",   v |-> (o.returned /\ ~o.stalled) => (o.err = (o.fail # <<>>) /\ o.nerr = Len(o.fail))]
  >>

Report(i) ==
  LET cs == Checks(Obs[i]) IN
  \A j \in DOMAIN cs : IF cs[j].v THEN TRUE ELSE PrintT(<<"OBSVIOL", i, cs[j].n>>)

MInit == l = 0
MNext == /\ l < Len(Obs)
         /\ l' = l + 1
         /\ Report(l + 1)
         /\ (IF l + 1 = Len(Obs) THEN PrintT(<<"OBSDONE", l + 1>>) ELSE TRUE)
MSpec == MInit /\ [][MNext]_l
=============================================================================
