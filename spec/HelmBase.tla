------------------------------ MODULE HelmBase ------------------------------
(***************************************************************************)
(* Data shared by the core specification (Helm.tla), the trace             *)
(* specification (HelmTrace.tla) and the property monitor (HelmMon.tla):   *)
(* the chart library (spec/charts.json, the same file the Go harness       *)
(* builds real charts from), the abstract form of release records and live *)
(* objects, kind ordering, hook ordering and the patch semantics of        *)
(* pkg/kube/client.go:createPatch.                                          *)
(***************************************************************************)
EXTENDS Integers, Sequences, FiniteSets, TLC, Json

ChartLib == JsonDeserialize("charts.json")
ChartIds == DOMAIN ChartLib

Range(f) == {f[x] : x \in DOMAIN f}

MaxOf(S) == CHOOSE r \in S : \A s \in S : s <= r
MinOf(S) == CHOOSE r \in S : \A s \in S : r <= s

RECURSIVE SetToSortSeq(_)
SetToSortSeq(S) == IF S = {} THEN <<>> ELSE LET m == MinOf(S) IN <<m>> \o SetToSortSeq(S \ {m})

\* The Secret / ConfigMap drivers return records in the order the API server lists them: by NAME, i.e. the
\* revision numbers compare as decimal STRINGS ("1" < "10" < "12" < "2" < "7"). Good for revisions below 100.
LexKey(r) == IF r < 10 THEN r * 100 ELSE (r \div 10) * 100 + (r % 10) + 1

(* ----- manifests -------------------------------------------------------- *)

\* abstract manifest of a chart: resource id -> [kind, f1, f2, pol]
ChartMan(c) == LET rs == ChartLib[c].res IN
               [r \in DOMAIN rs |-> [kind |-> rs[r].kind, f1 |-> rs[r].f1, f2 |-> rs[r].f2, pol |-> rs[r].pol, ver |-> rs[r].ver]]

\* objectKey (pkg/action/upgrade.go) is apiVersion/kind/namespace/name: the same object rendered with another
\* apiVersion counts as "to be created" and goes through the ownership check / adoption
SameKey(m1, m2) == m1.kind = m2.kind /\ m1.ver = m2.ver

\* hook definitions of a chart: hook id -> [kind, events (set), weight, pols (set)]
ChartHooks(c) ==
  LET hs == ChartLib[c].hooks IN
  [h \in DOMAIN hs |-> [kind |-> hs[h].kind, events |-> Range(hs[h].events),
                        weight |-> hs[h].weight, pols |-> Range(hs[h].pols),
                        keep |-> IF "keep" \in DOMAIN hs[h] THEN hs[h].keep ELSE FALSE]]

ChartCRDs(c) == ChartLib[c].crds           \* sequence of CRD object ids in crds/ (read order = file name order)

NoRec == [st |-> "none", ch |-> "none", cfg |-> "none", man |-> <<>>, hooks |-> <<>>]
MkRec(st, c) == [st |-> st, ch |-> c, cfg |-> "c0", man |-> ChartMan(c), hooks |-> ChartHooks(c)]

IsPending(st) == st \in {"pending-install", "pending-upgrade", "pending-rollback"}

(* ----- kind order: pkg/release/util/kind_sorter.go ---------------------- *)

InstRank(k) == CASE k = "IncludedCRD" -> 0 [] k = "ConfigMap" -> 11 [] k = "CustomResourceDefinition" -> 15 [] k = "Service" -> 24 [] k = "Job" -> 32
                 [] k = "Gadget" -> 101 [] k = "Widget" -> 102 [] OTHER -> 200
UninstRank(k) == CASE k = "Service" -> 6 [] k = "Job" -> 8 [] k = "CustomResourceDefinition" -> 23 [] k = "ConfigMap" -> 28
                   [] k = "Gadget" -> 101 [] k = "Widget" -> 102 [] OTHER -> 200

\* ids are "r1", "r2", ... : order by the string (TLC has no string <, so use an explicit table)
IdRank(id) == CASE id = "by1" -> 1 [] id = "c1" -> 5 [] id = "c2" -> 6
                [] id = "h1" -> 11 [] id = "h2" -> 12 [] id = "h3" -> 13 [] id = "h4" -> 14
                [] id = "r1" -> 21 [] id = "r2" -> 22 [] id = "r3" -> 23 [] id = "r4" -> 24 [] id = "r5" -> 25 [] OTHER -> 99

\* sequence of the ids of S ordered by key(_) (a total order is assumed)
OrderBy(S, key(_)) ==
  LET RECURSIVE f(_)
      f(T) == IF T = {} THEN <<>>
              ELSE LET m == CHOOSE x \in T : \A y \in T : key(x) <= key(y) IN <<m>> \o f(T \ {m})
  IN f(S)

\* order of a manifest's documents = install kind order, then template path (= id)
ManOrder(man) == OrderBy(DOMAIN man, LAMBDA r : InstRank(man[r].kind) * 100 + IdRank(r))

(* ----- hooks: pkg/action/hooks.go:hookByWeight -------------------------- *)

SortedHooks(defs, ev) ==
  OrderBy({h \in DOMAIN defs : ev \in defs[h].events},
          LAMBDA h : (defs[h].weight + 50) * 100 + IdRank(h))

(* ----- live objects ----------------------------------------------------- *)

Absent  == [f1 |-> "-", f2 |-> "-", own |-> "absent", pol |-> "none"]
HookObj == [f1 |-> "-", f2 |-> "-", own |-> "none", pol |-> "none"]
NewObj(m) == [f1 |-> m.f1, f2 |-> m.f2, own |-> "me", pol |-> m.pol]

Typed(kind) == kind \in {"ConfigMap", "Service", "CustomResourceDefinition"}

(* createPatch: typed kinds (and unstructured ones under UpdateThreeWayMerge) get a   *)
(* three-way merge of (old manifest, new manifest, live); other unstructured kinds a  *)
(* two-way JSON merge patch of (old manifest, new manifest) only (L6).                *)
(* An adopted object has old = new (the target Info is appended to `current`).        *)
Chg3(o, n, l, none) == (n # none /\ l # n) \/ (n = none /\ o # none)
Val3(o, n, l, none) == IF n # none THEN n ELSE IF o # none THEN none ELSE l
Val2(o, n, l) == IF o # n THEN n ELSE l

PatchEmpty(oldm, newm, live, adopted, k3) ==
  LET om == IF adopted THEN newm ELSE oldm IN
  IF Typed(newm.kind) \/ k3
  THEN /\ ~Chg3(om.f1, newm.f1, live.f1, "-")
       /\ ~Chg3(om.f2, newm.f2, live.f2, "-")
       /\ ~Chg3(om.pol, newm.pol, live.pol, "none")
       /\ live.own = "me"
  ELSE adopted     \* the rendered old object never carries the ownership metadata, the target always does

Patched(oldm, newm, live, adopted, k3) ==
  LET om == IF adopted THEN newm ELSE oldm IN
  IF Typed(newm.kind) \/ k3
  THEN [f1 |-> Val3(om.f1, newm.f1, live.f1, "-"), f2 |-> Val3(om.f2, newm.f2, live.f2, "-"),
        pol |-> Val3(om.pol, newm.pol, live.pol, "none"), own |-> "me"]
  ELSE [f1 |-> Val2(om.f1, newm.f1, live.f1), f2 |-> Val2(om.f2, newm.f2, live.f2),
        pol |-> Val2(om.pol, newm.pol, live.pol), own |-> "me"]

\* kube.Client.update computes the patch from the live object as createPatch READ it (snap) and the API server
\* applies that patch to the object as it is THEN (live): the two differ when somebody else wrote in between.
\* With snap = live this is Patched.
Put3(o, n, s, l, none) == IF Chg3(o, n, s, none) THEN (IF n # none THEN n ELSE none) ELSE l

PatchedOn(oldm, newm, snap, live, adopted, k3) ==
  LET om == IF adopted THEN newm ELSE oldm IN
  IF Typed(newm.kind) \/ k3
  THEN [f1 |-> Put3(om.f1, newm.f1, snap.f1, live.f1, "-"), f2 |-> Put3(om.f2, newm.f2, snap.f2, live.f2, "-"),
        pol |-> Put3(om.pol, newm.pol, snap.pol, live.pol, "none"), own |-> IF snap.own = "me" THEN live.own ELSE "me"]
  ELSE Patched(oldm, newm, live, adopted, k3)
=============================================================================
