------------------------------ MODULE CredsObs ------------------------------
(***************************************************************************)
(* Verdict of C19: the predicate CredsOK of Creds.tla evaluated on the      *)
(* requests a capture server observed from the real code.  One line of      *)
(* creds_obs.ndjson = one replayed case: [id, passAll, repo (URL record),   *)
(* reqs : sequence of [scheme, host, port, auth, ...]] where host is the     *)
(* abstract identity of the (case-insensitive) host name the request went   *)
(* to and port the port it was sent to.                                     *)
(***************************************************************************)
EXTENDS Integers, Sequences, TLC, Json

Obs == ndJsonDeserialize("creds_obs.ndjson")

DefaultPort(s) == IF s = "https" THEN 443 ELSE 80
EffPort(u)     == IF u.port = 0 THEN DefaultPort(u.scheme) ELSE u.port
Origin(u)      == <<u.scheme, u.host, EffPort(u)>>

\* the same predicate as Creds!CredsOK, on an observed request
ReqOK(o, r) == r.auth => (o.passAll \/ <<r.scheme, r.host, r.port>> = Origin(o.repo))

CaseOK(o) == \A i \in DOMAIN o.reqs : ReqOK(o, o.reqs[i])

VARIABLE i
Init == i = 0
Next == /\ i < Len(Obs)
        /\ i' = i + 1
        /\ IF CaseOK(Obs[i + 1]) THEN TRUE ELSE PrintT(<<"OBSVIOL", i + 1, Obs[i + 1].id>>)
Spec == Init /\ [][Next]_i
Done == i = Len(Obs)
Post == IF TLCGet("level") >= 0 THEN PrintT(<<"OBSDONE", Len(Obs)>>) ELSE TRUE
=============================================================================
