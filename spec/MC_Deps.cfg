SPECIFICATION BSpec
CONSTANT Shapes <- QuickShapes
INVARIANT AgreeInv
CONSTRAINT DepsExport
CHECK_DEADLOCK FALSE
