SPECIFICATION Spec
CONSTANTS
  Procs = {1}
  MaxRev = 10
  MaxOps = 4
  MaxFaults = 1
  MaxCrash = 0
  MaxEdits = 3
  FaultKinds = {"res", "wait"}
  Sequential = TRUE
  Planned = TRUE
  MaxPlan = 36
  InitStores <- StoresEmpty
  LateStart = FALSE
  LogSched = FALSE
  KeepLog = FALSE
  OpMenu <- MenuCluster
  EditMenu <- EditsSomeNew
  PreMenu <- PreOwn
  Objs <- AllObjs
  MenuGuard <- GuardBias
CONSTRAINT GenExport
CHECK_DEADLOCK FALSE
