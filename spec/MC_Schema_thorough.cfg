SPECIFICATION BSpec
CONSTANT Shapes <- ThoroughShapes
INVARIANT SchemaInv
CONSTRAINT SchemaExport
CHECK_DEADLOCK FALSE
