----------------------------- MODULE MC_Render -----------------------------
(* Exhaustive configurations of Render.tla.  The inputs explored are the cases TLC exported   *)
(* (MC_RenderGen writes mc_<mode>.ndjson; the check copies the one to explore to              *)
(* mc_inputs.ndjson), so the state machine explores exactly what the harness replays.         *)
EXTENDS Render, Json

SeqFromFile == ndJsonDeserialize("mc_inputs.ndjson")

HostsFull == [canary : {"absent", "str", "int"}, env : {"e0", "e1"}]
HostsOne  == {[canary |-> "absent", env |-> "e0"]}
=============================================================================
