----------------------------- MODULE MC_Render -----------------------------
(* Exhaustive configurations of Render.tla: the input sets explored by the state machine. *)
EXTENDS Render, RenderCases

HostsFull == [canary : {"absent", "str", "int"}, env : {"e0", "e1"}]
HostsOne  == {[canary |-> "absent", env |-> "e0"]}

\* C05: charts on two levels; the number of template paths bounds the permutations per map walk
C05Quick    == {c \in OrderCases : NPaths(c) <= 5} \cup ProgCases(2) \cup ErrCases \cup SchemaCases
C05Thorough == {c \in OrderCases : NPaths(c) <= 7} \cup ProgCases(3) \cup ErrCases \cup SchemaCases

\* C08: all document sequences over kind x class (one flavour per class) in up to three files,
\* and every flavour incl. blank / comment-only documents for up to two documents
C08Quick    == PartCases(LitTypes(AbsCls), 1, 3) \cup PartCases(LitTypes(AllCls), 1, 2)
C08Thorough == PartCases(LitTypes(AbsCls), 1, 4) \cup PartSubCases(LitTypes(AbsCls), 1, 3) \cup PartCases(LitTypes(AllCls), 1, 2)

\* the three inputs on which the faithful model is known not to be a function of its input
StrictInputs == {c \in OrderCases : NPaths(c) <= 5} \cup SchemaCases
=============================================================================
