------------------------------- MODULE Batch -------------------------------
(***************************************************************************)
(* pkg/kube/wait.go:perform and pkg/kube/client.go:batchPerform (property  *)
(* C08, per-kind creation barrier):                                        *)
(*                                                                         *)
(*   perform:       errs := make(chan error)        -- unbuffered          *)
(*                  go batchPerform(infos, fn, errs)                       *)
(*                  for range infos { err := <-errs; collect }             *)
(*   batchPerform:  for info in infos {                                    *)
(*                     if kind != currentKind { wg.Wait(); kind = ... }    *)
(*                     wg.Add(1); go func() { errs <- fn(i); wg.Done() }() *)
(*                  }                                                      *)
(*                                                                         *)
(* Processes: the launcher (batchPerform), one worker per resource, the    *)
(* collector (perform).  Any subset of the calls fn(i) may fail.           *)
(***************************************************************************)
EXTENDS BatchBase

CONSTANTS KindVecs,     \* set of kind vectors: Seq(Nat), the kind of every resource of the (kind-sorted) list
          Barrier,      \* TRUE = the code as it is (wg.Wait() at a kind change); FALSE = the wait removed
          AllFail,      \* TRUE: every subset of the calls may fail; FALSE: none fails
          TrackOrder    \* TRUE: remember the order in which the calls returned (export of completion orders)

VARIABLES kinds, fail,  \* chosen at the start: the list and the set of failing calls
          li,           \* launcher: index of the next resource
          cur,          \* launcher: kind of the previous resource (0 = "")
          wg,           \* the WaitGroup counter
          ws,           \* worker state: idle -> running -> sending -> delivered -> done
          recv, nerr,   \* collector: results received, errors among them
          ret,          \* perform has returned; result = whether it returned an error
          started, ended, \* sets of workers whose call fn(i) has begun / returned
          order         \* completion order of the calls (history; only if TrackOrder)
vars == <<kinds, fail, li, cur, wg, ws, recv, nerr, ret, started, ended, order>>

N == Len(kinds)
W == 1..N

Init ==
  /\ kinds \in KindVecs
  /\ fail \in (IF AllFail THEN SUBSET (1..Len(kinds)) ELSE {{}})
  /\ li = 1 /\ cur = 0 /\ wg = 0
  /\ ws = [w \in 1..Len(kinds) |-> "idle"]
  /\ recv = 0 /\ nerr = 0 /\ ret = "no"
  /\ started = {} /\ ended = {} /\ order = <<>>

\* the launcher reaches resource li: waits for the WaitGroup at a kind change, then starts the worker
Launch ==
  /\ li <= N
  /\ (kinds[li] # cur /\ Barrier) => wg = 0
  /\ cur' = kinds[li]
  /\ wg' = wg + 1
  /\ ws' = [ws EXCEPT ![li] = "running"]
  /\ started' = started \cup {li}
  /\ li' = li + 1
  /\ UNCHANGED <<kinds, fail, recv, nerr, ret, ended, order>>

\* fn(w) returns (the create / delete request got its response)
Finish(w) ==
  /\ ws[w] = "running"
  /\ ws' = [ws EXCEPT ![w] = "sending"]
  /\ ended' = ended \cup {w}
  /\ order' = IF TrackOrder THEN Append(order, w) ELSE order
  /\ UNCHANGED <<kinds, fail, li, cur, wg, recv, nerr, ret, started>>

\* rendezvous on the unbuffered channel: worker w sends, the collector receives
Deliver(w) ==
  /\ ws[w] = "sending"
  /\ recv < N
  /\ ret = "no"
  /\ recv' = recv + 1
  /\ nerr' = IF w \in fail THEN nerr + 1 ELSE nerr
  /\ ws' = [ws EXCEPT ![w] = "delivered"]
  /\ UNCHANGED <<kinds, fail, li, cur, wg, ret, started, ended, order>>

\* wg.Done() after the send
Done(w) ==
  /\ ws[w] = "delivered"
  /\ ws' = [ws EXCEPT ![w] = "done"]
  /\ wg' = wg - 1
  /\ UNCHANGED <<kinds, fail, li, cur, recv, nerr, ret, started, ended, order>>

\* the collector has received one result per resource: perform returns
Return ==
  /\ ret = "no"
  /\ recv = N
  /\ ret' = IF nerr > 0 THEN "error" ELSE "ok"
  /\ UNCHANGED <<kinds, fail, li, cur, wg, ws, recv, nerr, started, ended, order>>

Terminated == li > N /\ ret # "no" /\ \A w \in W : ws[w] = "done"

Next == Launch \/ Return \/ (\E w \in W : Finish(w) \/ Deliver(w) \/ Done(w)) \/ (Terminated /\ UNCHANGED vars)

Spec == Init /\ [][Next]_vars /\ WF_vars(Next)

-----------------------------------------------------------------------------
\* no call of a later kind begins while a call of an earlier kind is outstanding
BarrierInv == \A i, j \in W : (kinds[i] < kinds[j] /\ j \in started) => i \in ended

\* perform returns an error iff some call failed
ErrIff == ret # "no" => ((ret = "error") = (fail # {}))

\* every call is made exactly once (the worker states only move forward, one worker per resource)
OnceInv == /\ started = {w \in W : ws[w] # "idle"}
           /\ ended = {w \in W : ws[w] \in {"sending", "delivered", "done"}}
           /\ wg = Cardinality({w \in W : ws[w] \in {"running", "sending", "delivered"}})

\* no deadlock before done: checked by TLC's deadlock check (the only state without a proper
\* successor is Terminated, which stutters explicitly); and everything ends
Termination == <>Terminated
=============================================================================
