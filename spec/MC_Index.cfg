SPECIFICATION Spec
CONSTANTS
  MaxLen = 4
  Strings <- StringsDef
  Kinds <- KindsDef
  Queries <- QueriesDef
INVARIANTS Inv_Load Inv_Get Inv_Lock Inv_Stable Inv_Highest Inv_Groups Inv_LockList
CONSTRAINT Export
CHECK_DEADLOCK FALSE
