------------------------------ MODULE IndexKinds ------------------------------
(***************************************************************************)
(* The version strings, entry kinds and queries of the C18 enumeration.     *)
(* The harness gives every vid / query a concrete spelling per seed         *)
(* (hv_misc index-vocab) and asks Masterminds/semver for Sat and COk.       *)
(***************************************************************************)
EXTENDS Integers, Sequences

S(rank, pre, build, leadv, valid) == [rank |-> rank, pre |-> pre, build |-> build, leadv |-> leadv, valid |-> valid]

StringsDef == <<
  S(1, FALSE, FALSE, FALSE, TRUE),    \*  1  r1
  S(2, FALSE, FALSE, FALSE, TRUE),    \*  2  r2
  S(3, FALSE, FALSE, FALSE, TRUE),    \*  3  r3
  S(2, TRUE,  FALSE, FALSE, TRUE),    \*  4  r2-pre        (below r2, above r1)
  S(4, TRUE,  FALSE, FALSE, TRUE),    \*  5  r4-pre        (above every stable string but r4)
  S(2, FALSE, TRUE,  FALSE, TRUE),    \*  6  r2+build      (ties with r2)
  S(3, FALSE, FALSE, TRUE,  TRUE),    \*  7  v r3          (ties with r3)
  S(6, FALSE, FALSE, FALSE, TRUE),    \*  8  r6, the newest of all: the version of the entry that does not validate (kind 8)
  S(4, FALSE, FALSE, FALSE, TRUE),    \*  9  r4
  S(2, FALSE, TRUE,  FALSE, TRUE),    \* 10  r2+otherbuild (in no index: exact string absent)
  S(5, FALSE, FALSE, FALSE, TRUE)     \* 11  r5            (in no index)
>>

\* dep: the entry carries `deprecated: true` - purely informational, it takes no part in loading, Get or locking
\* bad: the entry does not pass chart validation - its version is not a version, or (the version being fine) its name
\* holds a path separator, its type is unknown, a dependency is null or has an alias with disallowed characters ...
\* (the harness picks one per spelling); such an entry is dropped at load however new its version is
K(vid, null, meta, url) == [vid |-> vid, null |-> null, meta |-> meta, url |-> url, dep |-> FALSE, bad |-> FALSE]
KD(vid) == [vid |-> vid, null |-> FALSE, meta |-> TRUE, url |-> TRUE, dep |-> TRUE, bad |-> FALSE]
KB(vid) == [vid |-> vid, null |-> FALSE, meta |-> TRUE, url |-> TRUE, dep |-> FALSE, bad |-> TRUE]

KindsDef == <<
  K(1, FALSE, TRUE, TRUE),   K(2, FALSE, TRUE, TRUE),  KD(3),                    \* 3: r3, marked deprecated
  K(4, FALSE, TRUE, TRUE),   K(5, FALSE, TRUE, TRUE),  K(6, FALSE, TRUE, TRUE),
  K(7, FALSE, TRUE, TRUE),
  KB(8),                                                \*  8 entry that does not validate (newest version of all)
  K(8, TRUE,  FALSE, FALSE),                            \*  9 null entry        (vid unused)
  K(8, FALSE, FALSE, TRUE),                             \* 10 metadata-less entry (vid unused)
  K(9, FALSE, TRUE, FALSE),                             \* 11 r4 without URL
  K(3, FALSE, TRUE, FALSE)                              \* 12 r3 without URL (same string as kind 3)
>>

Qr(type, vid, form, a, b) == [type |-> type, vid |-> vid, form |-> form, a |-> a, b |-> b]

QueriesDef == <<
  Qr("empty", 0, "empty", 0, 0),
  Qr("exact", 1, "exact", 0, 0),  Qr("exact", 2, "exact", 0, 0),  Qr("exact", 3, "exact", 0, 0),
  Qr("exact", 4, "exact", 0, 0),  Qr("exact", 5, "exact", 0, 0),  Qr("exact", 6, "exact", 0, 0),
  Qr("exact", 7, "exact", 0, 0),  Qr("exact", 8, "exact", 0, 0),  Qr("exact", 9, "exact", 0, 0),
  Qr("exact", 10, "exact", 0, 0), Qr("exact", 11, "exact", 0, 0),
  Qr("constraint", 0, "ge", 2, 0),        \* >= r2
  Qr("constraint", 0, "gt", 4, 0),        \* >  r4
  Qr("constraint", 0, "lt", 3, 0),        \* <  r3
  Qr("constraint", 0, "le", 3, 0),        \* <= r3
  Qr("constraint", 0, "caret", 1, 0),     \* ^r1
  Qr("constraint", 0, "tilde", 2, 0),     \* ~r2
  Qr("constraint", 0, "range", 2, 3),     \* r2 - r3
  Qr("constraint", 0, "gepre", 1, 0),     \* >= r1-0    (admits pre-releases)
  Qr("constraint", 0, "ltpre", 4, 0),     \* <  r4-0 .. with pre-releases
  Qr("constraint", 0, "neq", 3, 0),       \* != r3
  Qr("constraint", 0, "or", 1, 4),        \* r1 || r4
  Qr("constraint", 0, "star", 0, 0),      \* *
  Qr("constraint", 0, "bad", 0, 0)        \* not a constraint
>>
=============================================================================
