SPECIFICATION Spec
CONSTANTS
  Repos <- ReposQuick
  Paths <- PathsAll
  Variants <- VariantsAll
  Redirects = {FALSE, TRUE}
  PullGated = TRUE
  TLSKinds = {"none", "ca"}
INVARIANTS Inv_CredsModuloKnown Inv_WrittenImpliesOrigin
CONSTRAINT Export
CHECK_DEADLOCK FALSE
