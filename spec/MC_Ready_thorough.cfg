SPECIFICATION Spec
CONSTANTS
  Big = TRUE
INVARIANTS Total ErrorOnlyForJobs
CHECK_DEADLOCK FALSE
