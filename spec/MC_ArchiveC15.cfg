CONSTANTS
  MaxRules = 2
  MaxComps = 1
  MixedUpTo = 1
  SecureJoinOn = TRUE
  FLim = 4096
  TLim = 6000
  Huge = 1000000
SPECIFICATION Spec
INVARIANT InvPartition
INVARIANT InvDirClosed
INVARIANT InvMonotone
INVARIANT InvDefault
CHECK_DEADLOCK FALSE
