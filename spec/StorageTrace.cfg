SPECIFICATION TraceSpec
CONSTANTS
  Names = {"n1", "n2"}
  Revs = {1, 2, 3}
  Statuses = {"deployed", "superseded", "failed"}
  Variants = {1, 2}
  Menu <- FullMenu
POSTCONDITION TraceAccepted
CHECK_DEADLOCK FALSE
