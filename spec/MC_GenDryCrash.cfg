SPECIFICATION Spec
CONSTANTS
  Procs = {1}
  MaxRev = 10
  MaxOps = 4
  MaxFaults = 0
  MaxCrash = 1
  MaxEdits = 0
  FaultKinds = {"res", "wait"}
  Sequential = TRUE
  Planned = TRUE
  MaxPlan = 36
  InitStores <- StoresEmpty
  LateStart = FALSE
  LogSched = FALSE
  KeepLog = FALSE
  OpMenu <- MenuDry
  EditMenu <- EditsNone
  PreMenu <- PreHook
  Objs <- AllObjs
  MenuGuard <- GuardDryAfterCrash
CONSTRAINT GenExport
CHECK_DEADLOCK FALSE
