--------------------------- MODULE MC_Provenance ---------------------------
EXTENDS Provenance
KeyringsAll == {"signer", "both", "others", "empty"}
=============================================================================
