INIT Init
NEXT Next
CONSTANT Mode = "c08"
CONSTANT PartN = 4
CONSTANT PartSubN = 4
CONSTANT OneFileN = 5
CONSTANT MachN = 4
CONSTANT ProgN = 0
CONSTANT MachPaths = 0
CONSTANT MachProgN = 0
