INIT Init
NEXT Next
CONSTANT Mode = "c08"
CONSTANT PartN = 4
CONSTANT PartSubN = 3
CONSTANT OneFileN = 5
CONSTANT MachN = 3
CONSTANT ProgN = 0
CONSTANT MachPaths = 0
CONSTANT MachProgN = 0
