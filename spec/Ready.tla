------------------------------- MODULE Ready -------------------------------
(***************************************************************************)
(* Readiness of one resource as the LEGACY wait strategy sees it            *)
(* (pkg/kube/ready.go: ReadyChecker.IsReady, polled by legacyWaiter.Wait /  *)
(* WaitWithJobs until every resource of the release is ready, or the       *)
(* timeout ends the operation with an error: property C03 "a resource       *)
(* never becomes ready").  A case is the live state of one resource (and of *)
(* the objects its readiness depends on); Expected gives the verdict:       *)
(*   "ready" | "notready" (keep polling) | "error" (give up at once).       *)
(* MC_Ready enumerates the cases; harness/fam/ready builds each one as      *)
(* typed objects in a client-go fake clientset and asks the real            *)
(* ReadyChecker; ReadyObs.tla compares.                                     *)
(***************************************************************************)
EXTENDS Integers, Sequences, FiniteSets, TLC

MinI(a, b) == IF a < b THEN a ELSE b

\* intstr: an absolute number, or a percentage of total (max-unavailable rounds DOWN)
Scaled(v, total) == IF v.pct THEN (v.n * total) \div 100 ELSE v.n

\* ... max-unavailable of a DaemonSet rounds UP (intstr.GetScaledValueFromIntOrPercent(.., roundUp = true))
ScaledUp(v, total) == IF v.pct THEN (v.n * total + 99) \div 100 ELSE v.n

\* deploymentutil.MaxUnavailable (ResolveFenceposts: surge and unavailable both 0 -> unavailable 1)
DepMaxUnavailable(c) ==
  IF c.strategy # "RollingUpdate" \/ c.replicas = 0 THEN 0
  ELSE LET u0 == Scaled(c.maxUnavail, c.replicas)
           u  == IF c.maxSurge = 0 /\ u0 = 0 THEN 1 ELSE u0 IN
       MinI(u, c.replicas)

Expected(c) ==
  CASE c.kind = "Pod" ->
         IF c.readyCond = "True" THEN "ready" ELSE "notready"
    [] c.kind = "Job" ->
         IF ~c.checkJobs THEN "ready"
         ELSE IF c.failed > c.backoffLimit THEN "error"                         \* a failed job cannot recover
         ELSE IF c.completions >= 0 /\ c.succeeded < c.completions THEN "notready"   \* (-1: completions not set)
         ELSE "ready"
    [] c.kind = "PersistentVolumeClaim" ->
         IF c.phase = "Bound" THEN "ready" ELSE "notready"
    [] c.kind = "Service" ->
         IF c.type = "ExternalName" THEN "ready"
         ELSE IF ~c.clusterIP THEN "notready"
         ELSE IF c.type = "LoadBalancer" /\ ~c.externalIPs /\ ~c.ingress THEN "notready"
         ELSE "ready"
    [] c.kind = "Deployment" ->
         IF c.paused THEN (IF c.pausedAsReady THEN "ready" ELSE "notready")
         ELSE IF ~c.rsExists THEN "notready"                                   \* no new ReplicaSet yet
         ELSE IF ~c.rsObserved THEN "notready"
         ELSE IF ~c.observed THEN "notready"
         ELSE IF c.rsReady < c.replicas - DepMaxUnavailable(c) THEN "notready"
         ELSE "ready"
    [] c.kind = "DaemonSet" ->
         IF ~c.observed THEN "notready"
         ELSE IF c.strategy # "RollingUpdate" THEN "ready"
         ELSE IF c.updated # c.desired THEN "notready"
         ELSE IF c.ready < c.desired - ScaledUp(c.maxUnavail, c.desired) THEN "notready"
         ELSE "ready"
    [] c.kind = "StatefulSet" ->
         LET part == IF c.partition < 0 THEN 0 ELSE c.partition          \* (-1: not set)
             reps == IF c.replicas < 0 THEN 1 ELSE c.replicas IN         \* (-1: not set, the default is 1)
         IF ~c.observed THEN "notready"
         ELSE IF c.strategy # "RollingUpdate" THEN "ready"
         ELSE IF c.updated < reps - part THEN "notready"
         ELSE IF c.ready # reps THEN "notready"
         ELSE IF part = 0 /\ ~c.sameRevision THEN "notready"
         ELSE "ready"
    [] c.kind = "CustomResourceDefinition" ->
         \* the first condition that decides wins: Established=True, or NamesAccepted=False (a naming conflict does
         \* not stop the process)
         LET decides(x) == (x.type = "Established" /\ x.status = "True") \/ (x.type = "NamesAccepted" /\ x.status = "False") IN
         IF \E i \in DOMAIN c.conds : decides(c.conds[i]) THEN "ready" ELSE "notready"
    [] c.kind \in {"ReplicaSet", "ReplicationController"} ->
         IF ~c.observed THEN "notready"
         ELSE IF \E i \in DOMAIN c.pods : ~c.pods[i] THEN "notready"      \* every selected pod must be Ready
         ELSE "ready"
    [] OTHER -> "ready"                                                   \* every other kind is always ready
=============================================================================
