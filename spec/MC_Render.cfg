SPECIFICATION Spec
CONSTANT InputSeq <- SeqFromFile
CONSTANT Hosts <- HostsFull
INVARIANT DetOrKnown
INVARIANT Partition
INVARIANT Progress
CHECK_DEADLOCK FALSE
