SPECIFICATION Spec
CONSTANT Inputs <- C05Quick
CONSTANT Hosts <- HostsFull
INVARIANT DetOrKnown
INVARIANT Partition
INVARIANT Progress
CHECK_DEADLOCK FALSE
