------------------------------- MODULE HelmMon -------------------------------
(***************************************************************************)
(* Property monitor.  The next state is simply the next logged state of a   *)
(* trace recorded from the real code; no model action is involved, so a     *)
(* verdict here never depends on the operational model being right          *)
(* (DESIGN §2.4 case 1).  The predicates are those of HelmProps.tla.        *)
(*                                                                          *)
(* Every invariant has the form  Strict \/ Known  where Known restates the  *)
(* specific shape of a recorded known finding (KNOWN_FINDINGS.jsonl); the   *)
(* Note_* invariants are the Strict parts alone and are checked in a        *)
(* second pass only to print KNOWN-FINDING lines.                           *)
(***************************************************************************)
EXTENDS HelmProps

Trace == ndJsonDeserialize("trace.ndjson")

MonRev  == 1..40
MonProc == 0..4

VARIABLES l, S, B, lab, pre, sum, ended, esum, creators, everDep, fgn
mvars == <<l, S, B, lab, pre, sum, ended, esum, creators, everDep, fgn>>

(* ----- JSON -> abstract state ------------------------------------------- *)

HooksOfJ(js) == [h \in {js[i].id : i \in DOMAIN js} |->
                  LET x == js[CHOOSE i \in DOMAIN js : js[i].id = h] IN
                  [kind |-> x.kind, events |-> Range(x.events), weight |-> x.weight, pols |-> Range(x.pols), keep |-> x.keep]]

ManOfJ(jm) == [r \in DOMAIN jm |-> [kind |-> jm[r].kind, f1 |-> jm[r].f1, f2 |-> jm[r].f2, pol |-> jm[r].pol, ver |-> jm[r].ver]]

RecOfJ(j) == [st |-> j.st, ch |-> j.chart, cfg |-> j.cfg, man |-> ManOfJ(j.man), hooks |-> HooksOfJ(j.hooks),
              body |-> j.rev, mand |-> j.mand]

NoRecM == [st |-> "none", ch |-> "none", cfg |-> "none", man |-> <<>>, hooks |-> <<>>, body |-> 0, mand |-> ""]

StoreOfJ(js) == [r \in MonRev |-> IF ToString(r) \in DOMAIN js THEN RecOfJ(js[ToString(r)]) ELSE NoRecM]

AllIds == {"r1", "r2", "r3", "r4", "r5", "h1", "h2", "h3", "h4", "by1", "by2", "c1", "c2"}
AbsentM == [f1 |-> "-", f2 |-> "-", own |-> "absent", pol |-> "none", dig |-> ""]
ObjOfJ(j) == [f1 |-> j.f1, f2 |-> j.f2, own |-> j.own, pol |-> j.pol, dig |-> j.dig]
ClusterOfJ(jc) == [o \in AllIds \cup DOMAIN jc |-> IF o \in DOMAIN jc THEN ObjOfJ(jc[o]) ELSE AbsentM]

StateOfJ(js) == [store |-> StoreOfJ(js.store), cluster |-> ClusterOfJ(js.cluster)]

MOf(e) == [kind |-> e.op, chart |-> IF e.chart = "" THEN "none" ELSE e.chart,
           replace |-> e.flags.replace, atomic |-> e.flags.atomic, cleanup |-> e.flags.cleanupOnFail,
           keep |-> e.flags.keepHistory, nohooks |-> e.flags.noHooks, lim |-> e.flags.maxHistory,
           ver |-> e.flags.version, dry |-> e.flags.dryRun, takeown |-> e.flags.takeOwnership,
           clientOnly |-> e.flags.clientOnly, createNS |-> e.flags.createNamespace, skipCRDs |-> e.flags.skipCRDs, force |-> e.flags.force, install |-> e.flags.install,
           incCRDs |-> e.flags.includeCRDs]

\* `helm upgrade --install` on a release that does not exist (or whose last revision is uninstalled) IS an
\* install (with --replace in the second case): the properties are applied to what the command does
EffU(u, st) ==
  IF u.kind = "upgrade" /\ u.install /\ (Revs(st) = {} \/ st[MaxOf(Revs(st))].st = "uninstalled")
  THEN [u EXCEPT !.kind = "install", !.replace = (Revs(st) # {}), !.cleanup = FALSE, !.lim = 0]
  ELSE u

LabOf(e) == [p |-> e.proc, ev |-> e.ev, kind |-> e.kind, verb |-> e.verb, id |-> e.id, ok |-> e.ok, inj |-> e.inj]

NoU == [kind |-> "none", chart |-> "none", replace |-> FALSE, atomic |-> FALSE, cleanup |-> FALSE,
        keep |-> FALSE, nohooks |-> FALSE, lim |-> 0, ver |-> 0, dry |-> FALSE, takeown |-> FALSE,
        clientOnly |-> FALSE, createNS |-> FALSE, skipCRDs |-> FALSE, force |-> FALSE, install |-> FALSE, incCRDs |-> FALSE]
NoSum == [u |-> NoU, ok |-> FALSE, crs |-> {}, flt |-> {}, posted |-> {}, log |-> <<>>, active |-> FALSE,
          sub |-> FALSE, fsub |-> FALSE]
NoState == [store |-> [r \in MonRev |-> NoRecM], cluster |-> [o \in AllIds |-> AbsentM]]

(* ----- the monitor's only behaviour: consume the trace -------------------- *)

MonInit ==
  /\ l = 0
  /\ S = NoState /\ B = NoState
  /\ lab = [p |-> 0, ev |-> "init", kind |-> "", verb |-> "", id |-> "", ok |-> TRUE, inj |-> FALSE]
  /\ pre = [p \in MonProc |-> NoState]
  /\ sum = [p \in MonProc |-> NoSum]
  /\ ended = 0 /\ esum = NoSum
  /\ creators = [r \in MonRev |-> {}]
  /\ everDep = {}
  /\ fgn = ""

FaultClass(e) == IF e.kind = "store" THEN "store" ELSE IF e.kind = "wait" THEN "wait" ELSE "res"

ManIdsOf(u) == IF u.chart \in ChartIds THEN DOMAIN ChartMan(u.chart) ELSE {}

MonNext ==
  /\ l < Len(Trace)
  /\ l' = l + 1
  /\ LET e == Trace[l + 1]  p == e.proc  ns == StateOfJ(e.state) IN
     /\ S' = ns
     /\ B' = IF e.ev = "reset" THEN ns ELSE S
     /\ lab' = LabOf(e)
     \* who created which revision number while operations overlap (cleared when nothing is running)
     /\ creators' = IF e.ev = "reset" THEN [r \in MonRev |-> {}]
                    ELSE IF e.ev = "call" /\ e.kind = "store" /\ e.verb = "create" /\ e.ok /\ e.rev \in MonRev
                         THEN [creators EXCEPT ![e.rev] = @ \cup {p}]
                    ELSE IF e.ev \in {"end", "crash"} /\ \A q \in MonProc : (q # p => ~sum[q].active)
                         THEN [r \in MonRev |-> {}]
                    ELSE creators
     \* which stored revisions have been seen deployed (a history handed to the scenario ready-made counts
     \* its superseded revisions as once deployed); forgotten when the record is deleted
     /\ everDep' = IF e.ev = "reset" THEN {r \in MonRev : ns.store[r].st \in {"deployed", "superseded"}}
                   ELSE {r \in MonRev : ns.store[r].st # "none" /\ (r \in everDep \/ ns.store[r].st = "deployed")}
     \* the stored histories of the other releases in the namespace, as the scenario found them
     /\ fgn' = IF e.ev = "reset" THEN e.state.foreign ELSE fgn
     /\ CASE e.ev = "reset" ->
               /\ pre' = [q \in MonProc |-> NoState] /\ sum' = [q \in MonProc |-> NoSum]
               /\ ended' = 0 /\ esum' = NoSum
          [] e.ev = "begin" ->
               /\ pre' = [pre EXCEPT ![p] = ns]
               /\ sum' = [sum EXCEPT ![p] = [NoSum EXCEPT !.u = EffU(MOf(e), ns.store), !.active = TRUE]]
               /\ ended' = 0 /\ esum' = NoSum
          [] e.ev = "call" ->
               /\ sum' = [sum EXCEPT ![p] =
                    [@ EXCEPT !.crs = IF e.kind = "store" /\ e.verb = "create" /\ e.ok THEN @ \cup {e.rev} ELSE @,
                              !.flt = IF e.inj THEN @ \cup {FaultClass(e)} ELSE @,
                              \* (what the operation itself created; not what its atomic sub-operation re-creates)
                              !.posted = IF e.kind = "res" /\ e.verb = "POST" /\ e.ok /\ e.id \in ManIdsOf(sum[p].u) /\ ~sum[p].sub
                                         THEN @ \cup {e.id} ELSE @,
                              !.sub = @ \/ (e.kind = "store" /\ e.verb = "query" /\ e.id = "history" /\ sum[p].crs # {}),
                              !.fsub = @ \/ (e.inj /\ e.kind # "store" /\ sum[p].sub),
                              !.log = Append(@, LabOf(e))]]
               /\ UNCHANGED pre /\ ended' = 0 /\ esum' = NoSum
          [] e.ev = "end" ->
               /\ ended' = p /\ esum' = [sum[p] EXCEPT !.ok = e.ok]
               /\ sum' = [sum EXCEPT ![p] = NoSum] /\ UNCHANGED pre
          [] e.ev = "crash" ->
               /\ sum' = [sum EXCEPT ![p] = NoSum] /\ UNCHANGED pre
               /\ ended' = 0 /\ esum' = NoSum
          [] OTHER ->            \* edit
               /\ UNCHANGED <<pre, sum>> /\ ended' = 0 /\ esum' = NoSum


AtEnd   == ended # 0
EPre    == pre[ended]
Kind(s) == s.u.kind

CurProc == lab.p
IsCall  == lab.ev = "call"
CurU    == sum[CurProc].u

\* hook definitions an operation runs: those of the chart it installs / upgrades to, of the
\* rollback target, or of the last revision for uninstall (all read from the OBSERVED records)
DefsFor(s, preS, postS) ==
  CASE s.u.kind \in {"install", "upgrade"} -> ChartHooks(s.u.chart)
    [] s.u.kind = "rollback" -> LET t == RollbackTarget(preS.store, s.u) IN
                                IF t \in Revs(preS.store) THEN preS.store[t].hooks ELSE <<>>
    [] s.u.kind \in {"uninstall", "test"} -> IF Revs(preS.store) = {} THEN <<>> ELSE preS.store[MaxOf(Revs(preS.store))].hooks
    [] OTHER -> <<>>

ManIdsFor(s, preS) ==
  CASE s.u.kind \in {"install", "upgrade"} -> DOMAIN ChartMan(s.u.chart)
    [] s.u.kind = "rollback" -> LET t == RollbackTarget(preS.store, s.u) IN
                                IF t \in Revs(preS.store) THEN DOMAIN preS.store[t].man ELSE {}
    [] s.u.kind = "uninstall" -> IF Revs(preS.store) = {} THEN {} ELSE DOMAIN preS.store[MaxOf(Revs(preS.store))].man
    [] OTHER -> {}

-----------------------------------------------------------------------------
(* Strict properties on observed states                                       *)

P_C01_OneDeployed  == C01_AtMostOneDeployed(S.store)
P_C01_KeyIsBody    == \A r \in Revs(S.store) : S.store[r].body = r
P_C01_NextRevision == IsCall => C01_NextRevision(pre[CurProc].store, B.store, S.store)
P_C01_Success      == (AtEnd /\ esum.ok) => C01_Success(EPre, S, esum)
P_C01_Prune        == AtEnd => C01_Prune(EPre, S, esum)

P_C02_Success      == (AtEnd /\ esum.ok) => C02_Success(EPre, S, esum)
P_C02_Uninstall    == (AtEnd /\ esum.ok) => C02_Uninstall(EPre, S, esum)
\* ... and every kept resource is listed in the response (monitor only: the response is not part of the model state)
P_C02_UninstallListed ==
  (AtEnd /\ esum.ok /\ esum.u.kind = "uninstall" /\ ~esum.u.dry /\ esum.flt = {} /\ Revs(EPre.store) # {}
     /\ EPre.store[MaxOf(Revs(EPre.store))].st # "uninstalled") =>
    LET man == EPre.store[MaxOf(Revs(EPre.store))].man IN
    \A r \in DOMAIN man : man[r].pol = "keep" => r \in Range(Trace[l].kept)
\* the stored records of other releases (names extending / prefixing this one) are objects outside the release
P_C02_Foreign == (l > 0 /\ l <= Len(Trace)) => Trace[l].state.foreign = fgn
\* client-only rendering sends NOTHING: not a storage read, not a discovery request, not a lookup (monitor only:
\* the count of HTTP requests of any kind is part of the end event)
P_C06_ClientOnlySilent == (AtEnd /\ esum.u.clientOnly /\ l <= Len(Trace)) => Trace[l].reqs = 0
P_C02_Strangers == AtEnd => C02_Strangers(EPre, S, esum)
P_C02_Bystanders   == IsCall => C02_Bystanders(pre[CurProc].store, B, S, CurU.chart)

P_C03_Error         == AtEnd => C03_Error(esum)
P_C03_Failed        == AtEnd => C03_Failed(EPre, S, esum)
P_C03_Cleanup       == AtEnd => C03_Cleanup(EPre, S, esum)
P_C03_AtomicUpgrade == AtEnd => C03_AtomicUpgrade(EPre, S, esum)
\* ... and the revision it restores is one that HAD BEEN deployed (monitor only: the ledger's statuses alone
\* do not say so; everDep is what the trace showed).  The operation's own revisions are not in EPre.store.
P_C03_AtomicTarget ==
  (AtEnd /\ esum.u.kind = "upgrade" /\ esum.u.atomic /\ ~esum.u.dry /\ ClusterFault(esum) /\ ~esum.fsub /\ ~esum.ok /\ esum.crs # {}) =>
    LET was == {r \in Revs(EPre.store) : r \in everDep /\ r \notin esum.crs}
        top == MaxOr0(Revs(S.store)) IN
    (was # {} /\ top # 0 /\ top \notin Revs(EPre.store) /\ S.store[top].st = "deployed") =>
       S.store[top].man = EPre.store[MaxOf(was)].man
P_C03_AtomicInstall == AtEnd => C03_AtomicInstall(EPre, S, esum)

P_C06_ReadOnly == IsCall => C06_StepReadOnly(CurU, lab, [store |-> B.store, cluster |-> B.cluster], [store |-> S.store, cluster |-> S.cluster])
P_C06_EndSame  == (AtEnd /\ esum.u.dry) => (S = EPre /\ (esum.u.clientOnly => esum.log = <<>>))

P_C07_Refusal == AtEnd => C07_Refusal(EPre, S, esum)
P_C07_Stamped == IsCall => C07_Stamped(lab, S, ManIdsFor(sum[CurProc], pre[CurProc]))
P_C07_DeleteNamed ==
  IsCall => C07_DeleteNamed(lab, NamedIn(pre[CurProc].store) \cup NamedIn(B.store) \cup NamedByChart(CurU.chart))

HasHookFault(s) == \E i \in DOMAIN s.log : s.log[i].inj /\ ~(s.log[i].kind = "wait" /\ s.log[i].verb = "watch")

\* C12 is quantified over "every single hook failing in turn": other injected faults are out of its scope
\* an --atomic operation that failed ran a second operation (uninstall / rollback) with another
\* release's hooks inside the same call: outside C12's quantifier
SubOp(s) == s.u.atomic /\ ~s.ok
P_C12_Order         == (AtEnd /\ ~SubOp(esum)) => C12_Order(esum.log, DefsFor(esum, EPre, S))
P_C12_DeleteBefore  == (AtEnd /\ ~SubOp(esum)) => C12_DeleteBefore(esum.log, DefsFor(esum, EPre, S))
P_C12_DeletedByPolicy == (AtEnd /\ ~HasHookFault(esum) /\ ~SubOp(esum)) => C12_DeletedByPolicy(esum.log, DefsFor(esum, EPre, S), S, esum.flt)
P_C12_PreHookGate   == (AtEnd /\ ~HasHookFault(esum)) => C12_PreHookGate(esum.log, DefsFor(esum, EPre, S), ManIdsFor(esum, EPre), esum.u)
P_C12_PostHookFails == AtEnd => C12_PostHookFails(esum.log, DefsFor(esum, EPre, S), esum.ok)
P_C12_NotInManifest == C12_NotInManifest(S.store)

\* C09: every record is created where none existed; an operation that created no revision failed
\* without writing to a release resource; at quiescence at most one revision is deployed
ResWriteM(x) == x.kind = "res" /\ x.verb \in {"POST", "PUT", "PATCH", "DELETE"}
CurRev == Trace[l].rev
P_C09_CreateFresh ==
  (IsCall /\ lab.kind = "store" /\ lab.verb = "create" /\ lab.ok) =>
     (CurRev \in MonRev /\ B.store[CurRev].st = "none" /\ S.store[CurRev].st # "none")
\* while an operation that created a revision is still running, nobody else gets to create one: the others fail
\* with already-exists / operation-in-progress (instead of becoming a second winner next to it)
\* (an operation HOLDS the release while a revision it created is still pending)
Holds(q) == sum[q].active /\ \E r \in sum[q].crs : r \in MonRev /\ B.store[r].st \in {"pending-install", "pending-upgrade", "pending-rollback"}
P_C09_OneAtATime ==
  (IsCall /\ lab.kind = "store" /\ lab.verb = "create" /\ lab.ok) =>
     \A q \in MonProc \ {CurProc} : ~Holds(q)
\* ... and nobody rewrites or deletes the PENDING record of a revision that a still running operation created
\* (once that operation has written its outcome the record is history like any other, even before it returns)
P_C09_HandsOff ==
  (IsCall /\ lab.kind = "store" /\ lab.verb \in {"update", "delete"} /\ lab.ok /\ CurRev \in MonRev
     /\ B.store[CurRev].st \in {"pending-install", "pending-upgrade", "pending-rollback"}) =>
     \A q \in MonProc \ {CurProc} : ~(sum[q].active /\ CurRev \in sum[q].crs)
\* each revision number is created by exactly one of the overlapping operations
P_C09_UniqueCreator == \A r \in MonRev : Cardinality(creators[r]) <= 1
P_C09_LoserClean ==
  (AtEnd /\ esum.u.kind \in {"install", "upgrade"} /\ ~esum.u.dry /\ esum.crs = {}) =>
     (~esum.ok /\ \A i \in DOMAIN esum.log :
         ~ResWriteM(esum.log[i]) /\ \* (pruning old records under a history limit is allowed; writing or overwriting a record is not)
         ~(esum.log[i].kind = "store" /\ esum.log[i].ok /\ esum.log[i].verb \in {"create", "update"}))
P_C09_Quiescent == (\A p \in MonProc : ~sum[p].active) => C01_AtMostOneDeployed(S.store)
\* (all hook objects of the release: an --atomic sub-operation runs another revision's hooks)
P_C12_Disabled      == AtEnd => C12_Disabled(esum.log, HookIdsIn(EPre.store) \cup HookIdsIn(S.store) \cup DOMAIN DefsFor(esum, EPre, S), esum.u)

-----------------------------------------------------------------------------
(* Reporting: every check is evaluated in every observed state; a failing one is printed *)
(* (line number = l) and the run goes on, so one TLC pass reports all of them.           *)

Checks == <<
  [n |-> "C01_OneDeployed",   v |-> P_C01_OneDeployed],
  [n |-> "C01_KeyIsBody",     v |-> P_C01_KeyIsBody],
  [n |-> "C01_NextRevision",  v |-> P_C01_NextRevision],
  [n |-> "C01_Success",       v |-> P_C01_Success],
  [n |-> "C01_Prune",         v |-> P_C01_Prune],
  [n |-> "C02_Success",       v |-> P_C02_Success],
  [n |-> "C02_Uninstall",     v |-> P_C02_Uninstall],
  [n |-> "C02_UninstallListed", v |-> P_C02_UninstallListed],
  [n |-> "C02_Foreign",       v |-> P_C02_Foreign],
  [n |-> "C06_ClientOnlySilent", v |-> P_C06_ClientOnlySilent],
  [n |-> "C02_Strangers",     v |-> P_C02_Strangers],
  [n |-> "C02_Bystanders",    v |-> P_C02_Bystanders],
  [n |-> "C03_Error",         v |-> P_C03_Error],
  [n |-> "C03_Failed",        v |-> P_C03_Failed],
  [n |-> "C03_Cleanup",       v |-> P_C03_Cleanup],
  [n |-> "C03_AtomicUpgrade", v |-> P_C03_AtomicUpgrade],
  [n |-> "C03_AtomicTarget",  v |-> P_C03_AtomicTarget],
  [n |-> "C03_AtomicInstall", v |-> P_C03_AtomicInstall],
  [n |-> "C06_ReadOnly",      v |-> P_C06_ReadOnly],
  [n |-> "C06_EndSame",       v |-> P_C06_EndSame],
  [n |-> "C07_Refusal",       v |-> P_C07_Refusal],
  [n |-> "C07_Stamped",       v |-> P_C07_Stamped],
  [n |-> "C07_DeleteNamed",   v |-> P_C07_DeleteNamed],
  [n |-> "C12_Order",         v |-> P_C12_Order],
  [n |-> "C12_DeleteBefore",  v |-> P_C12_DeleteBefore],
  [n |-> "C12_DeletedByPolicy", v |-> P_C12_DeletedByPolicy],
  [n |-> "C12_PreHookGate",   v |-> P_C12_PreHookGate],
  [n |-> "C12_PostHookFails", v |-> P_C12_PostHookFails],
  [n |-> "C12_NotInManifest", v |-> P_C12_NotInManifest],
  [n |-> "C12_Disabled",      v |-> P_C12_Disabled],
  [n |-> "C09_CreateFresh",   v |-> P_C09_CreateFresh],
  [n |-> "C09_UniqueCreator", v |-> P_C09_UniqueCreator],
  [n |-> "C09_OneAtATime",    v |-> P_C09_OneAtATime],
  [n |-> "C09_HandsOff",      v |-> P_C09_HandsOff],
  [n |-> "C09_LoserClean",    v |-> P_C09_LoserClean],
  [n |-> "C09_Quiescent",     v |-> P_C09_Quiescent] >>

\* (IF, not \/: in an action TLC would enumerate both disjuncts as separate successors)
Report == \A i \in DOMAIN Checks : IF Checks[i].v THEN TRUE ELSE PrintT(<<"MONVIOL", l, Checks[i].n>>)

MonStep == (MonNext /\ Report) \/ (l = Len(Trace) /\ l' = l + 1 /\ Report /\ UNCHANGED <<S, B, lab, pre, sum, ended, esum, creators, everDep, fgn>>)

MonSpec == MonInit /\ [][MonStep]_mvars

MonDone == TLCGet("stats").diameter = Len(Trace) + 2
=============================================================================
