SPECIFICATION Spec
CONSTANTS
  Procs = {1}
  MaxRev = 6
  MaxOps = 2
  MaxFaults = 0
  MaxCrash = 0
  MaxEdits = 0
  FaultKinds = {}
  Sequential = TRUE
  Planned = FALSE
  MaxPlan = 36
  KeepLog = TRUE
  OpMenu <- XOwn
  EditMenu <- EditsNone
  PreMenu <- PreOwnX
  Objs <- AllObjs
  MenuGuard <- GuardTrue
VIEW View
INVARIANTS Inv_C07_Refusal
PROPERTIES Act_C07_Stamped Act_C07_DeleteNamed
CHECK_DEADLOCK FALSE
