------------------------------ MODULE DepsObs ------------------------------
(***************************************************************************)
(* C11 verdicts.  Reads the observations hv_deps recorded from the real     *)
(* code (obs.ndjson, one line per case) and judges them with the            *)
(* PROPERTY-SHAPED operators of Deps.tla only:                               *)
(*   run A  chartutil.ProcessDependencies -> ToRenderValues -> engine.Render:*)
(*          the set of chart instances whose probe template was rendered and *)
(*          the .Values each probe saw;                                      *)
(*   run D  engine.Render alone on the processed chart with the RAW user      *)
(*          values: what the engine's scoping hands to each chart when a      *)
(*          subchart has no values table of its own;                          *)
(*   run B  action.Install as `helm template --include-crds` runs it: the    *)
(*          instances that contributed a manifest document, a hook, a CRD, a *)
(*          NOTES.txt, and whether the schema gate rejected and whom it named.*)
(*   run C  (a seeded share of the cases) the history route: a real           *)
(*          action.Install with the case's user values over the simulated    *)
(*          cluster - which CRDs are in the cluster afterwards - and then     *)
(*          action.Upgrade with NO values in the default, reuse-values,      *)
(*          reset-then-reuse-values and reset-values modes: the instances in  *)
(*          the new manifest, the hooks and the stored chart, judged against  *)
(*          the values in force on that route (Deps!CaseFor); and, the other  *)
(*          way round, install with the chart defaults only, then an upgrade  *)
(*          WITH the case's values ("upgrade-new").  For every upgrade also   *)
(*          the hook objects it really created in the cluster (request log),  *)
(*          pre- and post-upgrade.                                            *)
(* A failing check is excused only in the shape of a known finding, and then *)
(* only if the observation equals what the code-shaped model predicts for    *)
(* that shape (any other deviation in such a case is still a violation).     *)
(*   "OBSVIOL  <line> <check> 0 ;"          the property is violated         *)
(*   "OBSKNOWN <line> <check> 0 <id[+id]> ;" ... in the shape of known finding(s) *)
(*   "OBSMACH  <line> <check> 0 ;"          the machinery cannot decide      *)
(***************************************************************************)
EXTENDS Integers, Sequences, FiniteSets, TLC, Json

D == INSTANCE Schema WITH Shapes <- <<>>, sh <- 0, asg <- <<>>

Obs == ndJsonDeserialize("obs.ndjson")

VARIABLE i

Rng(f) == {f[x] : x \in DOMAIN f}

KfGlobal == "KF-C11-global-kind-conflict"
KfAlias  == "KF-C11-alias-below-top-own-defaults"
KfShared == "KF-C11-shared-dependency-entries-renamed"

Join(a, b) == IF a = "" THEN b ELSE IF b = "" THEN a ELSE a \o "+" \o b
\* the known shapes a case has (as far as they can explain a wrong set of rendered charts / a wrong scope)
EnShapes(c)    == Join(IF D!AliasBelowTop(c) THEN KfAlias ELSE "", IF D!SharedAliasedDep(c) THEN KfShared ELSE "")
ScopeShapes(c) == Join(IF D!GlobalKindConflict(c) THEN KfGlobal ELSE "", EnShapes(c))

Checks(o) ==
  LET c    == D!CaseOfJ(o.case)
      Rend == Rng(o.rendered)
      \* a chart without templates contributes nothing that is rendered (its dependencies do)
      Tpl(X) == {P \in X : ~c.charts[D!ChartAt(c, P)].notpl}
      \* the enabled set the property demands (where it leaves two readings open, the one observed if it is one of them)
      E    == IF \E S \in D!ExpEs(c) : Tpl(S) = Rend THEN CHOOSE S \in D!ExpEs(c) : Tpl(S) = Rend ELSE D!ExpE(c)
      SeenAt(P) == Rng((CHOOSE s \in Rng(o.seen) : s.P = P).leaves)
      Both == E \cap Rend
      \* what the code-shaped model predicts (evaluated only when a strict check fails)
      EC   == D!EnabledCode(c)
      SeenAsCode == Rend = Tpl(EC) /\ \A P \in Rend : SeenAt(P) = D!CodeScope(c, P)
      Crd(X) == {P \in X : c.charts[D!ChartAt(c, P)].crds}
      Bad(X) == {P \in X : D!SchemaOf(c, P) # <<>> /\ ~D!SchemaValid(D!SchemaOf(c, P), SeenAt(P))}
      \* history route
      RawC(X) == {D!RawPath(c, P) : P \in Crd(X)}
      Want(cx, X) == IF \E S \in D!ExpEs(cx) : Tpl(S) = X THEN CHOOSE S \in D!ExpEs(cx) : Tpl(S) = X ELSE D!ExpE(cx)
      \* ... and the hook objects the upgrade actually created in the cluster (request log), before and after the resources
      UpIs(u, W) == Rng(u.manifest) = Tpl(W) /\ Rng(u.hooks) = Tpl(W) /\ Rng(u.stored) = W
                    /\ Rng(u.ran) = Tpl(W) /\ Rng(u.ranpost) = Tpl(W)
      \* (an upgrade the schema gate rejected produced nothing to judge)
      UpOK(u)     == u.schema \/ (u.ok /\ UpIs(u, Want(D!CaseFor(c, u.mode), Rng(u.manifest))))
      UpAsCode(u) == u.schema \/ (u.ok /\ UpIs(u, D!EnabledCode(D!CaseFor(c, u.mode))))
      Ups(modes)  == {u \in Rng(o.ups) : u.mode \in modes}
      en == EnShapes(c)
      sc == ScopeShapes(c)
      Chk(n, v, shapes, asCode) == [n |-> n, kind |-> "prop", v |-> v, kf |-> IF v THEN "" ELSE IF shapes # "" /\ asCode THEN shapes ELSE ""]
  IN <<
    \* a dependency is rendered iff it is enabled; an alias makes it appear under the alias only
    Chk("C11_Rendered", o.aok /\ Rend = Tpl(E), en, o.aok /\ Rend = Tpl(EC)),
    \* own values: exactly those destined for the chart; nothing of a parent or sibling; no defaults of a disabled dependency
    Chk("C11_ScopeOwn", o.aok => \A P \in Both : D!ScopeOwnOK(c, E, P, SeenAt(P)), sc, o.aok /\ SeenAsCode),
    \* the engine's own scoping (run D: engine.Render on raw user values, nothing coalesced): a chart is handed the table
    \* under its name in its parent's scope and nothing else - without such a table it sees nothing, never the parent's values
    Chk("C11_EngineScope", o.dok /\ \A r \in Rng(o.seenraw) : Rng(r.leaves) = D!Sub(D!UserVals(c), r.P), "", FALSE),
    \* globals flow down, the ancestor's setting wins
    Chk("C11_ScopeGlobal", o.aok => \A P \in Both : D!ScopeGlobOK(c, P, SeenAt(P)), sc, o.aok /\ SeenAsCode),
    \* a disabled dependency brings no schema check; an enabled one with violated schema is named
    Chk("C11_SchemaChecks",
        o.aok => (IF Bad(Both) = {} THEN ~o.schemaErr ELSE o.schemaErr /\ Rng(o.named) = {D!NameOf(P) : P \in Bad(Both)}),
        en, o.aok /\ Rend = Tpl(EC) /\ (IF Bad(Tpl(EC)) = {} THEN ~o.schemaErr ELSE o.schemaErr /\ Rng(o.named) = {D!NameOf(P) : P \in Bad(Tpl(EC))})),
    \* templates, hooks, CRDs and notes of exactly the enabled instances reach the release
    Chk("C11_Manifest", o.bok => Rng(o.manifest) = Tpl(E), en, Rng(o.manifest) = Tpl(EC)),
    Chk("C11_Hooks",    o.bok => Rng(o.hooks) = Tpl(E),    en, Rng(o.hooks) = Tpl(EC)),
    Chk("C11_Notes",    o.bok => Rng(o.notes) = Tpl(E),    en, Rng(o.notes) = Tpl(EC)),
    Chk("C11_Crds",     o.bok => Rng(o.crds) = Crd(E), en, Rng(o.crds) = Crd(EC)),
    \* real install: the CRDs of exactly the enabled instances reach the cluster (a rejected install may have sent fewer, never others)
    Chk("C11_InstallCrds", o.hist => (Rng(o.icrds) \subseteq RawC(E) /\ (o.iok => Rng(o.icrds) = RawC(E))),
        en, Rng(o.icrds) \subseteq RawC(EC) /\ (o.iok => Rng(o.icrds) = RawC(EC))),
    Chk("C11_InstallManifest", o.hist => ((o.iok \/ o.ischema) /\ (o.iok => Rng(o.imanifest) = Tpl(E))), en, o.iok /\ Rng(o.imanifest) = Tpl(EC)),
    \* an upgrade without values: the carried-over values decide what is enabled ...
    Chk("C11_UpgradeCarries", \A u \in Ups({"upgrade"}) : UpOK(u), en, \A u \in Ups({"upgrade"}) : UpAsCode(u)),
    Chk("C11_UpgradeReuses", \A u \in Ups({"upgrade-reuse", "upgrade-reset-then-reuse"}) : UpOK(u), en,
        \A u \in Ups({"upgrade-reuse", "upgrade-reset-then-reuse"}) : UpAsCode(u)),
    \* ... and after reset-values the chart defaults alone
    Chk("C11_UpgradeResets", \A u \in Ups({"upgrade-reset"}) : UpOK(u), en, \A u \in Ups({"upgrade-reset"}) : UpAsCode(u)),
    \* an upgrade whose values switch dependencies on / off relative to the deployed revision: only the new revision's
    \* enabled charts contribute templates and EXECUTED hooks
    Chk("C11_UpgradeSwitches", \A u \in Ups({"upgrade-new"}) : UpOK(u), en, \A u \in Ups({"upgrade-new"}) : UpAsCode(u)),
    \* the template run fails only at the schema gate
    Chk("C11_TemplateRuns", o.bok \/ o.schemaErr, "", FALSE),
    [n |-> "NoStrayFiles", kind |-> "mach", v |-> o.stray = <<>>, kf |-> ""] >>

Tag(ch) == IF ch.kind = "mach" THEN "OBSMACH" ELSE IF ch.kf # "" THEN "OBSKNOWN" ELSE "OBSVIOL"

Report(line) ==
  LET chs == Checks(Obs[line]) IN
  \A j \in DOMAIN chs : IF chs[j].v THEN TRUE
                        ELSE PrintT(Tag(chs[j]) \o " " \o ToString(line) \o " " \o chs[j].n \o " 0 " \o chs[j].kf \o " ;")

Init == i = 0
Next == i < Len(Obs) /\ i' = i + 1 /\ Report(i + 1)
Spec == Init /\ [][Next]_i

Done == TLCGet("stats").diameter = Len(Obs) + 1
=============================================================================
