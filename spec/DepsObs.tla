------------------------------ MODULE DepsObs ------------------------------
(***************************************************************************)
(* C11 verdicts.  Reads the observations hv_deps recorded from the real     *)
(* code (obs.ndjson, one line per case) and judges them with the            *)
(* PROPERTY-SHAPED operators of Deps.tla only:                               *)
(*   run A  chartutil.ProcessDependencies -> ToRenderValues -> engine.Render:*)
(*          the set of chart instances whose probe template was rendered and *)
(*          the .Values each probe saw;                                      *)
(*   run B  action.Install as `helm template --include-crds` runs it: the    *)
(*          instances that contributed a manifest document, a hook, a CRD, a *)
(*          NOTES.txt, and whether the schema gate rejected and whom it named.*)
(* A failing check is excused only in the shape of a known finding, and then *)
(* only if the observation equals what the code-shaped model predicts for    *)
(* that shape (any other deviation in such a case is still a violation).     *)
(*   "OBSVIOL  <line> <check> 0 ;"          the property is violated         *)
(*   "OBSKNOWN <line> <check> 0 <id[+id]> ;" ... in the shape of known finding(s) *)
(*   "OBSMACH  <line> <check> 0 ;"          the machinery cannot decide      *)
(***************************************************************************)
EXTENDS Integers, Sequences, FiniteSets, TLC, Json

D == INSTANCE Schema WITH Shapes <- <<>>, sh <- 0, asg <- <<>>

Obs == ndJsonDeserialize("obs.ndjson")

VARIABLE i

Rng(f) == {f[x] : x \in DOMAIN f}

KfGlobal == "KF-C11-global-kind-conflict"
KfAlias  == "KF-C11-alias-below-top-own-defaults"
KfShared == "KF-C11-shared-dependency-entries-renamed"

Join(a, b) == IF a = "" THEN b ELSE IF b = "" THEN a ELSE a \o "+" \o b
\* the known shapes a case has (as far as they can explain a wrong set of rendered charts / a wrong scope)
EnShapes(c)    == Join(IF D!AliasBelowTop(c) THEN KfAlias ELSE "", IF D!SharedAliasedDep(c) THEN KfShared ELSE "")
ScopeShapes(c) == Join(IF D!GlobalKindConflict(c) THEN KfGlobal ELSE "", EnShapes(c))

Checks(o) ==
  LET c    == D!CaseOfJ(o.case)
      Rend == Rng(o.rendered)
      \* the enabled set the property demands (where it leaves two readings open, the one observed if it is one of them)
      E    == IF Rend \in D!ExpEs(c) THEN Rend ELSE D!ExpE(c)
      SeenAt(P) == Rng((CHOOSE s \in Rng(o.seen) : s.P = P).leaves)
      Both == E \cap Rend
      \* what the code-shaped model predicts (evaluated only when a strict check fails)
      EC   == D!EnabledCode(c)
      SeenAsCode == Rend = EC /\ \A P \in Rend : SeenAt(P) = D!CodeScope(c, P)
      Crd(X) == {P \in X : c.charts[D!ChartAt(c, P)].crds}
      Bad(X) == {P \in X : D!SchemaOf(c, P) # <<>> /\ ~D!SchemaValid(D!SchemaOf(c, P), SeenAt(P))}
      en == EnShapes(c)
      sc == ScopeShapes(c)
      Chk(n, v, shapes, asCode) == [n |-> n, kind |-> "prop", v |-> v, kf |-> IF v THEN "" ELSE IF shapes # "" /\ asCode THEN shapes ELSE ""]
  IN <<
    \* a dependency is rendered iff it is enabled; an alias makes it appear under the alias only
    Chk("C11_Rendered", o.aok /\ Rend = E, en, o.aok /\ Rend = EC),
    \* own values: exactly those destined for the chart; nothing of a parent or sibling; no defaults of a disabled dependency
    Chk("C11_ScopeOwn", o.aok => \A P \in Both : D!ScopeOwnOK(c, E, P, SeenAt(P)), sc, o.aok /\ SeenAsCode),
    \* globals flow down, the ancestor's setting wins
    Chk("C11_ScopeGlobal", o.aok => \A P \in Both : D!ScopeGlobOK(c, P, SeenAt(P)), sc, o.aok /\ SeenAsCode),
    \* a disabled dependency brings no schema check; an enabled one with violated schema is named
    Chk("C11_SchemaChecks",
        o.aok => (IF Bad(Both) = {} THEN ~o.schemaErr ELSE o.schemaErr /\ Rng(o.named) = {D!NameOf(P) : P \in Bad(Both)}),
        en, o.aok /\ Rend = EC /\ (IF Bad(EC) = {} THEN ~o.schemaErr ELSE o.schemaErr /\ Rng(o.named) = {D!NameOf(P) : P \in Bad(EC)})),
    \* templates, hooks, CRDs and notes of exactly the enabled instances reach the release
    Chk("C11_Manifest", o.bok => Rng(o.manifest) = E, en, Rng(o.manifest) = EC),
    Chk("C11_Hooks",    o.bok => Rng(o.hooks) = E,    en, Rng(o.hooks) = EC),
    Chk("C11_Notes",    o.bok => Rng(o.notes) = E,    en, Rng(o.notes) = EC),
    Chk("C11_Crds",     o.bok => Rng(o.crds) = Crd(E), en, Rng(o.crds) = Crd(EC)),
    \* the template run fails only at the schema gate
    Chk("C11_TemplateRuns", o.bok \/ o.schemaErr, "", FALSE),
    [n |-> "NoStrayFiles", kind |-> "mach", v |-> o.stray = <<>>, kf |-> ""] >>

Tag(ch) == IF ch.kind = "mach" THEN "OBSMACH" ELSE IF ch.kf # "" THEN "OBSKNOWN" ELSE "OBSVIOL"

Report(line) ==
  LET chs == Checks(Obs[line]) IN
  \A j \in DOMAIN chs : IF chs[j].v THEN TRUE
                        ELSE PrintT(Tag(chs[j]) \o " " \o ToString(line) \o " " \o chs[j].n \o " 0 " \o chs[j].kf \o " ;")

Init == i = 0
Next == i < Len(Obs) /\ i' = i + 1 /\ Report(i + 1)
Spec == Init /\ [][Next]_i

Done == TLCGet("stats").diameter = Len(Obs) + 1
=============================================================================
