------------------------------ MODULE WaitBase ------------------------------
(***************************************************************************)
(* Readiness waiting with the status-watcher strategy (the default):        *)
(* pkg/kube/statuswait.go + internal/statusreaders.  This is the component  *)
(* behind three clauses of the listed properties:                           *)
(*   C12  "each hook is created only after the previous one COMPLETED"      *)
(*        (cfg.execHook -> Waiter.WatchUntilReady per hook),                *)
(*   C03  "a resource never becomes ready ... the operation returns an      *)
(*        error" (Waiter.Wait / WaitWithJobs after the manifest is applied),*)
(*   C02  uninstall --wait (Waiter.WaitForDelete).                          *)
(* In the core specification (Helm.tla) a wait is one call with an outcome; *)
(* here the outcome is DERIVED from what the cluster publishes.             *)
(*                                                                          *)
(* The cluster publishes, for every watched object, a SCRIPT: the sequence  *)
(* of statuses it goes through (statuses only move forward; a terminal one  *)
(* stays).  Position k of every script is published at tick k; an object    *)
(* whose script is shorter keeps its last status.  The waiter may return    *)
(* "ok" at a tick only if every object is in the desired state AT THAT      *)
(* TICK; if the scripts end without that, the wait ends with the timeout    *)
(* error.                                                                   *)
(***************************************************************************)
EXTENDS Naturals, Sequences, FiniteSets, TLC

(* ----- statuses ----------------------------------------------------------- *)
\* Job: no status yet | pods running | one pod succeeded, none active, no condition yet (the moment between two
\*      pods of a multi-completion Job) | Complete=False published | Complete=True | Failed=True
JobSt == <<"new", "active", "succ1", "completeFalse", "complete", "failed">>
\* Pod: no status | Pending | Running, not Ready | Running and Ready | Succeeded | Failed
PodSt == <<"new", "pending", "running", "ready", "succeeded", "failed">>
\* anything else (ConfigMap ...): present; every kind: gone (deleted)
GenSt == <<"present">>

Kinds == {"Job", "Pod", "ConfigMap"}
StOf(kind) == CASE kind = "Job" -> JobSt [] kind = "Pod" -> PodSt [] OTHER -> GenSt

Rank(kind, s) == IF s = "gone" THEN 100 ELSE CHOOSE i \in 1..Len(StOf(kind)) : StOf(kind)[i] = s
Terminal(kind, s) == s = "gone" \/ (kind = "Job" /\ s \in {"complete", "failed"}) \/ (kind = "Pod" /\ s \in {"succeeded", "failed"})

\* scripts: strictly forward, nothing after a terminal status
IsScript(kind, sc) ==
  /\ Len(sc) >= 1
  /\ \A i \in 1..(Len(sc) - 1) : Rank(kind, sc[i]) < Rank(kind, sc[i + 1]) /\ ~Terminal(kind, sc[i])

At(sc, k) == IF k <= Len(sc) THEN sc[k] ELSE sc[Len(sc)]

(* ----- what each method waits for ------------------------------------------ *)
Methods == {"hook", "wait", "waitjobs", "delete"}
Strategies == {"watcher", "hookonly", "legacy"}       \* legacy: pkg/kube/wait.go (polling ReadyChecker, REST watch for hooks)

\* internal/statusreaders/job_status_reader.go:jobConditions - Current only with Complete=True
JobDone(s) == s = "complete"
\* internal/statusreaders/pod_status_reader.go:podConditions - Current only with phase Succeeded
PodDone(s) == s = "succeeded"
\* a pod is ready while Running with the Ready condition, or once Succeeded
PodReady(s) == s \in {"ready", "succeeded"}
\* ... the status watcher (kstatus default pod rule) also takes a FAILED pod as reconciled: known finding L27
PodReadyCode(s) == s \in {"ready", "succeeded", "failed"}

\* code = FALSE: the property's reading; code = TRUE: with the known deviation L27
\* The legacy strategy (pkg/kube/ready.go) takes a pod as ready only with the Ready condition (a pod that ran to
\* completion keeps the wait going until the timeout), never looks at kinds it has no rule for (they count as ready
\* even when they are gone), and gives up at once on a failed Job.
DesiredX(code, method, strategy, kind, s) ==
  LET podReady == IF strategy = "legacy" THEN s = "ready" ELSE IF code THEN PodReadyCode(s) ELSE PodReady(s) IN
  CASE method = "delete"   -> s = "gone"
    [] strategy = "legacy" /\ method # "hook" /\ kind \notin {"Job", "Pod"} -> TRUE
    [] s = "gone"          -> FALSE                     \* a deleted object is never ready
    [] method = "hook"     -> (CASE kind = "Job" -> JobDone(s) [] kind = "Pod" -> PodDone(s) [] OTHER -> TRUE)
    [] method = "waitjobs" -> (CASE kind = "Job" -> JobDone(s) [] kind = "Pod" -> podReady [] OTHER -> TRUE)
    [] OTHER               -> (CASE kind = "Pod" -> podReady [] OTHER -> TRUE)        \* wait: Jobs are not waited for
                                                                                      \* (cases with Jobs under plain wait are not generated)
Desired(method, strategy, kind, s) == DesiredX(FALSE, method, strategy, kind, s)

\* hookOnlyWaiter: only WatchUntilReady waits
Waits(method, strategy) == strategy \in {"watcher", "legacy"} \/ method = "hook"

AllDesiredAtX(code, c, k) == \A i \in DOMAIN c.objs : DesiredX(code, c.method, c.strategy, c.objs[i].kind, At(c.objs[i].script, k))
AllDesiredAt(c, k) == AllDesiredAtX(FALSE, c, k)
Ticks(c) == LET L == {Len(c.objs[i].script) : i \in DOMAIN c.objs} IN CHOOSE m \in L : \A x \in L : x <= m

\* expected outcome of a case: ok and the first tick at which the wait may end, or the timeout error
ExpectedX(code, c) ==
  IF ~Waits(c.method, c.strategy) THEN [ok |-> TRUE, tick |-> 1]
  ELSE LET good == {k \in 1..Ticks(c) : AllDesiredAtX(code, c, k)} IN
       IF good = {} THEN [ok |-> FALSE, tick |-> Ticks(c)]
       ELSE [ok |-> TRUE, tick |-> CHOOSE k \in good : \A j \in good : k <= j]
Expected(c) == ExpectedX(FALSE, c)

\* the desired state, once reached by all objects, is not left again (cases that flicker are not generated: whether
\* a waiter catches a state that lasts one tick is a matter of timing, not of the property)
\* A tick publishes the new statuses object by object (the cluster has no transactions, and a watcher learns about
\* different kinds through different streams, in any order): no state in which only SOME objects have their new
\* status may be the first desired one either - with two objects "pod becomes ready" and "configmap disappears" in
\* the same tick pass through a state in which a waiter may rightly end.
MicroDesiredX(code, c, k, J) ==
  \A i \in DOMAIN c.objs : DesiredX(code, c.method, c.strategy, c.objs[i].kind,
                                    IF i \in J THEN At(c.objs[i].script, k) ELSE At(c.objs[i].script, k - 1))
Stable(c) == \A code \in BOOLEAN :
               /\ \A k \in 1..Ticks(c) : AllDesiredAtX(code, c, k) => \A j \in k..Ticks(c) : AllDesiredAtX(code, c, j)
               /\ \A k \in 2..Ticks(c) : \A J \in (SUBSET DOMAIN c.objs) \ {{}, DOMAIN c.objs} :
                     MicroDesiredX(code, c, k, J) => AllDesiredAtX(code, c, k - 1)
=============================================================================
