SPECIFICATION Spec
CONSTANTS
  Family = "pair"
  Full = FALSE
  SetPairs = FALSE
CONSTRAINT ExportBatch
CHECK_DEADLOCK FALSE
