------------------------------- MODULE Creds -------------------------------
(***************************************************************************)
(* C19 - repository credentials stay with their origin.                     *)
(*                                                                          *)
(* A URL is a record [scheme, host, upper, port, user, dir]: host is an     *)
(* abstract host identity (names are case-insensitive, so the spelling with *)
(* upper-case letters - upper - is the same host), port = 0 means that no   *)
(* port is written, user is the userinfo part, dir the path prefix.         *)
(*   Origin(u) = <<scheme, host, effective port>>.                          *)
(*                                                                          *)
(* A case = call path x repository URL x form of the chart URL that the     *)
(* repository's index names (relative, absolute same origin, or absolute    *)
(* and differing from the repository URL in exactly one of scheme, host,    *)
(* port, host case, userinfo, default-port spelling, path) x pass-          *)
(* credentials x "the chart URL answers with a redirect to an unrelated     *)
(* domain" x TLS settings on the repository entry x (dependency update of   *)
(* a chart with two dependencies from two repositories) the order of the    *)
(* two.  The specification plays the request flow of every call path       *)
(* as the code does it (which getter options are in force for which         *)
(* request) and records every request with the Authorization decision.      *)
(* TLC enumerates all cases and all flows, checks CredsOK on the model's    *)
(* own requests and exports every finished case.  The verdict on helm comes *)
(* from CredsObs.tla, which evaluates the same predicate on the requests    *)
(* a capture server OBSERVED from the real code.                            *)
(***************************************************************************)
EXTENDS Integers, Sequences, FiniteSets, TLC, Json

CONSTANTS Repos,       \* set of repository URLs
          Paths,       \* set of call paths
          Variants,    \* set of chart URL forms
          Redirects,   \* subset of BOOLEAN
          TLSKinds,    \* TLS settings a repository entry may carry: "none", "ca", "cert", "insecure"
          PullGated    \* FALSE: Pull.Run as pinned (no origin test, lead L17); TRUE: Pull.Run tests the origin like LocateChart

DefaultPort(s) == IF s = "https" THEN 443 ELSE 80
EffPort(u)     == IF u.port = 0 THEN DefaultPort(u.scheme) ELSE u.port
Origin(u)      == <<u.scheme, u.host, EffPort(u)>>

\* the property (one direction only): credentials imply pass-credentials or the repository's origin
CredsOK(passAll, repo, r) == r.auth => (passAll \/ Origin(r.url) = Origin(repo))

\* what pkg/getter/httpgetter.go:get and pkg/action/install.go:LocateChart test:
\* scheme and the WRITTEN host[:port] compared as strings
SameWritten(a, b) == /\ a.scheme = b.scheme
                     /\ a.host = b.host
                     /\ a.upper = b.upper
                     /\ a.port = b.port

OtherScheme(s) == IF s = "https" THEN "http" ELSE "https"

\* the chart URL of a case: form "rel" is a relative index entry (resolved against the repository)
ChartOf(repo, v) ==
  CASE v = "rel"      -> repo
    [] v = "same"     -> repo
    [] v = "path"     -> [repo EXCEPT !.dir = "mirror"]
    [] v = "scheme"   -> [repo EXCEPT !.scheme = OtherScheme(repo.scheme)]
    [] v = "host"     -> [repo EXCEPT !.host = "other"]
    [] v = "sub"      -> [repo EXCEPT !.host = "sub"]        \* a sub-domain of the repository host
    [] v = "suffix"   -> [repo EXCEPT !.host = "suffix"]     \* a host whose name starts with the repository's
    [] v = "port"     -> [repo EXCEPT !.port = IF repo.port = 9090 THEN 7070 ELSE 9090]
    [] v = "case"     -> [repo EXCEPT !.upper = ~repo.upper]
    [] v = "user"     -> [repo EXCEPT !.user = "plain"]
    [] v = "userhost" -> [repo EXCEPT !.user = "hostlike", !.host = "other"]   \* repo-host@other
    [] v = "defport"  -> [repo EXCEPT !.port = IF repo.port = 0 THEN DefaultPort(repo.scheme) ELSE 0]

Relative(v) == v = "rel"

RedirTarget == [scheme |-> "http", host |-> "cdn", upper |-> FALSE, port |-> 0, user |-> "", dir |-> "pub"]

\* Go's net/http keeps Authorization across a redirect only to the same domain or a sub-domain
RelatedDomain(from, to) == to.host = from.host \/ (from.host = "repo" /\ to.host = "sub")

NeedsIndexFetch(p) == p \in {"locate", "pull", "manager", "manager2"}
FetchesProv(p)     == p # "getter"

\* a second, public repository (no credentials) that a chart may depend on besides the private one
PublicRepo == [scheme |-> "http", host |-> "public", upper |-> FALSE, port |-> 0, user |-> "", dir |-> "charts"]

VARIABLES cfg,     \* the case
          pc,      \* position in the request flow of the case
          reqs     \* requests sent so far: [kind, url, auth]
vars == <<cfg, pc, reqs>>

\* A case.  tls: TLS settings on the repository entry (none / a CA file / ...): they must not change
\* where credentials go.  order: path "manager2" updates a chart with TWO dependencies, one from the
\* private repository and one from the public one, in either order; what is configured for one
\* dependency must not leak into the request for the other.
Cases ==
       [path : Paths \ {"manager2"}, repo : Repos, variant : Variants, passAll : BOOLEAN, redirect : Redirects,
        tls : {"none"}, order : {"single"}, conf : {"fresh"}]
  \cup [path : Paths \cap {"dl_name", "dl_url", "manager"}, repo : Repos, variant : Variants, passAll : BOOLEAN,
        redirect : Redirects, tls : TLSKinds \ {"none"}, order : {"single"}, conf : {"fresh"}]
  \cup [path : Paths \cap {"manager2"}, repo : Repos, variant : Variants, passAll : BOOLEAN, redirect : {FALSE},
        tls : TLSKinds, order : {"privfirst", "pubfirst"}, conf : {"fresh"}]
  \* a history of the repository configuration: the entry was first registered WITH pass-credentials (and a
  \* CA file), then registered again under the same name and URL as the case says; what counts is the last one
  \cup [path : Paths \cap {"dl_name", "dl_url", "manager"}, repo : Repos, variant : Variants, passAll : {FALSE},
        redirect : {FALSE}, tls : {"none"}, order : {"single"}, conf : {"readded"}]
  \cup [path : Paths \cap {"manager2"}, repo : Repos, variant : Variants, passAll : {FALSE}, redirect : {FALSE},
        tls : {"none"}, order : {"privfirst", "pubfirst"}, conf : {"readded"}]

Init == /\ cfg \in Cases
        /\ pc = 1
        /\ reqs = <<>>

Chart == ChartOf(cfg.repo, cfg.variant)

\* does ChartDownloader.scanReposForURL find the chart URL in the configured repository's cached
\* index?  Only an absolute entry is string-equal to the reference.
FoundInIndex == ~Relative(cfg.variant)

\* Authorization decision for the chart request (and the .prov request, same getter options)
ChartAuth ==
  LET gate == cfg.passAll \/ SameWritten(cfg.repo, Chart) IN
  CASE cfg.path = "getter"   -> gate                \* WithURL(repo), WithBasicAuth
    [] cfg.path = "dl_name"  -> gate                \* repo/chart reference: options scoped by rc.URL
    [] cfg.path = "dl_url"   -> IF FoundInIndex THEN gate ELSE FALSE
                                                    \* owner repository found: its URL and credentials; else none
    [] cfg.path = "locate"   -> gate                \* explicit test in LocateChart, then WithURL(chart URL)
    [] cfg.path = "pull"     -> IF PullGated THEN gate ELSE TRUE
                                                    \* Pull.Run: no test, WithURL(chart URL) compares the URL with itself
    [] cfg.path \in {"manager", "manager2"} -> IF FoundInIndex THEN gate ELSE TRUE
                                                    \* relative entry: no owner found, WithURL(chart URL), repo credentials

\* the request flow of the case, as a sequence of steps
PrivSteps == <<"chart">> \o (IF cfg.redirect THEN <<"redirected">> ELSE <<>>)
                        \o (IF FetchesProv(cfg.path) THEN <<"prov">> ELSE <<>>)
PubSteps  == <<"pubchart", "pubprov">>
Flow == (IF NeedsIndexFetch(cfg.path) THEN <<"index">> ELSE <<>>)
        \o (IF cfg.path = "manager2" THEN <<"pubindex">> ELSE <<>>)
        \o (IF cfg.path # "manager2" THEN PrivSteps
            ELSE IF cfg.order = "privfirst" THEN PrivSteps \o PubSteps ELSE PubSteps \o PrivSteps)

ReqOf(step) ==
  CASE step = "index"      -> [kind |-> "index", url |-> cfg.repo, auth |-> TRUE]
    [] step = "chart"      -> [kind |-> "chart", url |-> Chart, auth |-> ChartAuth]
    [] step = "redirected" -> [kind |-> "redirected", url |-> RedirTarget, auth |-> ChartAuth /\ RelatedDomain(Chart, RedirTarget)]
    [] step = "prov"       -> [kind |-> "prov", url |-> Chart, auth |-> ChartAuth]
    [] step = "pubindex"   -> [kind |-> "index", url |-> PublicRepo, auth |-> FALSE]   \* no credentials are configured for it
    [] step = "pubchart"   -> [kind |-> "chart", url |-> PublicRepo, auth |-> FALSE]
    [] step = "pubprov"    -> [kind |-> "prov", url |-> PublicRepo, auth |-> FALSE]

Done == pc > Len(Flow)

Send == /\ ~Done
        /\ reqs' = Append(reqs, ReqOf(Flow[pc]))
        /\ pc' = pc + 1
        /\ UNCHANGED cfg

Next == Send
Spec == Init /\ [][Next]_vars

(* ----- the property on the model's own requests ---------------------------- *)

ModelOK == \A i \in DOMAIN reqs : CredsOK(cfg.passAll, cfg.repo, reqs[i])

\* lead L17 (action.Pull with RepoURL): the shape under which the faithful model breaks the property
KnownShape == ~PullGated /\ cfg.path = "pull" /\ ~cfg.passAll /\ Origin(Chart) # Origin(cfg.repo)

Inv_CredsModuloKnown == ModelOK \/ KnownShape
Inv_CredsStrict      == ModelOK

\* the code's string comparison is at least as strict as origin equality
Inv_WrittenImpliesOrigin == SameWritten(cfg.repo, Chart) => Origin(cfg.repo) = Origin(Chart)

(* ----- export ---------------------------------------------------------------- *)

PathNo(p) == CASE p = "getter" -> 1 [] p = "dl_name" -> 2 [] p = "dl_url" -> 3 [] p = "locate" -> 4
               [] p = "pull" -> 5 [] p = "manager" -> 6 [] p = "manager2" -> 7
VarNo(v) == CASE v = "rel" -> 1 [] v = "same" -> 2 [] v = "path" -> 3 [] v = "scheme" -> 4 [] v = "host" -> 5
              [] v = "sub" -> 6 [] v = "suffix" -> 7 [] v = "port" -> 8 [] v = "case" -> 9 [] v = "user" -> 10
              [] v = "userhost" -> 11 [] v = "defport" -> 12
RepoNo(r) == (IF r.scheme = "https" THEN 1 ELSE 0) + 2 * (IF r.port = 0 THEN 0 ELSE IF r.port = 8080 THEN 1 ELSE 2)
TLSNo(t) == CASE t = "none" -> 0 [] t = "ca" -> 1 [] t = "cert" -> 2 [] t = "insecure" -> 3
OrderNo(o) == CASE o = "single" -> 0 [] o = "privfirst" -> 1 [] o = "pubfirst" -> 2
CaseNo == ((((((PathNo(cfg.path) * 16 + VarNo(cfg.variant)) * 8 + RepoNo(cfg.repo)) * 2
            + (IF cfg.passAll THEN 1 ELSE 0)) * 2 + (IF cfg.redirect THEN 1 ELSE 0)) * 4 + TLSNo(cfg.tls)) * 3 + OrderNo(cfg.order)) * 2
          + (IF cfg.conf = "readded" THEN 1 ELSE 0)

Export ==
  IF Done
  THEN JsonSerialize("gen/k" \o ToString(CaseNo) \o ".json",
         [id |-> CaseNo, path |-> cfg.path, repo |-> cfg.repo, variant |-> cfg.variant, relative |-> Relative(cfg.variant),
          chart |-> Chart, passAll |-> cfg.passAll, redirect |-> cfg.redirect, target |-> RedirTarget,
          tls |-> cfg.tls, order |-> cfg.order, conf |-> cfg.conf, public |-> PublicRepo,
          model |-> reqs, modelOK |-> ModelOK, crossOrigin |-> Origin(Chart) # Origin(cfg.repo)])
  ELSE TRUE
=============================================================================
