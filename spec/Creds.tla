------------------------------- MODULE Creds -------------------------------
(***************************************************************************)
(* C19 - repository credentials stay with their origin.                     *)
(*                                                                          *)
(* A URL is a record [scheme, host, upper, port, user, dir]: host is an     *)
(* abstract host identity (names are case-insensitive, so the spelling with *)
(* upper-case letters - upper - is the same host), port = 0 means that no   *)
(* port is written, user is the userinfo part, dir the path prefix.         *)
(*   Origin(u) = <<scheme, host, effective port>>.                          *)
(*                                                                          *)
(* A case = call path x repository URL x form of the chart URL that the     *)
(* repository's index names (relative, absolute same origin, or absolute    *)
(* and differing from the repository URL in exactly one of scheme, host,    *)
(* port, host case, userinfo, default-port spelling, path) x pass-          *)
(* credentials x "the chart URL answers with a redirect to an unrelated     *)
(* domain".  The specification plays the request flow of every call path   *)
(* as the code does it (which getter options are in force for which         *)
(* request) and records every request with the Authorization decision.      *)
(* TLC enumerates all cases and all flows, checks CredsOK on the model's    *)
(* own requests and exports every finished case.  The verdict on helm comes *)
(* from CredsObs.tla, which evaluates the same predicate on the requests    *)
(* a capture server OBSERVED from the real code.                            *)
(***************************************************************************)
EXTENDS Integers, Sequences, FiniteSets, TLC, Json

CONSTANTS Repos,       \* set of repository URLs
          Paths,       \* set of call paths
          Variants,    \* set of chart URL forms
          Redirects,   \* subset of BOOLEAN
          PullGated    \* FALSE: Pull.Run as pinned (no origin test, lead L17); TRUE: Pull.Run tests the origin like LocateChart

DefaultPort(s) == IF s = "https" THEN 443 ELSE 80
EffPort(u)     == IF u.port = 0 THEN DefaultPort(u.scheme) ELSE u.port
Origin(u)      == <<u.scheme, u.host, EffPort(u)>>

\* the property (one direction only): credentials imply pass-credentials or the repository's origin
CredsOK(passAll, repo, r) == r.auth => (passAll \/ Origin(r.url) = Origin(repo))

\* what pkg/getter/httpgetter.go:get and pkg/action/install.go:LocateChart test:
\* scheme and the WRITTEN host[:port] compared as strings
SameWritten(a, b) == /\ a.scheme = b.scheme
                     /\ a.host = b.host
                     /\ a.upper = b.upper
                     /\ a.port = b.port

OtherScheme(s) == IF s = "https" THEN "http" ELSE "https"

\* the chart URL of a case: form "rel" is a relative index entry (resolved against the repository)
ChartOf(repo, v) ==
  CASE v = "rel"      -> repo
    [] v = "same"     -> repo
    [] v = "path"     -> [repo EXCEPT !.dir = "mirror"]
    [] v = "scheme"   -> [repo EXCEPT !.scheme = OtherScheme(repo.scheme)]
    [] v = "host"     -> [repo EXCEPT !.host = "other"]
    [] v = "sub"      -> [repo EXCEPT !.host = "sub"]        \* a sub-domain of the repository host
    [] v = "suffix"   -> [repo EXCEPT !.host = "suffix"]     \* a host whose name starts with the repository's
    [] v = "port"     -> [repo EXCEPT !.port = IF repo.port = 9090 THEN 7070 ELSE 9090]
    [] v = "case"     -> [repo EXCEPT !.upper = ~repo.upper]
    [] v = "user"     -> [repo EXCEPT !.user = "plain"]
    [] v = "userhost" -> [repo EXCEPT !.user = "hostlike", !.host = "other"]   \* repo-host@other
    [] v = "defport"  -> [repo EXCEPT !.port = IF repo.port = 0 THEN DefaultPort(repo.scheme) ELSE 0]

Relative(v) == v = "rel"

RedirTarget == [scheme |-> "http", host |-> "cdn", upper |-> FALSE, port |-> 0, user |-> "", dir |-> "pub"]

\* Go's net/http keeps Authorization across a redirect only to the same domain or a sub-domain
RelatedDomain(from, to) == to.host = from.host \/ (from.host = "repo" /\ to.host = "sub")

NeedsIndexFetch(p) == p \in {"locate", "pull", "manager"}
FetchesProv(p)     == p # "getter"

VARIABLES cfg,     \* the case
          pc,      \* "index" | "chart" | "redirect" | "prov" | "done"
          reqs     \* requests sent so far: [kind, url, auth]
vars == <<cfg, pc, reqs>>

Cases == [path : Paths, repo : Repos, variant : Variants, passAll : BOOLEAN, redirect : Redirects]

Init == /\ cfg \in Cases
        /\ pc = IF NeedsIndexFetch(cfg.path) THEN "index" ELSE "chart"
        /\ reqs = <<>>

Chart == ChartOf(cfg.repo, cfg.variant)

\* does ChartDownloader.scanReposForURL find the chart URL in the configured repository's cached
\* index?  Only an absolute entry is string-equal to the reference.
FoundInIndex == ~Relative(cfg.variant)

\* Authorization decision for the chart request (and the .prov request, same getter options)
ChartAuth ==
  LET gate == cfg.passAll \/ SameWritten(cfg.repo, Chart) IN
  CASE cfg.path = "getter"   -> gate                \* WithURL(repo), WithBasicAuth
    [] cfg.path = "dl_name"  -> gate                \* repo/chart reference: options scoped by rc.URL
    [] cfg.path = "dl_url"   -> IF FoundInIndex THEN gate ELSE FALSE
                                                    \* owner repository found: its URL and credentials; else none
    [] cfg.path = "locate"   -> gate                \* explicit test in LocateChart, then WithURL(chart URL)
    [] cfg.path = "pull"     -> IF PullGated THEN gate ELSE TRUE
                                                    \* Pull.Run: no test, WithURL(chart URL) compares the URL with itself
    [] cfg.path = "manager"  -> IF FoundInIndex THEN gate ELSE TRUE
                                                    \* relative entry: no owner found, WithURL(chart URL), repo credentials

FetchIndex ==
  /\ pc = "index"
  /\ reqs' = Append(reqs, [kind |-> "index", url |-> cfg.repo, auth |-> TRUE])
  /\ pc' = "chart"
  /\ UNCHANGED cfg

FetchChart ==
  /\ pc = "chart"
  /\ reqs' = Append(reqs, [kind |-> "chart", url |-> Chart, auth |-> ChartAuth])
  /\ pc' = IF cfg.redirect THEN "redirect" ELSE IF FetchesProv(cfg.path) THEN "prov" ELSE "done"
  /\ UNCHANGED cfg

FollowRedirect ==
  /\ pc = "redirect"
  /\ reqs' = Append(reqs, [kind |-> "redirected", url |-> RedirTarget,
                           auth |-> ChartAuth /\ RelatedDomain(Chart, RedirTarget)])
  /\ pc' = IF FetchesProv(cfg.path) THEN "prov" ELSE "done"
  /\ UNCHANGED cfg

FetchProv ==
  /\ pc = "prov"
  /\ reqs' = Append(reqs, [kind |-> "prov", url |-> Chart, auth |-> ChartAuth])
  /\ pc' = "done"
  /\ UNCHANGED cfg

Next == FetchIndex \/ FetchChart \/ FollowRedirect \/ FetchProv
Spec == Init /\ [][Next]_vars

(* ----- the property on the model's own requests ---------------------------- *)

ModelOK == \A i \in DOMAIN reqs : CredsOK(cfg.passAll, cfg.repo, reqs[i])

\* lead L17 (action.Pull with RepoURL): the shape under which the faithful model breaks the property
KnownShape == ~PullGated /\ cfg.path = "pull" /\ ~cfg.passAll /\ Origin(Chart) # Origin(cfg.repo)

Inv_CredsModuloKnown == ModelOK \/ KnownShape
Inv_CredsStrict      == ModelOK

\* the code's string comparison is at least as strict as origin equality
Inv_WrittenImpliesOrigin == SameWritten(cfg.repo, Chart) => Origin(cfg.repo) = Origin(Chart)

(* ----- export ---------------------------------------------------------------- *)

PathNo(p) == CASE p = "getter" -> 1 [] p = "dl_name" -> 2 [] p = "dl_url" -> 3 [] p = "locate" -> 4
               [] p = "pull" -> 5 [] p = "manager" -> 6
VarNo(v) == CASE v = "rel" -> 1 [] v = "same" -> 2 [] v = "path" -> 3 [] v = "scheme" -> 4 [] v = "host" -> 5
              [] v = "sub" -> 6 [] v = "suffix" -> 7 [] v = "port" -> 8 [] v = "case" -> 9 [] v = "user" -> 10
              [] v = "userhost" -> 11 [] v = "defport" -> 12
RepoNo(r) == (IF r.scheme = "https" THEN 1 ELSE 0) + 2 * (IF r.port = 0 THEN 0 ELSE IF r.port = 8080 THEN 1 ELSE 2)
CaseNo == ((((PathNo(cfg.path) * 16 + VarNo(cfg.variant)) * 8 + RepoNo(cfg.repo)) * 2
            + (IF cfg.passAll THEN 1 ELSE 0)) * 2 + (IF cfg.redirect THEN 1 ELSE 0))

Export ==
  IF pc = "done"
  THEN JsonSerialize("gen/k" \o ToString(CaseNo) \o ".json",
         [id |-> CaseNo, path |-> cfg.path, repo |-> cfg.repo, variant |-> cfg.variant, relative |-> Relative(cfg.variant),
          chart |-> Chart, passAll |-> cfg.passAll, redirect |-> cfg.redirect, target |-> RedirTarget,
          model |-> reqs, modelOK |-> ModelOK, crossOrigin |-> Origin(Chart) # Origin(cfg.repo)])
  ELSE TRUE
=============================================================================
