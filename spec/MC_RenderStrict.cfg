SPECIFICATION Spec
CONSTANT InputSeq <- SeqFromFile
CONSTANT Hosts <- HostsFull
INVARIANT DetManifest
INVARIANT DetNotes
INVARIANT DetCrds
INVARIANT DetSchema
CHECK_DEADLOCK FALSE
