SPECIFICATION Spec
CONSTANT Inputs <- StrictInputs
CONSTANT Hosts <- HostsFull
INVARIANT DetManifest
INVARIANT DetNotes
INVARIANT DetCrds
INVARIANT DetSchema
CHECK_DEADLOCK FALSE
