----------------------------- MODULE RenderBase -----------------------------
(***************************************************************************)
(* Data and reference semantics shared by the render-pipeline              *)
(* specification (Render.tla), the case generators (RenderCases.tla) and   *)
(* the observation monitor (RenderObs.tla) for properties C05 and C08.     *)
(*                                                                         *)
(* An INPUT is an abstract chart + options:                                *)
(*   files : Seq([p : path rank, docs : Seq([k : kind, c : class, g : prog])]) *)
(*           regular templates, ascending path rank, one entry per file    *)
(*   parts : Seq(path rank)  partial files (_x.tpl) present; each defines  *)
(*           the named templates "shared" and "wrap" tagged with its rank  *)
(*   notes : Seq(path rank)  NOTES.txt files present                       *)
(*   subs  : Seq(chart)      subcharts present (charts/<name>/)            *)
(*   crds  : Seq(chart)      charts that carry one file under crds/        *)
(*   decl  : "none" | "fwd" | "rev"  whether (and in which order) the      *)
(*           parent's Chart.yaml lists the subcharts under dependencies:   *)
(*   subNotes, dns : BOOLEAN (Install.SubNotes, Install.EnableDNS)         *)
(*   schema : "none" | "local" | "rel" | "file" | "http"  form of the $ref *)
(*           in values.schema.json;  schemaAt : chart holding the schema   *)
(*                                                                         *)
(* Paths are represented by their RANK in the byte-wise lexicographic      *)
(* order of the full template names (TLC has no string <); the Go harness  *)
(* reports sort.Strings of the same universe and RenderObs checks that     *)
(* the table below is that order.                                          *)
(***************************************************************************)
EXTENDS Integers, Sequences, FiniteSets, TLC, SequencesExt

PathName == <<
  "p/charts/s1/templates/A.yaml",           \*  1  (differs from 5 only in letter case)
  "p/charts/s1/templates/NOTES.txt",        \*  2
  "p/charts/s1/templates/_h.tpl",           \*  3
  "p/charts/s1/templates/_jobs/m.yaml",     \*  4  (an ordinary template in a directory whose name starts with "_")
  "p/charts/s1/templates/a.yaml",           \*  5
  "p/charts/s1/templates/b.yaml",           \*  6
  "p/charts/s1/templates/sub/NOTES.txt",    \*  7  (a NOTES.txt below a sub-directory of templates/)
  "p/charts/s2/templates/NOTES.txt",        \*  8
  "p/charts/s2/templates/_h.tpl",           \*  9
  "p/charts/s2/templates/a.yaml",           \* 10
  "p/templates/A.yaml",                     \* 11  (differs from 16 only in letter case)
  "p/templates/NOTES.txt",                  \* 12
  "p/templates/_h.tpl",                     \* 13
  "p/templates/_jobs/m.yaml",               \* 14  (an ordinary template in a directory whose name starts with "_")
  "p/templates/_z.tpl",                     \* 15
  "p/templates/a.yaml",                     \* 16
  "p/templates/b.yaml",                     \* 17
  "p/templates/c.yaml",                     \* 18
  "p/templates/sub/NOTES.txt" >>            \* 19
\* names for the ranks
S1A == 1   S1N == 2   S1H == 3   S1J == 4   S1a == 5   S1b == 6   S1SN == 7
S2N == 8   S2H == 9   S2a == 10
PA == 11   PN == 12   PH == 13   PJ == 14   PZ == 15   Pa == 16   Pb == 17   Pc == 18   PSN == 19
PChart == <<"s1", "s1", "s1", "s1", "s1", "s1", "s1", "s2", "s2", "s2", "p", "p", "p", "p", "p", "p", "p", "p", "p">>
PType  == <<"tpl", "notes", "part", "tpl", "tpl", "tpl", "notes", "notes", "part", "tpl",
            "tpl", "notes", "part", "tpl", "part", "tpl", "tpl", "tpl", "notes">>
PSlash == <<4, 4, 4, 5, 4, 4, 5, 4, 4, 4, 2, 2, 2, 3, 2, 2, 2, 2, 3>>     \* strings.Count(name, "/")
ParentNotes == PN                                        \* path.Join(ch.Name(), "templates", "NOTES.txt")
ChartRank(c) == CASE c = "p" -> 0 [] c = "s1" -> 1 [] c = "s2" -> 2 [] OTHER -> 9

\* Range(f) and FlattenSeq(ss) come from Functions / SequencesExt

(* ----- kind tables: pkg/release/util/kind_sorter.go ---------------------- *)

InstallOrder == <<
  "PriorityClass", "Namespace", "NetworkPolicy", "ResourceQuota", "LimitRange", "PodSecurityPolicy",
  "PodDisruptionBudget", "ServiceAccount", "Secret", "SecretList", "ConfigMap", "StorageClass",
  "PersistentVolume", "PersistentVolumeClaim", "CustomResourceDefinition", "ClusterRole", "ClusterRoleList",
  "ClusterRoleBinding", "ClusterRoleBindingList", "Role", "RoleList", "RoleBinding", "RoleBindingList",
  "Service", "DaemonSet", "Pod", "ReplicationController", "ReplicaSet", "Deployment",
  "HorizontalPodAutoscaler", "StatefulSet", "Job", "CronJob", "IngressClass", "Ingress", "APIService",
  "MutatingWebhookConfiguration", "ValidatingWebhookConfiguration" >>

UninstallOrder == <<
  "ValidatingWebhookConfiguration", "MutatingWebhookConfiguration", "APIService", "Ingress", "IngressClass",
  "Service", "CronJob", "Job", "StatefulSet", "HorizontalPodAutoscaler", "Deployment", "ReplicaSet",
  "ReplicationController", "Pod", "DaemonSet", "RoleBindingList", "RoleBinding", "RoleList", "Role",
  "ClusterRoleBindingList", "ClusterRoleBinding", "ClusterRoleList", "ClusterRole", "CustomResourceDefinition",
  "PersistentVolumeClaim", "PersistentVolume", "StorageClass", "ConfigMap", "SecretList", "Secret",
  "ServiceAccount", "PodDisruptionBudget", "PodSecurityPolicy", "LimitRange", "ResourceQuota", "NetworkPolicy",
  "Namespace", "PriorityClass" >>

\* kinds used by the cases: two table kinds far apart (and in the opposite of alphabetical order on
\* install), two kinds outside the tables; "" is the kind of a document without a kind (comment only)
KnownKinds   == {"Secret", "Deployment"}
UnknownAlpha == <<"", "Gadget", "Widget">>        \* alphabetical order of the kinds outside the tables
KindUniverse == KnownKinds \cup Range(UnknownAlpha)

Pos(tab, k) == IF \E i \in DOMAIN tab : tab[i] = k THEN CHOOSE i \in DOMAIN tab : tab[i] = k ELSE 0

\* lessByKind as a key: table kinds by table position, then the others alphabetically
KeyIn(tab, k) == LET q == Pos(tab, k) IN IF q > 0 THEN q ELSE 1000 + Pos(UnknownAlpha, k)
InstKeyTab   == [k \in KindUniverse |-> KeyIn(InstallOrder, k)]
UninstKeyTab == [k \in KindUniverse |-> KeyIn(UninstallOrder, k)]
InstKey(k)   == InstKeyTab[k]
UninstKey(k) == UninstKeyTab[k]

(* ----- sequences ---------------------------------------------------------- *)

\* stable insertion sort of a sequence of records by their integer field `key`
\* (sort.SliceStable with a less that only looks at the key)
RECURSIVE InsertKeyed(_, _)
InsertKeyed(sorted, x) ==
  IF sorted = <<>> THEN <<x>>
  ELSE IF Head(sorted).key <= x.key THEN <<Head(sorted)>> \o InsertKeyed(Tail(sorted), x)
  ELSE <<x>> \o sorted
RECURSIVE SortKeyed(_)
SortKeyed(s) == IF s = <<>> THEN <<>> ELSE InsertKeyed(SortKeyed(SubSeq(s, 1, Len(s) - 1)), s[Len(s)])

Vals(s) == [j \in DOMAIN s |-> s[j].val]

\* sort.Strings / sort.Sort(BySplitManifestsOrder) on a sequence of ranks / indices
SortInts(s) == Vals(SortKeyed([j \in DOMAIN s |-> [key |-> s[j], val |-> s[j]]]))

\* engine.sortTemplates: sort.Sort(sort.Reverse(byPathLen)); byPathLen = fewer "/" first, then by name
SortTemplates(s) == Vals(SortKeyed([j \in DOMAIN s |-> [key |-> 0 - (PSlash[s[j]] * 100 + s[j]), val |-> s[j]]]))

AnySeq(S) == SetToSeq(S)

NoDup(s) == \A a, b \in DOMAIN s : a # b => s[a] # s[b]

(* ----- documents ----------------------------------------------------------- *)

\* classes: what the hook annotation of a document looks like (or that the document is empty)
PlainCls   == {"plain", "annot"}            \* no annotation / only an annotation that is not helm.sh/hook
HookCls    == {"hook1", "hookw", "hook2", "hookU"}   \* helm.sh/hook names known events only (event names are
                                                     \* case-insensitive: hookU is spelled "Pre-Install", hook2 "pre-install, POST-UPGRADE")
DropCls    == {"unk", "mixed"}              \* an unknown event / a known and an unknown event
EmptyCls   == {"blank", "comment"}          \* whitespace only / comments only
AllCls     == PlainCls \cup HookCls \cup DropCls \cup EmptyCls

HookEv(c)  == CASE c \in {"hook1", "hookU"} -> <<"pre-install">>
                [] c = "hookw" -> <<"post-install">>
                [] c = "hook2" -> <<"pre-install", "post-upgrade">>
                [] OTHER -> <<>>
HookW(c)   == CASE c = "hookw" -> 0 - 5 [] c = "hook2" -> 3 [] OTHER -> 0
HookPol(c) == CASE c = "hookw" -> <<"before-hook-creation">>
                [] c = "hook2" -> <<"hook-succeeded", "hook-failed">>
                [] OTHER -> <<>>

DocKind(d) == IF d.c = "comment" THEN "" ELSE d.k

\* template programs: what the payload (data.v) of a document is computed from
IncProgs == {"INC", "INC2", "TPL", "TPL2"}       \* need the named template "shared"
ErrProgs == {"ENV", "EXPANDENV"}                 \* functions that must not exist
\* programs that write / read render state shared by the files of a chart (sprig `set` on .Values):
\*   SET  records "s<rank>" under .Values.state;  GET prints .Values.state (default "unset");
\*   GETS (parent files only) prints the SUBCHART's state through .Values.s1.state;
\*   MUT  prefixes the name of every element of the default list .Values.ports with the release name and prints it;
\*   FAIL aborts the render with its own message
StateProgs == {"SET", "GET", "GETS", "MUT"}
\*   CAPV prints .Capabilities.KubeVersion.Version (not judged: "*"), CAPA prints .Capabilities.APIVersions.Has of an
\*   API version that only an --api-versions option could add (the enumerated inputs carry no such option: "false")
\*   FCFG / FSEC print (.Files.Glob "conf/**").AsConfig / .AsSecrets where conf/a/x.txt and conf/b/x.txt share a base
\*   name (which one wins is not judged: "*"; that it is always the same one is), FGLOB2 ranges over that Glob;
\*   LOOK prints the size of `lookup` of an object that exists in every simulated cluster: a render without a cluster
\*   connection sees nothing ("0"), whatever this process rendered before
Progs    == {"LIT", "VAL", "FGET", "FGLOB", "FOUT", "DNS", "FAIL", "CAPV", "CAPA", "FCFG", "FSEC", "FGLOB2", "LOOK"} \cup IncProgs \cup ErrProgs \cup StateProgs

FileOf(inp, p) == inp.files[CHOOSE j \in DOMAIN inp.files : inp.files[j].p = p]
TplPaths(inp)  == {inp.files[j].p : j \in DOMAIN inp.files}
AllDocs(inp)   == UNION {{<<inp.files[j].p, i>> : i \in DOMAIN inp.files[j].docs} : j \in DOMAIN inp.files}
DocAt(inp, id) == FileOf(inp, id[1]).docs[id[2]]
ProgsUsed(inp) == {DocAt(inp, id).g : id \in AllDocs(inp)}

\* the named template "shared" a call resolves to: the definition parsed LAST wins
Winner(parseOrder, parts) ==
  LET defs == SelectSeq(parseOrder, LAMBDA p : p \in parts) IN IF defs = <<>> THEN 0 ELSE defs[Len(defs)]

Payload(g, ch, w, dns) ==
  CASE g = "LIT"   -> "lit"
    [] g = "VAL"   -> "v-" \o ch
    [] g = "INC"   -> "D" \o ToString(w)
    [] g = "INC2"  -> "W" \o ToString(w) \o "(D" \o ToString(w) \o ")"
    [] g = "TPL"   -> "T[D" \o ToString(w) \o "]"
    [] g = "TPL2"  -> "U[T[D" \o ToString(w) \o "]]"
    [] g = "FGET"  -> "F-" \o ch
    [] g = "FGLOB" -> "files/a.txt;files/b.txt;"
    [] g = "FOUT"  -> "[]"
    [] g = "DNS"   -> IF dns THEN "*" ELSE "[]"       \* "*" = not judged (resolution was enabled)
    [] g = "CAPV"  -> "*"
    [] g \in {"FCFG", "FSEC"} -> "*"
    [] g = "FGLOB2" -> "conf/a/x.txt;conf/b/x.txt;"
    [] g = "LOOK"  -> "0"
    [] g = "CAPA"  -> "false"
    [] OTHER       -> "?"

(* The files of a chart share one scope (.Values is ONE map), and the engine executes the files in   *)
(* parse order (sortTemplates), every document of a file top to bottom: the payload of a document   *)
(* is a function of everything executed before it.  st = [chart |-> [s : recorded state, m : how    *)
(* often the default list was mutated]].                                                            *)
RECURSIVE RelPrefix(_)
RelPrefix(k) == IF k = 0 THEN "" ELSE "rel-" \o RelPrefix(k - 1)
InitState == [ch \in {"p", "s1", "s2"} |-> [s |-> "unset", m |-> 0]]

StepPay(inp, id, w, st) ==
  LET d == DocAt(inp, id)  ch == PChart[id[1]] IN
  CASE d.c = "comment" -> [v |-> "", st |-> st]
    [] d.g = "SET"  -> [v |-> "set", st |-> [st EXCEPT ![ch].s = "s" \o ToString(id[1])]]
    [] d.g = "GET"  -> [v |-> st[ch].s, st |-> st]
    [] d.g = "GETS" -> [v |-> st["s1"].s, st |-> st]
    [] d.g = "MUT"  -> [v |-> RelPrefix(st[ch].m + 1) \o "http", st |-> [st EXCEPT ![ch].m = @ + 1]]
    [] OTHER        -> [v |-> Payload(d.g, ch, w, inp.dns), st |-> st]

RECURSIVE PayFold(_, _, _, _, _)
PayFold(inp, ids, w, st, acc) ==
  IF ids = <<>> THEN acc
  ELSE LET r == StepPay(inp, Head(ids), w, st) IN PayFold(inp, Tail(ids), w, r.st, acc @@ (Head(ids) :> r.v))

\* the documents in execution order, given the order in which the files were parsed
ExecFiles(inp, parseOrder) == SelectSeq(parseOrder, LAMBDA p : p \in TplPaths(inp))
ExecDocs(inp, parseOrder) ==
  LET fo == ExecFiles(inp, parseOrder) IN
  FlattenSeq([j \in DOMAIN fo |-> [i \in DOMAIN FileOf(inp, fo[j]).docs |-> <<fo[j], i>>]])
PayMap(inp, parseOrder, w) == PayFold(inp, ExecDocs(inp, parseOrder), w, InitState, <<>>)

\* the text of a NOTES.txt: the ones below a sub-directory look like YAML (parent) / are text that is NOT YAML (s1):
\* renderResources takes every rendered file whose name ends in NOTES.txt out of the files before they are sorted
NoteText(p) == CASE p = PSN  -> "status: N-p-sub"
                 [] p = S1SN -> "N-s1-sub: [not yaml"
                 [] OTHER    -> "N-" \o PChart[p]
RECURSIVE JoinNotes(_)
JoinNotes(s) == IF s = <<>> THEN "" ELSE IF Len(s) = 1 THEN NoteText(s[1]) ELSE NoteText(s[1]) \o "\n" \o JoinNotes(Tail(s))
NotesPassing(inp) == {p \in Range(inp.notes) : inp.subNotes \/ p = ParentNotes}

(* ----- the pipeline as functions of explicit iteration orders ------------- *)

FailingDoc(d, w) == d.g = "FAIL" \/ (d.g \in IncProgs /\ w = 0)
RenderErr(inp, w) ==
  IF ProgsUsed(inp) \cap ErrProgs # {} THEN "parse"
  ELSE IF \E id \in AllDocs(inp) : FailingDoc(DocAt(inp, id), w) THEN "exec"
  ELSE "none"
\* the file the reported error names: all files are parsed, then executed, in parse order; the first failure ends it
FirstWhere(seq, P(_)) == LET t == SelectSeq(seq, P) IN IF t = <<>> THEN 0 ELSE t[1]
RenderErrAt(inp, parseOrder, w) ==
  CASE RenderErr(inp, w) = "parse" ->
         FirstWhere(ExecFiles(inp, parseOrder), LAMBDA p : \E i \in DOMAIN FileOf(inp, p).docs : FileOf(inp, p).docs[i].g \in ErrProgs)
    [] RenderErr(inp, w) = "exec" ->
         FirstWhere(ExecFiles(inp, parseOrder), LAMBDA p : \E i \in DOMAIN FileOf(inp, p).docs : FailingDoc(FileOf(inp, p).docs[i], w))
    [] OTHER -> 0

\* SplitManifests: whitespace-only documents get no entry
Entries(f) == {i \in DOMAIN f.docs : f.docs[i].c # "blank"}

\* manifestFile.sort on the entries of one file in the given order
GenericOfFile(f, order) == [j \in DOMAIN SelectSeq(order, LAMBDA i : f.docs[i].c \in PlainCls \cup {"comment"}) |->
                              <<f.p, SelectSeq(order, LAMBDA i : f.docs[i].c \in PlainCls \cup {"comment"})[j]>>]
HooksOfFile(f, order)   == [j \in DOMAIN SelectSeq(order, LAMBDA i : f.docs[i].c \in HookCls) |->
                              <<f.p, SelectSeq(order, LAMBDA i : f.docs[i].c \in HookCls)[j]>>]

KindSort(inp, ids, Key(_)) == Vals(SortKeyed([j \in DOMAIN ids |-> [key |-> Key(DocKind(DocAt(inp, ids[j]))), val |-> ids[j]]]))

ManEntry(inp, id, pm)  == [p |-> id[1], i |-> id[2], v |-> pm[id]]
HookEntry(inp, id, pm) == LET c == DocAt(inp, id).c IN
  [p |-> id[1], i |-> id[2], v |-> pm[id], ev |-> HookEv(c), w |-> HookW(c), pol |-> HookPol(c)]

\* chartutil.ProcessDependencies (processDependencyEnabled): subcharts listed in Chart.yaml are re-added in
\* the listed order (every subchart is listed or none is); unlisted ones stay in the order LoadFiles left
DepsAfterProcess(inp, loadOrder) ==
  CASE inp.decl = "fwd" -> inp.subs [] inp.decl = "rev" -> Reverse(inp.subs) [] OTHER -> loadOrder

\* Chart.CRDObjects: own crds/ files first, then those of the dependencies in Dependencies() order.  The output lists
\* CHARTS; WITHIN a chart the files under crds/ come in the order the chart's files were loaded (archive / directory /
\* caller order: known finding KF-L30), which this model does not fix -- RenderObs recognises exactly that shape
CrdOrder(inp, deps) == (IF "p" \in Range(inp.crds) THEN <<"p">> ELSE <<>>) \o SelectSeq(deps, LAMBDA c : c \in Range(inp.crds))

(* ----- reference semantics: the output as a FUNCTION of the input ---------- *)
(* every map is walked in sorted key order; the host is not consulted at all   *)

RefSchema(inp) == CASE inp.schema = "none" -> "accept" [] inp.schema = "local" -> "accept" [] OTHER -> "error"

RefParseOrder(inp) == SortTemplates(AnySeq(TplPaths(inp) \cup Range(inp.parts) \cup Range(inp.notes)))
RefWinner(inp)     == Winner(RefParseOrder(inp), Range(inp.parts))

NoOut(e, at) == [err |-> e, errAt |-> at, manifest |-> <<>>, hooks |-> <<>>, notes |-> "", crds |-> <<>>]

F(inp) ==
  IF RefSchema(inp) # "accept" THEN NoOut("schema", 0)
  ELSE LET po == RefParseOrder(inp)
           w == RefWinner(inp)
           e == RenderErr(inp, w) IN
  IF e # "none" THEN NoOut(e, RenderErrAt(inp, po, w))
  ELSE LET fo  == SortInts(AnySeq(TplPaths(inp)))
           pm  == PayMap(inp, po, w)
           gen == FlattenSeq([j \in DOMAIN fo |-> GenericOfFile(FileOf(inp, fo[j]), SortInts(AnySeq(Entries(FileOf(inp, fo[j])))))])
           hk  == FlattenSeq([j \in DOMAIN fo |-> HooksOfFile(FileOf(inp, fo[j]), SortInts(AnySeq(Entries(FileOf(inp, fo[j])))))])
           gs  == KindSort(inp, gen, InstKey)
           hs  == KindSort(inp, hk, InstKey)
       IN [err |-> "none", errAt |-> 0,
           manifest |-> [j \in DOMAIN gs |-> ManEntry(inp, gs[j], pm)],
           hooks |-> [j \in DOMAIN hs |-> HookEntry(inp, hs[j], pm)],
           notes |-> JoinNotes(SortInts(AnySeq(NotesPassing(inp)))),
           crds |-> CrdOrder(inp, DepsAfterProcess(inp, inp.subs))]

\* what the code as it is can produce where it is NOT a function of the input (DESIGN section 9: L8, L21)
PossibleNotes(inp) == {JoinNotes(o) : o \in SetToSeqs(NotesPassing(inp))}
PossibleCrds(inp)  == {CrdOrder(inp, DepsAfterProcess(inp, o)) : o \in SetToSeqs(Range(inp.subs))}

KnownNotesShape(inp)  == Cardinality(NotesPassing(inp)) >= 2                                     \* L8-notes
KnownCrdsShape(inp)   == inp.decl = "none" /\ Cardinality(Range(inp.subs) \cap Range(inp.crds)) >= 2  \* L21
KnownSchemaShape(inp) == inp.schema \in {"rel", "file"}                                          \* L8-schema

(* ----- C08 as predicates on (input, id sequences) -- not via F -------------- *)

Ids(s) == [j \in DOMAIN s |-> <<s[j].p, s[j].i>>]

NonEmptyIds(inp) == {id \in AllDocs(inp) : DocAt(inp, id).c \notin EmptyCls}
CommentIds(inp)  == {id \in AllDocs(inp) : DocAt(inp, id).c = "comment"}
HookIds(inp)     == {id \in AllDocs(inp) : DocAt(inp, id).c \in HookCls}
DropIds(inp)     == {id \in AllDocs(inp) : DocAt(inp, id).c \in DropCls}
PlainIds(inp)    == {id \in AllDocs(inp) : DocAt(inp, id).c \in PlainCls}

Strip(inp, man)  == SelectSeq(man, LAMBDA id : id \notin CommentIds(inp))      \* comment-only documents are don't-care

\* every non-empty document is in exactly one place; nothing lost, duplicated or invented
C08_Partition(inp, man, hooks) ==
  LET m == Strip(inp, man) IN
  /\ NoDup(m)
  /\ NoDup(hooks)
  /\ Range(man) \subseteq AllDocs(inp)
  /\ Range(hooks) \subseteq AllDocs(inp)
  /\ Range(m) \cap Range(hooks) = {}
  /\ Range(m) \cup Range(hooks) \cup DropIds(inp) = NonEmptyIds(inp)
  /\ Len(m) + Len(hooks) + Cardinality(DropIds(inp)) = Cardinality(NonEmptyIds(inp))
\* the hook list holds exactly the documents naming only known events; the dropped ones are exactly the unknown-event ones
C08_Classes(inp, man, hooks) ==
  /\ Range(hooks) = HookIds(inp)
  /\ Range(Strip(inp, man)) = PlainIds(inp)
\* whitespace-only documents vanish; NOTES.txt and partials are never applied (their ranks never appear)
C08_NothingElse(inp, man, hooks) ==
  \A id \in Range(man) \cup Range(hooks) : id \in AllDocs(inp) /\ PType[id[1]] = "tpl" /\ DocAt(inp, id).c # "blank"
\* stable sort by the table: key non-decreasing, original order (path, position) within equal keys
OrderedBy(inp, s, Key(_)) ==
  \A a, b \in DOMAIN s : a < b =>
    LET ka == Key(DocKind(DocAt(inp, s[a])))  kb == Key(DocKind(DocAt(inp, s[b]))) IN
    \/ ka < kb
    \/ ka = kb /\ (s[a][1] < s[b][1] \/ (s[a][1] = s[b][1] /\ s[a][2] < s[b][2]))
C08_Order(inp, man, hooks) ==
  /\ Range(man) \subseteq AllDocs(inp) => OrderedBy(inp, Strip(inp, man), InstKey)
  /\ Range(hooks) \subseteq AllDocs(inp) => OrderedBy(inp, hooks, InstKey)
\* deletion on uninstall walks the kinds in the uninstall table order
C08_UninstallOrder(kinds) == \A a, b \in DOMAIN kinds : a < b => UninstKey(kinds[a]) <= UninstKey(kinds[b])
=============================================================================
