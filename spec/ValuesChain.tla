----------------------------- MODULE ValuesChain -----------------------------
(***************************************************************************)
(* C13: what an upgrade / rollback records as the user-supplied values of   *)
(* the new revision and which chart defaults are in force.                  *)
(*                                                                          *)
(* A chain is a sequence of steps                                           *)
(*   [op |-> "install", vals, chart]                                        *)
(*   [op |-> "upgrade", mode \in {"default","reset","reuse","rtr"}, vals,   *)
(*                      chart, fail]    (rtr = reset-then-reuse-values)     *)
(*        fail: the cluster update of this upgrade fails - the revision is  *)
(*        recorded (status failed) and the deployed revision stays deployed *)
(*   [op |-> "rollback", target]                                            *)
(* vals: map function (the values given on the command line of that step),  *)
(* chart: index into Defaults (the chart version's values.yaml).            *)
(*                                                                          *)
(* PROPERTY-SHAPED (PropRevs): per revision                                 *)
(*   hist  the user inputs that make up its recorded values, oldest first   *)
(*         (reset: the new ones alone; reuse / rtr: the deployed revision's *)
(*         overlaid with the new ones; default: the new ones if any, else   *)
(*         the deployed revision's; rollback: the target's)                 *)
(*   defs  the chart defaults in force (reuse: the deployed revision's;     *)
(*         otherwise the new chart's; rollback: the target's)               *)
(* recorded values = overlay of hist key by key (nulls kept);               *)
(* what templates see = defs overlaid with hist (a null removes a default). *)
(*                                                                          *)
(* CODE-SHAPED (CodeRevs): action.Upgrade.reuseValues / Rollback.           *)
(* prepareRollback: cfg := new | CoalesceTables(new, deployed.Config) |     *)
(* deployed.Config; with reuse chart.Values := CoalesceValues(deployed.      *)
(* Chart, deployed.Config); rendering = CoalesceValues(chart, cfg).         *)
(***************************************************************************)
EXTENDS Values

CONSTANTS Defaults,    \* sequence of map functions: values.yaml of chart version 1, 2, ...
          SubDefaults  \* the same for the chart's dependency "s1" (its own values.yaml per chart version)

IsUp(s) == s.op = "upgrade"
Fails(s) == s.op = "upgrade" /\ s.fail
\* the deployed revision before step n: the newest one whose step succeeded (step 1, the install, always does)
RECURSIVE DepAt(_, _)
DepAt(steps, n) == IF n <= 2 THEN n - 1 ELSE IF Fails(steps[n - 1]) THEN DepAt(steps, n - 1) ELSE n - 1
\* mode: the value flags given with the upgrade, "reset" / "reuse" / "rtr" joined by "+" ("default":
\* none of them).  Their documented precedence (helm upgrade --help; reuseValues tests them in this
\* order): --reset-values first, then --reuse-values ("if --reset-values is specified, this is
\* ignored"), then --reset-then-reuse-values ("if --reset-values or --reuse-values is specified,
\* this is ignored").  Eff: the flag that decides.
Eff(m) == CASE m \in {"reset", "reset+reuse", "reset+rtr", "reset+reuse+rtr"} -> "reset"
            [] m \in {"reuse", "reuse+rtr"} -> "reuse"
            [] m = "rtr" -> "rtr"
            [] OTHER -> "default"
Carries(s) == IsUp(s) /\ Eff(s.mode) \in {"reuse", "rtr"}

(* ----- property-shaped ---------------------------------------------------- *)
\* does the overlay put an explicit null over something the older values set? (shape of finding L18)
RECURSIVE NullOverSet(_, _)
NullOverSet(new, old) ==
  \E x \in DOMAIN new \cap DOMAIN old :
     \/ IsNull(new[x])
     \/ IsMap(new[x]) /\ IsMap(old[x]) /\ NullOverSet(new[x].m, old[x].m)

PropStep(revs, s, d) ==             \* d: index of the deployed revision
  LET dep == revs[d] IN
  CASE s.op = "install"  -> [hist |-> <<Mp(s.vals)>>, defs |-> s.chart]
    [] s.op = "rollback" -> revs[s.target]
    [] Eff(s.mode) = "reset"  -> [hist |-> <<Mp(s.vals)>>, defs |-> s.chart]
    [] Eff(s.mode) = "reuse"  -> [hist |-> Append(dep.hist, Mp(s.vals)), defs |-> dep.defs]
    [] Eff(s.mode) = "rtr"    -> [hist |-> Append(dep.hist, Mp(s.vals)), defs |-> s.chart]
    [] OTHER             -> [hist |-> IF s.vals # <<>> THEN <<Mp(s.vals)>> ELSE dep.hist, defs |-> s.chart]

RECURSIVE PropRevs(_, _)
PropRevs(steps, n) ==      \* the property's view of revisions 1..n
  IF n = 0 THEN <<>> ELSE LET r == PropRevs(steps, n - 1) IN Append(r, PropStep(r, steps[n], DepAt(steps, n)))

\* recorded values of the new revision, judged against the deployed revision's RECORDED values
\* (dep: map function) - the statement of C13 read step by step
ConfigOk(s, depCfg, tgtCfg, newCfg) ==
  CASE s.op = "install"  -> newCfg = s.vals
    [] s.op = "rollback" -> newCfg = tgtCfg
    [] Eff(s.mode) = "reset"  -> newCfg = s.vals
    [] Carries(s)        -> Ok(<<Mp(depCfg), Mp(s.vals)>>, Mp(newCfg), TRUE)
    [] OTHER             -> newCfg = IF s.vals # <<>> THEN s.vals ELSE depCfg

\* what the templates of the new revision see (eff: tree)
\* p.defs: the chart version whose defaults are in force - the chart's own values.yaml and, below
\* it, the values.yaml of its dependency s1 (seen by the chart's templates under the key s1)
DefSources(v) == <<Lift(Mp(SubDefaults[v]), <<"s1">>), Mp(Defaults[v])>>
EffectiveOk(p, eff) == Ok(DefSources(p.defs) \o p.hist, Norm(eff), FALSE)

(* ----- code-shaped ---------------------------------------------------------- *)
\* a revision's chart object: its root values and the version of the dependency packaged with it
ChartRec(vals, subv) == [name |-> "root", vals |-> vals,
                         deps |-> <<[name |-> "s1", vals |-> SubDefaults[subv], deps |-> <<>>]>>]
CodeStep(revs, s, d) ==             \* prepareUpgrade: currentRelease = Releases.Deployed(name)
  LET dep == revs[d] IN
  CASE s.op = "install"  -> [cfg |-> s.vals, chartvals |-> Defaults[s.chart], sub |-> s.chart]
    [] s.op = "rollback" -> revs[s.target]
    [] Eff(s.mode) = "reset"  -> [cfg |-> s.vals, chartvals |-> Defaults[s.chart], sub |-> s.chart]
    [] Eff(s.mode) = "reuse"  -> [cfg |-> CoalesceTables(s.vals, dep.cfg),
                             \* chart.Values := CoalesceValues(deployed.Chart, deployed.Config): the deployed chart WITH
                             \* its dependency; the chart object stays the new one (new dependency underneath)
                             chartvals |-> CoalesceValues(ChartRec(dep.chartvals, dep.sub), dep.cfg).v, sub |-> s.chart]
    [] Eff(s.mode) = "rtr"    -> [cfg |-> CoalesceTables(s.vals, dep.cfg), chartvals |-> Defaults[s.chart], sub |-> s.chart]
    [] OTHER             -> [cfg |-> IF s.vals = <<>> /\ dep.cfg # <<>> THEN dep.cfg ELSE s.vals,
                             chartvals |-> Defaults[s.chart], sub |-> s.chart]

RECURSIVE CodeRevs(_, _)
CodeRevs(steps, n) ==
  IF n = 0 THEN <<>> ELSE LET r == CodeRevs(steps, n - 1) IN Append(r, CodeStep(r, steps[n], DepAt(steps, n)))

CodeEffective(r) == Mp(CoalesceValues(ChartRec(r.chartvals, r.sub), r.cfg).v)

(* ----- one rule for every key ------------------------------------------------------------- *)
\* "Overlaid key by key with the new ones": what a null of the new values does to a key the
\* deployed revision's values set is the same whatever is stored there (scalar, table, null) - the
\* statement has no rule that looks at the kind of the old value.  NullTreat: how one overlay
\* treated the nulls it laid over set keys: "kept" (recorded as null - what C13 asks for),
\* "dropped" (key absent - finding L18), per key path.  new / old / res: map functions (new values,
\* deployed revision's recorded values, recorded result).
RECURSIVE NullTreat(_, _, _)
NullTreat(new, old, res) ==
  UNION { IF IsNull(new[x])
          THEN (IF x \notin DOMAIN res THEN {"dropped"} ELSE IF IsNull(res[x]) THEN {"kept"} ELSE {"other"})
          ELSE IF IsMap(new[x]) /\ IsMap(old[x]) /\ x \in DOMAIN res /\ IsMap(res[x])
               THEN NullTreat(new[x].m, old[x].m, res[x].m)
               ELSE {}
          : x \in DOMAIN new \cap DOMAIN old }

\* all overlays (reuse / reset-then-reuse steps, failed ones included: their revision is recorded
\* too) of steps 1..n of a chain; cfgs: recorded values per revision
TreatsUpTo(steps, cfgs, n) ==
  UNION { IF Carries(steps[i]) THEN NullTreat(steps[i].vals, cfgs[DepAt(steps, i)], cfgs[i]) ELSE {} : i \in 2..n }
NullUniform(steps, cfgs, n) == Cardinality(TreatsUpTo(steps, cfgs, n) \cap {"kept", "dropped"}) <= 1

(* ----- finding L18: lineage of a revision's values contains a null laid over a set key ---- *)
\* cfgs: the recorded values per revision (code-shaped in the model check, observed in the monitor)
RECURSIVE L18Lineage(_, _, _)
L18Lineage(steps, cfgs, n) ==
  LET s == steps[n] IN
  CASE s.op = "install"  -> FALSE
    [] s.op = "rollback" -> L18Lineage(steps, cfgs, s.target)
    [] Eff(s.mode) = "reset"  -> FALSE
    [] Carries(s)        -> NullOverSet(s.vals, cfgs[DepAt(steps, n)]) \/ L18Lineage(steps, cfgs, DepAt(steps, n))
    [] OTHER             -> IF s.vals # <<>> THEN FALSE ELSE L18Lineage(steps, cfgs, DepAt(steps, n))

(* ----- finding: a stored release has lost the chart's dependencies ------------------------------ *)
\* chart.Chart.dependencies is not part of the JSON a release record is stored as: read back from
\* Secret / ConfigMap storage the deployed chart has no subcharts, so reuse-values rebuilds "the old
\* coalesced values" without the dependency's values.yaml and the NEW version's dependency defaults
\* apply (the memory driver keeps the pointer and behaves as C13 says).  Shape: the defaults in
\* force at revision n were inherited through a reuse step between chart versions whose dependency
\* defaults differ.
RECURSIVE SubLostLineage(_, _)
SubLostLineage(steps, n) ==
  LET s == steps[n]
      d == DepAt(steps, n) IN
  CASE s.op = "install"  -> FALSE
    [] s.op = "rollback" -> SubLostLineage(steps, s.target)
    [] Eff(s.mode) = "reuse" -> SubDefaults[s.chart] # SubDefaults[PropRevs(steps, d)[d].defs] \/ SubLostLineage(steps, d)
    [] OTHER -> FALSE
=============================================================================
