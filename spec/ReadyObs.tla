------------------------------ MODULE ReadyObs ------------------------------
(***************************************************************************)
(* Verdict on the real ReadyChecker: ready_obs.ndjson holds, per case, what *)
(* IsReady answered (harness/fam/ready).  The expectation is recomputed     *)
(* here from the case the harness echoes (Ready.tla:Expected).              *)
(***************************************************************************)
EXTENDS Ready, Json

Obs == ndJsonDeserialize("ready_obs.ndjson")

VARIABLE l
Init == l = 0
Report(i) ==
  LET o == Obs[i] IN
  IF o.harness # "" THEN PrintT(<<"READYHARNESS", i, o.harness>>)
  ELSE IF o.got = Expected(o.case) THEN TRUE
  ELSE PrintT(<<"READYVIOL", i, o.case.kind, Expected(o.case), o.got>>)
Next == l < Len(Obs) /\ l' = l + 1 /\ Report(l + 1)
Spec == Init /\ [][Next]_l
Done == TLCGet("distinct") = Len(Obs) + 1
=============================================================================
