INIT Init
NEXT Next
CONSTANT Mode = "c08"
CONSTANT PartN = 3
CONSTANT PartSubN = 0
CONSTANT OneFileN = 0
CONSTANT MachN = 1
CONSTANT ProgN = 0
CONSTANT MachPaths = 0
CONSTANT MachProgN = 0
