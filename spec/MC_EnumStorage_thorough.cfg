SPECIFICATION EnumSpec
CONSTANTS
  Names = {"n1", "n2"}
  Revs = {1, 2, 3}
  Statuses = {"deployed", "superseded", "failed"}
  Variants = {1, 2}
  Menu <- EnumMenu
  MaxLen = 4
CONSTRAINT GenExport
CHECK_DEADLOCK FALSE
