------------------------------ MODULE MC_Shapes ------------------------------
(***************************************************************************)
(* Constants of Shapes.tla.  The field paths name places in the nominal     *)
(* documents of harness/fam/shapes (the harness refuses a path its nominal  *)
(* document does not have, unless the path is one of the optional fields).  *)
(* The token alphabets themselves (texts) live in the harness; the          *)
(* specification only fixes their sizes.                                    *)
(***************************************************************************)
EXTENDS Shapes

ShapesAll == {"absent", "null", "wrongscalar", "emptylist", "listnull", "map", "deep", "twonulls", "nullthenempty"}

DocsDef == [
  chartyaml |-> <<
    <<"name">>, <<"version">>, <<"apiVersion">>, <<"type">>, <<"kubeVersion">>, <<"keywords">>, <<"sources">>,
    <<"maintainers">>, <<"maintainers", "0">>, <<"maintainers", "0", "name">>, <<"annotations">>,
    <<"dependencies">>, <<"dependencies", "0">>, <<"dependencies", "0", "name">>, <<"dependencies", "0", "version">>,
    <<"dependencies", "0", "repository">>, <<"dependencies", "0", "condition">>, <<"dependencies", "0", "tags">>,
    <<"dependencies", "0", "alias">>, <<"dependencies", "0", "enabled">>, <<"dependencies", "0", "import-values">>,
    <<"dependencies", "0", "import-values", "0">>, <<"dependencies", "0", "import-values", "0", "child">>,
    <<"dependencies", "0", "import-values", "0", "parent">>, <<"dependencies", "0", "import-values", "1">> >>,
  values |-> <<
    <<>>, <<"replicas">>, <<"name">>, <<"list">>, <<"sub">>, <<"sub", "enabled">>, <<"sub", "x">>, <<"tags">>, <<"tags", "t">>,
    <<"global">>, <<"global", "g">>, <<"imported">> >>,
  subvalues |-> <<
    <<>>, <<"exports">>, <<"exports", "data">>, <<"exports", "data", "k">>, <<"global">>, <<"x">> >>,
  schema |-> <<
    <<>>, <<"$schema">>, <<"type">>, <<"properties">>, <<"properties", "replicas">>, <<"properties", "replicas", "type">>,
    <<"properties", "replicas", "minimum">>, <<"properties", "list", "items">>, <<"required">>, <<"$ref">>,
    <<"additionalProperties">> >>,
  index |-> <<
    <<>>, <<"apiVersion">>, <<"generated">>, <<"entries">>, <<"entries", "chart">>, <<"entries", "chart", "0">>,
    <<"entries", "chart", "1">>, <<"entries", "chart", "0", "name">>, <<"entries", "chart", "0", "version">>,
    <<"entries", "chart", "0", "urls">>, <<"entries", "chart", "0", "urls", "0">>, <<"entries", "chart", "0", "created">>,
    <<"entries", "chart", "0", "digest">>, <<"entries", "chart", "0", "dependencies">>,
    <<"entries", "chart", "0", "dependencies", "0">>, <<"entries", "chart", "0", "maintainers">>,
    <<"entries", "chart", "0", "annotations">> >>,
  lock |-> <<
    <<>>, <<"generated">>, <<"digest">>, <<"dependencies">>, <<"dependencies", "0">>, <<"dependencies", "0", "name">>,
    <<"dependencies", "0", "version">>, <<"dependencies", "0", "repository">> >>,
  plugin |-> <<
    <<>>, <<"name">>, <<"version">>, <<"usage">>, <<"command">>, <<"platformCommand">>, <<"platformCommand", "0">>,
    <<"platformCommand", "0", "args">>, <<"ignoreFlags">>, <<"hooks">>, <<"hooks", "install">>, <<"platformHooks">>,
    <<"platformHooks", "install">>, <<"platformHooks", "install", "0">>, <<"downloaders">>, <<"downloaders", "0">>,
    <<"downloaders", "0", "protocols">>, <<"downloaders", "0", "command">> >>,
  provblock |-> <<
    <<"meta">>, <<"meta", "name">>, <<"meta", "version">>, <<"meta", "dependencies">>, <<"sums">>, <<"sums", "files">>,
    <<"sums", "files", "chart-1.0.0.tgz">>, <<"sums", "images">> >>,
  release |-> <<
    <<>>, <<"name">>, <<"info">>, <<"info", "status">>, <<"info", "first_deployed">>, <<"info", "last_deployed">>,
    <<"info", "notes">>, <<"chart">>, <<"chart", "metadata">>, <<"chart", "metadata", "name">>, <<"chart", "values">>,
    <<"chart", "templates">>, <<"chart", "templates", "0">>, <<"chart", "files">>, <<"config">>, <<"manifest">>,
    <<"hooks">>, <<"hooks", "0">>, <<"hooks", "0", "events">>, <<"version">>, <<"namespace">> >>
]

AlphabetsDef == [manifest |-> 16, strvals |-> 18, ignore |-> 16, recursion |-> 8, layout |-> 7, crds |-> 5]

\* include -> tpl -> include cycles are bounded by the engine's per-name counter (1000), but every level of a cycle through
\* tpl clones the template set: a cycle of two templates already needs about 2 GB and 4 s on the unchanged code, so the
\* call graphs of this family stay at two named templates
\* layout: a text is a set of switches on which files a chart and its vendored subchart have (Chart.yaml absent,
\* legacy requirements.yaml / requirements.lock present, subchart vendored as an archive); crds: the documents of
\* one file under crds/, rendered by `helm template` with every combination of --include-crds and --show-only
TokCapDef == [manifest |-> 99, strvals |-> 99, ignore |-> 99, recursion |-> 2, layout |-> 3, crds |-> 3]

DamagesDef == <<"intact", "notbase64", "badgzip", "truncated", "notjson", "jsonlist", "wrongtype", "jsonnull",
                "emptyobject", "nullinfo", "nullchart", "nokey", "emptyvalue", "onebyte", "twobytes">>

ASSUME JsonSerialize("shapes_consts.json",
         [families |-> AlphabetsDef, damages |-> DamagesDef,
          docs |-> [d \in DOMAIN DocsDef |-> Len(DocsDef[d])]])
=============================================================================
