\* negative self-test: with a plain lexical join instead of SecureJoin the confinement invariant MUST fail
CONSTANTS
  MaxComps = 2
  MixedUpTo = 2
  SecureJoinOn = FALSE
  FLim = 4096
  TLim = 6000
  Huge = 1000000
  SizeEntries = 1
SPECIFICATION Spec
INVARIANT InvConfined
CHECK_DEADLOCK FALSE
