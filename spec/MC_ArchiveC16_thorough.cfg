CONSTANTS
  MaxComps = 4
  MixedUpTo = 3
  SecureJoinOn = TRUE
  FLim = 4096
  TLim = 6000
  Huge = 1000000
  SizeEntries = 3
SPECIFICATION Spec
INVARIANT InvConfined
INVARIANT InvConfinedAlways
INVARIANT InvNames
INVARIANT InvSizeReject
INVARIANT InvSizeBound
INVARIANT InvNoOversizeBody
INVARIANT InvRun
CHECK_DEADLOCK FALSE
