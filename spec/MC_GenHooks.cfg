SPECIFICATION Spec
CONSTANTS
  Procs = {1}
  MaxRev = 8
  MaxOps = 3
  MaxFaults = 3
  MaxCrash = 0
  MaxEdits = 0
  FaultKinds = {"wait", "res"}
  Sequential = TRUE
  Planned = TRUE
  MaxPlan = 36
  InitStores <- StoresEmpty
  LateStart = FALSE
  LogSched = FALSE
  KeepLog = FALSE
  OpMenu <- MenuHooks
  EditMenu <- EditsNone
  PreMenu <- PreHook
  Objs <- AllObjs
  MenuGuard <- GuardBias
CONSTRAINT GenExport
CHECK_DEADLOCK FALSE
