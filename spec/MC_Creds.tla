------------------------------ MODULE MC_Creds ------------------------------
EXTENDS Creds

U(scheme, port) == [scheme |-> scheme, host |-> "repo", upper |-> FALSE, port |-> port, user |-> "", dir |-> "charts"]

ReposQuick    == {U("http", 0), U("http", 8080), U("https", 8443)}
ReposThorough == ReposQuick \cup {U("https", 0), U("http", 9090)}

PathsAll == {"getter", "dl_name", "dl_url", "locate", "pull", "manager", "manager2"}
VariantsAll == {"rel", "same", "path", "scheme", "host", "sub", "suffix", "port", "case", "user", "userhost", "defport"}
=============================================================================
