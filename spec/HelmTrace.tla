------------------------------ MODULE HelmTrace ------------------------------
(***************************************************************************)
(* Trace validation: a trace recorded by harness/scen from the real        *)
(* pkg/action code is accepted iff it is a behaviour of Helm.tla.  Every   *)
(* logged event must be explained by one step of Helm!Next that carries    *)
(* the logged label (who, what call, on what, succeeded?, injected?) and    *)
(* that ends in exactly the logged projected state (ledger statuses,       *)
(* charts, manifests, hooks; every live object's fields, owner and         *)
(* policy).  Many scenarios are concatenated; a "reset" line starts a new  *)
(* one.                                                                     *)
(***************************************************************************)
EXTENDS Helm

Trace == ndJsonDeserialize("trace.ndjson")

VARIABLE l       \* next line of Trace to consume
tvars == <<vars, l>>

TObjs == {"r1", "r2", "r3", "r4", "r5", "h1", "h2", "h3", "h4", "by1", "by2", "c1", "c2"}

(* ----- JSON -> abstract state ------------------------------------------- *)

HooksOf(js) == [h \in {js[i].id : i \in DOMAIN js} |->
                  LET x == js[CHOOSE i \in DOMAIN js : js[i].id = h] IN
                  [kind |-> x.kind, events |-> Range(x.events), weight |-> x.weight]]

ModelHooks(hs) == [h \in DOMAIN hs |-> [kind |-> hs[h].kind, events |-> hs[h].events, weight |-> hs[h].weight]]

ManOf(jm) == [r \in DOMAIN jm |-> [kind |-> jm[r].kind, f1 |-> jm[r].f1, f2 |-> jm[r].f2, pol |-> jm[r].pol, ver |-> jm[r].ver]]

StoreMatches(s, js) ==
  /\ DOMAIN js \subseteq {ToString(r) : r \in Rev}
  /\ \A r \in Rev :
       IF ToString(r) \in DOMAIN js
       THEN LET j == js[ToString(r)] IN
            /\ s[r].st = j.st
            /\ s[r].ch = j.chart
            /\ j.rev = r
            /\ ManOf(j.man) = ManOf(s[r].man)
            /\ HooksOf(j.hooks) = ModelHooks(s[r].hooks)
       ELSE s[r].st = "none"

StoreOfJ(js) == [r \in Rev |-> IF ToString(r) \in DOMAIN js THEN MkRec(js[ToString(r)].st, js[ToString(r)].chart) ELSE NoRec]

ObjOf(j) == [f1 |-> j.f1, f2 |-> j.f2, own |-> j.own, pol |-> j.pol]

ClusterOf(jc) == [o \in TObjs |-> IF o \in DOMAIN jc THEN ObjOf(jc[o]) ELSE Absent]

ClusterMatches(c, jc) ==
  /\ DOMAIN jc \subseteq TObjs
  /\ c = ClusterOf(jc)

StateMatches(e) == StoreMatches(store', e.state.store) /\ ClusterMatches(cluster', e.state.cluster)

(* ----- events ------------------------------------------------------------ *)

MOf(e) == [kind |-> e.op, chart |-> IF e.chart = "" THEN "none" ELSE e.chart,
           replace |-> e.flags.replace, atomic |-> e.flags.atomic, cleanup |-> e.flags.cleanupOnFail,
           keep |-> e.flags.keepHistory, nohooks |-> e.flags.noHooks, lim |-> e.flags.maxHistory,
           ver |-> e.flags.version, dry |-> e.flags.dryRun, takeown |-> e.flags.takeOwnership,
           clientOnly |-> e.flags.clientOnly, createNS |-> e.flags.createNamespace, skipCRDs |-> e.flags.skipCRDs, force |-> e.flags.force, install |-> e.flags.install,
           incCRDs |-> e.flags.includeCRDs]

LabOf(e) == Lab(e.proc, "call", e.kind, e.verb, e.id, e.ok, e.inj)

TraceInit ==
  /\ l = 2
  /\ Trace[1].ev = "reset"
  /\ store = StoreOfJ(Trace[1].state.store)
  /\ cluster = ClusterOf(Trace[1].state.cluster)
  /\ pc = [p \in Procs |-> "idle"]
  /\ op = [p \in Procs |-> NoOp]
  /\ nops = [p \in Procs |-> 0]
  /\ nfaults = 0 /\ ncrash = 0 /\ nedits = 0
  /\ last = Lab(0, "init", "", "", "", TRUE, FALSE)
  /\ pre = [p \in Procs |-> [store |-> <<>>, cluster |-> <<>>]]
  /\ hist = <<>>
  /\ kfg = {}

TraceReset(e) ==
  /\ store' = StoreOfJ(e.state.store)
  /\ cluster' = ClusterOf(e.state.cluster)
  /\ pc' = [p \in Procs |-> "idle"]
  /\ op' = [p \in Procs |-> NoOp]
  /\ nops' = [p \in Procs |-> 0]
  /\ nfaults' = 0 /\ ncrash' = 0 /\ nedits' = 0
  /\ last' = Lab(0, "init", "", "", "", TRUE, FALSE)
  /\ pre' = [p \in Procs |-> [store |-> <<>>, cluster |-> <<>>]]
  /\ hist' = <<>>
  /\ kfg' = {}

TraceNext ==
  /\ l <= Len(Trace)
  /\ l' = l + 1
  /\ LET e == Trace[l] IN
     CASE e.ev = "reset" -> TraceReset(e)
       [] e.ev = "begin" -> BeginWith(e.proc, MOf(e)) /\ StateMatches(e)
       [] e.ev = "call"  -> CallStep(e.proc) /\ last' = LabOf(e) /\ StateMatches(e)
       [] e.ev = "end"   -> End(e.proc) /\ last'.ok = e.ok /\ StateMatches(e)
       [] e.ev = "crash" -> Crash(e.proc) /\ StateMatches(e)
       [] e.ev = "edit"  -> /\ EditWith([kind |-> e.kind, res |-> e.id,
                                         field |-> e.field,
                                         value |-> e.value])
                            /\ StateMatches(e)

TraceSpec == TraceInit /\ [][TraceNext]_tvars

\* depth of the search = number of lines consumed (TraceInit consumes line 1)
TraceAccepted ==
  LET d == TLCGet("stats").diameter IN
  IF d = Len(Trace) THEN TRUE
  ELSE Print(<<"TRACE-REJECTED matched-lines", d, "of", Len(Trace)>>, FALSE)

TGuard(m) == TRUE
TView == <<View, l>>
=============================================================================
