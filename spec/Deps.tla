-------------------------------- MODULE Deps --------------------------------
(***************************************************************************)
(* C11: which dependencies of a chart are rendered, and what .Values is    *)
(* inside every chart of a dependency tree.                                 *)
(*                                                                          *)
(* Two independent transcriptions:                                          *)
(*   code-shaped     EnabledCode / FinalCode follow                         *)
(*                   pkg/chart/v2/util/dependencies.go (processDependency-  *)
(*                   Enabled, -Tags, -Conditions, processImportValues) and  *)
(*                   coalesce.go (coalesce, coalesceDeps, coalesceGlobals,  *)
(*                   coalesceValues, coalesceTablesFullKey) call by call;   *)
(*   property-shaped ExpEnabled / Destined / ExpG / ScopeOK restate the     *)
(*                   sentence of property C11.                              *)
(* TLC enumerates a bounded space of cases (a case = chart tree + default   *)
(* values of every chart + user values), checks that both transcriptions    *)
(* agree (invariant Agree; a disagreement is a lead, to be confirmed on the *)
(* real code) and exports every case as JSON for the Go harness (hv_deps),  *)
(* which builds the real charts and runs the real code.  DepsObs.tla judges *)
(* the observations with the property-shaped operators (the code-shaped     *)
(* ones only narrow the excuse of a listed known finding).                  *)
(*                                                                          *)
(* Value trees.  A tree is a SET OF LEAVES [p |-> path, v |-> token]:       *)
(*   path  = sequence of keys,                                              *)
(*   token = "true" | "false" | "s:<text>" | "n:<int>" | "{}" (empty table) *)
(* no leaf path is a prefix of another.  This keeps every TLC value         *)
(* homogeneous (no comparison of a boolean with a string etc.) and is also  *)
(* the JSON form exchanged with the harness.  Lists and nulls are the       *)
(* business of C04 and do not occur here.                                   *)
(***************************************************************************)
EXTENDS Integers, Sequences, FiniteSets, TLC, Json

Range(f) == {f[i] : i \in DOMAIN f}
Front(s) == SubSeq(s, 1, Len(s) - 1)
Last(s)  == s[Len(s)]
MinOfSet(S) == CHOOSE x \in S : \A y \in S : x <= y
SeqOf(S) == LET RECURSIVE f(_)
                f(T) == IF T = {} THEN <<>> ELSE LET x == CHOOSE y \in T : TRUE IN <<x>> \o f(T \ {x})
            IN f(S)

L(p, v) == [p |-> p, v |-> v]

IsPrefix(p, q) == Len(p) <= Len(q) /\ SubSeq(q, 1, Len(p)) = p

WF(t) == \A l1 \in t : Len(l1.p) > 0 /\ \A l2 \in t : (l1 # l2) => ~IsPrefix(l1.p, l2.p)

HasNode(t, p)  == p = <<>> \/ \E l \in t : IsPrefix(p, l.p)
ScalarAt(t, p) == \E l \in t : l.p = p /\ l.v # "{}"
TableAt(t, p)  == HasNode(t, p) /\ ~ScalarAt(t, p)
\* "absent" | "table" | the scalar token
ValAt(t, p) == IF ScalarAt(t, p) THEN (CHOOSE l \in t : l.p = p).v
               ELSE IF HasNode(t, p) THEN "table" ELSE "absent"

\* the table below p (empty if p is absent, a scalar or an empty table)
Sub(t, p) == {L(SubSeq(l.p, Len(p) + 1, Len(l.p)), l.v) : l \in {m \in t : IsPrefix(p, m.p) /\ Len(m.p) > Len(p)}}
\* the table t placed under the (non-empty) path p
Put(p, t) == IF t = {} THEN {L(p, "{}")} ELSE {L(p \o l.p, l.v) : l \in t}
Without(t, keys) == {l \in t : l.p[1] \notin keys}
TopKeys(t) == {l.p[1] : l \in t}

(* coalesceTablesFullKey(dst, src) without nulls: dst is authoritative; a src   *)
(* leaf is added unless dst has anything at its path or a scalar above it.      *)
Merge(dst, src) ==
  LET add  == {l \in src : ~HasNode(dst, l.p) /\ \A i \in 1..(Len(l.p) - 1) : ~ScalarAt(dst, SubSeq(l.p, 1, i))}
      keep == {l \in dst : ~(l.v = "{}" /\ \E a \in add : IsPrefix(l.p, a.p))}
  IN keep \cup add

-----------------------------------------------------------------------------
(* Cases.                                                                     *)
(*   case.charts : chart name -> [deps, defaults, schema, crds]               *)
(*        deps     sequence of [name, alias, cond, tags] (Chart.yaml order);  *)
(*                 cond = sequence of key paths, tags = sequence of names     *)
(*        defaults tree (values.yaml)                                         *)
(*        schema   sequence of constraints (Schema.tla; <<>> = no schema)     *)
(*        crds     the chart ships a crds/ file                               *)
(*        notpl    the chart has no file under templates/ at all (a pure      *)
(*                 grouping chart): nothing of it is rendered, its            *)
(*                 dependencies are                                           *)
(*   case.user   : tree, values given in a values file                        *)
(*   case.uset   : tree, values given by --set (win over the file)            *)
(* The chart named "root" is the one installed; the same chart definition may *)
(* be referenced from several places (a chart used twice).                    *)

RootChart == "root"
IName(d) == IF d.alias = "" THEN d.name ELSE d.alias
DepsOf(case, ch) == Range(case.charts[ch].deps)
Defaults(case, ch) == case.charts[ch].defaults
UserVals(case) == Merge(case.uset, case.user)

DepAt(case, ch, n) == CHOOSE d \in DepsOf(case, ch) : IName(d) = n

\* the chart definition instantiated at instance path P.  (A last element that is no alias / name of a
\* Chart.yaml entry is a chart of the charts/ directory that ended up under its original name, see EnWalk.)
RECURSIVE ChartAt(_, _)
ChartAt(case, P) ==
  IF P = <<>> THEN RootChart
  ELSE LET par == ChartAt(case, Front(P)) IN
       IF \E d \in DepsOf(case, par) : IName(d) = Last(P) THEN DepAt(case, par, Last(P)).name ELSE Last(P)

\* the chart OBJECT behind an instance: the path of original chart names (two aliases of one chart share it)
RECURSIVE RawPath(_, _)
RawPath(case, P) == IF P = <<>> THEN <<>> ELSE RawPath(case, Front(P)) \o <<ChartAt(case, P)>>

\* every instance path of the tree (the root is <<>>)
RECURSIVE InstBelow(_, _, _)
InstBelow(case, P, ch) ==
  UNION {{P \o <<IName(d)>>} \cup InstBelow(case, P \o <<IName(d)>>, d.name) : d \in DepsOf(case, ch)}
AllInst(case) == {<<>>} \cup InstBelow(case, <<>>, RootChart)

WFCase(case) ==
  /\ WF(case.user) /\ WF(case.uset) /\ WF(UserVals(case))
  /\ \A ch \in DOMAIN case.charts : WF(Defaults(case, ch))
  \* instance names are unique among the dependencies of one chart
  /\ \A ch \in DOMAIN case.charts : \A i, j \in DOMAIN case.charts[ch].deps :
        i # j => IName(case.charts[ch].deps[i]) # IName(case.charts[ch].deps[j])

-----------------------------------------------------------------------------
(* CODE-SHAPED                                                                *)

(* coalesceGlobals(dest, src): the parent's global table (srcG) is merged into  *)
(* the subchart section's global table (destG), key by key: a table from the    *)
(* parent is deep-merged over the child's table (parent authoritative); where   *)
(* the two disagree on table / non-table the child's entry is kept ("Conflict:  *)
(* cannot merge map onto non-map" / "key is table. Skipping"); a parent scalar  *)
(* replaces a child scalar.                                                     *)
CoGlobals(destG, srcG) ==
  LET keys == TopKeys(srcG)
      Mine(k) == {l \in destG : l.p[1] = k}
      Res(k) == IF TableAt(srcG, <<k>>)
                THEN IF ~HasNode(destG, <<k>>) THEN Put(<<k>>, Sub(srcG, <<k>>))
                     ELSE IF ScalarAt(destG, <<k>>) THEN Mine(k)
                     ELSE Put(<<k>>, Merge(Sub(srcG, <<k>>), Sub(destG, <<k>>)))
                ELSE IF HasNode(destG, <<k>>) /\ TableAt(destG, <<k>>) THEN Mine(k)
                ELSE {L(<<k>>, ValAt(srcG, <<k>>))}
  IN Without(destG, keys) \cup UNION {Res(k) : k \in keys}

\* the section dv of a subchart after coalesceGlobals(dv, parentVals): it always has a global table
WithGlobals(dv, parentVals) ==
  Without(dv, {"global"}) \cup Put(<<"global">>, CoGlobals(Sub(dv, <<"global">>), Sub(parentVals, <<"global">>)))

(* coalesce(chart, dest) for a chart as loaded from disk: its subcharts are the  *)
(* charts of its charts/ directory under their ORIGINAL names, all present.      *)
RECURSIVE CoRaw(_, _, _)
CoRaw(case, ch, dest) ==
  LET v1   == Merge(dest, Defaults(case, ch))
      subs == {d.name : d \in DepsOf(case, ch)}
      Sec(n) == CoRaw(case, n, WithGlobals(Sub(v1, <<n>>), v1))
  IN Without(v1, subs) \cup UNION {Put(<<n>>, Sec(n)) : n \in subs}

(* The dependencies of chart object ch as processDependencyEnabled sees them.        *)
(* First visit: one alias copy per Chart.yaml entry, named by the alias (and the      *)
(* entry itself is renamed: req.Name = req.Alias).  The entries are shared by every   *)
(* alias copy of the chart, so on a LATER visit of the same chart object an aliased   *)
(* entry no longer matches any chart of charts/ (it gets no copy), while the chart it *)
(* named is no longer claimed by an entry and is kept under its original name with    *)
(* nothing that could disable it.                                                     *)
InstOfDep(d) == [n |-> IName(d), ch |-> d.name, cond |-> d.cond, tags |-> d.tags]
InstSeq(case, ch, visited) ==
  LET reqs == case.charts[ch].deps IN
  IF ~visited THEN [i \in DOMAIN reqs |-> InstOfDep(reqs[i])]
  ELSE LET plain == SelectSeq(reqs, LAMBDA d : d.alias = "")
           unclaimed == {d.name : d \in Range(reqs)} \ {d.name : d \in Range(plain)}
       IN SeqOf({[n |-> r, ch |-> r, cond |-> <<>>, tags |-> <<>>] : r \in unclaimed})
          \o [i \in DOMAIN plain |-> InstOfDep(plain[i])]

(* CoalesceValues(c, v) inside processDependencyEnabled(c, v, path): c's          *)
(* dependencies have just been replaced by the copies above, whose own subcharts  *)
(* are still raw.                                                                 *)
CoTop(case, ch, dest, insts) ==
  LET v1   == Merge(dest, Defaults(case, ch))
      Sec(t) == CoRaw(case, t.ch, WithGlobals(Sub(v1, <<t.n>>), v1))
  IN Without(v1, {t.n : t \in Range(insts)}) \cup UNION {Put(<<t.n>>, Sec(t)) : t \in Range(insts)}

\* Chart names may contain dots (aliases may not: chart.Dependency validation).  A values KEY is the whole name (coalesceDeps, recAllTpls index the table by
\* the name), but a condition PATH is a dotted string that Values.PathValue splits on every dot - so is the prefix
\* "<name>." that processDependencyEnabled puts before the condition paths of the charts below.  The dotted names of
\* the case space and their splittings:
DotSplit == ("my.sub" :> <<"my", "sub">>)
RECURSIVE PathKeys(_)
PathKeys(P) == IF P = <<>> THEN <<>>
               ELSE (IF P[1] \in DOMAIN DotSplit THEN DotSplit[P[1]] ELSE <<P[1]>>) \o PathKeys(Tail(P))

\* processDependencyTags: r.Enabled after the tags pass (it starts as TRUE)
TagDecision(d, cv) ==
  IF ~(HasNode(cv, <<"tags">>) /\ TableAt(cv, <<"tags">>)) THEN TRUE
  ELSE LET vt == Sub(cv, <<"tags">>)
           hasTrue  == \E i \in DOMAIN d.tags : ValAt(vt, <<d.tags[i]>>) = "true"
           hasFalse == \E i \in DOMAIN d.tags : ValAt(vt, <<d.tags[i]>>) = "false"
       IN IF ~hasTrue /\ hasFalse THEN FALSE ELSE TRUE

\* processDependencyConditions: the first path whose value is a boolean decides, else unchanged
CondDecision(d, cv, prefix, cur) ==
  LET bools == {i \in DOMAIN d.cond : ValAt(cv, prefix \o d.cond[i]) \in {"true", "false"}}
  IN IF bools = {} THEN cur ELSE ValAt(cv, prefix \o d.cond[MinOfSet(bools)]) = "true"

(* processDependencyEnabled(c, v, path): tags first, then conditions; the coalesced   *)
(* values of THIS call are handed down to the enabled dependencies, which are visited *)
(* in order (depth first).  M = the chart objects visited so far.  Result: the        *)
(* instance paths kept below P and the new M.                                         *)
RECURSIVE EnWalk(_, _, _, _, _, _)
RECURSIVE EnFold(_, _, _, _, _, _, _)
EnFold(case, P, rp, on, k, cv, acc) ==
  IF k > Len(on) THEN acc
  ELSE LET t == on[k]
           Q == P \o <<t.n>>
           r == EnWalk(case, Q, rp \o <<t.ch>>, t.ch, cv, acc.m)
       IN EnFold(case, P, rp, on, k + 1, cv, [en |-> acc.en \cup {Q} \cup r.en, m |-> r.m])
EnWalk(case, P, rp, ch, v, M) ==
  LET insts == InstSeq(case, ch, rp \in M)
      cv    == CoTop(case, ch, v, insts)
      on    == SelectSeq(insts, LAMBDA t : CondDecision(t, cv, PathKeys(P), TagDecision(t, cv)))
  IN EnFold(case, P, rp, on, 1, cv, [en |-> {}, m |-> M \cup {rp}])

EnabledCode(case) == {<<>>} \cup EnWalk(case, <<>>, <<>>, RootChart, UserVals(case), {}).en

(* After the enabled pass processDependencyImportValues rewrites c.Values of      *)
(* every remaining chart, children first, to MergeValues(c, nil) (Baked); then    *)
(* ToRenderValues coalesces the user values over the remaining tree (FinalCode).  *)
RECURSIVE CoFin(_, _, _, _, _)
RECURSIVE Baked(_, _, _)
CoFin(case, P, E, dest, orig) ==
  LET ch   == ChartAt(case, P)
      kids == {Last(Q) : Q \in {R \in E : Len(R) = Len(P) + 1 /\ IsPrefix(P, R)}}
      v1   == Merge(dest, IF orig THEN Defaults(case, ch) ELSE Baked(case, P, E))
      Sec(n) == CoFin(case, P \o <<n>>, E, WithGlobals(Sub(v1, <<n>>), v1), FALSE)
  IN Without(v1, kids) \cup UNION {Put(<<n>>, Sec(n)) : n \in kids}
Baked(case, P, E) == CoFin(case, P, E, {}, TRUE)

FinalCodeE(case, E) == CoFin(case, <<>>, E, UserVals(case), FALSE)
FinalCode(case) == FinalCodeE(case, EnabledCode(case))
CodeScope(case, P) == Sub(FinalCode(case), P)

-----------------------------------------------------------------------------
(* PROPERTY-SHAPED (the sentence of C11)                                      *)

\* "the values destined for it: its defaults overridden by the parent's section under its name or alias"
RECURSIVE Destined(_, _)
Destined(case, P) ==
  IF P = <<>> THEN Merge(UserVals(case), Defaults(case, RootChart))
  ELSE Merge(Sub(Destined(case, Front(P)), <<Last(P)>>), Defaults(case, ChartAt(case, P)))

\* "global values flow from every ancestor down to every descendant with the ancestor's setting winning"
RECURSIVE ExpG(_, _)
ExpG(case, P) ==
  IF P = <<>> THEN Sub(Destined(case, P), <<"global">>)
  ELSE Merge(ExpG(case, Front(P)), Sub(Destined(case, P), <<"global">>))

\* what a chart sees apart from the sections of its own dependencies
ExpOwn(case, P) == Without(Destined(case, P), {"global"}) \cup
                   (IF ExpG(case, P) = {} THEN {} ELSE Put(<<"global">>, ExpG(case, P)))

\* the parent's effective values as far as they matter for dependency d: what the parent sees, with
\* default values of its dependencies under their names.  Which dependencies?  The sentence of C11 does
\* not say whether a SIBLING that ends up disabled still lends its defaults to the decision (the
\* decisions are mutually dependent).  Both readings are kept:
\*   "own"  only d's own defaults count;   "all"  the defaults of every dependency of the parent count.
\* They differ only when a condition path of d points into a sibling's section and is decided by that
\* sibling's own default; then either outcome is accepted (stated in the evidence assumptions).
EffFor(case, P, d, rd) ==
  LET ds == IF rd = "own" THEN {d} ELSE DepsOf(case, ChartAt(case, P))
  IN Merge(ExpOwn(case, P), UNION {Put(<<IName(x)>>, Defaults(case, x.name)) : x \in ds})

\* the tags in force for the dependencies of the chart at P: the top-level `tags` table of the root's values, and
\* below the root the declaring chart's OWN default `tags` for what the root leaves unset
ExpTags(case, P) ==
  IF P = <<>> THEN Sub(Destined(case, <<>>), <<"tags">>)
  ELSE Merge(Sub(Destined(case, <<>>), <<"tags">>), Sub(Defaults(case, ChartAt(case, P)), <<"tags">>))

\* "the first condition path that resolves to a boolean in the parent's effective values decides,
\*  otherwise it is disabled exactly when some of its tags are false and none is true"
ExpEnabled(case, P, d, rd) ==
  LET eff   == EffFor(case, P, d, rd)
      bools == {i \in DOMAIN d.cond : ValAt(eff, d.cond[i]) \in {"true", "false"}}
      tg    == ExpTags(case, P)
  IN IF bools # {} THEN ValAt(eff, d.cond[MinOfSet(bools)]) = "true"
     ELSE ~( (\E i \in DOMAIN d.tags : ValAt(tg, <<d.tags[i]>>) = "false")
             /\ ~(\E i \in DOMAIN d.tags : ValAt(tg, <<d.tags[i]>>) = "true") )

RECURSIVE ExpBelow(_, _, _, _)
ExpBelow(case, P, ch, rd) ==
  UNION {{P \o <<IName(d)>>} \cup ExpBelow(case, P \o <<IName(d)>>, d.name, rd) :
           d \in {x \in DepsOf(case, ch) : ExpEnabled(case, P, x, rd)}}
ExpEr(case, rd) == {<<>>} \cup ExpBelow(case, <<>>, RootChart, rd)
ExpE(case) == ExpEr(case, "own")
\* the sets of enabled instances the property admits (one set unless the case is ambiguous as above)
ExpEs(case) == {ExpEr(case, "own"), ExpEr(case, "all")}

(* Routes: the operations through which a chart tree reaches a release, and the user values *)
(* in force for each.  The property speaks of "the parent's effective values": for a        *)
(* template / install they come from the request; an upgrade that is given NO values        *)
(* carries the deployed release's values forward (also with reuse-values and                *)
(* reset-then-reuse-values), unless reset-values is set - then only the chart defaults      *)
(* remain.  reuse-values additionally makes the deployed release's COMPUTED values the new   *)
(* chart's default values (upgrade.go:reuseValues sets chart.Values to the old coalesced     *)
(* values), i.e. the operation runs on a chart whose root defaults are the old final values. *)
(* What must be rendered by the operation of a route is ExpEs(CaseFor(case, r)).             *)
(* "upgrade-new": a release installed with the chart defaults only is upgraded WITH the case's values (so what  *)
(* they switch on or off changes between the deployed and the new revision); the values in force are the case's. *)
Routes == {"template", "install", "upgrade", "upgrade-reuse", "upgrade-reset-then-reuse", "upgrade-reset", "upgrade-new"}
CaseFor(case, route) ==
  CASE route = "upgrade-reset" -> [case EXCEPT !.user = {}, !.uset = {}]
    [] route = "upgrade-reuse" -> [case EXCEPT !.charts[RootChart].defaults = FinalCode(case)]
    [] OTHER -> case

EnabledKids(case, E, P) == {Last(Q) : Q \in {R \in E : Len(R) = Len(P) + 1 /\ IsPrefix(P, R)}}

(* what chart instance P may see (seen = its .Values):                              *)
(*  own   outside `global` and outside the sections of its own enabled dependencies  *)
(*        exactly the values destined for it - nothing of a parent or sibling, and a *)
(*        disabled dependency contributes no defaults;                               *)
(*  glob  its global table is the ancestors' globals over its own, ancestor winning. *)
ScopeOwnOK(case, E, P, seen) ==
  LET strip == {"global"} \cup EnabledKids(case, E, P)
  IN Without(seen, strip) = Without(Destined(case, P), strip)
ScopeGlobOK(case, P, seen) == Sub(seen, <<"global">>) = ExpG(case, P)
ScopeOK(case, E, P, seen) == ScopeOwnOK(case, E, P, seen) /\ ScopeGlobOK(case, P, seen)

-----------------------------------------------------------------------------
(* Agreement of the two transcriptions (the model check) and the shapes of the  *)
(* disagreements that are understood (leads confirmed on the real code are      *)
(* listed in KNOWN_FINDINGS.jsonl; DepsObs.tla restates them on observations).  *)

AgreeEnabled(case) == EnabledCode(case) \in ExpEs(case)
AgreeScope(case)   == LET E == EnabledCode(case) IN \A P \in E : ScopeOK(case, E, P, CodeScope(case, P))
Agree(case) == AgreeEnabled(case) /\ AgreeScope(case)

\* (a) a global key that is a table at one level and a non-table at another level of the values
\*     that reach one chart: coalesceGlobals keeps the descendant's entry
RECURSIVE GlobSources(_, _)
GlobSources(case, P) ==       \* the global tables that meet in instance P, nearest first
  IF P = <<>> THEN <<Sub(UserVals(case), <<"global">>), Sub(Defaults(case, RootChart), <<"global">>)>>
  ELSE <<Sub(Sub(Destined(case, Front(P)), <<Last(P)>>), <<"global">>),
         Sub(Defaults(case, ChartAt(case, P)), <<"global">>)>> \o GlobSources(case, Front(P))
GlobalKindConflict(case) ==
  \E P \in AllInst(case) : LET gs == GlobSources(case, P) IN
    \E i, j \in DOMAIN gs : \E l1 \in gs[i], l2 \in gs[j] :
       l1.p[1] = l2.p[1] /\ ( (Len(l1.p) = 1 /\ l1.v # "{}") # (Len(l2.p) = 1 /\ l2.v # "{}") )

\* (b) an aliased dependency below the first level whose condition is decided by its OWN default
\*     values: when processDependencyEnabled looks, the defaults still sit under the original name
AliasBelowTop(case) ==
  \E P \in AllInst(case) : Len(P) >= 1 /\
     \E d \in DepsOf(case, ChartAt(case, P)) :
        d.alias # "" /\ \E i \in DOMAIN d.cond : d.cond[i][1] = d.alias /\
           ValAt(Defaults(case, d.name), SubSeq(d.cond[i], 2, Len(d.cond[i]))) \in {"true", "false"}

\* (c) a chart object that is instantiated more than once (two aliases of one chart) and has an aliased
\*     dependency itself: the Chart.yaml entries are shared and renamed by the first visit (InstSeq)
SharedAliasedDep(case) ==
  \E P1, P2 \in AllInst(case) : P1 # P2 /\ RawPath(case, P1) = RawPath(case, P2)
     /\ \E d \in DepsOf(case, ChartAt(case, P1)) : d.alias # ""

KnownLead(case) == GlobalKindConflict(case) \/ AliasBelowTop(case) \/ SharedAliasedDep(case)

-----------------------------------------------------------------------------
(* Case builder.  A shape fixes the chart tree and a list of slots; a slot is a   *)
(* place in some values source (src = "user" | "set" | a chart name = that chart's *)
(* values.yaml) with a small domain of contents.  A case is a shape plus one       *)
(* choice per slot.  TLC explores the builder: exhaustive search enumerates every  *)
(* case of every shape, -simulate draws random ones.                               *)
(*   dom element: [v |-> token or "-" (nothing), sub |-> key path below the slot]  *)

Abs      == [v |-> "-", sub |-> <<>>]
Sc(t)    == [v |-> t, sub |-> <<>>]
Tb(k, t) == [v |-> t, sub |-> <<k>>]

CONSTANT Shapes      \* sequence of [name, charts, fixed, slots]

VARIABLES sh, asg
bvars == <<sh, asg>>

LeavesOf(shape, a, src) ==
  {L(f.p, f.v) : f \in {x \in Range(shape.fixed) : x.src = src}}
  \cup {L(shape.slots[i].p \o shape.slots[i].dom[a[i]].sub, shape.slots[i].dom[a[i]].v) :
          i \in {j \in DOMAIN a : shape.slots[j].src = src /\ shape.slots[j].dom[a[j]].v # "-"}}

BuildCase(shape, a) ==
  [charts |-> [ch \in DOMAIN shape.charts |->
                 [deps |-> shape.charts[ch].deps, schema |-> shape.charts[ch].schema,
                  crds |-> shape.charts[ch].crds, notpl |-> shape.charts[ch].notpl, defaults |-> LeavesOf(shape, a, ch)]],
   user |-> LeavesOf(shape, a, "user"), uset |-> LeavesOf(shape, a, "set")]

Shape    == Shapes[sh]
Complete == Len(asg) = Len(Shape.slots)
Case     == BuildCase(Shape, asg)

BInit == sh \in DOMAIN Shapes /\ asg = <<>>
BNext == /\ ~Complete
         /\ \E c \in DOMAIN Shape.slots[Len(asg) + 1].dom : asg' = Append(asg, c)
         /\ UNCHANGED sh
BSpec == BInit /\ [][BNext]_bvars

RECURSIVE Digits(_)
Digits(a) == IF a = <<>> THEN "" ELSE ToString(a[1]) \o Digits(Tail(a))
CaseId == Shape.name \o "-" \o Digits(asg)

CaseJ(c) == [charts |-> [ch \in DOMAIN c.charts |->
                           [deps |-> c.charts[ch].deps, schema |-> c.charts[ch].schema, crds |-> c.charts[ch].crds,
                            notpl |-> c.charts[ch].notpl, defaults |-> SeqOf(c.charts[ch].defaults)]],
             user |-> SeqOf(c.user), uset |-> SeqOf(c.uset)]

\* the inverse of CaseJ (what the harness echoes back / a replay file holds)
CaseOfJ(j) == [charts |-> [ch \in DOMAIN j.charts |->
                             [deps |-> j.charts[ch].deps, schema |-> j.charts[ch].schema, crds |-> j.charts[ch].crds,
                              notpl |-> IF "notpl" \in DOMAIN j.charts[ch] THEN j.charts[ch].notpl ELSE FALSE,
                              defaults |-> Range(j.charts[ch].defaults)]],
               user |-> Range(j.user), uset |-> Range(j.uset)]

\* model check: the two transcriptions agree on every complete, well-formed case (or the case
\* has the shape of an understood lead)
AgreeOn(routes) == (Complete /\ WFCase(Case)) =>
                     \A r \in routes : Agree(CaseFor(Case, r)) \/ KnownLead(CaseFor(Case, r))
AgreeInv    == AgreeOn({"install", "upgrade-reset"})
AgreeInvAll == AgreeOn({"install", "upgrade-reset", "upgrade-reuse"})
\* the strict form, used to list the leads
AgreeStrict == (Complete /\ WFCase(Case)) => Agree(Case)

\* CONSTRAINT: export every complete well-formed case with what both transcriptions expect
DepsExport ==
  IF Complete /\ WFCase(Case)
  THEN LET c == Case  E == ExpE(c)  EC == EnabledCode(c) IN
       JsonSerialize("gen/" \o CaseId \o ".json",
         [id |-> CaseId, shape |-> Shape.name, case |-> CaseJ(c),
          exp |-> [enabled |-> SeqOf(E), enabledAll |-> SeqOf(ExpEr(c, "all")), enabledCode |-> SeqOf(EC),
                   agree |-> Agree(c), lead |-> KnownLead(c),
                   scope |-> SeqOf({[P |-> P, leaves |-> SeqOf(CodeScope(c, P))] : P \in EC})]])
  ELSE TRUE
=============================================================================
