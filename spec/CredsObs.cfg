SPECIFICATION Spec
CHECK_DEADLOCK FALSE
POSTCONDITION Post
