SPECIFICATION BSpec
CONSTANT Shapes <- QuickShapes
INVARIANT AgreeStrict
CHECK_DEADLOCK FALSE
