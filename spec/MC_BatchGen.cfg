SPECIFICATION Spec
CONSTANT KindVecs <- Vecs
CONSTANT Barrier = TRUE
CONSTANT AllFail = FALSE
CONSTANT TrackOrder = TRUE
CONSTANT MaxN = 5
INVARIANT Collect
INVARIANT BarrierInv
POSTCONDITION ExportDone
CHECK_DEADLOCK TRUE
