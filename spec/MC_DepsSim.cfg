SPECIFICATION BSpec
CONSTANT Shapes <- WideShapes
INVARIANT AgreeInv
CONSTRAINT DepsExport
CHECK_DEADLOCK FALSE
