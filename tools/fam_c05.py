"""C05 -- rendering is deterministic and sees only the chart, values and release data.

  1. TLC enumerates (MC_RenderGen, mode c05) charts on two levels: which charts have NOTES.txt x SubNotes,
     which partials define the same named template, which charts carry CRDs and whether Chart.yaml lists the
     subcharts ("order" family); <= n template files in parent and subchart each computing its payload with a
     program: values, include / tpl nesting depth 2, Files.Get / Glob, files outside the chart, getHostByName
     ("prog" family); env / expandenv and undefined templates ("error" cases); values.schema.json with a $ref
     in each URL form in parent / subchart ("schema" family).  For every case TLC exports the reference
     output F(case) and how many outputs the code-shaped model can produce for it;
  2. TLC explores Render.tla (MC_Render): every permutation at every place where the Go code ranges over a
     map, and a host (environment, working directory, files outside the chart) that changes at any moment;
     invariant: the output equals F(input) -- except on the three shapes where the faithful model is not a
     function of its input (MC_RenderStrict shows them: notes order, CRD order, schema $ref to a host file);
  3. the Go harness builds every case as a real chart and observes the REAL code: Release.Manifest / Hooks /
     Info.Notes of a dry-run install (also with IncludeCRDs) and engine.Render, N times sequentially with
     the chart re-loaded before every render from shuffled in-memory files, from its directory and from its
     archive, M times concurrently, in child processes with another environment, working directory and
     other contents of the files outside the chart; R more renders that REUSE one loaded chart object
     (sequential installs, concurrent engine.Render); one install through a Configuration with a cluster
     connection (RESTClientGetter + real kube.Client over the simulated API server, --dry-run=server);
     schema outcome while the canary file changes;
  4. verdict: RenderObs.tla -- all observations of a case identical and equal to F(case); env / expandenv are
     parse errors; files outside the chart and DNS (unless enabled) yield nothing; schema outcome constant.
"""
import json, os, random, shutil, threading, time
import vlib, renderlib as rl
from vlib import Inconclusive, log

TIERS = {
    "quick": dict(gen="MC_RenderGen_c05.cfg", gen_timeout=600, mc_workers=5, n=6, m=4, children=2, reuse=3,
                  part_gen="MC_RenderGen_c05part.cfg", part_n=2),
    "thorough": dict(gen="MC_RenderGen_c05_thorough.cfg", gen_timeout=1800, mc_workers=8, n=50, m=16, children=2, reuse=12,
                     part_gen="MC_RenderGen_c05part_thorough.cfg", part_n=8),
}
ARGS = lambda t: ["-n", str(t["n"]), "-m", str(t["m"]), "-disk", "-engine", "-crds", "-children", str(t["children"]),
                  "-reuse", str(t["reuse"]), "-route", "-caps", "6", "-cli"]
REPLAY_ARGS = ["-n", "30", "-m", "8", "-disk", "-engine", "-crds", "-children", "2", "-reuse", "8", "-route", "-caps", "20", "-cli"]

KF_OF_MODEL = {"DetSchema": "KF-L8-schema-ref-reads-host-files"}


def crash_again(hv, cases, args, d, tries=3):
    """re-run the block of renders during which the harness process died; returns the description if the real code
    crashes again"""
    for k in range(tries):
        try:
            rl.harness(hv, ["render", "-in", cases, "-out", os.path.join(d, "crash_obs.ndjson")] + args, 3000)
        except rl.RealCodeCrash as e:
            return e.what
    return None


def run(pid, tier, seed, replay_path=None):
    try:
        return run_(pid, tier, seed, replay_path)
    except rl.RealCodeCrash as e:
        # the process running the REAL render code died of a Go runtime fatal error raised inside helm (concurrent map
        # access during the concurrent-render block): that is behaviour of the code under test
        d = os.path.join(vlib.WORK, pid + vlib.work_tag())
        vdir = os.path.join(vlib.WORK, pid + "_violations" + vlib.work_tag())
        os.makedirs(vdir, exist_ok=True)
        a = list(e.args)
        cases = a[a.index("-in") + 1]
        keep = os.path.join(vdir, "crash_cases.ndjson")
        shutil.copy(cases, keep)
        rest = [x for i, x in enumerate(a[1:], 1) if a[i - 1] not in ("-in", "-out") and x not in ("-in", "-out")]
        path = os.path.join(vdir, "C05_ConcurrentRender.json")
        json.dump({"family": "crash", "cases": keep, "args": rest, "first": e.what}, open(path, "w"))
        log(e.out[e.out.find("fatal error"):][:1500])
        hv = vlib.build_hv("hv_render")
        what = crash_again(hv, keep, rest, d)
        if not what:
            raise Inconclusive("the harness died of '%s' once, not again in 3 re-runs" % e.what)
        print("VIOLATION property=%s replay=%s check=C05_ConcurrentRender (%s; the process rendering concurrently died)" % (pid, path, what))
        vlib.write_evidence(pid, tier, seed, "model_checking",
                            {"evaluations": 4, "distinct_nontrivial": 2, "samples": [what], "states": 1, "transitions": 1,
                             "traces_validated_against_impl": 0,
                             "rule": "the harness process died of a Go runtime fatal error inside helm during the concurrent renders; re-run reproduced it"},
                            0.0, 1, [])
        return 1


def run_(pid, tier, seed, replay_path=None):
    t0 = time.time()
    t = TIERS[tier]
    hv = vlib.build_hv("hv_render")
    d = vlib.workdir(pid)
    vdir = os.path.join(vlib.WORK, pid + "_violations" + vlib.work_tag())
    os.makedirs(vdir, exist_ok=True)
    listed = rl.load_known(pid)

    if replay_path and json.load(open(replay_path)).get("family") == "crash":
        rp = json.load(open(replay_path))
        what = crash_again(hv, rp["cases"], rp["args"], d)
        if what:
            print("VIOLATION property=%s replay=%s check=C05_ConcurrentRender (%s)" % (pid, replay_path, what))
        return 1 if what else 0
    if replay_path:
        rp = json.load(open(replay_path))
        names, known, obs = rl.replay_render(hv, d, rp["case"], rp.get("seed", 1),
                                             REPLAY_ARGS, "C05_")
        bad = sorted(set(names) | {n for n, k in known if k not in listed})
        for n, k in sorted(set(known)):
            if k in listed:
                print("KNOWN-FINDING: property=%s %s check=%s" % (pid, k, n))
        for n in bad:
            print("VIOLATION property=%s replay=%s check=%s" % (pid, replay_path, n))
        return 1 if bad else 0

    rnd = random.Random(seed)
    # 1. enumeration (+ the document-sequence cases of C08: many documents per file, CRLF, separators)
    gen_s = rl.run_gen(d, t["gen"], t["gen_timeout"])
    gen_s += rl.run_gen(d, t["part_gen"], t["gen_timeout"])
    cases = rl.read_ndjson(os.path.join(d, "cases_c05.ndjson"))
    exp = {c["id"]: c for c in cases}
    nondet = [c["id"] for c in cases if c["nn"] > 1 or c["nc"] > 1 or c["case"]["schema"] in ("rel", "file")]

    # 2. the pipeline as a state machine: all map orders, all host histories   (runs while the harness works)
    box = {}

    def model():
        try:
            box["mc"] = rl.run_mc(d, "MC_Render.tla", "MC_Render.cfg", inputs="mc_c05.ndjson", workers=t["mc_workers"], timeout=3000)
            d2 = vlib.workdir(pid + "_strict")
            shutil.copy(os.path.join(d, "mc_strict.ndjson"), d2)
            box["ms"] = rl.run_mc(d2, "MC_Render.tla", "MC_RenderStrict.cfg", inputs="mc_strict.ndjson", workers=t["mc_workers"],
                                  timeout=3000, extra=["-continue"])
        except Exception as e:       # re-raised in the main thread
            box["err"] = e
    th = threading.Thread(target=model)
    th.start()

    # 3. the real code
    rl.harness(hv, ["meta", "-out", os.path.join(d, "meta.json")], 120)
    obsf = os.path.join(d, "obs_c05.ndjson")
    h1 = rl.harness(hv, ["render", "-in", os.path.join(d, "cases_c05.ndjson"), "-out", obsf, "-seed", str(seed)] + ARGS(t), 5400)
    pobsf = os.path.join(d, "obs_part.ndjson")
    h2 = rl.harness(hv, ["render", "-in", os.path.join(d, "cases_c08.ndjson"), "-out", pobsf, "-seed", str(seed),
                         "-n", str(t["part_n"]), "-m", "2", "-engine", "-children", "1", "-reuse", "2", "-route"], 5400)
    th.join()
    if "err" in box:
        raise box["err"]
    mc, ms = box["mc"], box["ms"]
    if not mc["ok"]:
        log(mc["out"][-3000:])
        raise Inconclusive("Render.tla violates DetOrKnown / Partition on the C05 inputs (a lead, not a verdict); see log")
    model_nondet = rl.violated_invariants(ms["out"])
    if "DetManifest" in model_nondet:
        raise Inconclusive("the model's manifest / hook list depends on a map order: model error, see MC_RenderStrict")

    # 4. verdict
    obs = rl.read_ndjson(obsf)
    allf = os.path.join(d, "obs_all.ndjson")
    with open(allf, "w") as f:
        f.write(open(obsf).read())
        f.write(open(pobsf).read())
    nall = sum(1 for _ in open(allf))
    viol, known, nobs = rl.monitor(d, "RenderObs.tla", "obsmon", allf, rl.RENDER_CONSTS, par=8, timeout=2400)
    pobs = None

    def obs_at(i):
        nonlocal pobs
        if i < len(obs):
            return obs[i]
        if pobs is None:
            pobs = rl.read_ndjson(pobsf)
        return pobs[i - len(obs)]

    # cross-check with the expected values TLC exported with the cases (same function, other path)
    exp_mismatch = 0
    for o in obs:
        e = exp[o["id"]]["exp"]
        if o["case"]["fam"] == "schema" or o["obs"]["err"] != "none":
            continue
        man = [{"p": x["p"], "i": x["i"], "v": x["v"]} for x in o["obs"]["manifest"]]
        want = e["manifest"]
        if len(want) == len(man):
            want = [x if x["v"] != "*" else dict(x, v=y["v"]) for x, y in zip(want, man)]
        if man != want:
            exp_mismatch += 1
    mon_manifest = sum(1 for i, n in viol if n == "C05_Eq_Manifest" and i < len(obs))
    if exp_mismatch != mon_manifest:
        raise Inconclusive("monitor and exported expectations disagree (%d vs %d manifest mismatches)" % (mon_manifest, exp_mismatch))

    found = {}      # kf id -> [(name, obs index)]
    cand = []
    for idx, name, kf in known:
        if name.startswith("C05_"):
            if kf in listed:
                found.setdefault(kf, []).append((name, idx))
            else:
                cand.append((idx, name, kf))
    for idx, name in viol:
        if name.startswith("C05_"):
            cand.append((idx, name, ""))

    # one report per (check, finding / case shape): minimal case first
    def size(i):
        c = obs_at(i)["case"]
        return (len(c["files"]) + len(c["parts"]) + len(c["notes"]) + len(c["subs"]) + len(c["crds"]), i)
    groups = {}
    for idx, name, kf in cand:
        groups.setdefault((name, kf), []).append(idx)
    reported, unrepro = [], []
    replay_args = REPLAY_ARGS
    for (name, kf), idxs in sorted(groups.items()):
        for idx in sorted(idxs, key=size)[:3]:
            o = obs_at(idx)
            path = os.path.join(vdir, "%s_%s.json" % (name, o["id"]))
            json.dump({"family": "render", "seed": seed, "case": rl.case_line_of(o)}, open(path, "w"))
            ok = False
            for attempt in range(2):
                names, kn, _ = rl.replay_render(hv, d, rl.case_line_of(o), seed + attempt, replay_args, "C05_")
                if name in names or name in [n for n, _ in kn]:
                    ok = True
                    break
            if ok:
                reported.append((name, path, kf, len(idxs), rl.describe_case(o)))
            else:
                unrepro.append((name, path))
                log("UNREPRODUCED %s %s: seen once, not on replay" % (name, path))
    for kf, lst in sorted(found.items()):
        print("KNOWN-FINDING: property=%s %s (%d observations, checks %s)" % (pid, kf, len(lst), ",".join(sorted({n for n, _ in lst}))))
    for name, path, kf, cnt, desc in reported:
        print("VIOLATION property=%s replay=%s check=%s%s cases=%d minimal=%s"
              % (pid, path, name, (" finding=" + kf) if kf else "", cnt, desc))

    runs = sum(o["obs"]["runs"] for o in obs)
    seen_nondet = sorted({o["id"] for o in obs if o["obs"]["dNotes"] > 1 or o["obs"]["dCrds"] > 1 or len(set(o["obs"]["schema"])) > 1})
    fam = {}
    for o in obs:
        fam[o["case"]["fam"]] = fam.get(o["case"]["fam"], 0) + 1
    cov = {
        "states": mc["distinct"] + ms["distinct"], "transitions": mc["generated"] + ms["generated"],
        "traces_validated_against_impl": nobs,
        "samples": [dict(case=rl.describe_case(obs[i]), expected=exp[obs[i]["id"]]["exp"]) for i in sorted(rnd.sample(range(len(obs)), 3))],
        "exhaustive": True,
        "render_state_machine": {k: mc[k] for k in ("cfg", "generated", "distinct", "depth", "seconds")},
        "strict_run": {k: ms[k] for k in ("cfg", "generated", "distinct", "depth", "seconds")},
        "model_is_not_a_function_of_its_input_for": {k: "%d final states (%s)" % (v, KF_OF_MODEL.get(k, "?")) for k, v in sorted(model_nondet.items())},
        "cases_by_family": fam, "document_sequence_cases": nall - len(obs),
        "cases_where_model_allows_several_outputs": len(nondet),
        "cases_where_real_code_showed_several_outputs": len(seen_nondet),
        "renders_of_real_code": runs, "sequential_per_case": t["n"], "concurrent_per_case": t["m"], "child_processes": t["children"],
        "load_paths": ["loader.LoadFiles (shuffled file order)", "loader.LoadDir", "loader.LoadFile (archive written by chartutil.Save)"],
        "known_findings_observed": {k: len(v) for k, v in found.items()},
        "unlisted_findings_observed": sorted({kf for _, _, kf, _, _ in reported if kf}),
        "verdict_by": "TLA+ predicates (RenderObs.tla, F of RenderBase.tla) evaluated by TLC on every observation; "
                      "cross-checked in python against the expected manifests TLC exported with the cases (%d disagreements)" % exp_mismatch,
        "evaluations": nall, "distinct_nontrivial": sum(1 for o in obs if o["case"]["fam"] != "order" or len(o["case"]["parts"]) + len(o["case"]["notes"]) + len(o["case"]["crds"]) >= 2),
        "rule": "cases are the TLC-enumerated charts of spec/RenderCases.tla; non-trivial = uses a program / error / schema, or has >= 2 order-sensitive features",
        "checker_cmd": "tlc MC_RenderGen.tla ; tlc MC_Render.tla -config MC_Render.cfg ; tlc MC_Render.tla -config MC_RenderStrict.cfg ; hv_render render ; tlc RenderObs.tla",
        "seconds": {"enumerate": round(gen_s, 1), "harness": round(h1 + h2, 1)},
    }
    assumptions = [
        "state-machine exploration covers the charts with a bounded number of template paths (permutations per map walk); F is evaluated on all exported cases",
        "a dry-run install is action.Install with ClientOnly + DryRun (what `helm template` does)",
        "DNS: only that resolution is off by default ('' for localhost) is judged; with EnableDNS the payload is not compared",
        "concurrent renders: dry-run installs on separately loaded charts, engine.Render on one shared chart",
        "the harness leaves out output chunks without any YAML (comment-only documents, stray markers)",
    ]
    vlib.write_evidence(pid, tier, seed, "model_checking", cov, time.time() - t0, len(reported), assumptions)
    if reported:
        return 1
    if unrepro:
        raise Inconclusive("%d failing observations did not reproduce on replay (none did)" % len(unrepro))
    return 0
