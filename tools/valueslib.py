"""Shared machinery of the value checks C04 (fam_c04.py) and C13 (fam_c13.py):
TLC enumerates the bounded input space from spec/ValuesMC.tla / spec/ValuesChainMC.tla and exports
every case; harness/cmd/hv_values runs the real helm code on each; TLC judges the observations
with the predicates of spec/ValuesObs.tla / spec/ValuesChainObs.tla."""
import glob, json, os, random, re, time
import vlib
from vlib import Inconclusive, log

WORKERS = int(os.environ.get("VERIF_TLC_WORKERS", "4"))


def known_ids():
    """ids of the listed known findings (KNOWN_FINDINGS.jsonl is read-only at run time).
    VERIF_KNOWN_EXTRA may name a second file of the same format (used only to try out proposed
    entries before the coordinator lists them)."""
    ks = [k for k in vlib.load_known() if k.get("status", "known") == "known"]
    extra = os.environ.get("VERIF_KNOWN_EXTRA")
    if extra and os.path.exists(extra):
        for l in open(extra):
            l = l.strip()
            if l and not l.startswith("#"):
                k = json.loads(l)
                if k.get("status", "known") == "known":
                    ks.append(k)
    return {k["id"] for k in ks}


def show(t):
    """compact text of a tagged tree (spec/Values.tla)"""
    k = t.get("k")
    if k == "s":
        return t["s"]
    if k == "n":
        return "null"
    if k == "u":
        return "UNSET"
    if k == "l":
        return "[" + ",".join(show(x) for x in t["l"]) + "]"
    m = t.get("m")
    if not m or isinstance(m, list):
        return "{}"
    return "{" + ",".join("%s:%s" % (a, show(b)) for a, b in sorted(m.items())) + "}"


def natural_key(path):
    return [int(x) if x.isdigit() else x for x in re.split(r"(\d+)", os.path.basename(path))]


def read_gen(d):
    """all cases TLC exported into d/gen, in a deterministic order"""
    out = []
    for f in sorted(glob.glob(os.path.join(d, "gen", "*.ndjson")), key=natural_key):
        for l in open(f):
            if l.strip():
                out.append(json.loads(l))
    return out


def clear_gen(d):
    g = os.path.join(d, "gen")
    os.makedirs(g, exist_ok=True)
    for f in glob.glob(os.path.join(g, "*")):
        os.remove(f)


def write_cfg(d, name, constants, constraint=None, subst=(), post=None):
    lines = ["SPECIFICATION Spec"]
    if constants or subst:
        lines.append("CONSTANTS")
        for k, v in constants.items():
            if isinstance(v, bool):
                v = "TRUE" if v else "FALSE"
            elif isinstance(v, str):
                v = '"%s"' % v
            lines.append("  %s = %s" % (k, v))
        for k, v in subst:
            lines.append("  %s <- %s" % (k, v))
    if constraint:
        lines.append("CONSTRAINT " + constraint)
    if post:
        lines.append("POSTCONDITION " + post)
    lines.append("CHECK_DEADLOCK FALSE")
    open(os.path.join(d, name), "w").write("\n".join(lines) + "\n")


def enumerate_exhaustive(d, module, cfg, timeout):
    """exhaustive TLC run with the ExportBatch constraint; returns (cases, stats)"""
    clear_gen(d)
    rc, out, dt = vlib.tlc(d, module, cfg, workers=WORKERS, timeout=timeout)
    err = vlib.tlc_failed(out)
    if err:
        raise Inconclusive("TLC %s/%s did not complete: %s\n%s" % (module, cfg, err, out[-3000:]))
    gen, dist, depth = vlib.tlc_stats(out)
    return read_gen(d), dict(generated=gen, distinct=dist, depth=depth, seconds=round(dt, 1))


def enumerate_simulate(d, module, cfg, num, depth, seed, timeout):
    """seeded TLC -simulate with the ExportOne constraint; returns (cases dedup'd by content, stats)"""
    clear_gen(d)
    rc, out, dt = vlib.tlc(d, module, cfg, extra=["-simulate", "num=%d" % num, "-depth", str(depth), "-seed", str(seed)],
                           workers=1, timeout=timeout)
    if "Error:" in out and "The number of states generated" not in out:
        raise Inconclusive("TLC -simulate %s/%s failed:\n%s" % (module, cfg, out[-3000:]))
    cases, seen = [], set()
    for c in read_gen(d):
        key = json.dumps({k: v for k, v in c.items() if k != "id"}, sort_keys=True)
        if key in seen:
            continue
        seen.add(key)
        cases.append(c)
    m = re.search(r"The number of states generated: (\d+)", out)
    return cases, dict(generated=int(m.group(1)) if m else 0, seconds=round(dt, 1))


def sample(cases, cap, seed):
    if cap is None or len(cases) <= cap:
        return cases, False
    rnd = random.Random(seed)
    idx = sorted(rnd.sample(range(len(cases)), cap))
    return [cases[i] for i in idx], True


def write_ndjson(path, items):
    with open(path, "w") as f:
        for x in items:
            f.write(json.dumps(x) + "\n")


def run_harness(hv, sub, d, cases_file, obs_file, timeout=3000):
    rc, out, dt = vlib.sh([hv, sub, "-in", cases_file, "-out", obs_file], cwd=d, timeout=timeout, check=False)
    if rc != 0:
        raise Inconclusive("harness %s failed (%d):\n%s" % (sub, rc, out[-3000:]))
    return dt


def run_monitor(d, module, cfg, n, timeout):
    """TLC evaluates the property predicates on the observations; returns (stdout, distinct states, seconds)"""
    rc, out, dt = vlib.tlc(d, module, cfg, workers=WORKERS, timeout=timeout)
    err = vlib.tlc_failed(out)
    gen, dist, depth = vlib.tlc_stats(out)
    if err or dist != n + 1:
        raise Inconclusive("monitor %s did not judge all %d observations (%s, %d states):\n%s"
                           % (module, n, err, dist, out[-3000:]))
    return out, dist, dt
