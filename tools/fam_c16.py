"""C16 - file-writing operations never escape their directory or exceed size limits.

Archive.tla (part I) is model-checked over every entry name of <= 3 (quick) / 4 (thorough) components x
type flags x destination layouts (+ chart-name, two-entry, size and lock-file families); TLC exports every
abstract case with the class the property demands (error-or-confined) and the model's own outcome.
hv_archive builds each tar.gz byte by byte, prepares a sandbox whose destination is a strict subdirectory,
runs installer.TarGzExtractor.Extract / chartutil.Expand / loader.LoadArchive / downloader.Manager.Update
and records snapshots, exposed names and bytes consumed.  ArchiveObs.tla judges the observations."""
import json, os, time, collections, threading
import vlib, fam_archive as fa
from vlib import Inconclusive, log

PID = "C16"
CHECKS = ["C16_Confined", "C16_NoOutsideLinks", "C16_CleanNames", "C16_SizeReject", "C16_SizeRead", "C16_SizeHeader"]


def describe(case, o=None):
    ents = []
    for e in case["stream"]:
        nm = "".join((e["seps"][i - 1] if i else "") + (c if c else "<empty>") for i, c in enumerate(e["comps"]))
        ents.append("%s:%s%s%s" % (e["type"], nm, ("->" + e.get("link", "")) if e["type"] in ("symlink", "hardlink") else "", (" size=%d" % e["size"]) if case["fam"] in ("size", "sizeread") else ""))
    s = "%s %s layout=%s%s%s [%s]" % (case["fam"], case["op"], case["layout"],
                                      (" chartname=" + "/".join(case["cname"])) if case["op"] == "expand" else "",
                                      (" api=%s lock=%s" % (case["api"], case["lock"])) if case["op"] == "lock" else "",
                                      " ; ".join(ents))
    if o is not None:
        s += " -> %s" % ("error" if o["err"] else "ok, wrote " + ",".join("/".join(c["path"]) for c in o["changes"]))
    return s


def judge(d, hv, case_lines, seed, reps, pairs=None, workers=8, tag="run"):
    """run the given cases (raw NDJSON lines) on the real code and judge the observations; returns (obs, keyed lines, states, seconds)"""
    cf = os.path.join(d, tag + "_cases.ndjson")
    with open(cf, "w") as f:
        f.writelines(case_lines)
    of = os.path.join(d, tag + "_obs.ndjson")
    extra = ["-pairs", ",".join("%d:%d" % p for p in pairs)] if pairs else []
    dt = fa.run_harness(hv, "c16", cf, of, seed, reps, workers=workers, extra=extra)
    obs = fa.read_ndjson(of)
    lines, states = fa.monitor(d, obs, "C16", "ArchiveObs16.cfg")
    return obs, fa.keyed(lines, obs), states, dt


def run(pid, tier, seed, replay=None):
    t0 = time.time()
    hv = vlib.build_hv("hv_archive")
    d = vlib.workdir(PID)
    viol_dir = os.path.join(vlib.WORK, PID + "_violations" + vlib.work_tag())

    if replay:
        r = json.load(open(replay))
        obs, kl, _, _ = judge(d, hv, [json.dumps(r["case"]) + "\n"], r["seed"], reps=r["rep"] + 1,
                              pairs=[(r["case"]["id"], r["rep"])], workers=1, tag="replay")
        res = fa.verdict(PID, kl, lambda i: r["case"], r["seed"], r.get("tier", tier), viol_dir, lambda pairs: fa.failing(kl))
        for o in obs:
            log("replayed: " + describe(r["case"], o) + ((" msg=" + o["msg"]) if o["msg"] else ""))
        return 1 if res["violations"] else 0

    thorough = tier == "thorough"
    cfg = "MC_ArchiveC16_thorough.cfg" if thorough else "MC_ArchiveC16.cfg"

    # negative self-test of the invariant, in its own directory, concurrently
    neg = {}
    def negative():
        try:
            dn = vlib.workdir(PID + "neg")
            neg["r"] = fa.model_check(dn, "MC_ArchiveC16.tla", "MC_ArchiveC16neg.cfg", workers=2, timeout=900)
        except Exception as e:     # noqa
            neg["e"] = e
    th = threading.Thread(target=negative)
    th.start()

    # 1. exhaustive exploration of the specification + export of the case space
    mc = fa.model_check(d, "MC_ArchiveC16.tla", cfg, workers=8 if thorough else 4, timeout=3000 if thorough else 900)
    case_lines = [l for l in open(os.path.join(d, "c16_cases.ndjson")) if l.strip()]
    if not case_lines or len(case_lines) != mc["cases"]:
        raise Inconclusive("case export incomplete (%d of %d)" % (len(case_lines), mc["cases"]))
    def case_of(i):
        c = json.loads(case_lines[i - 1])
        if c["id"] != i:
            raise Inconclusive("case file is not in id order")
        return c
    if mc["violated"]:
        log("MODEL: %s violates %s - a lead, replayed on the real code below" % (cfg, mc["violated"]))

    # 2.-3. every case on the real code, judged by the TLA+ predicates, chunk by chunk (bounded memory)
    reps = 2 if thorough else 1
    klines, mon_states, hdt, nobs = [], 0, 0.0, 0
    fams, outcome = collections.Counter(), collections.Counter()
    nontrivial, oversize, max_over, ok_runs = set(), 0, 0, 0
    samples, seenf = [], set()
    for c0 in range(0, len(case_lines), fa.CHUNK // reps):
        chunk = case_lines[c0:c0 + fa.CHUNK // reps]
        obs, kl, st, dt = judge(d, hv, chunk, seed, reps, workers=10, tag="all")
        if len(obs) != len(chunk) * reps:
            raise Inconclusive("harness ran %d of %d" % (len(obs), len(chunk) * reps))
        klines += kl
        mon_states += st
        hdt += dt
        nobs += len(obs)
        for o in obs:
            if o["rep"] == 0:
                fams[o["fam"]] += 1
            outcome[(o["fam"], "error" if o["err"] else "ok")] += 1
            over = o["fam"] in ("size", "sizeread") and o["bound"] > 0
            if over:
                oversize += 1
                max_over = max(max_over, o["consumed"])
            if not o["err"]:
                ok_runs += 1
            if over or not o["err"]:
                nontrivial.add(o["id"])
            k = (o["fam"], o["err"])
            if k not in seenf:
                seenf.add(k)
                samples.append(describe(case_of(o["id"]), o) + " {concrete: %s}" % o["conc"])

    def confirm(pairs):
        ids = sorted({c["id"] for c, _ in pairs})
        _, kl2, _, _ = judge(d, hv, [case_lines[i - 1] for i in ids], seed, reps=max(r for _, r in pairs) + 1,
                             pairs=[(c["id"], r) for c, r in pairs], workers=4, tag="confirm")
        return fa.failing(kl2)
    res = fa.verdict(PID, klines, case_of, seed, tier, viol_dir, confirm)

    th.join()
    if "e" in neg:
        raise neg["e"]
    if not neg["r"]["violated"]:
        raise Inconclusive("negative self-test: the model with a plain join does NOT violate InvConfined (invariant is vacuous)")

    conform = nobs - len({k for k, _ in res["divergences"]})
    coverage = dict(
        states=mc["distinct"], transitions=mc["generated"], traces_validated_against_impl=conform, samples=samples[:14],
        exhaustive=True, exhaustive_config=cfg, exhaustive_depth=mc["depth"], exhaustive_seconds=mc["seconds"],
        model_invariants=["InvConfined", "InvConfinedAlways", "InvNames", "InvSizeReject", "InvSizeBound", "InvNoOversizeBody", "InvRun"],
        model_invariant_violated=mc["violated"] or "",
        negative_selftest="plain-join model violates %s (%d states)" % (neg["r"]["violated"], neg["r"]["distinct"]),
        abstract_cases=len(case_lines), cases_per_family=dict(fams), concretisations_per_case=reps,
        evaluations=nobs, runs_not_rejected=ok_runs,
        outcomes={"%s/%s" % k: v for k, v in sorted(outcome.items())},
        oversize_streams=oversize, max_bytes_consumed_on_oversize=max_over,
        distinct_nontrivial=len(nontrivial),
        rule="cases = every entry name over {n1,n2,'..','.','',C:} x separators x type flags x planted layouts (+ chart-name, "
             "two-entry, size, lock families) enumerated by TLC from Archive.tla; non-trivial = distinct abstract cases that the "
             "real code did not reject (it wrote files / exposed names) or that carry an oversize stream",
        monitor_checks=CHECKS, monitor_states=mon_states,
        conformance_divergences=len(res["divergences"]), notes=res["notes"], known_findings_observed=res["known"],
        unconfirmed=res["unconfirmed"], harness_seconds=round(hdt, 1),
        checker_cmd="tlc MC_ArchiveC16.tla -config %s ; hv_archive c16 ; tlc ArchiveObs.tla -config ArchiveObs16.cfg" % cfg)
    assumptions = [
        "Linux path semantics only; backslash and drive prefixes are exercised as NAMES (DESIGN 8)",
        "'followed' is observed through its effect (a file outside dest created / modified / deleted); a pure read through a link is not visible to a snapshot",
        "symlink races (a link planted between check and use) are out of scope; layouts are static",
        "bytes consumed are measured on the compressed stream with stored gzip blocks (compressed offset = decompressed offset + 5 bytes per block); allowance = one flate window + one io.Copy buffer",
        "Manager.Update is run with SkipUpdate and file:// dependencies only (offline); helm's own repository cache directory is an allowed write root",
        "the verdict is the property's literal form: the operation fails, or nothing outside dest changed (an escape followed by an error is counted under notes, and the model shows it cannot happen)",
    ]
    vlib.write_evidence(PID, tier, seed, "model_checking", coverage, time.time() - t0, res["violations"], assumptions)

    if res["violations"]:
        return 1
    if res["unconfirmed"]:
        raise Inconclusive("%d failing observation(s) did not fail again on re-run" % res["unconfirmed"])
    if mc["violated"]:
        raise Inconclusive("the specification violates %s but the real code does not reproduce it: model error" % mc["violated"])
    if res["divergences"]:
        (cid, rep), what = res["divergences"][0]
        raise Inconclusive("DIVERGENCE: %d observation(s) differ from the model's outcome, first: %s [%s]" %
                           (len(res["divergences"]), describe(case_of(cid)), what))
    return 0
