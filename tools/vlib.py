"""Shared machinery of the /verif checks: building the Go harness against /repo's current
working tree, running TLC (exhaustive, simulation, trace validation, monitor), converting
TLC-generated behaviours into scenarios, known-finding matching and evidence writing."""
import json, os, re, shutil, subprocess, sys, time, glob, hashlib

ROOT = os.path.dirname(os.path.dirname(os.path.abspath(__file__)))
SPEC = os.path.join(ROOT, "spec")
WORK = os.path.join(ROOT, "work")
BIN = os.path.join(ROOT, "bin")
EVID = os.path.join(ROOT, "evidence")
HARNESS = os.path.join(ROOT, "harness")
KNOWN = os.path.join(ROOT, "KNOWN_FINDINGS.jsonl")

GOENV = dict(os.environ, GOFLAGS="-mod=mod", GOPROXY="off", GOTOOLCHAIN="auto",
             GOCACHE=os.environ.get("GOCACHE", os.path.expanduser("~/.cache/go-build")))


class Inconclusive(Exception):
    """machinery error / timeout / dead driver: exit 2, never a violation"""


def log(*a):
    print(*a, file=sys.stderr, flush=True)


def sh(cmd, cwd=None, env=None, timeout=None, check=True):
    t0 = time.time()
    try:
        p = subprocess.run(cmd, cwd=cwd, env=env, timeout=timeout, stdout=subprocess.PIPE,
                           stderr=subprocess.STDOUT, text=True, shell=isinstance(cmd, str))
    except subprocess.TimeoutExpired as e:
        raise Inconclusive("timeout after %ss: %s" % (timeout, cmd)) from e
    if check and p.returncode != 0:
        raise Inconclusive("command failed (%d): %s\n%s" % (p.returncode, cmd, p.stdout[-4000:]))
    return p.returncode, p.stdout, time.time() - t0


def repo_dir():
    """the helm tree under test: /repo, or a scratch worktree named by VERIF_REPO_DIR (used only to try
    seeded changes in parallel without touching /repo; registered checks always run against /repo)"""
    return os.environ.get("VERIF_REPO_DIR", "/repo")


def build_hv(cmd="hv", race=False):
    """(re)build one harness binary (harness/cmd/<cmd>) from the working tree of the repository under test,
    hooks enabled. Each family has its own command so that families build independently."""
    os.makedirs(BIN, exist_ok=True)
    rd = repo_dir()
    hdir, out = HARNESS, os.path.join(BIN, cmd + ("_race" if race else ""))
    if rd != "/repo":
        tag = hashlib.sha1(rd.encode()).hexdigest()[:8]
        hdir = os.path.join(WORK, "harness_" + tag)
        shutil.rmtree(hdir, ignore_errors=True)
        shutil.copytree(HARNESS, hdir)
        gm = open(os.path.join(hdir, "go.mod")).read().replace("=> /repo", "=> " + rd)
        open(os.path.join(hdir, "go.mod"), "w").write(gm)
        out = os.path.join(BIN, cmd + ("_race" if race else "") + "_" + tag)
    want = open(os.path.join(rd, "go.sum")).read()
    gs = os.path.join(hdir, "go.sum")
    if not os.path.exists(gs) or open(gs).read() != want:
        open(gs, "w").write(want)
    tmp = "%s.tmp%d" % (out, os.getpid())
    rc, o, dt = sh(["go", "build"] + (["-race"] if race else []) + ["-tags", "verif", "-o", tmp, "./cmd/" + cmd], cwd=hdir, env=GOENV,
                   timeout=1500, check=False)
    if rc != 0:
        raise Inconclusive("harness does not build against %s:\n%s" % (rd, o[-6000:]))
    os.replace(tmp, out)      # atomic: a concurrently running copy keeps its old inode
    return out


def work_tag():
    rd = repo_dir()
    return ("" if rd == "/repo" else "_" + hashlib.sha1(rd.encode()).hexdigest()[:8]) + os.environ.get("VERIF_RUN_TAG", "")


def workdir(name):
    d = os.path.join(WORK, name + work_tag())
    shutil.rmtree(d, ignore_errors=True)
    os.makedirs(d)
    for f in glob.glob(os.path.join(SPEC, "*")):
        if os.path.isfile(f):
            shutil.copy(f, d)
    return d


TLA_CP = "/opt/veriftools/tla/tla2tools.jar:/opt/veriftools/tla/CommunityModules-deps.jar"


def tlc(d, module, cfg, extra=(), workers=None, timeout=900, javaopts=None, heap=None):
    """run TLC in scratch dir d; returns (rc, stdout, seconds). The JVM heap is capped explicitly (the stock
    wrapper lets every JVM grow to 25% of RAM, and a check runs several TLC processes side by side)."""
    env = dict(os.environ)
    if javaopts:
        env["JAVA_TOOL_OPTIONS"] = javaopts
    heap = heap or os.environ.get("VERIF_TLC_HEAP") or ("4g" if str(workers) == "1" else "8g")
    jtmp = os.path.join(d, "jtmp")     # TLC unpacks its standard modules into java.io.tmpdir on every start
    os.makedirs(jtmp, exist_ok=True)
    cmd = ["java", "-XX:+UseParallelGC", "-Xmx" + heap, "-Xss64m", "-Djava.io.tmpdir=" + jtmp, "-cp", TLA_CP, "tlc2.TLC",
           "-workers", str(workers or "auto"), "-metadir", os.path.join(d, "meta_" + cfg.replace(".cfg", "")),
           "-config", cfg] + list(extra) + [module]
    rc, out, dt = sh(cmd, cwd=d, env=env, timeout=timeout, check=False)
    return rc, out, dt


def tlc_stats(out):
    """states generated / distinct / depth from TLC's own summary"""
    m = re.search(r"(\d+) states generated, (\d+) distinct states found", out)
    gen, dist = (int(m.group(1)), int(m.group(2))) if m else (0, 0)
    m = re.search(r"depth of the complete state graph search is (\d+)", out)
    depth = int(m.group(1)) if m else 0
    return gen, dist, depth


def tlc_failed(out):
    """None if TLC finished without error, else a short description"""
    if "Model checking completed. No error has been found." in out:
        return None
    if re.search(r"Finished in .*", out) and "Error:" not in out:
        return None
    m = re.search(r"Error: (.*)", out)
    return m.group(1) if m else "TLC did not complete"


# ---------------------------------------------------------------------------------------
# scenarios

FLAGMAP = {"replace": "replace", "atomic": "atomic", "cleanup": "cleanupOnFail", "keep": "keepHistory",
           "nohooks": "noHooks", "lim": "maxHistory", "ver": "version", "dry": "dryRun",
           "takeown": "takeOwnership", "clientOnly": "clientOnly", "createNS": "createNamespace",
           "skipCRDs": "skipCRDs", "force": "force", "install": "install"}

CHARTS = json.load(open(os.path.join(SPEC, "charts.json")))


def kind_of_id(oid):
    for c in CHARTS.values():
        if oid in c["res"]:
            return c["res"][oid]["kind"]
        if oid in c["hooks"]:
            return c["hooks"][oid]["kind"]
        if oid in c.get("crds", []):
            return "CustomResourceDefinition"
    return "ConfigMap"


def lab_desc(lab):
    return "%s %s %s" % (lab["kind"], lab["verb"], lab["id"])


def tlc_scenario_to_harness(js, sid, driver):
    """TLC hist (Helm.tla GenExport) -> harness scenario (DESIGN 2.7)"""
    sc = {"id": sid, "driver": driver, "pre": [], "steps": []}
    sched = []
    for st in js["steps"]:
        if st["step"] in ("c", "e"):
            sched.append({"k": st["step"], "p": st["p"]})
            continue
        if st["step"] == "op":
            sched.append({"k": "b", "p": st.get("p", 1)})
        if st["step"] == "init":
            charts = [c for c in st.get("store", [])]
            used = [i for i, c in enumerate(charts) if c != "none"]
            sts = st.get("sts", [])
            # a history that successful operations produce: revisions 1..n, all superseded but the last, which is deployed
            chain = used == list(range(len(used))) and all(
                sts[i] == ("deployed" if i == used[-1] else "superseded") for i in used) if sts and used else True
            if chain:
                for rev, ch in enumerate(charts, start=1):
                    if ch != "none":
                        # the initial ledger of the specification is reached by real operations
                        sc.setdefault("setup", []).append({"op": "install" if rev == 1 else "upgrade", "chart": ch, "flags": {}})
            else:
                # any other ledger is written into release storage record by record
                sc["preledger"] = [{"rev": i + 1, "st": sts[i], "chart": charts[i]} for i in used]
            for oid, o in st["cluster"].items():
                if o["own"] != "absent":
                    if chain and oid in CHARTS.get(next((c for c in st.get("store", []) if c != "none"), ""), {"res": {}})["res"]:
                        continue      # created by the setup operations
                    sc["pre"].append({"res": oid, "kind": kind_of_id(oid), "own": o["own"], "f1": o["f1"],
                                      "f2": o["f2"], "keep": o["pol"] == "keep"})
        elif st["step"] == "op":
            m = st["m"]
            flags = {FLAGMAP[k]: v for k, v in m.items() if k in FLAGMAP}
            if flags.get("dryRun") and m["kind"] in ("install", "upgrade"):
                # the specification has one "dry" flag; the code has four spellings: spread them (deterministically)
                h = int(hashlib.sha1(("%s/%d" % (sid, len(sc["steps"]))).encode()).hexdigest(), 16)
                sp = ["DryRun", "client", "server", "true"][h % 4]
                if sp != "DryRun" and not m.get("clientOnly"):
                    flags["dryRun"] = False
                    flags["dryRunOption"] = sp
                flags["postRender"] = (h // 4) % 2 == 0
                flags["cancelled"] = (h // 8) % 3 == 0
                # through the command line a dry install is, one time in three, spelled "helm template" instead:
                # with --validate (and any --dry-run value) for a server-side dry run, plain for client-only
                if m["kind"] == "install" and not m.get("install"):
                    if m.get("clientOnly"):
                        flags["tplDry"] = ["", "false", "none", "client", "server", "true"][(h // 24) % 6]
                    elif (h // 24) % 3 == 0:
                        flags["tpl"] = ["validate", "validate-false", "validate-none", "validate-server", "validate-client"][(h // 72) % 5]
                        flags["replace"] = True      # helm template always sets Replace (no name check)
                    # helm template --include-crds only changes what is printed
                    flags["includeCRDs"] = (h // 360) % 2 == 0 and bool(m.get("clientOnly") or flags.get("tpl"))
            if flags.get("dryRun") and m["kind"] in ("uninstall", "rollback"):
                h2 = int(hashlib.sha1(("%s/%d/u" % (sid, len(sc["steps"]))).encode()).hexdigest(), 16)
                flags["dryTrue"] = h2 % 2 == 0      # command line only: --dry-run=true instead of --dry-run
            s = {"op": m["kind"], "flags": flags, "proc": st.get("p", 1)}
            if m["chart"] != "none":
                s["chart"] = m["chart"]
            if st["fault"]:
                s["fault"] = st["fault"]
                s["expect"] = lab_desc(st["flab"])
            if st["crash"]:
                s["crash"] = st["crash"]
            sc["steps"].append(s)
        elif st["step"] == "edit":
            e = st["e"]
            if e["kind"] == "edit":
                sc["steps"].append({"edit": {"res": e["res"], "field": e["field"], "value": e["value"]}})
            elif e["kind"] == "oobnew":
                sc["steps"].append({"oobnew": {"res": e["res"], "kind": kind_of_id(e["res"]), "own": e["value"], "f1": "q", "f2": "-"}})
            elif e["kind"] == "oobunkeep":
                sc["steps"].append({"oobunkeep": e["res"]})
            elif e["kind"] == "oobdel":
                sc["steps"].append({"oobdel": e["res"]})
            elif e["kind"] == "oobdisown":
                sc["steps"].append({"oobdisown": e["res"]})
            else:
                sc["steps"].append({"oobkeep": e["res"]})
    if any(t["k"] in ("c", "e") for t in sched):
        sc["sched"] = sched
    return sc


def scenario_key(sc):
    c = dict(sc)
    c.pop("id", None)
    return json.dumps(c, sort_keys=True)


def generate(d, module, cfg, num, depth, seed, timeout=600, exhaustive=False):
    """TLC with GenExport: returns the list of raw TLC scenarios (dedup'd).
    default: -simulate (seeded random behaviours); exhaustive=True: breadth-first over ALL behaviours of the
    configuration (hist is part of the state, so every complete behaviour is exported once) - used with small
    menus to cover every short operation sequence"""
    os.makedirs(os.path.join(d, "gen"), exist_ok=True)
    for f in glob.glob(os.path.join(d, "gen", "*.json")):
        os.remove(f)
    if exhaustive:
        rc, out, dt = tlc(d, module, cfg, workers=1, timeout=timeout)
        if tlc_failed(out):
            raise Inconclusive("scenario enumeration failed:\n" + out[-3000:])
    else:
        rc, out, dt = tlc(d, module, cfg, extra=["-simulate", "num=%d" % num, "-depth", str(depth), "-seed", str(seed)],
                          workers=1, timeout=timeout)
        if "Error:" in out and "The number of states generated" not in out:
            raise Inconclusive("scenario generation failed:\n" + out[-3000:])
    raws, seen = [], set()
    for f in sorted(glob.glob(os.path.join(d, "gen", "*.json")), key=lambda x: int(re.findall(r"s(\d+)\.json", x)[0])):
        js = json.load(open(f))
        k = json.dumps(js["steps"], sort_keys=True)
        if k in seen:
            continue
        seen.add(k)
        raws.append(js)
    return raws, out


def run_scenarios(hv, scenarios, d, name="scen"):
    """run scenarios on the real code; returns list of events (dicts)"""
    sf = os.path.join(d, name + ".ndjson")
    tf = os.path.join(d, name + ".trace.ndjson")
    with open(sf, "w") as f:
        for s in scenarios:
            f.write(json.dumps(s) + "\n")
    rc, out, dt = sh([hv, "run", "-charts", os.path.join(SPEC, "charts.json"), "-in", sf, "-out", tf], cwd=ROOT,
                     timeout=3000, check=False)
    if rc != 0:
        raise Inconclusive("harness run failed (%d):\n%s" % (rc, out[-4000:]))
    return tf, dt


def load_trace(tf):
    return [json.loads(l) for l in open(tf) if l.strip()]


def split_traces(events):
    """list of (scenario id, [events]); harness notes are dropped (see notes_of)"""
    out, cur = [], None
    for e in events:
        if e["ev"] == "note":
            continue
        if e["ev"] == "reset":
            cur = (e["scenario"], [])
            out.append(cur)
        cur[1].append(e)
    return out


def notes_of(events):
    """{scenario id: [note kinds]} (e.g. sched-diverged)"""
    out, cur = {}, None
    for e in events:
        if e["ev"] == "reset":
            cur = e["scenario"]
        elif e["ev"] == "note":
            out.setdefault(cur, []).append(e["kind"])
    return out


def write_trace(path, traces):
    with open(path, "w") as f:
        for _, evs in traces:
            for e in evs:
                f.write(json.dumps(e) + "\n")


# ---------------------------------------------------------------------------------------
# conformance: traces of the real code must be behaviours of Helm.tla

def _validate_one(d, traces, max_rounds, timeout):
    remaining = list(traces)
    divergences, total_states = [], 0
    for _ in range(max_rounds):
        if not remaining:
            break
        write_trace(os.path.join(d, "trace.ndjson"), remaining)
        rc, out, dt = tlc(d, "HelmTrace.tla", "HelmTrace.cfg", workers=1, timeout=timeout,
                          javaopts="-Dtlc2.tool.queue.IStateQueue=StateDeque")
        gen, dist, depth = tlc_stats(out)
        total_states += dist
        m = re.search(r'TRACE-REJECTED matched-lines", (\d+), "of", (\d+)', out)
        if not m:
            if tlc_failed(out):
                raise Inconclusive("trace validation did not complete:\n" + out[-3000:])
            break
        matched = int(m.group(1))
        pos = 0
        for idx, (sid, evs) in enumerate(remaining):
            if pos + len(evs) > matched:
                within = matched - pos
                ev = evs[within] if within < len(evs) else None
                divergences.append((sid, within, ev))
                del remaining[idx]
                break
            pos += len(evs)
        else:
            raise Inconclusive("cannot locate rejected line %d" % matched)
    else:
        # too many divergent traces in this chunk: the rest is left unvalidated and counted as divergent
        for sid, evs in remaining:
            divergences.append((sid, -1, None))
        remaining = []
    return [sid for sid, _ in remaining], divergences, total_states


def validate_traces(d, traces, max_rounds=6, timeout=1500, par=6):
    """conformance: every trace must be a behaviour of Helm.tla (HelmTrace.tla). A rejected trace is removed and
    the rest re-validated. returns (accepted ids, divergences=[(scenario id, line within scenario, event)], states)"""
    from concurrent.futures import ThreadPoolExecutor
    if not traces:
        return [], [], 0
    chunks = _chunks(traces, par if sum(len(t[1]) for t in traces) > 3000 else 1)
    with ThreadPoolExecutor(len(chunks)) as ex:
        futs = [ex.submit(_validate_one, _subdir(d, "val%d" % i), c, max_rounds, timeout) for i, c in enumerate(chunks)]
        res = [f.result() for f in futs]
    return [a for r in res for a in r[0]], [x for r in res for x in r[1]], sum(r[2] for r in res)


# ---------------------------------------------------------------------------------------
# monitor: property predicates on observed states

def _subdir(d, name):
    sd = os.path.join(d, name)
    shutil.rmtree(sd, ignore_errors=True)
    os.makedirs(sd)
    for f in glob.glob(os.path.join(d, "*")):
        if os.path.isfile(f) and (f.endswith(".tla") or f.endswith(".cfg") or f.endswith("charts.json")):
            shutil.copy(f, sd)
    return sd


def _chunks(traces, k):
    """split the list of traces into k chunks of roughly equal event count (whole scenarios only)"""
    k = max(1, min(k, len(traces)))
    out = [[] for _ in range(k)]
    sizes = [0] * k
    for t in sorted(traces, key=lambda t: -len(t[1])):
        i = sizes.index(min(sizes))
        out[i].append(t)
        sizes[i] += len(t[1])
    return [c for c in out if c]


def _monitor_one(sd, traces, timeout):
    write_trace(os.path.join(sd, "trace.ndjson"), traces)
    rc, out, dt = tlc(sd, "HelmMon.tla", "HelmMon.cfg", workers=1, timeout=timeout)
    total = sum(len(evs) for _, evs in traces)
    gen, dist, depth = tlc_stats(out)
    if depth < total + 1:
        raise Inconclusive("monitor did not consume the whole trace (%d of %d):\n%s" % (depth, total, out[-3000:]))
    viols = []
    bounds, pos = [], 0
    for sid, evs in traces:
        bounds.append((pos, pos + len(evs), sid, evs))
        pos += len(evs)
    for m in re.finditer(r'<<"MONVIOL", (\d+), "([A-Za-z0-9_]+)">>', out):
        line, name = int(m.group(1)), m.group(2)
        for lo, hi, sid, evs in bounds:
            if lo < line <= hi:
                viols.append((name, sid, line - lo - 1, evs[line - lo - 1]))
                break
    return viols, dist


def monitor(d, traces, timeout=1500, par=6):
    """property predicates (HelmMon.tla) on the observed states; the trace is split over `par` TLC
    processes. returns list of (check name, scenario id, line within scenario, event), states"""
    from concurrent.futures import ThreadPoolExecutor
    chunks = _chunks(traces, par if sum(len(t[1]) for t in traces) > 3000 else 1)
    with ThreadPoolExecutor(len(chunks)) as ex:
        futs = [ex.submit(_monitor_one, _subdir(d, "mon%d" % i), c, timeout) for i, c in enumerate(chunks)]
        res = [f.result() for f in futs]
    viols = [v for r in res for v in r[0]]
    return viols, sum(r[1] for r in res)


# ---------------------------------------------------------------------------------------
# known findings

def load_known():
    out = []
    if os.path.exists(KNOWN):
        for l in open(KNOWN):
            l = l.strip()
            if l and not l.startswith("#") and not l.startswith("fixed:"):
                out.append(json.loads(l))
    return out


# ---------------------------------------------------------------------------------------
# evidence

def write_evidence(pid, tier, seed, level, coverage, wall, violations, assumptions=()):
    evid = EVID if repo_dir() == "/repo" else os.path.join(WORK, "evidence" + work_tag())
    os.makedirs(evid, exist_ok=True)
    ev = {"property_id": pid, "tier": tier, "seed": int(seed), "level": level, "coverage": coverage,
          "assumptions": list(assumptions), "wall_s": round(wall, 2), "violations": int(violations)}
    with open(os.path.join(evid, pid + ".json"), "w") as f:
        json.dump(ev, f, indent=1)
    return ev
