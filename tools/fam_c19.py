"""C19 - repository credentials are sent only to the repository's own origin.

Pipeline (spec/Creds.tla, spec/CredsObs.tla, harness/fam/creds):
  1. TLC enumerates every case = call path {HTTP getter, ChartDownloader by repo/chart name, ChartDownloader by URL,
     ChartPathOptions.LocateChart with RepoURL, action.Pull with RepoURL, downloader.Manager.Update with one dependency, and with
     two dependencies from a private and a public repository in either order} x TLS settings on the repository entry x repository URL x
     form of the chart URL in the index (relative, absolute same origin, or differing in exactly one of scheme, host,
     sub-domain, host-name suffix, port, host case, userinfo, userinfo that looks like the repository host, default-port
     spelling, path) x pass-credentials x redirect of the chart URL to an unrelated domain; it plays the request flow of
     each path as the code does it, checks the property on the model's own requests (modulo the recorded shape of lead
     L17) and exports every finished case;
  2. `hv_misc creds-run` replays every case on the real code; a capture server (pipe transport injected through
     getter.WithTransport, and an HTTP(S) proxy for the paths that hard-code getter.All) records scheme, host, port and
     Authorization of every request that leaves helm;
  3. TLC (CredsObs.tla) evaluates  auth => passAll \\/ Origin(request) = Origin(repository)  on every OBSERVED request.
The oracle is one-directional; that same-origin requests do carry the credentials is only a sanity condition.
"""
import glob, json, os, re, time
import vlib
from vlib import Inconclusive, log

PID = "C19"
QUICK = dict(cfg="MC_Creds.cfg", concs=2)
THOROUGH = dict(cfg="MC_Creds_thorough.cfg", concs=4)
KF_L17 = "KF-L17-pull-repo-credentials-cross-origin"


def origin(u):
    return (u["scheme"], u["host"], u["port"] or (443 if u["scheme"] == "https" else 80))


def monitor(d, obs):
    """CredsObs.tla on the observed requests: returns the set of indexes (0-based) of violating observations"""
    with open(os.path.join(d, "creds_obs.ndjson"), "w") as f:
        for o in obs:
            f.write(json.dumps(dict(id=o["id"], passAll=o["passAll"], repo=o["repo"],
                                    reqs=[dict(scheme=r["scheme"], host=r["host"], port=r["port"], auth=r["auth"]) for r in o["reqs"]])) + "\n")
    rc, out, dt = vlib.tlc(d, "CredsObs.tla", "CredsObs.cfg", workers=1, timeout=600)
    m = re.search(r'<<"OBSDONE", (\d+)>>', out)
    gen, dist, depth = vlib.tlc_stats(out)
    if not m or int(m.group(1)) != len(obs) or dist != len(obs) + 1:
        raise Inconclusive("CredsObs.tla did not consume all %d observations:\n%s" % (len(obs), out[-3000:]))
    return {int(x) - 1 for x in re.findall(r'<<"OBSVIOL", (\d+), \d+>>', out)}, dist


def leaking(o):
    ro = origin(o["repo"])
    return [r for r in o["reqs"] if r["auth"] and not o["passAll"] and (r["scheme"], r["host"], r["port"]) != ro]


def known_for(o, listed):
    if KF_L17 in listed and o["path"] == "pull" and all(r["kind"] in ("chart", "prov") for r in leaking(o)):
        return KF_L17
    return None


def describe(o):
    rs = ["%s %s://%s%s" % (r["kind"], r["scheme"], r["rawhost"], " +Authorization" if r["auth"] else "")
          for r in o["reqs"]]
    return "path=%s variant=%s passAll=%s redirect=%s tls=%s order=%s conf=%s repo=%s chart=%s requests=[%s]" % (
        o["path"], o["variant"], o["passAll"], o["redirect"], o.get("tls"), o.get("order"), o.get("conf"), o["repoURL"], o["chartURL"], "; ".join(rs))


def run_cases(d, hv, cases, seed, concs, shards=4):
    """replay the cases; the capture of one hv_misc process is global, so the cases are replayed one after the other within a
    process - several processes (each with its own capture server and proxy) share the work"""
    import subprocess
    shards = max(1, min(shards, len(cases)))
    t0 = time.time()
    procs = []
    for k in range(shards):
        part = cases[k::shards]
        cf, of = os.path.join(d, "cases_%d.ndjson" % k), os.path.join(d, "obs_%d.ndjson" % k)
        with open(cf, "w") as f:
            for c in part:
                f.write(json.dumps(c) + "\n")
        procs.append((subprocess.Popen([hv, "creds-run", "-cases", cf, "-out", of, "-seed", str(seed), "-n", str(concs),
                                        "-tmp", os.path.join(d, "tmp%d" % k)], cwd=d, stdout=subprocess.DEVNULL,
                                       stderr=subprocess.PIPE, text=True), of, len(part)))
    obs = []
    for p, of, n in procs:
        try:
            _, err = p.communicate(timeout=1500)
        except subprocess.TimeoutExpired:
            p.kill()
            raise Inconclusive("creds-run timed out")
        if p.returncode != 0:
            raise Inconclusive("creds-run failed (%d): %s" % (p.returncode, (err or "")[-2000:]))
        got = [json.loads(l) for l in open(of) if l.strip()]
        if len(got) != n * concs:
            raise Inconclusive("harness replayed %d of %d cases" % (len(got), n * concs))
        obs += got
    obs.sort(key=lambda o: (o["conc"], o["id"]))
    return obs, time.time() - t0


def run(pid, tier, seed, replay=None):
    t0 = time.time()
    P = THOROUGH if tier == "thorough" else QUICK
    hv = vlib.build_hv("hv_misc")
    d = vlib.workdir(PID)
    listed = {k["id"] for k in vlib.load_known() if k.get("status", "known") == "known"}
    if replay:
        rp = json.load(open(replay))
        obs, _ = run_cases(d, hv, [rp["case"]], rp.get("seed", seed), rp.get("concs", 2))
        bad, _ = monitor(d, obs)
        rcode, seen = 0, set()
        for i in sorted(bad):
            kf = known_for(obs[i], listed)
            if (kf, obs[i]["id"]) in seen:
                continue
            seen.add((kf, obs[i]["id"]))
            if kf:
                print("KNOWN-FINDING: property=%s %s %s" % (PID, kf, describe(obs[i])))
            else:
                rcode = 1
                print("VIOLATION property=%s replay=%s %s" % (PID, replay, describe(obs[i])))
        return rcode
    viol_dir = os.path.join(vlib.WORK, PID + "_violations" + vlib.work_tag())
    os.makedirs(viol_dir, exist_ok=True)

    # 1. the model: all cases, all flows; the property on the model's own requests
    os.makedirs(os.path.join(d, "gen"), exist_ok=True)
    rc, out, tlc_dt = vlib.tlc(d, "MC_Creds.tla", P["cfg"], workers=2, timeout=900)
    err = vlib.tlc_failed(out)
    if err:
        # a model-level violation is a lead, not a verdict: it would show up below on the real code if it is real
        log(out[-3000:])
        raise Inconclusive("Creds.tla violates its own invariant outside the recorded shape: %s" % err)
    gen, dist, depth = vlib.tlc_stats(out)
    cases = [json.load(open(p)) for p in sorted(glob.glob(os.path.join(d, "gen", "k*.json")))]
    if not cases:
        raise Inconclusive("TLC exported no cases")
    predicted_leaks = sum(1 for c in cases if not c["modelOK"])

    # 2. replay
    obs, go_dt = run_cases(d, hv, cases, seed, P["concs"])
    bycase = {c["id"]: c for c in cases}

    # 3. verdict from TLC on the observed requests
    bad, mon_states = monitor(d, obs)

    # sanity of the harness: the capture must see credentials where they belong, flows must be complete
    conform = incomplete = 0
    seen_auth = {}
    nreq = 0
    for o in obs:
        c = bycase[o["id"]]
        nreq += len(o["reqs"])
        got = [(r["kind"], r["host"], r["auth"]) for r in o["reqs"]]
        want = [(m["kind"], m["url"]["host"], m["auth"]) for m in c["model"]]
        if o["path"] == "manager2":      # the two index files are fetched concurrently
            got, want = sorted(got), sorted(want)
        ok = [g[:2] for g in got] == [w[:2] for w in want]
        if not ok:
            incomplete += 1
        elif got == want:
            conform += 1
        ro = origin(o["repo"])
        if any(r["auth"] and r["ours"] and (r["scheme"], r["host"], r["port"]) == ro for r in o["reqs"]):
            seen_auth[o["path"]] = seen_auth.get(o["path"], 0) + 1
        if o.get("panic"):
            raise Inconclusive("harness panic in case %d: %s" % (o["id"], o["panic"][:2000]))
    paths = sorted({c["path"] for c in cases})
    blind = [p for p in paths if not seen_auth.get(p)]
    if blind:
        raise Inconclusive("the capture never saw the repository's credentials on a same-origin request of path(s) %s: "
                           "the check would be vacuous" % blind)
    if incomplete * 10 > len(obs):
        ex = next(o for o in obs if sorted(r["kind"] for r in o["reqs"]) != sorted(m["kind"] for m in bycase[o["id"]]["model"]))
        raise Inconclusive("%d of %d replays did not issue the requests of the model's flow, e.g. %s err=%s"
                           % (incomplete, len(obs), describe(ex), ex["err"][:300]))

    known, viol = {}, {}
    for i in sorted(bad):
        o = obs[i]
        kf = known_for(o, listed)
        if kf:
            known.setdefault(kf, []).append(o)
        else:
            viol.setdefault(o["id"], o)
    for kf, os_ in sorted(known.items()):
        print("KNOWN-FINDING: property=%s %s (%d replays; e.g. %s)" % (PID, kf, len(os_), describe(min(os_, key=lambda o: (o["redirect"], o["id"])))))
    order = sorted(viol, key=lambda i: (viol[i]["redirect"], origin(viol[i]["repo"]), i))
    for cid in order[:25]:
        path = os.path.join(viol_dir, "k%d.json" % cid)
        json.dump(dict(case=bycase[cid], seed=seed, concs=P["concs"]), open(path, "w"))
        print("VIOLATION property=%s replay=%s %s" % (PID, path, describe(viol[cid])))
    if len(order) > 25:
        print("... %d violating cases in all; the first 25 are listed" % len(order))

    cross = sum(1 for c in cases if c["crossOrigin"] and not c["passAll"])
    cov = {
        "states": dist, "transitions": gen, "exhaustive": True,
        "traces_validated_against_impl": conform,
        "samples": [describe(o) for o in obs[:: max(1, len(obs) // 3)][:3]],
        "evaluations": nreq, "distinct_nontrivial": cross,
        "rule": "cases = call path x repository URL x chart URL form x pass-credentials x redirect x TLS settings of the repository entry x order of "
                "two dependencies from two repositories, all enumerated by TLC; "
                "evaluations = requests observed at the capture server and judged by CredsObs.tla; non-trivial = cases whose chart "
                "URL is on another origin than the repository with pass-credentials off; traces_validated = replays whose observed "
                "request sequence and Authorization flags equal the model's flow",
        "exhaustive_config": P["cfg"], "cases": len(cases), "concretisations": P["concs"], "replays": len(obs),
        "requests_observed": nreq, "monitor_states": mon_states,
        "replays_with_incomplete_flow": incomplete,
        "same_origin_replays_carrying_credentials_per_path": seen_auth,
        "cases_where_the_model_itself_predicts_a_leak": predicted_leaks,
        "replays_excused_by_known_findings": {k: len(v) for k, v in known.items()},
        "violating_cases": len(order),
        "checker_cmd": "tlc MC_Creds.tla -config %s ; hv_misc creds-run ; tlc CredsObs.tla" % P["cfg"],
    }
    assumptions = [
        "the capture server sees every request helm sends: HTTPGetter through getter.WithTransport (net.Pipe dialer), "
        "LocateChart / Pull (getter.All is hard-coded) through HTTP_PROXY / HTTPS_PROXY with InsecureSkipTLSverify",
        "an Authorization header that net/http derives from the userinfo of the chart URL itself (user name of the URL, empty password) "
        "is not the repository's credentials and is not counted",
        "redirects: one hop from the chart URL to an unrelated domain; OCI registries are out of scope",
        "the oracle is one-directional: a same-origin request without credentials is not a violation",
    ]
    vlib.write_evidence(PID, tier, seed, "model_checking", cov, time.time() - t0, len(order), assumptions)
    log("C19: %d cases x %d, %d requests, %d conform to the model flow, %d incomplete, TLC %.0fs, replay %.0fs, %d violating cases"
        % (len(cases), P["concs"], nreq, conform, incomplete, tlc_dt, go_dt, len(order)))
    return 1 if order else 0
