"""C10 - all storage backends behave as the same faithful key-value store.

Specification: spec/Storage.tla (kv : (name, revision) -|-> [rel, labels]; create / get / update /
delete / list / query, each with its specified reply).  Pipeline of one check:

  1. build harness/cmd/hv_storage against the tree under test;
  2. exhaustive TLC run of MC_Storage(.cfg | _thorough.cfg): type invariant, key = body, and the
     reply / frame properties of C10 on every transition of the specification;
  3. call sequences from TLC: EVERY sequence of length 3 (quick) / 4 (thorough) over a 17-call
     alphabet (MC_EnumStorage, breadth-first) + seeded random behaviours of length 5 / 7 over the
     whole key space (MC_GenStorage, -simulate -seed VERIF_SEED) + a few long seeded random sequences;
  4. hv_storage replays every sequence step by step on driver.Memory, driver.Secrets and
     driver.ConfigMaps (the latter two through the real client-go over the simulated API server),
     with generated names / contents, and records reply + projected store after every call;
  5. TLC (StorageTrace.tla) reads the traces back: a trace is accepted iff every logged reply is
     the specification's reply and every logged store is the specification's kv;
  6. verdict: a rejected line, a disagreement between the drivers, or a panic inside helm is a
     VIOLATION (with a replay file, reproduced once more before it is printed) unless it matches
     a listed known finding by driver + call + input shape.
"""
import collections, concurrent.futures, glob, json, os, random, re, shutil, time
import vlib
from vlib import Inconclusive, log

TIERS = {
    "quick": dict(mc="MC_Storage.cfg", mc_workers=4, mc_timeout=600,
                  enum="MC_EnumStorage.cfg", sim="MC_GenStorage.cfg", sim_n=1500, sim_len=5,
                  long_n=40, long_len=40, big_every=0, batch=6000, par=2, hv_workers=4),
    "thorough": dict(mc="MC_Storage_thorough.cfg", mc_workers=8, mc_timeout=3000,
                     enum="MC_EnumStorage_thorough.cfg", sim="MC_GenStorage_thorough.cfg", sim_n=12000, sim_len=7,
                     long_n=300, long_len=80, big_every=8, batch=9000, par=3, hv_workers=6),
}

SPEC_FILES = ["Storage.tla", "MC_Storage.tla", "StorageTrace.tla", "StorageTrace.cfg"]

NOSEL = {"name": "", "owner": "", "status": "", "version": ""}
NAMES, REVS, STATUSES, VARIANTS = ["n1", "n2"], [1, 2, 3], ["deployed", "superseded", "failed"], [1, 2]


# ---------------------------------------------------------------------------------------
# scenarios

def call_str(c):
    if c["op"] in ("create", "update"):
        return "%s(%s/%d,%s,v%d)" % (c["op"], c["name"], c["rev"], c["st"], c["v"])
    if c["op"] in ("get", "delete"):
        return "%s(%s/%d)" % (c["op"], c["name"], c["rev"])
    if c["op"] == "modify":
        return "modify(%s/%d:=%s,read-by-%s)" % (c["name"], c["rev"], c["st"], "query" if c["q"]["owner"] == "helm" else "list")
    q = ",".join("%s=%s" % (k, v) for k, v in sorted(c["q"].items()) if v)
    return "%s(%s)" % (c["op"], q)


def describe(sc):
    return " ; ".join(call_str(c) for c in sc["calls"])


def tlc_generate(d, cfg, prefix, extra, timeout):
    """run the generator configuration; returns scenarios [{id, calls, exp}] in TLC's order"""
    g = os.path.join(d, "gen")
    shutil.rmtree(g, ignore_errors=True)
    os.makedirs(g)
    rc, out, dt = vlib.tlc(d, "MC_GenStorage.tla", cfg, extra=extra, workers=1, timeout=timeout)
    if "Error:" in out:
        raise Inconclusive("sequence generation (%s) failed:\n%s" % (cfg, out[-3000:]))
    scs = []
    files = glob.glob(os.path.join(g, "s*.json"))
    for f in sorted(files, key=lambda x: int(re.findall(r"s(\d+)\.json$", x)[0])):
        js = json.load(open(f))
        scs.append({"id": "%s%d" % (prefix, js["n"]), "calls": [x["c"] for x in js["calls"]],
                    "exp": [x["exp"] for x in js["calls"]]})
    shutil.rmtree(g, ignore_errors=True)
    return scs, dt


def long_random(seed, n, length):
    """long seeded random call sequences over the same alphabet (validated as traces only)"""
    rnd = random.Random(seed * 7919 + 17)
    sels = [dict(NOSEL, name=nm, owner="helm") for nm in NAMES] + \
           [dict(NOSEL, name=nm, owner="helm", status=s) for nm in NAMES for s in STATUSES] + \
           [dict(NOSEL, name=nm, version=str(r)) for nm in NAMES for r in REVS] + \
           [dict(NOSEL, owner="helm"), dict(NOSEL, owner="other"), dict(NOSEL)] + [dict(NOSEL, status=s) for s in STATUSES]
    filters = [dict(NOSEL)] + [dict(NOSEL, status=s) for s in STATUSES] + [dict(NOSEL, name=nm) for nm in NAMES]
    out = []
    for i in range(n):
        calls = []
        for _ in range(length):
            op = rnd.choice(["create", "create", "update", "modify", "modify", "get", "delete", "delete", "list", "query"])
            if op in ("create", "update"):
                c = {"op": op, "name": rnd.choice(NAMES), "rev": rnd.choice(REVS), "st": rnd.choice(STATUSES),
                     "v": rnd.choice(VARIANTS), "q": dict(NOSEL)}
            elif op == "modify":
                nm = rnd.choice(NAMES)
                c = {"op": op, "name": nm, "rev": rnd.choice(REVS), "st": rnd.choice(STATUSES), "v": 0,
                     "q": dict(NOSEL, name=nm, owner=rnd.choice(["helm", ""]))}
            elif op in ("get", "delete"):
                c = {"op": op, "name": rnd.choice(NAMES), "rev": rnd.choice(REVS), "st": "", "v": 0, "q": dict(NOSEL)}
            else:
                c = {"op": op, "name": "", "rev": 0, "st": "", "v": 0, "q": dict(rnd.choice(filters if op == "list" else sels))}
            calls.append(c)
        out.append({"id": "r%d" % (i + 1), "calls": calls})
    return out


def harness_scenario(sc):
    return {k: sc[k] for k in ("id", "calls", "big", "conc_id", "drivers") if k in sc}


# ---------------------------------------------------------------------------------------
# one batch: harness -> trace -> TLC

def run_batch(hv, bd, scs, seed, tier, hv_workers):
    """replays scs on the real drivers and validates the traces with TLC.
    returns dict(mismatches=[...], obs=[...], traces=int, accepted=int, lines=int, classes=Counter, states=int)"""
    os.makedirs(bd, exist_ok=True)
    for f in SPEC_FILES:
        shutil.copy(os.path.join(vlib.SPEC, f), bd)
    sf, tf, of = (os.path.join(bd, x) for x in ("seqs.ndjson", "trace.ndjson", "obs.ndjson"))
    with open(sf, "w") as f:
        for sc in scs:
            f.write(json.dumps(harness_scenario(sc)) + "\n")
    rc, out, dt = vlib.sh([hv, "-in", sf, "-out", tf, "-obs", of, "-seed", str(seed), "-tier", tier, "-workers", str(hv_workers)],
                          cwd=bd, timeout=3000, check=False)
    if rc != 0:
        raise Inconclusive("hv_storage failed (%d):\n%s" % (rc, out[-3000:]))
    lines = open(tf, encoding="utf-8").read().split("\n")
    if lines and lines[-1] == "":
        lines.pop()
    rc, tout, tdt = vlib.tlc(bd, "StorageTrace.tla", "StorageTrace.cfg", workers=1, timeout=3000)
    m = re.search(r"depth of the complete state graph search is (\d+)", tout)
    depth = int(m.group(1)) if m else 0
    if depth != len(lines):
        raise Inconclusive("trace validation consumed %d of %d lines:\n%s" % (depth, len(lines), tout[-3000:]))
    bad = {}
    for m in re.finditer(r'<<"MISMATCH", (\d+), "(\w+)">>', tout):
        bad[int(m.group(1))] = m.group(2)
    rejected = "TRACE-REJECTED" in tout
    if bool(bad) != rejected:
        raise Inconclusive("trace validator is inconsistent (mismatches %d, rejected %s):\n%s" % (len(bad), rejected, tout[-2000:]))
    res = dict(mismatches=[], obs=[], traces=0, accepted=0, lines=len(lines), classes=collections.Counter(),
               states=depth, hv_s=dt, tlc_s=tdt, nontrivial=set(), tainted_lines=0)
    cur_bad = False
    wrote = None
    for i, ln in enumerate(lines, 1):
        e = json.loads(ln)
        if e["ev"] == "reset":
            if res["traces"] and not cur_bad:
                res["accepted"] += 1
            res["traces"] += 1
            cur_bad = False
            wrote = False
            continue
        if i in bad:
            cur_bad = True
            res["mismatches"].append(dict(scenario=e["scenario"], drv=e["drv"], step=e["step"], what=bad[i], op=e["call"]["op"],
                                          call=e["call"], reply=e["reply"], raw=e.get("raw", {}), line=i, store=e.get("store", {})))
        elif cur_bad:
            res["tainted_lines"] += 1
        else:
            r = e["reply"]
            res["classes"]["%s:%s:%s%s" % (e["drv"], e["call"]["op"], r["st"], ":nonempty" if r["set"] else "")] += 1
            if e["call"]["op"] in ("create", "update", "modify") and r["st"] == "ok" and not wrote:
                wrote = True
                res["nontrivial"].add(e["scenario"])
    if res["traces"] and not cur_bad:
        res["accepted"] += 1
    res["obs"] = [json.loads(l) for l in open(of, encoding="utf-8") if l.strip()]
    return res


def run_all(hv, d, scs, seed, tier, cfg, tag):
    """batches, a few in parallel"""
    batches = [scs[i:i + cfg["batch"]] for i in range(0, len(scs), cfg["batch"])]
    total = None
    with concurrent.futures.ThreadPoolExecutor(max_workers=cfg["par"]) as ex:
        futs = [ex.submit(run_batch, hv, os.path.join(d, "%s%d" % (tag, i)), b, seed, tier, cfg["hv_workers"])
                for i, b in enumerate(batches)]
        for f in futs:
            r = f.result()
            if total is None:
                total = r
            else:
                for k in ("mismatches", "obs"):
                    total[k] += r[k]
                for k in ("traces", "accepted", "lines", "states", "hv_s", "tlc_s", "tainted_lines"):
                    total[k] += r[k]
                total["classes"] += r["classes"]
                total["nontrivial"] |= r["nontrivial"]
    return total


# ---------------------------------------------------------------------------------------
# verdicts and known findings

def kf_of_mismatch(m):
    """the known-finding id whose signature this rejected line carries (None = none)"""
    raw = m["raw"]
    # L9: Memory.Get / Memory.Delete split the key on ".v"
    if m["drv"] == "memory" and m["op"] in ("get", "delete") and m["what"] == "reply" \
            and raw.get("class") == "invalidkey" and ".v" in raw.get("cname", ""):
        return "KF-L9-memory-key-split"
    # L20: the Kubernetes-backed drivers decode numbers as float64
    if m["drv"] in ("secret", "configmap") and m["op"] in ("get", "delete", "list", "query") and m["what"] == "reply" \
            and raw.get("class") == "ok" and raw.get("bigint") and raw.get("diff") == ["values"]:
        return "KF-L20-k8s-driver-float64-values"
    # ... and the same defect seen through modify: the object the driver's Query / List returned (numbers already
    # float64) is written back, so the stored body itself now holds the changed number
    if m["drv"] in ("secret", "configmap") and m["op"] == "modify" and m["what"] == "store" \
            and raw.get("class") == "ok" and raw.get("bigint") and raw.get("storediff") == ["values"]:
        return "KF-L20-k8s-driver-float64-values"
    return None


def judge(res, listed):
    """-> (violations [(kind, scenario, drv, step, text)], known Counter)"""
    viol, known = [], collections.Counter()
    for m in res["mismatches"]:
        kf = kf_of_mismatch(m)
        if kf and kf in listed:
            known[kf] += 1
            continue
        txt = "%s %s: driver %s replied %s, returned %s, set %s%s" % (
            m["what"], call_str(m["call"]), m["drv"], m["reply"]["st"], json.dumps(m["reply"]["ret"]),
            json.dumps(m["reply"]["set"]), (" [" + m["raw"].get("err", "") + "]") if m["raw"].get("err") else "")
        if m["raw"].get("diff"):
            txt += " differs-on=" + ",".join(m["raw"]["diff"])
        if m["what"] == "store":
            txt += " store=" + json.dumps(m.get("store", {}), sort_keys=True)
        if m["raw"].get("key"):
            txt += " key=" + json.dumps(m["raw"]["key"])
        elif m["raw"].get("cname"):
            txt += " release-name=" + json.dumps(m["raw"]["cname"])
        viol.append(("Trace" + m["what"].capitalize(), m["scenario"], m["drv"], m["step"], txt))
    rejected = {(m["scenario"], m["drv"]): m["step"] for m in res["mismatches"]}
    for o in res["obs"]:
        if o["kind"] == "fidelity":
            continue            # detail of a rejected line (the returned tuple has v = 0), judged there
        if o["kind"] == "disagree":
            # a disagreement is the rejection(s) already judged when, leaving out the drivers whose trace was
            # rejected at or before this step, the remaining drivers agree
            live = [g for g in o.get("groups", []) if any(rejected.get((o["scenario"], dv), 1 << 30) > o["step"] for dv in g)]
            if o.get("groups") and len(live) <= 1:
                continue
            viol.append(("Disagree", o["scenario"], ",".join(o.get("dissent", [])), o["step"], o["detail"]))
        elif o["kind"] == "panic":
            viol.append(("Panic", o["scenario"], o.get("drv", ""), o["step"], "panic inside helm during %s: %s" % (o.get("op"), o["detail"])))
        else:
            viol.append(("Obs-" + o["kind"], o["scenario"], o.get("drv", ""), o["step"], o["detail"]))
    return viol, known


def signature(v):
    kind, sid, drv, step, txt = v
    m = re.match(r"\w+ (\w+)\(", txt)
    return (kind, drv, m.group(1) if m else "")


def minimise(hv, d, sc, seed, tier, want_sig, listed, hv_workers):
    """greedy call removal that keeps a violation of the same signature (same concretisation)"""
    cur = dict(sc, conc_id=sc.get("conc_id", sc["id"]))
    rounds, cur_v = 0, None
    while len(cur["calls"]) > 1 and rounds < 12:
        rounds += 1
        cands = []
        for i in range(len(cur["calls"])):
            c = dict(cur, id="m%d" % i, calls=cur["calls"][:i] + cur["calls"][i + 1:])
            c.pop("exp", None)
            cands.append(c)
        res = run_batch(hv, os.path.join(d, "min"), cands, seed, tier, hv_workers)
        viol, _ = judge(res, listed)
        keep = None
        for c in cands:
            hit = [v for v in viol if v[1] == c["id"] and signature(v) == want_sig]
            if hit:
                keep, cur_v = c, (hit[0][0], sc["id"]) + tuple(hit[0][2:])
                break
        if keep is None:
            break
        cur = dict(keep, id=sc["id"])
    cur.pop("exp", None)
    return cur, cur_v


def self_test(hv, d, scs, seed, tier, hv_workers):
    """binding: a recorded trace with one corrupted reply / store / dropped line must be rejected"""
    pick = [s for s in scs if any(c["op"] == "get" for c in s["calls"]) and "exp" in s and
            any(c["op"] == "get" and e == "ok" for c, e in zip(s["calls"], s["exp"]))][:1]
    if not pick:
        return {"skipped": "no get-hit sequence"}
    bd = os.path.join(d, "selftest")
    base = run_batch(hv, bd, [dict(pick[0], drivers=["secret"])], seed, tier, hv_workers)
    if base["mismatches"]:
        return {"skipped": "picked trace is itself rejected"}
    tf = os.path.join(bd, "trace.ndjson")
    orig = [json.loads(l) for l in open(tf, encoding="utf-8") if l.strip()]
    gi = next(i for i, e in enumerate(orig) if e["ev"] == "call" and e["call"]["op"] == "get" and e["reply"]["st"] == "ok")
    out = {}

    def tlc_rejects(events, at):
        with open(tf, "w", encoding="utf-8") as f:
            for e in events:
                f.write(json.dumps(e) + "\n")
        rc, tout, _ = vlib.tlc(bd, "StorageTrace.tla", "StorageTrace.cfg", workers=1, timeout=600)
        got = sorted({int(m.group(1)) for m in re.finditer(r'<<"MISMATCH", (\d+), "\w+">>', tout)})
        return "TRACE-REJECTED" in tout and got[:1] == [at]

    a = json.loads(json.dumps(orig))
    a[gi]["reply"]["ret"]["v"] = 3 - a[gi]["reply"]["ret"]["v"]
    out["corrupt_returned_release"] = tlc_rejects(a, gi + 1)
    b = json.loads(json.dumps(orig))
    b[gi]["reply"]["st"] = "notfound"
    out["corrupt_reply_status"] = tlc_rejects(b, gi + 1)
    c = json.loads(json.dumps(orig))
    k = sorted(c[gi]["store"])[0]
    c[gi]["store"][k]["st"] = [s for s in STATUSES if s != c[gi]["store"][k]["st"]][0]
    out["corrupt_store"] = tlc_rejects(c, gi + 1)
    wi = next((i for i, e in enumerate(orig) if e["ev"] == "call" and e["call"]["op"] == "create" and e["reply"]["st"] == "ok"), None)
    if wi is not None and wi + 1 < len(orig):
        dd = [e for i, e in enumerate(orig) if i != wi]
        out["dropped_create_line"] = tlc_rejects(dd, wi + 1)
    if not all(out.values()):
        raise Inconclusive("binding self-test failed: a corrupted trace was accepted: %s" % out)
    return out


EXPECTED_CLASSES = ["create:ok", "create:exists", "update:ok", "update:notfound", "modify:ok", "modify:notfound", "get:ok", "get:notfound",
                    "delete:ok", "delete:notfound", "list:ok", "list:ok:nonempty", "query:ok:nonempty", "query:notfound"]


def write_replay(viol_dir, sc, seed, tier, name):
    p = os.path.join(viol_dir, name + ".json")
    body = {"property": "C10", "seed": seed, "tier": tier, "scenario": harness_scenario(sc), "calls": describe(sc)}
    json.dump(body, open(p, "w"), indent=1)
    return p


def run(pid, tier, seed, replay=None):
    t0 = time.time()
    if tier not in TIERS:
        raise Inconclusive("unknown tier %s" % tier)
    cfg = TIERS[tier]
    hv = vlib.build_hv("hv_storage")
    d = vlib.workdir(pid + ("_replay" if replay else ""))
    viol_dir = os.path.join(vlib.WORK, pid + "_violations" + vlib.work_tag())
    os.makedirs(viol_dir, exist_ok=True)
    listed = {k["id"] for k in vlib.load_known() if k.get("status", "known") == "known" and k.get("property") == pid}

    if replay:
        rp = json.load(open(replay))
        sc = rp["scenario"]
        res = run_batch(hv, os.path.join(d, "replay"), [sc], int(rp.get("seed", seed)), rp.get("tier", tier), 1)
        viol, known = judge(res, listed)
        for kf in sorted(known):
            print("KNOWN-FINDING: property=%s %s" % (pid, kf))
        for kind, sid, drv, step, txt in viol:
            print("VIOLATION property=%s replay=%s check=%s driver=%s step=%d %s" % (pid, replay, kind, drv, step, txt))
        return 1 if viol else 0

    # 2. exhaustive model check of the specification
    rc, out, mdt = vlib.tlc(d, "MC_Storage.tla", cfg["mc"], workers=cfg["mc_workers"], timeout=cfg["mc_timeout"])
    err = vlib.tlc_failed(out)
    gen, dist, depth = vlib.tlc_stats(out)
    if err or not dist:
        log(out[-3000:])
        raise Inconclusive("the specification Storage.tla violates its own properties in %s (%s): a model bug, not a verdict" % (cfg["mc"], err))

    # 3. call sequences from TLC
    enum, edt = tlc_generate(d, cfg["enum"], "e", [], 1800)
    sim, sdt = tlc_generate(d, cfg["sim"], "s", ["-simulate", "num=%d" % cfg["sim_n"], "-depth", str(cfg["sim_len"] + 3), "-seed", str(seed)], 1800)
    seen, sims = {json.dumps(s["calls"], sort_keys=True) for s in enum}, []
    for s in sim:
        k = json.dumps(s["calls"], sort_keys=True)
        if k not in seen:
            seen.add(k)
            sims.append(s)
    if len(enum) < 100 or len(sims) < 100:
        raise Inconclusive("generators produced too few sequences (enum %d, random %d)" % (len(enum), len(sims)))
    longs = long_random(seed, cfg["long_n"], cfg["long_len"])
    if cfg["big_every"]:
        for i, s in enumerate(sims + longs):
            if i % cfg["big_every"] == 0:
                s["big"] = True
    scs = enum + sims + longs
    byid = {s["id"]: s for s in scs}

    # 4-5. replay on the real drivers, validate the traces with TLC
    res = run_all(hv, d, scs, seed, tier, cfg, "b")
    if res["traces"] != 3 * len(scs):
        raise Inconclusive("harness produced %d traces for %d scenarios" % (res["traces"], len(scs)))
    st = self_test(hv, d, sims, seed, tier, 1)

    # 6. verdict
    viol, known = judge(res, listed)
    out_viol = []
    if viol:
        # reproduce before reporting (DESIGN section 7)
        vids = sorted({v[1] for v in viol})
        again = run_batch(hv, os.path.join(d, "again"), [byid[i] for i in vids], seed, tier, cfg["hv_workers"])
        viol2, _ = judge(again, listed)
        if sorted(viol) != sorted(viol2):
            raise Inconclusive("violations did not reproduce identically on a second run (%d then %d)" % (len(viol), len(viol2)))
        firsts, sigs = {}, collections.Counter()
        for v in sorted(viol, key=lambda v: (len(byid[v[1]]["calls"]), v[1], v[3])):
            sigs[signature(v)] += 1
            firsts.setdefault(v[1], v)
        minimised = set()
        for sid, v in firsts.items():
            sc = byid[sid]
            path = write_replay(viol_dir, sc, seed, tier, "%s_%s" % (v[0], sid))
            sig = signature(v)
            if sig not in minimised and len(minimised) < 3:
                minimised.add(sig)
                msc, mv = minimise(hv, d, sc, seed, tier, sig, listed, cfg["hv_workers"])
                if mv is not None and len(msc["calls"]) < len(sc["calls"]):
                    path = write_replay(viol_dir, msc, seed, tier, "%s_%s_min" % (v[0], sid))
                    sc, v = msc, mv
            out_viol.append((v, path, sc))
    for kf in sorted(known):
        print("KNOWN-FINDING: property=%s %s (%d rejected traces)" % (pid, kf, known[kf]))
    shown = collections.Counter()
    for (kind, sid, drv, step, txt), path, sc in out_viol:
        sg = signature((kind, sid, drv, step, txt))
        shown[sg] += 1
        if shown[sg] <= 3:
            print("VIOLATION property=%s replay=%s check=%s driver=%s step=%d %s | calls: %s" % (pid, path, kind, drv, step, txt, describe(sc)))
    for sg, n in sorted(shown.items()):
        if n > 3:
            print("... and %d more scenarios violating %s on %s (%s); replay files in %s" % (n - 3, sg[0], sg[1] or "-", sg[2], viol_dir))

    # vacuity guard: every reply class of the specification was observed on every driver in an accepted line
    missing = ["%s:%s" % (dv, c) for dv in ("memory", "secret", "configmap") for c in EXPECTED_CLASSES
               if not res["classes"].get("%s:%s" % (dv, c))]
    cov = {
        "states": dist, "transitions": gen,
        "traces_validated_against_impl": res["accepted"],
        "samples": [describe(s) for s in (enum[len(enum) // 2:len(enum) // 2 + 1] + sims[:2] + longs[:1])],
        "exhaustive": True,
        "exhaustive_config": cfg["mc"], "exhaustive_depth": depth, "exhaustive_seconds": round(mdt, 1),
        "sequences_enumerated_exhaustively": len(enum), "enumeration_config": cfg["enum"],
        "sequences_simulated": len(sims), "simulation_config": cfg["sim"], "sequences_long_random": len(longs),
        "scenarios_with_integers_beyond_2^53": sum(1 for s in scs if s.get("big")),
        "traces_recorded": res["traces"], "trace_lines": res["lines"], "trace_validation_states": res["states"],
        "traces_rejected": res["traces"] - res["accepted"], "lines_not_judged_after_a_rejection": res["tainted_lines"],
        "reply_classes_observed_in_accepted_lines": dict(sorted(res["classes"].items())),
        "reply_classes_never_observed": missing,
        "driver_disagreements_observed": sum(1 for o in res["obs"] if o["kind"] == "disagree"),
        "panics_observed": sum(1 for o in res["obs"] if o["kind"] == "panic"),
        "known_findings_observed": dict(known),
        "binding_self_test": st,
        "seconds": {"exhaustive": round(mdt, 1), "enumerate": round(edt, 1), "simulate": round(sdt, 1),
                    "harness": round(res["hv_s"], 1), "trace_validation": round(res["tlc_s"], 1)},
        "evaluations": len(scs), "distinct_nontrivial": len(res["nontrivial"]),
        "rule": "scenarios = every call sequence of the enumeration config + TLC -simulate behaviours (seeded, deduplicated) + long seeded "
                "random sequences, each replayed on 3 drivers; distinct_nontrivial counts distinct sequences in which at least one write "
                "succeeded on a real driver in an accepted trace",
        "checker_cmd": "tlc MC_Storage.tla -config %s ; tlc MC_GenStorage.tla -config %s ; tlc MC_GenStorage.tla -config %s -simulate ; "
                       "hv_storage ; tlc StorageTrace.tla -config StorageTrace.cfg" % (cfg["mc"], cfg["enum"], cfg["sim"]),
    }
    assumptions = [
        "the Secret / ConfigMap drivers run on the real client-go typed clientset (JSON content type) over simcluster, which implements "
        "GET / LIST with label selectors / POST 409 / PUT 404 / DELETE 404 like a real API server; admission limits (1 MiB object size, label "
        "syntax) are not simulated, generated labels are valid",
        "one namespace per sequence; keys are formed by pkg/storage (makeKey) from the release's own name and revision, as every caller in helm does",
        "a release read back is compared on the property's projection (name, namespace, revision, status, timestamps as instants, chart and "
        "values as JSON values, manifest, hooks, user labels); empty and absent maps / lists are the same value",
        "the memory driver's store can only be observed through its own List",
        "the SQL driver is out of scope (property text: memory, Secret and ConfigMap backends)",
    ]
    vlib.write_evidence(pid, tier, seed, "model_checking", cov, time.time() - t0, len(out_viol), assumptions)
    if out_viol:
        return 1
    if missing:
        raise Inconclusive("reply classes never observed in an accepted trace (coverage would be vacuous): %s" % missing)
    return 0
