"""C17 - provenance verification accepts exactly untampered, trusted-key-signed charts.

Pipeline (spec/Provenance.tla, harness/fam/prov):
  1. TLC enumerates the symbolic model: sign, then every sequence of <= 2 (quick) / <= 3 (thorough) attacker actions
     {FlipArchive, TruncArchive, Rename, EditBody, FixDigest, BreakDigest, FixName, SwapSig(attacker key), EditSigPacket,
     TruncProv} x keyring {signer, signer+others, others only, empty}; it checks the security invariants of the model
     (round trip, authenticity, no forgery without a trusted key, required verification never lets a rejected chart
     through) and exports every state with the expected verdicts (Verify, and DownloadTo per strategy with / without a
     provenance file on the server);
  2. `hv_misc prov-run` generates real OpenPGP keys, packages and signs a chart with helm's own ClearSign, realises every
     abstract action by concrete byte mutations (single-step cases: every bit of the archive's first / last 64 bytes +
     seeded samples, every byte of the signed text, every digest digit, header / hashed-area / hash-tag bits and seeded
     bits of the signature value of the DECODED signature packet, truncations; multi-step cases: several seeded
     realisations) and asks Signatory.Verify, downloader.VerifyChart, action.Verify, ChartPathOptions.LocateChart,
     ChartDownloader.DownloadTo (never / if-possible / always / later) and action.Package --sign for their verdict;
  3. every verdict must equal the specification's; an accepted chart must be reported with the digest and name of the
     archive as it stands and the key that signed.
Mutations of the provenance file that leave the decoded canonical text and signature packet unchanged are not a
tampering: they are counted and not judged.  Trusted base: the OpenPGP primitives (perfect-crypto abstraction).
"""
import glob, json, os, time
import vlib
from vlib import Inconclusive, log

PID = "C17"
QUICK = dict(cfg="MC_Provenance.cfg", reps=3, extra=[])
THOROUGH = dict(cfg="MC_Provenance_thorough.cfg", reps=6, extra=["-all-bits"])


def judge(o):
    """None if the observation agrees with the specification, else the kind of disagreement"""
    if o.get("panic"):
        return "panic"
    if o["equiv"]:
        return None
    if o["accepted"] and not o["expect"]:
        return "accepted_tampered_or_untrusted"
    if not o["accepted"] and o["expect"]:
        return "rejected_valid"
    if o["accepted"] and not o["hashok"]:
        return "accepted_with_wrong_hash_name_or_signer"
    return None


def describe(o):
    return "route=%s keyring=%s actions=%s mutations=%s expected=%s observed=%s%s" % (
        o["route"], o["ring"], "+".join(o.get("hist") or []) or "none", o.get("muts"), "accept" if o["expect"] else "reject",
        "accept" if o["accepted"] else "reject", (" err=%r" % o["err"][:120]) if o.get("err") else "")


def replay_obs(d, hv, cases, seed, reps, extra=()):
    with open(os.path.join(d, "cases.ndjson"), "w") as f:
        for c in cases:
            f.write(json.dumps(c) + "\n")
    rc, out, dt = vlib.sh([hv, "prov-run", "-cases", "cases.ndjson", "-out", "obs.ndjson", "-seed", str(seed), "-reps", str(reps),
                           "-tmp", os.path.join(d, "tmp")] + list(extra), cwd=d, timeout=2400)
    return [json.loads(l) for l in open(os.path.join(d, "obs.ndjson")) if l.strip()], dt


def run(pid, tier, seed, replay=None):
    t0 = time.time()
    P = THOROUGH if tier == "thorough" else QUICK
    hv = vlib.build_hv("hv_misc")
    d = vlib.workdir(PID)
    if replay:
        rp = json.load(open(replay))
        obs, _ = replay_obs(d, hv, [rp["case"]], rp.get("seed", seed), rp.get("reps", P["reps"]), rp.get("extra", []))
        bad, seen = 0, set()
        for o in obs:
            k = judge(o)
            if k and o["id"] == rp["case"]["id"]:
                bad += 1
                if (k, o["route"]) not in seen:
                    seen.add((k, o["route"]))
                    print("VIOLATION property=%s replay=%s check=%s %s" % (PID, replay, k, describe(o)))
        return 1 if bad else 0
    viol_dir = os.path.join(vlib.WORK, PID + "_violations" + vlib.work_tag())
    os.makedirs(viol_dir, exist_ok=True)

    os.makedirs(os.path.join(d, "gen"), exist_ok=True)
    rc, out, tlc_dt = vlib.tlc(d, "MC_Provenance.tla", P["cfg"], workers=2, timeout=900)
    err = vlib.tlc_failed(out)
    if err:
        log(out[-3000:])
        raise Inconclusive("Provenance.tla: the symbolic model violates its own security invariants or TLC failed: %s" % err)
    gen, dist, depth = vlib.tlc_stats(out)
    cases = [json.load(open(p)) for p in sorted(glob.glob(os.path.join(d, "gen", "p*.json")))]
    if len(cases) != dist:
        raise Inconclusive("TLC found %d states but exported %d cases" % (dist, len(cases)))
    bycase = {c["id"]: c for c in cases}

    obs, go_dt = replay_obs(d, hv, cases, seed, P["reps"], P["extra"])
    seen_cases = {o["id"] for o in obs}
    missing = [c["id"] for c in cases if c["id"] not in seen_cases]
    if missing:
        raise Inconclusive("no verdict recorded for %d cases (e.g. %s)" % (len(missing), missing[:5]))

    viol, kinds = {}, {}
    nequiv = naccept = nreject = 0
    distinct = set()
    for o in obs:
        if o["equiv"]:
            nequiv += 1
            continue
        distinct.add((o["id"], json.dumps(o.get("muts"))))
        if o["expect"]:
            naccept += 1
        else:
            nreject += 1
        k = judge(o)
        if k:
            kinds[k] = kinds.get(k, 0) + 1
            if o["id"] == -1:
                viol.setdefault(-1, (k, o))
            else:
                viol.setdefault(o["id"], (k, o))
    if naccept == 0 or nreject == 0:
        raise Inconclusive("vacuous run: %d expected-accept and %d expected-reject verdicts" % (naccept, nreject))
    if not any(o["route"].startswith("Package") and o["accepted"] for o in obs):
        raise Inconclusive("action.Package --sign produced nothing that verifies: the harness could not sign")

    order = sorted(viol, key=lambda i: (len(bycase[i]["hist"]) if i in bycase else 0, i))
    for cid in order[:25]:
        k, o = viol[cid]
        path = os.path.join(viol_dir, "p%d.json" % cid)
        json.dump(dict(case=bycase.get(cid, dict(id=cid, hist=[], ring="signer", keys={}, accept=True, download=[])), seed=seed, reps=P["reps"], extra=P["extra"]),
                  open(path, "w"))
        print("VIOLATION property=%s replay=%s check=%s %s" % (PID, path, k, describe(o)))
    if len(order) > 25:
        print("... %d violating cases in all (%s)" % (len(order), json.dumps(kinds, sort_keys=True)))

    routes = {}
    for o in obs:
        r = o["route"].split("/")[0]
        routes[r] = routes.get(r, 0) + 1
    cov = {
        "evaluations": len(obs), "distinct_nontrivial": len(distinct),
        "rule": "abstract cases = tamper sequences (<= %d actions) x keyring, all enumerated by TLC from Provenance.tla; each is realised by concrete "
                "mutations (exhaustive over the stated byte ranges for single-step cases with the signer's keyring, seeded samples otherwise); "
                "distinct_nontrivial = distinct (case, concrete mutation) pairs that are a real tampering or a real acceptance case; "
                "evaluations = verdicts of the real code compared with the specification's" % (depth - 1),
        "samples": [describe(o) for o in obs[:: max(1, len(obs) // 4)][:4]],
        "states": dist, "transitions": gen, "abstract_cases": len(cases),
        "verdicts_expected_accept": naccept, "verdicts_expected_reject": nreject,
        "equivalent_mutants_not_judged": nequiv, "verdicts_per_route": routes,
        "violating_cases": len(order), "violation_kinds": kinds,
        "exhaustive_config": P["cfg"], "tlc_seconds": round(tlc_dt, 1), "replay_seconds": round(go_dt, 1),
        "checker_cmd": "tlc MC_Provenance.tla -config %s ; hv_misc prov-run" % P["cfg"],
        "trusted_base": ["golang.org/x/crypto/openpgp: signatures check only for the exact text and key (perfect-crypto abstraction)",
                         "SHA-256 is injective on the inputs used"],
    }
    assumptions = [
        "symbolic (Dolev-Yao) attacker: may change any byte, rename, rewrite the body and sign with a key of his own; cannot forge the signer's signature",
        "signature-packet edits are restricted to the semantically relevant bytes of the decoded packet (version, type, algorithms, hashed "
        "sub-packets, hash tag, signature value); re-encodings of the same signature (packet length header, unhashed sub-packets, MPI bit count) "
        "and armor / whitespace changes that leave the canonical text unchanged are not tampering",
        "keys are generated per run with x/crypto/openpgp (RSA 2048, SHA-512 as helm's defaultPGPConfig), unencrypted private keys",
        "bit flips: all bits of the first and last 64 bytes of the archive and seeded samples elsewhere (quick); every bit of the archive (thorough)",
    ]
    vlib.write_evidence(PID, tier, seed, "exploration", cov, time.time() - t0, len(order), assumptions)
    log("C17: %d abstract cases, %d verdicts (%d expect accept, %d expect reject, %d equivalent not judged), TLC %.0fs, replay %.0fs, %d violating cases"
        % (len(cases), len(obs), naccept, nreject, nequiv, tlc_dt, go_dt, len(order)))
    return 1 if order else 0
