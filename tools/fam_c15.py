"""C15 - packaging and loading a chart preserves its content.

Role of the specification (DESIGN 5 C15, 8): Archive.tla part II ENUMERATES the abstract case space
(apiVersion x metadata presence x values class x schema x lock x dependency shape (nesting <= 2, dir / tgz)
x declared x file path class x content class; invalid name / version classes; ignore-rule sets over the
documented syntax) and FIXES THE EXPECTED RELATION per case (ExpectRoundTrip; IgnoredSet / KeptSet of the
documented ignore semantics, model-checked for partition / closure / monotonicity).  TLC exports the cases;
hv_archive concretises each from FILES (seeded), runs chartutil.Save -> loader.Load, chartutil.SaveDir ->
loader.LoadDir, loader.LoadDir(d) vs loader.LoadArchive(tar(d)), action.Package, and compares field by field,
byte by byte (the byte equality is the harness comparer's, not the specification's).  ArchiveObs.tla judges the
recorded differences against the relation.  Evidence level: exploration."""
import json, os, time, collections, random
import vlib, fam_archive as fa
from vlib import Inconclusive, log

PID = "C15"
CHECKS = ["C15_SaveLoad", "C15_SaveDir", "C15_DirVsArchive", "C15_Package", "C15_PackageList", "C15_IgnoredAbsent", "C15_InvalidNotPackaged"]
PLAN = {   # family -> (cases sampled (0 = all), concretisations per case)
    "quick":    {"roundtrip": (2400, 1), "invalid": (0, 3), "ignore": (0, 3), "pkglist": (0, 1)},
    "thorough": {"roundtrip": (0, 1), "invalid": (0, 5), "ignore": (0, 4), "pkglist": (0, 3)},
}


def describe(case, o=None):
    if case["fam"] == "roundtrip":
        c = case["chart"]
        s = "roundtrip api=%s meta=%s values=%s schema=%s lock=%s deps=%s declared=%s file=%s/%s" % (
            c["api"], c["meta"], c["values"], c["schema"], c["lock"], c["deps"], c["declared"], c["pc"], c["cc"])
        if o is not None:
            parts = []
            for op in ("saveload", "savedir", "dirarch", "package"):
                r = o[op]
                parts.append("%s:%s" % (op, "ERROR " + r["msg"] if r["err"] else
                                        (",".join(sorted({"%s %s %s%s" % (d["field"], d["kind"], d["chart"] + "/" if d["chart"] else "", d["name"])
                                                          for d in r["diffs"]})) or "equal")))
            s += " -> " + " | ".join(parts)
        return s
    if case["fam"] == "invalid":
        s = "invalid name=%s version=%s api=%s" % (case["name"], case["version"], case["chart"]["api"])
        if o is not None:
            s += " -> save err=%s files=%d; package err=%s files=%d; package --version err=%s files=%d" % (
                o["saveErr"], o["saveFiles"], o["pkgErr"], o["pkgFiles"], o["pkgVerErr"], o["pkgVerFiles"])
        return s
    if case["fam"] == "pkglist":
        l = case["list"]
        s = "pkglist route=%s versions=%s appVersions=%s --version=%s --app-version=%s expected=%s/%s" % (
            l["route"], l["vers"], l["apps"], l["vflag"], l["aflag"], case["listExpect"]["versions"], case["listExpect"]["apps"])
        if o is not None:
            s += " -> " + " ; ".join("file=%s meta=%s app=%s%s%s" % (r["fileVer"], r["metaVer"], r["metaApp"], " ERR " + r["msg"] if r["err"] else "",
                                                                       " diffs=%d" % len(r["diffs"]) if r["diffs"] else "") for r in o["pkgList"])
        return s
    s = "ignore rules=%s expected-ignored=%s" % (
        [("!" if r["neg"] else "") + r["kind"] + ":" + "/".join(r["arg"]) + ("/" if r["dir"] else "") for r in case["rules"]],
        ["/".join(p) for p in case["ignored"]])
    if o is not None:
        s += " -> .helmignore=%r dir=%d files, archive=%d files, package=%d files" % (
            o["ruleText"], len(o["dirNames"]), len(o["archNames"]), len(o["pkgNames"]))
    return s


def run_cases(d, hv, plan, cases, seed, pairs=None):
    """returns observations for the planned families (harness run per family: different reps)"""
    obs = []
    for fam, (sample, reps) in plan.items():
        sel = [c for c in cases if c["fam"] == fam]
        if not sel:
            continue
        if sample and len(sel) > sample:
            rnd = random.Random(seed * 7919 + 13)
            sel = sorted(rnd.sample(sel, sample), key=lambda c: c["id"])
        cf = os.path.join(d, "run_%s.ndjson" % fam)
        of = os.path.join(d, "obs_%s.ndjson" % fam)
        fa.write_ndjson(cf, sel)
        mine = [p for p in (pairs or []) if p[0] in {c["id"] for c in sel}]
        extra = ["-pairs", ",".join("%d:%d" % p for p in mine)] if pairs else []
        fa.run_harness(hv, "c15", cf, of, seed, reps, workers=8, extra=extra)
        o = fa.read_ndjson(of)
        want = len(mine) if pairs else len(sel) * reps
        if len(o) != want:
            raise Inconclusive("harness ran %d of %d (%s)" % (len(o), want, fam))
        obs += o
    return obs


def run(pid, tier, seed, replay=None):
    t0 = time.time()
    hv = vlib.build_hv("hv_archive")
    d = vlib.workdir(PID)
    viol_dir = os.path.join(vlib.WORK, PID + "_violations" + vlib.work_tag())

    def judge_pairs(pairs, sd):
        cs = {c["id"]: c for c, _ in pairs}
        mr = max(r for _, r in pairs) + 1
        obs = run_cases(d, hv, {f: (0, mr) for f in {c["fam"] for c in cs.values()}}, list(cs.values()), sd,
                        pairs=[(c["id"], r) for c, r in pairs])
        lines, _ = fa.monitor(d, obs, "C15", "ArchiveObs15.cfg", workers=2)
        return obs, fa.keyed(lines, obs)

    if replay:
        r = json.load(open(replay))
        obs, lines = judge_pairs([(r["case"], r["rep"])], r["seed"])
        res = fa.verdict(PID, lines, lambda i: r["case"], r["seed"], r.get("tier", tier), viol_dir, lambda pairs: fa.failing(lines))
        for o in obs:
            log("replayed: " + describe(r["case"], o))
        return 1 if res["violations"] else 0

    thorough = tier == "thorough"
    cfg = "MC_ArchiveC15_thorough.cfg" if thorough else "MC_ArchiveC15.cfg"
    # 1. enumeration + oracle relation (+ model-level checks of the ignore semantics)
    mc = fa.model_check(d, "MC_ArchiveC15.tla", cfg, workers=4, timeout=900)
    if mc["violated"]:
        raise Inconclusive("the ignore-rule semantics of Archive.tla violates %s (model error)" % mc["violated"])
    cases = fa.read_ndjson(os.path.join(d, "c15_cases.ndjson"))
    if not cases or len(cases) != mc["cases"]:
        raise Inconclusive("case export incomplete (%d of %d)" % (len(cases), mc["cases"]))
    by_id = {c["id"]: c for c in cases}

    # 2. concretise and run on the real code
    plan = PLAN["thorough" if thorough else "quick"]
    h0 = time.time()
    obs = run_cases(d, hv, plan, cases, seed)
    hdt = time.time() - h0

    # 3. judge
    lines, mon_states = fa.monitor(d, obs, "C15", "ArchiveObs15.cfg", workers=4)

    def confirm(pairs):
        ob, ls = judge_pairs(pairs, seed)
        return fa.failing(ls)
    res = fa.verdict(PID, fa.keyed(lines, obs), lambda i: by_id[i], seed, tier, viol_dir, confirm)

    fams = collections.Counter(c["fam"] for c in cases)
    ran = collections.Counter(o["fam"] for o in obs)
    distinct = {o["id"] for o in obs}
    def nontrivial(c):
        if c["fam"] != "roundtrip":
            return c["fam"] in ("invalid", "pkglist") or len(c["rules"]) > 0
        ch = c["chart"]
        return ch["deps"] != "none" or ch["lock"] != "none" or ch["cc"] != "text" or ch["values"] not in ("text", "none") or ch["pc"] != "top"
    nt = sum(1 for i in distinct if nontrivial(by_id[i]))
    diffs = collections.Counter()
    ops_run = 0
    for o in obs:
        if o["fam"] == "roundtrip":
            for op in ("saveload", "savedir", "dirarch", "package"):
                ops_run += 1
                for dd in o[op]["diffs"]:
                    diffs["%s: %s %s%s" % (op, dd["field"], dd["kind"], " (BOM stripped)" if dd["bom"] else "")] += 1
    samples, seen = [], set()
    for o in obs:
        k = (o["fam"], o["chart"]["deps"] if o["fam"] == "roundtrip" else (o["list"]["route"] if o["fam"] == "pkglist" else len(o["rules"])))
        if k not in seen and len(samples) < 16:
            seen.add(k)
            samples.append(describe(by_id[o["id"]], o)[:700])
    coverage = dict(
        evaluations=len(obs), distinct_nontrivial=nt,
        rule="abstract cases enumerated by TLC from Archive.tla part II (%d in all: %s); each run concretises one case from files "
             "(random names, contents, metadata values; seeded) and performs Save->Load, SaveDir->LoadDir, LoadDir vs LoadArchive(tar), "
             "action.Package; non-trivial = distinct abstract cases that have dependencies, a lock, a non-text content / values class, "
             "a non-top-level path class, an invalid name/version or a non-empty rule set" % (len(cases), dict(fams)),
        samples=samples, exhaustive=all(v[0] == 0 for v in plan.values()),
        abstract_cases_enumerated=len(cases), abstract_cases_run=len(distinct), runs_per_family=dict(ran),
        round_trip_operations=ops_run, observed_differences=dict(diffs),
        spec_role="enumeration + oracle relation (ExpectRoundTrip, IgnoredSet/KeptSet); byte equality decided by the harness comparer",
        ignore_semantics_states=mc["distinct"], ignore_semantics_invariants=["InvPartition", "InvDirClosed", "InvMonotone", "InvDefault"],
        monitor_checks=CHECKS, monitor_states=mon_states, known_findings_observed=res["known"],
        conformance_divergences=len(res["divergences"]), unconfirmed=res["unconfirmed"], harness_seconds=round(hdt, 1),
        checker_cmd="tlc MC_ArchiveC15.tla -config %s ; hv_archive c15 ; tlc ArchiveObs.tla -config ArchiveObs15.cfg" % cfg)
    assumptions = [
        "byte / field equality is decided by the Go comparer of the harness (metadata and values compared through their JSON encoding, files byte by byte, lock by digest + time + dependencies, dependencies as a set by name, recursively)",
        "the starting chart is what loader.LoadFiles makes of the generated files (so it is a chart helm itself accepts)",
        "a round trip through a directory is compared modulo the files the ignore rules in effect exclude (default rule templates/.?*)",
        "ignore rules: the documented syntax subset {name, *.ext, dir/, /anchored, /*.ext, a/b, a/b/, !negation}; glob classes beyond *.ext are not explored",
        "archives given to LoadArchive are written by the harness's own raw tar writer; gzip/tar/yaml libraries are trusted",
    ]
    vlib.write_evidence(PID, tier, seed, "exploration", coverage, time.time() - t0, res["violations"], assumptions)
    if res["violations"]:
        return 1
    if res["unconfirmed"]:
        raise Inconclusive("%d failing observation(s) did not fail again on re-run" % res["unconfirmed"])
    if res["divergences"]:
        (cid, rep), what = res["divergences"][0]
        raise Inconclusive("harness problem: %d case(s) not as specified, first: %s [%s]" % (len(res["divergences"]), describe(by_id[cid]), what))
    return 0
