#!/usr/bin/env python3
"""print a TLC counterexample compactly: per state the label `last`, the ledger statuses, live objects"""
import re, sys
txt = sys.stdin.read()
states = re.split(r"\nState \d+: ", txt)
for st in states[1:]:
    m = re.search(r"/\\ last = \[([^\]]*)\]", st)
    lab = m.group(1) if m else ""
    lab = re.sub(r"\s+", " ", lab)
    sts = re.findall(r"st \|-> \"([a-z\-]+)\"", st.split("/\\ store =")[1].split("\n/\\ ")[0]) if "/\\ store =" in st else []
    kf = re.search(r"/\\ kfg = (\{[^}]*\})", st)
    pcs = re.search(r"/\\ pc = ([^\n]*)", st)
    print(lab, "| store:", [s for s in sts if s != "none"], "| pc", pcs.group(1) if pcs else "", "| kfg", kf.group(1) if kf else "")
