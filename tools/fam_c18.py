"""C18 - version queries return the best matching chart from a well-formed index.

Pipeline (spec/Index.tla, spec/IndexKinds.tla, harness/fam/index):
  1. TLC writes the abstract version strings / entry kinds / queries (MC_IndexKinds);
  2. `hv_misc index-vocab` gives them concrete spellings for this seed and asks Masterminds/semver
     (trusted) which query parses as a constraint and which version it admits (index_vocab.json);
  3. TLC enumerates EVERY index file with at most MaxLen entries (4 quick / 5 thorough) over the 12
     entry kinds, in every order, checks that the code-shaped operators (filter, sort, first match)
     only give answers the property-shaped operators allow, and exports each case with the expected
     outcome (tie groups of the load result, acceptable answers of every query, acceptable locks);
  4. `hv_misc index-run` replays every case on the real code - repo.LoadIndexFile, IndexFile.Get,
     registry.GetTagMatchingVersionOrConstraint, NewIndexFile/MustAdd/SortEntries and, for every case
     of at most 3 entries plus a seeded sample of the longer ones, ChartDownloader.ResolveChartVersion
     and downloader.Manager.Update (which is the only exported route into internal/resolver.Resolve);
  5. every observation must lie in the expected outcome TLC exported for its case.
"""
import glob, json, os, random, re, time
import vlib
from vlib import Inconclusive, log

PID = "C18"
QUICK = dict(cfg="MC_Index.cfg", concs=2, deep_len=3, deep_sample=150, tlc_workers=4, go_workers=8, tlc_timeout=900)
THOROUGH = dict(cfg="MC_Index_thorough.cfg", concs=3, deep_len=3, deep_sample=1500, tlc_workers=8, go_workers=12,
                tlc_timeout=3000)


KF_SITES = ("pkg/repo.ChartVersions.Less", "pkg/repo.IndexFile.Get", "internal/resolver.(*Resolver).Resolve",
            "pkg/downloader.(*ChartDownloader).scanReposForURL", "pkg/downloader.findVersionedEntry")


def known_for(viol, case, kinds, listed):
    """a violation is explained by a listed known finding only for the specific input shape and site:
    an index file with a null entry, and a nil dereference where the kept nil entry is first touched"""
    kf = "KF-L10-index-null-entry"
    if kf in listed and any(kinds[k - 1]["null"] for k in case["entries"]):
        if viol["kind"] == "load_keeps_null":
            return kf
        if viol["kind"] in ("load_panic", "get_panic", "rcv_panic", "lock_panic") and any(s in viol.get("site", "") for s in KF_SITES) \
                and "nil pointer" in viol.get("detail", ""):
            return kf
    return None


def order_ok(order, groups):
    i = 0
    for g in groups:
        seg = order[i:i + len(g)]
        if sorted(seg) != sorted(g):
            return False
        i += len(g)
    return i == len(order)


def judge(case, obs, kinds, nq):
    """list of violations ({kind, detail, site}) of one observation against the expected outcome of its case"""
    out = []
    vid_of = lambda p: kinds[case["entries"][p - 1] - 1]["vid"]
    has_url = lambda p: kinds[case["entries"][p - 1] - 1]["url"]
    notes = obs.get("notes") or []

    def note(prefix):
        for n in notes:
            if n.startswith(prefix):
                return n
        return ""

    def site_of(n):
        m = re.search(r"@ (\S+ \S+)", n)
        return m.group(1) if m else ""

    ld = obs["load"]
    loaded = False
    if ld.get("panic"):
        if ld.get("err") == "loaded list holds a nil entry":
            out.append(dict(kind="load_keeps_null", detail="LoadIndexFile returned a list that still holds a nil entry", site=""))
        else:
            out.append(dict(kind="load_panic", detail=ld["panic"], site=ld.get("site", "")))
    elif ld.get("err"):
        out.append(dict(kind="load_error", detail=ld["err"], site=""))
    else:
        loaded = True
        if not order_ok(obs["order"] or [], case["groups"]):
            out.append(dict(kind="load_order", detail="loaded %s, expected tie groups %s" % (obs["order"], case["groups"]), site=""))
    if obs.get("sorterr", {}).get("panic"):
        out.append(dict(kind="sortapi_panic", detail=obs["sorterr"]["panic"], site=obs["sorterr"].get("site", "")))
    elif obs.get("sortapi") is not None and not order_ok(obs["sortapi"], case["groups"]):
        out.append(dict(kind="sortapi_order", detail="MustAdd+SortEntries gave %s, expected tie groups %s" % (obs["sortapi"], case["groups"]), site=""))

    def check(route, got, ok, q, err_ok=False):
        if got > 0:
            if got not in ok:
                out.append(dict(kind=route + "_wrong", q=q, detail="query %d returned %d, acceptable %s" % (q, got, sorted(ok)), site=""))
        elif got == 0:
            if ok and not err_ok:
                out.append(dict(kind=route + "_error", q=q, detail="query %d returned an error, acceptable %s" % (q, sorted(ok)), site=""))
        elif got == -1:
            n = note("%s[%d] panic" % (route, q))
            out.append(dict(kind=route + "_panic", q=q, detail=n, site=site_of(n)))
        else:
            out.append(dict(kind=route + "_foreign", q=q, detail=note("%s[%d]" % (route, q)), site=""))

    for qi in range(nq):
        q = qi + 1
        okp = set(case["get"][qi])
        okv = {vid_of(p) for p in okp}
        if loaded and obs.get("get"):
            check("get", obs["get"][qi], okp, q)
        if obs.get("tag"):
            check("tag", obs["tag"][qi], okv, q)
        if obs.get("deep"):
            if obs.get("rcv"):
                # Get's answer may be an entry without URL: the downloader then reports an error
                check("rcv", obs["rcv"][qi], {p for p in okp if has_url(p)}, q, err_ok=any(not has_url(p) for p in okp))
            if obs.get("lock"):
                check("lock", obs["lock"][qi], {vid_of(p) for p in case["lock"][qi]}, q)
    return out


def describe(case, conc, kinds):
    parts = []
    for k in case["entries"]:
        kd = kinds[k - 1]
        if kd["null"]:
            parts.append("null")
        elif not kd["meta"]:
            parts.append("no-metadata")
        else:
            parts.append(conc["strings"][kd["vid"] - 1] + ("" if kd["url"] else "(no url)") + ("(deprecated)" if kd.get("dep") else ""))
    return "[" + ", ".join(parts) + "]"


def replay_file(d, hv, path, seed):
    rp = json.load(open(path))
    vocab, case = rp["vocab"], rp["case"]
    json.dump(vocab, open(os.path.join(d, "index_vocab.json"), "w"))
    with open(os.path.join(d, "cases.ndjson"), "w") as f:
        f.write(json.dumps(case) + "\n")
    vlib.sh([hv, "index-run", "-vocab", "index_vocab.json", "-cases", "cases.ndjson", "-out", "obs.ndjson",
             "-deep-len", "99", "-seed", str(seed), "-workers", "1", "-tmp", os.path.join(d, "tmp"), "-deep-all"],
            cwd=d, timeout=600)
    kinds = vocab["abs"]["kinds"]
    listed = {k["id"] for k in vlib.load_known() if k.get("status", "known") == "known"}
    bad, seen = 0, set()
    for l in open(os.path.join(d, "obs.ndjson")):
        o = json.loads(l)
        for v in judge(case, o, kinds, len(vocab["abs"]["queries"])):
            kf = known_for(v, case, kinds, listed)
            key = (kf, v["kind"])
            if kf:
                if key not in seen:
                    print("KNOWN-FINDING: property=%s %s (%s)" % (PID, kf, v["kind"]))
            else:
                bad += 1
                if key not in seen:
                    print("VIOLATION property=%s replay=%s check=%s index=%s %s%s" %
                          (PID, path, v["kind"], describe(case, vocab["concs"][o["conc"]], kinds), v["detail"],
                           (" site=" + v["site"]) if v.get("site") else ""))
            seen.add(key)
    return 1 if bad else 0


def run(pid, tier, seed, replay=None):
    t0 = time.time()
    P = THOROUGH if tier == "thorough" else QUICK
    hv = vlib.build_hv("hv_misc")
    d = vlib.workdir(PID)
    if replay:
        return replay_file(d, hv, replay, seed)
    viol_dir = os.path.join(vlib.WORK, PID + "_violations" + vlib.work_tag())
    os.makedirs(viol_dir, exist_ok=True)

    # 1-2. abstract vocabulary from the specification, concrete spellings + satisfaction relation from the library
    rc, out, _ = vlib.tlc(d, "MC_IndexKinds.tla", "MC_IndexKinds.cfg", workers=1, timeout=120)
    if not os.path.exists(os.path.join(d, "index_kinds.json")):
        raise Inconclusive("TLC did not export the vocabulary:\n" + out[-2000:])
    vlib.sh([hv, "index-vocab", "-kinds", "index_kinds.json", "-seed", str(seed), "-n", str(P["concs"]),
             "-out", "index_vocab.json"], cwd=d, timeout=120)
    vocab = json.load(open(os.path.join(d, "index_vocab.json")))
    kinds, queries = vocab["abs"]["kinds"], vocab["abs"]["queries"]
    nq = len(queries)

    # 3. exhaustive enumeration + model check + export
    os.makedirs(os.path.join(d, "gen"), exist_ok=True)
    rc, out, tlc_dt = vlib.tlc(d, "MC_Index.tla", P["cfg"], workers=P["tlc_workers"], timeout=P["tlc_timeout"])
    err = vlib.tlc_failed(out)
    if err:
        log(out[-3000:])
        raise Inconclusive("Index.tla: the specification's code-shaped and property-shaped operators disagree or TLC failed: %s" % err)
    gen, dist, depth = vlib.tlc_stats(out)
    cases = {}
    with open(os.path.join(d, "cases.ndjson"), "w") as f:
        for p in glob.glob(os.path.join(d, "gen", "c*.json")):
            txt = open(p).read().strip()
            c = json.loads(txt)
            cases[c["code"]] = c
            f.write(txt + "\n")
    if len(cases) != dist:
        raise Inconclusive("TLC found %d states but exported %d cases" % (dist, len(cases)))

    # 4. replay on the real code
    rc, gout, go_dt = vlib.sh([hv, "index-run", "-vocab", "index_vocab.json", "-cases", "cases.ndjson", "-out", "obs.ndjson",
                               "-deep-len", str(P["deep_len"]), "-deep-sample", str(P["deep_sample"]), "-seed", str(seed),
                               "-workers", str(P["go_workers"]), "-tmp", os.path.join(d, "tmp")], cwd=d, timeout=3000)

    # 5. verdicts
    listed = {k["id"] for k in vlib.load_known() if k.get("status", "known") == "known"}
    nobs = ndeep = ncmp = blocked = 0
    known = {}
    viols = {}           # (code, conc) -> [violations]
    kind_count = {}
    for l in open(os.path.join(d, "obs.ndjson")):
        o = json.loads(l)
        nobs += 1
        ndeep += 1 if o.get("deep") else 0
        case = cases[o["code"]]
        vs = judge(case, o, kinds, nq)
        ncmp += 2 + sum(len(o.get(k) or []) for k in ("get", "tag", "rcv", "lock"))
        for v in vs:
            kf = known_for(v, case, kinds, listed)
            if kf:
                known[kf] = known.get(kf, 0) + 1
                blocked += 1 if v["kind"].startswith("load") else 0
            else:
                viols.setdefault((o["code"], o["conc"]), []).append(v)
                kind_count[v["kind"]] = kind_count.get(v["kind"], 0) + 1
    if nobs != len(cases) * len(vocab["concs"]):
        raise Inconclusive("harness observed %d of %d case concretisations" % (nobs, len(cases) * len(vocab["concs"])))

    for kf, n in sorted(known.items()):
        print("KNOWN-FINDING: property=%s %s (%d observations: index files with a null entry)" % (PID, kf, n))
    # one line per violating case, smallest index files first
    by_case = {}
    for (code, conc), vs in viols.items():
        by_case.setdefault(code, (conc, vs))
    order = sorted(by_case, key=lambda c: (len(cases[c]["entries"]), c))
    for code in order[:25]:
        conc, vs = by_case[code]
        path = os.path.join(viol_dir, "c%d.json" % code)
        json.dump(dict(case=cases[code], vocab=vocab, seed=seed), open(path, "w"))
        v = vs[0]
        qtxt = ""
        if "q" in v:
            qtxt = " query=%r" % vocab["concs"][conc]["queries"][v["q"] - 1]
        print("VIOLATION property=%s replay=%s check=%s index=%s%s %s%s" %
              (PID, path, v["kind"], describe(cases[code], vocab["concs"][conc], kinds), qtxt, v["detail"],
               (" site=" + v["site"]) if v.get("site") else ""))
    if len(order) > 25:
        print("... %d violating cases in all (%s); the 25 smallest are listed" % (len(order), json.dumps(kind_count, sort_keys=True)))

    nontrivial = sum(1 for c in cases.values() if sum(len(g) for g in c["groups"]) >= 2)
    answered = sum(1 for c in cases.values() for a in c["get"] if a)
    sample_codes = sorted(cases)[len(cases) // 2: len(cases) // 2 + 3]
    cov = {
        "states": dist, "transitions": gen, "exhaustive": True,
        "traces_validated_against_impl": nobs,
        "samples": [dict(index=describe(cases[c], vocab["concs"][0], kinds), expected_tie_groups=cases[c]["groups"],
                         queries=vocab["concs"][0]["queries"][:6], acceptable_get_answers=cases[c]["get"][:6]) for c in sample_codes],
        "evaluations": ncmp, "distinct_nontrivial": nontrivial,
        "rule": "every sequence of <= %d entries over the %d entry kinds of IndexKinds.tla, in every order (TLC, exhaustive); each is "
                "replayed in %d seeded spellings; non-trivial = at least two entries survive loading, so that the order matters; "
                "evaluations = individual results compared with the expected outcome" % (depth - 1, len(kinds), len(vocab["concs"])),
        "exhaustive_config": P["cfg"], "exhaustive_seconds": round(tlc_dt, 1), "replay_seconds": round(go_dt, 1),
        "entry_kinds": len(kinds), "queries": nq, "concretisations": len(vocab["concs"]),
        "cases": len(cases), "cases_through_downloader_and_resolver": ndeep,
        "query_instances_with_a_nonempty_expected_answer": answered,
        "observations_excused_by_known_findings": known, "load_observations_blocked_by_known_findings": blocked,
        "violating_cases": len(order), "violation_kinds": kind_count,
        "checker_cmd": "tlc MC_IndexKinds.tla ; hv_misc index-vocab ; tlc MC_Index.tla -config %s ; hv_misc index-run" % P["cfg"],
        "trusted_base": ["Masterminds/semver decides whether a constraint string parses and which version strings it admits",
                         "semantic-version precedence of the spellings is cross-checked against semver.Compare when the vocabulary is built"],
    }
    assumptions = [
        "the satisfaction relation of concrete constraints on concrete versions is Masterminds/semver's (read by the specification from index_vocab.json)",
        "internal/resolver is reached through downloader.Manager.Update with SkipUpdate, a cached index file and a getter that serves a fixed archive; "
        "the lock is read from the Chart.lock that Update writes",
        "registry.GetTagMatchingVersionOrConstraint is given the version strings in the order the specification loads them "
        "(registry.Client.Tags needs a registry and is not exercised)",
        "one chart name per index file; at most %d entries" % (depth - 1),
    ]
    vlib.write_evidence(PID, tier, seed, "model_checking", cov, time.time() - t0, len(order), assumptions)
    log("C18: %d cases, %d observations (%d deep), %d comparisons, TLC %.0fs, replay %.0fs, %d violating cases"
        % (len(cases), nobs, ndeep, ncmp, tlc_dt, go_dt, len(order)))
    return 1 if order else 0
