"""C08 -- every rendered document is applied exactly once, in dependency order.

  1. TLC enumerates (MC_RenderGen, mode c08) all document sequences over {2 table kinds far apart, 2 kinds
     outside the tables} x {plain, hook, unknown-event} cut into <= 3 files, plus every flavour (annotated,
     weights, delete policies, two events, mixed events, blank, comment-only) for <= 2 documents;
  2. TLC explores Render.tla (MC_Part) on them: for every order in which the Go maps may be walked the
     partition / classification / order predicates hold and the output equals the reference function F;
  3. TLC checks Batch.tla (perform / batchPerform) exhaustively for <= 5 resources in <= 3 kinds with any
     subset of the calls failing (barrier, error iff a call failed, exactly once, no deadlock, termination)
     and exports every (list, completion order) it reaches;
  4. the Go harness concretises every case (seeded flavours, CRLF, doubled / leading / trailing separators,
     blank and comment-only documents, NOTES.txt, partials) and observes the REAL code: Release.Manifest /
     Hooks of a dry-run install; install + uninstall on the simulated cluster (DELETE order); and the real
     kube.Client.Create / Delete over the simulated API server with every response held and released in each
     TLC-chosen completion order (sequence numbers under the gate's lock);
  5. verdict: RenderObs.tla / BatchObs.tla (TLA+ predicates) on the observations.
"""
import itertools, json, os, random, time
import vlib, renderlib as rl
from vlib import Inconclusive, log

TIERS = {
    "quick": dict(gen="MC_RenderGen_c08.cfg", gen_timeout=600, mc_workers=6, renders=3, uninst=25,
                  batch_full_n=4, batch_sample=600, grace="3ms"),
    "thorough": dict(gen="MC_RenderGen_c08_thorough.cfg", gen_timeout=1800, mc_workers=8, renders=5, uninst=40,
                     batch_full_n=5, batch_sample=0, grace="4ms"),
}
RENDER_ARGS = lambda t: ["-n", str(t["renders"]), "-uninst", str(t["uninst"]), "-nohooks"]


def batch_cases(orders, full_n, sample, rnd):
    """(list, completion order) x failing subset x {Create, Delete}"""
    out, big = [], []
    for r in orders:
        n = len(r["kinds"])
        subsets = [list(fs) for m in range(n + 1) for fs in itertools.combinations(range(1, n + 1), m)]
        for fs in subsets:
            for meth in ("POST", "DELETE"):
                c = dict(kinds=r["kinds"], fail=fs, order=r["order"], method=meth)
                (out if n <= full_n else big).append(c)
    if sample and big:
        out += rnd.sample(big, min(sample, len(big)))
    else:
        out += big
    for i, c in enumerate(out):
        c["id"] = "b%d" % (i + 1)
    return out


def replay(pid, hv, d, rp, tier):
    t = TIERS["quick"]
    if rp["family"] == "order":
        cf, of = os.path.join(d, "order_cases.ndjson"), os.path.join(d, "order_obs.ndjson")
        rl.write_ndjson(cf, [dict(rp["case"], alpha=[], out=[])])
        rl.harness(hv, ["sortprobe", "-in", cf, "-out", of], 300)
        viol, _, _ = rl.monitor(d, "RenderOrderObs.tla", "ordermon", of, "", par=1)
        return sorted({n for _, n in viol})
    if rp["family"] == "batch":
        cf, of = os.path.join(d, "replay_batch.ndjson"), os.path.join(d, "replay_batch_obs.ndjson")
        rl.write_ndjson(cf, [rp["case"]] * 5)      # timing: the violation can only be missed, never invented
        rl.harness(hv, ["batch", "-in", cf, "-out", of, "-grace", "8ms"], 300)
        viol, _, _ = rl.monitor(d, "BatchObs.tla", "replaybatch", of, "", par=1)
        names = sorted({n for _, n in viol})
        if any(o["stalled"] for o in rl.read_ndjson(of)) and not names:
            raise Inconclusive("the completion order of the replay file could not be realised")
    else:
        names, _, _ = rl.replay_render(hv, d, rp["case"], rp.get("seed", 1), RENDER_ARGS(t) + ["-uninst", "1"], "C08_")
        names = sorted(set(names))
    return names


def run(pid, tier, seed, replay_path=None):
    t0 = time.time()
    t = TIERS[tier]
    hv = vlib.build_hv("hv_render")
    d = vlib.workdir(pid)
    vdir = os.path.join(vlib.WORK, pid + "_violations" + vlib.work_tag())
    os.makedirs(vdir, exist_ok=True)

    if replay_path:
        rp = json.load(open(replay_path))
        names = replay(pid, hv, d, rp, tier)
        for n in names:
            print("VIOLATION property=%s replay=%s check=%s" % (pid, replay_path, n))
        return 1 if names else 0

    rnd = random.Random(seed)
    # 0. are the kind tables of the code those of the specification?  If not, the property ("the fixed install kind
    #    order, unknown kinds last") is judged on what the REAL sort does with kinds the tables treat differently
    rl.harness(hv, ["meta", "-out", os.path.join(d, "meta.json")], 120)
    meta = json.load(open(os.path.join(d, "meta.json")))
    oviol, otried = rl.order_probe(hv, d, meta, seed)
    if oviol:
        for k, (name, o) in enumerate(oviol[:8]):
            path = os.path.join(vdir, "%s_%s_%d.json" % (name, o["table"], k))
            json.dump({"family": "order", "case": {"table": o["table"], "kinds": o["kinds"]}}, open(path, "w"))
            print("VIOLATION property=%s replay=%s check=%s case=%s table, kinds %s sorted by the real code to %s"
                  % (pid, path, name, o["table"], o["kinds"], o["out"]))
        vlib.write_evidence(pid, tier, seed, "model_checking",
                            {"evaluations": otried, "distinct_nontrivial": len(oviol), "samples": [o for _, o in oviol[:3]],
                             "rule": "the kind tables of the code differ from spec/RenderBase.tla; pairs of kinds the two tables order differently "
                                     "were sorted by the real releaseutil.SortManifests and judged by RenderOrderObs.tla",
                             "states": otried, "transitions": otried, "traces_validated_against_impl": otried},
                            time.time() - t0, len(oviol), [])
        return 1
    # 1. enumeration
    gen_s = rl.run_gen(d, t["gen"], t["gen_timeout"])
    cases = os.path.join(d, "cases_c08.ndjson")
    ncases = sum(1 for _ in open(cases))

    # 2. the pipeline as a state machine
    mc = rl.run_mc(d, "MC_Render.tla", "MC_Part.cfg", inputs="mc_c08.ndjson", workers=t["mc_workers"], timeout=2400)
    if not mc["ok"]:
        log(mc["out"][-3000:])
        raise Inconclusive("Render.tla violates its own invariants on the C08 inputs (a lead, not a verdict); see log")

    # 3. perform / batchPerform
    mb = rl.run_mc(d, "MC_Batch.tla", "MC_Batch.cfg", workers=t["mc_workers"], timeout=1800)
    if not mb["ok"]:
        log(mb["out"][-3000:])
        raise Inconclusive("Batch.tla violates its own invariants; see log")
    mnw = rl.run_mc(d, "MC_Batch.tla", "MC_BatchNoWait.cfg", workers=2, timeout=600)
    if "BarrierInv" not in rl.violated_invariants(mnw["out"]):
        raise Inconclusive("sanity: the model without wg.Wait() must violate BarrierInv")
    mg = rl.run_mc(d, "MC_Batch.tla", "MC_BatchGen.cfg", workers=1, timeout=900)
    if not mg["ok"]:
        raise Inconclusive("export of completion orders failed:\n" + mg["out"][-2000:])
    orders = rl.read_ndjson(os.path.join(d, "batch_orders.ndjson"))
    bcases = batch_cases(orders, t["batch_full_n"], t["batch_sample"], rnd)
    rl.write_ndjson(os.path.join(d, "batch_cases.ndjson"), bcases)

    # 4. the real code
    rl.harness(hv, ["meta", "-out", os.path.join(d, "meta.json")], 120)
    obsf = os.path.join(d, "obs_c08.ndjson")
    h1 = rl.harness(hv, ["render", "-in", cases, "-out", obsf, "-seed", str(seed)] + RENDER_ARGS(t), 3000)
    bobsf = os.path.join(d, "batch_obs.ndjson")
    h2 = rl.harness(hv, ["batch", "-in", os.path.join(d, "batch_cases.ndjson"), "-out", bobsf, "-grace", t["grace"]], 3000)

    # 5. verdict
    viol, known, nobs = rl.monitor(d, "RenderObs.tla", "obsmon", obsf, rl.RENDER_CONSTS, par=8, timeout=2400)
    bviol, _, nbobs = rl.monitor(d, "BatchObs.tla", "batchmon", bobsf, "", par=4, timeout=1200)
    bobs = rl.read_ndjson(bobsf)
    stalled = [o for o in bobs if o["stalled"] or o["note"]]
    # one pass over the (possibly very large) observation file: statistics + the failing lines
    want = {idx for idx, name in viol if name.startswith("C08_")}
    nobs_lines, nontrivial, uninst_seen, flav = 0, 0, 0, {}
    fmt = {k: 0 for k in ("crlf", "leadSep", "trailSep", "noEol", "doubledSep")}
    sample_idx, samples, picked = None, [], {}
    with open(obsf) as f:
        total = sum(1 for _ in f)
    sample_idx = set(rnd.sample(range(total), min(3, total)))
    with open(obsf) as f:
        for i, l in enumerate(f):
            o = json.loads(l)
            nobs_lines += 1
            if o["obs"]["hooks"] or len(o["obs"]["manifest"]) > 1:
                nontrivial += 1
            if o["obs"]["uninst"]:
                uninst_seen += 1
            for fl in o["case"]["files"]:
                for x in fl["docs"]:
                    flav[x["c"]] = flav.get(x["c"], 0) + 1
            for k in ("crlf", "leadSep", "trailSep", "noEol"):
                fmt[k] += 1 if o["fmt"].get(k) else 0
            fmt["doubledSep"] += 1 if o["fmt"].get("sep") == 1 else 0
            if i in sample_idx:
                samples.append(rl.describe_case(o))
            if i in want:
                picked[i] = o

    out_viol = []
    seen = set()
    for idx, name in viol:
        if not name.startswith("C08_") or (idx, name) in seen:
            continue
        seen.add((idx, name))
        o = picked[idx]
        path = os.path.join(vdir, "%s_%s.json" % (name, o["id"]))
        json.dump({"family": "render", "seed": seed, "case": rl.case_line_of(o)}, open(path, "w"))
        out_viol.append((name, path, rl.describe_case(o)))
    for idx, name in bviol:
        o = bobs[idx]
        path = os.path.join(vdir, "%s_%s.json" % (name, o["id"]))
        json.dump({"family": "batch", "case": {k: o[k] for k in ("id", "kinds", "fail", "order", "method")}}, open(path, "w"))
        out_viol.append((name, path, "%s kinds=%s fail=%s order=%s" % (o["method"], o["kinds"], o["fail"], o["order"])))

    # reproduce before reporting (DESIGN 7); report at most 25 lines, one per (check, case)
    reported, per = [], {}
    pick = []
    for v in out_viol:           # at most 6 per check
        per[v[0]] = per.get(v[0], 0) + 1
        if per[v[0]] <= 6:
            pick.append(v)
    for name, path, desc in pick:
        again = replay(pid, hv, d, json.load(open(path)), tier)
        if name in again:
            reported.append((name, path, desc))
        else:
            log("UNREPRODUCED %s %s (%s): seen once, not on replay" % (name, path, desc))
    for name, path, desc in reported:
        print("VIOLATION property=%s replay=%s check=%s case=%s" % (pid, path, name, desc))

    cov = {
        "states": mc["distinct"] + mb["distinct"] + mg["distinct"],
        "transitions": mc["generated"] + mb["generated"] + mg["generated"],
        "traces_validated_against_impl": nobs + nbobs,
        "samples": samples +
                   ["%s kinds=%s fail=%s completion order=%s" % (o["method"], o["kinds"], o["fail"], o["order"]) for o in bobs[-2:]],
        "exhaustive": True,
        "render_state_machine": {k: mc[k] for k in ("cfg", "generated", "distinct", "depth", "seconds")},
        "batch_model": {k: mb[k] for k in ("cfg", "generated", "distinct", "depth", "seconds")},
        "batch_model_without_wait_violates": sorted(rl.violated_invariants(mnw["out"])),
        "batch_completion_orders_exported": len(orders),
        "partition_cases_enumerated_by_tlc": ncases, "partition_cases_observed": nobs_lines,
        "uninstall_orders_observed": uninst_seen,
        "document_flavours_drawn": flav, "spellings_drawn": fmt,
        "failing_observations_by_check": per,
        "batch_cases_replayed": len(bobs), "batch_cases_not_realised": len(stalled),
        "verdict_by": "TLA+ predicates (RenderObs.tla / BatchObs.tla via RenderBase.tla / BatchBase.tla) evaluated by TLC on every observation",
        "evaluations": nobs_lines + len(bobs), "distinct_nontrivial": nontrivial + sum(1 for o in bobs if len(set(o["kinds"])) > 1),
        "rule": "partition cases: all document sequences of the bounded space (TLC-enumerated); non-trivial = a hook or >= 2 manifest "
                "documents observed; batch cases: (kind-sorted list, TLC completion order, failing subset, Create|Delete); non-trivial = >= 2 kinds",
        "checker_cmd": "tlc MC_RenderGen.tla ; tlc MC_Render.tla -config MC_Part.cfg ; tlc MC_Batch.tla ; hv_render render|batch ; tlc RenderObs.tla ; tlc BatchObs.tla",
        "seconds": {"enumerate": round(gen_s, 1), "harness_render": round(h1, 1), "harness_batch": round(h2, 1)},
    }
    assumptions = [
        "document flavours within a class (plain|annotated, the three hook spellings, unknown|mixed events), blank / comment-only documents and the spelling of separators and line ends are drawn per case from VERIF_SEED, not enumerated",
        "output chunks that hold no YAML at all (comment-only documents, stray '---' markers left by doubled separators) are don't-care",
        "barrier: a response is held >= the grace period; a wrongly early request that needs longer than that to arrive is missed (never invented)",
        "harness/simcluster implements POST / DELETE with REST semantics behind the unmodified client-go / cli-runtime / kube.Client",
    ]
    vlib.write_evidence(pid, tier, seed, "model_checking", cov, time.time() - t0, len(reported), assumptions)
    if reported:
        return 1
    if out_viol:
        raise Inconclusive("%d failing observations did not reproduce on replay" % len(out_viol))
    if stalled:
        raise Inconclusive("DIVERGENCE: %d batch cases could not be realised (%s)" % (len(stalled), stalled[0]["note"]))
    return 0
