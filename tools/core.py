"""Checks of the core family (C01 C02 C03 C06 C07 C12): Helm.tla + HelmTrace.tla + HelmMon.tla.

Pipeline of one check (DESIGN 2.3 / 2.4):
  1. rebuild the harness against /repo's working tree;
  2. exhaustive TLC run of the family's MC_<fam> configuration: the property predicates
     (HelmProps.tla) on every state / step of the specification;
  3. TLC -simulate on the family's generator configuration -> scenarios;
  4. every scenario is replayed on the real pkg/action + pkg/kube + pkg/storage code over the
     simulated cluster (three storage drivers), one trace event per call;
  5. conformance: HelmTrace.tla must accept every trace (the real execution is a behaviour
     of the specification, label by label, state by state);
  6. verdict: HelmMon.tla evaluates the property predicates on the OBSERVED states; a failing
     predicate is a VIOLATION unless it matches a listed known finding.
"""
import json, os, sys, time, collections, random, glob
import vlib
from vlib import Inconclusive, log

# which monitor checks decide which property
CHECKS = {
    # (C03_AtomicTarget: the ledger side of the automatic rollback - WHICH revision's content the new revision carries)
    "C01": ["C01_OneDeployed", "C01_KeyIsBody", "C01_NextRevision", "C01_Success", "C01_Prune", "C03_AtomicTarget"],
    "C02": ["C02_Success", "C02_Uninstall", "C02_UninstallListed", "C02_Foreign", "C02_Strangers", "C02_Bystanders",
            "C01_Prune"],      # (the deployed revision is what the next upgrade diffs against: pruning must never take it)
    "C03": ["C03_Error", "C03_Failed", "C03_Cleanup", "C03_AtomicUpgrade", "C03_AtomicTarget", "C03_AtomicInstall"],
    "C06": ["C06_ReadOnly", "C06_EndSame", "C06_ClientOnlySilent", "C02_Foreign"],
    "C07": ["C07_Refusal", "C07_Stamped", "C07_DeleteNamed"],
    "C09": ["C09_CreateFresh", "C09_UniqueCreator", "C09_OneAtATime", "C09_HandsOff", "C09_LoserClean", "C09_Quiescent", "C01_KeyIsBody", "C01_NextRevision", "C01_OneDeployed"],
    "C12": ["C12_Order", "C12_DeleteBefore", "C12_DeletedByPolicy", "C12_PreHookGate", "C12_PostHookFails",
            "C12_NotInManifest", "C12_Disabled"],
}

# family configuration: exhaustive config, generator config, scenario counts per tier
FAMILY = {
    "C01": dict(mc="MC_Ledger", gen="MC_GenLedger", quick=240, thorough=2500, drivers=["secret", "configmap", "memory"],
                sweep=(24, 200), sweep_uninstall=True, extra_gen=["MC_GenLedgerLong.cfg"], gen_depth=1200,
                enum=["MC_EnumLedger.cfg"], enum_thorough=["MC_EnumLedger4.cfg"]),
    "C02": dict(mc="MC_Cluster", gen="MC_GenCluster", quick=300, thorough=3000, drivers=["secret", "memory", "configmap"],
                extra_gen=["MC_GenClusterRetry.cfg", "MC_GenLedgerLong.cfg"], gen_split=True, gen_depth=1200,
                enum=["MC_EnumCluster.cfg"]),
    "C03": dict(mc="MC_Fault", gen="MC_GenFault", quick=200, thorough=2000, drivers=["secret", "configmap", "memory"],
                sweep=(40, 400), enum=["MC_EnumFault.cfg"], sweep_enum=True),
    "C06": dict(mc="MC_Dry", gen="MC_GenDry", quick=200, thorough=2000, drivers=["secret", "memory", "configmap"], cli=2,
                enum=["MC_EnumDry.cfg"], extra_gen=["MC_GenDryCrash.cfg", "MC_GenDryOdd.cfg"], gen_split=True),
    "C07": dict(mc="MC_Own", gen="MC_GenOwn", quick=260, thorough=2000, drivers=["secret", "memory", "configmap"],
                enum=["MC_EnumOwn.cfg", "MC_EnumOwnHook.cfg", "MC_EnumOwnReplace.cfg"], enum_thorough=["MC_EnumOwn3.cfg"]),
    "C09": dict(mc="MC_Conc", gen="MC_GenConc", quick=480, thorough=4000, drivers=["secret", "memory", "configmap"], gen_split=True,
                extra_mc=["MC_ConcDep.cfg", "MC_ConcLim.cfg"], extra_mc_thorough=["MC_ConcFault.cfg"],
                extra_gen=["MC_GenConcDep.cfg", "MC_GenConc3.cfg", "MC_GenConcFault.cfg", "MC_GenConcLate.cfg"]),
    "C12": dict(mc="MC_Hooks", gen="MC_GenHooks", quick=220, thorough=2500, drivers=["secret", "memory", "configmap"],
                sweep=(24, 200), sweep_uninstall=True, enum=["MC_EnumHooks.cfg"]),
}


# ---------------------------------------------------------------------------------------
# known findings: trigger sites, recognised on the observed trace of one scenario

def ops_of(evs):
    """[(begin index, end index or None, events)] for every operation of a scenario trace"""
    out, cur = [], {}
    for i, e in enumerate(evs):
        if e["ev"] == "begin":
            cur[e["proc"]] = [i, None]
            out.append(cur[e["proc"]])
        elif e["ev"] in ("end", "crash") and cur.get(e["proc"]) is not None and cur[e["proc"]][1] is None:
            cur[e["proc"]][1] = i          # (operations of different processes overlap: pair by process)
    return [(b, e if e is not None else len(evs) - 1) for b, e in out]


def revs_with(state, st):
    return sorted(int(k) for k, v in state["store"].items() if v["st"] == st)


def is_custom(kind):
    return kind not in ("ConfigMap", "Service", "CustomResourceDefinition")


def kf_triggers(evs):
    """known-finding trigger sites in one scenario trace: [(kf id, first line at which it is active)]"""
    tr = []
    for b, e in ops_of(evs):
        be = evs[b]
        fl = be["flags"]
        pre = be["state"]
        calls = [x for x in evs[b + 1:e + 1] if x["ev"] == "call" and x["proc"] == be["proc"]]
        ended = evs[e]["ev"] == "end"
        ok = ended and evs[e]["ok"]
        injs = [x for x in calls if x["inj"]]
        created = [x["rev"] for x in calls if x["kind"] == "store" and x["verb"] == "create" and x["ok"]]
        if be["op"] == "install" and fl.get("clientOnly") and fl.get("tplDry") in ("none", "false", "server"):
            # L29: helm template --dry-run=none|false|server renders with cluster access (lookup, discovery)
            tr.append(("KF-L29-template-with-explicit-dry-run-value-contacts-cluster", b))
        # (upgrade --install over no history, or over an uninstalled one, IS an install)
        eop = be["op"]
        if eop == "upgrade" and fl.get("install") and (
                not pre["store"] or pre["store"][str(max(int(k) for k in pre["store"]))]["st"] == "uninstalled"):
            eop = "install"
        if eop == "install" and not fl["dryRun"]:
            # L2i: the write that marks the new revision deployed fails and is swallowed
            if ok and calls and calls[-1]["inj"] and calls[-1]["kind"] == "store" and calls[-1]["verb"] == "update":
                tr.append(("KF-L2-install-final-write-swallowed", e))
            # L1: --replace while an older revision is still marked deployed
            if fl["replace"] or be["op"] == "upgrade":        # (pkg/cmd sets Replace on the install it delegates to)
                dep = revs_with(pre, "deployed")
                allr = sorted(int(k) for k in pre["store"])
                if dep and allr and dep[-1] != allr[-1]:
                    tr.append(("KF-L1-replace-keeps-older-deployed", b))
        if eop == "upgrade" and not fl["dryRun"]:
            for x in injs:
                # L2u: the write that supersedes the original fails and is swallowed
                if x["kind"] == "store" and x["verb"] == "update" and created and x["rev"] not in created and ok:
                    tr.append(("KF-L2-upgrade-supersede-swallowed", b))
            if fl["atomic"] and fl["maxHistory"] > 0 and not ok:
                tr.append(("KF-L15-atomic-rollback-ignores-history-max", b))
        if be["op"] == "rollback" and not fl["dryRun"] and pre["store"]:
            # L28: the rollback diffs against the last revision although that one never became deployed
            lastk = str(max(int(k) for k in pre["store"]))
            if pre["store"][lastk]["st"] != "deployed" and any(
                    v["st"] == "deployed" and v["man"] != pre["store"][lastk]["man"] for v in pre["store"].values()):
                tr.append(("KF-L28-rollback-diffs-against-undeployed-last-revision", b))
        if be["op"] == "rollback" and not fl["dryRun"]:
            for x in injs:
                # L2r: a write that supersedes a deployed revision fails and is swallowed
                if x["kind"] == "store" and x["verb"] == "update" and created and x["rev"] not in created and ok:
                    tr.append(("KF-L2-rollback-supersede-swallowed", b))
        if any(x["kind"] == "res" and x["verb"] == "POST" and not x["ok"] and x["id"].startswith("h") for x in calls):
            # L14: a rejected hook create returns at once, earlier succeeded hooks are not deleted
            tr.append(("KF-L14-hook-create-failure-skips-policy-deletes", b))
        if be["op"] in ("install", "upgrade", "rollback") and not fl["dryRun"]:
            # L5: rejected GET / DELETE of an obsolete resource (and hook-failed deletes) are swallowed
            if ok and any(x["kind"] == "res" and x["verb"] in ("GET", "DELETE") for x in injs):
                tr.append(("KF-L5-obsolete-resource-errors-swallowed", b))
            if any(x["kind"] == "store" for x in injs):
                pass
        if be["op"] == "rollback" or (be["op"] == "upgrade" and fl["atomic"]):
            # L3: a hook failing during rollback returns without recording the failure
            if any(x["kind"] == "wait" and x["verb"] == "watch" and not x["ok"] for x in calls) or \
               any(x["kind"] == "res" and not x["ok"] and x["id"].startswith("h") and x["verb"] == "POST" for x in calls) or \
               any(x["kind"] == "res" and x["id"].startswith("h") and x["verb"] == "DELETE" and x["inj"] for x in calls):
                tr.append(("KF-L3-rollback-hook-failure-leaves-pending", b))
        if be["op"] == "upgrade" and fl["atomic"] and not ok:
            # L4: the atomic rollback diffs against the failed revision's manifest
            if any(x["kind"] == "res" and x["verb"] == "GET" and x["ok"] for x in calls):
                tr.append(("KF-L4-atomic-rollback-fails-no-resource-found", b))
        if be["op"] == "uninstall" and not fl["dryRun"]:
            if pre["store"]:
                last = pre["store"][str(max(int(k) for k in pre["store"]))]
                if any(m["pol"] == "other" for m in last["man"].values()):
                    tr.append(("KF-L7-uninstall-skips-other-policy-values", b))
        if be["op"] in ("install", "upgrade", "rollback") and not fl["dryRun"]:
            # L6: unstructured kinds are patched two-way (old vs new manifest): live state is ignored
            if any(is_custom(o["kind"]) for o in pre["cluster"].values()):
                tr.append(("KF-L6-unstructured-two-way-merge", b))
    # L22: the rollback inside a failed upgrade --atomic creates its record while another operation is in flight
    spans = {}
    for b, e in ops_of(evs):
        spans.setdefault(evs[b]["proc"], []).append((b, e))
    for b, e in ops_of(evs):
        be = evs[b]
        if be["op"] == "upgrade" and be["flags"]["atomic"]:
            creates = [i for i in range(b, e + 1) if evs[i]["ev"] == "call" and evs[i]["proc"] == be["proc"]
                       and evs[i]["kind"] == "store" and evs[i]["verb"] == "create" and evs[i]["ok"]]
            if len(creates) >= 2:
                at = creates[1]
                for q, sp in spans.items():
                    if q != be["proc"] and any(b2 < at < e2 for b2, e2 in sp):
                        tr.append(("KF-L22-atomic-rollback-races-with-upgrade", at))
    # L23: pruning (Storage.Create with a history limit) deletes the pending record of an operation in flight
    owner = {}
    for i, x in enumerate(evs):
        if x["ev"] == "call" and x["kind"] == "store" and x["ok"]:
            if x["verb"] == "create":
                owner[x["rev"]] = (x["proc"], i)
            elif x["verb"] == "delete" and x["rev"] in owner and owner[x["rev"]][0] != x["proc"]:
                q, ci = owner[x["rev"]]
                mine = [(b2, e2) for b2, e2 in spans.get(x["proc"], []) if b2 <= i <= e2]
                theirs = [(b2, e2) for b2, e2 in spans.get(q, []) if b2 <= ci <= e2]
                # the deleting operation overlaps in time with the operation that created the record
                if mine and theirs and mine[0][0] < theirs[0][1] and theirs[0][0] < mine[0][1]:
                    tr.append(("KF-L23-prune-deletes-pending-record-of-running-operation", i))
    # L24: install --replace supersedes the pending record of an install that is still running
    for i, x in enumerate(evs):
        if x["ev"] == "call" and x["kind"] == "store" and x["verb"] == "update" and x["ok"] and x["rev"] in owner \
                and owner[x["rev"]][0] != x["proc"]:
            q, ci = owner[x["rev"]]
            mine = [(b2, e2) for b2, e2 in spans.get(x["proc"], []) if b2 <= i <= e2]
            theirs = [(b2, e2) for b2, e2 in spans.get(q, []) if b2 <= ci <= e2]
            if mine and theirs and theirs[0][0] < i < theirs[0][1] and evs[mine[0][0]]["op"] == "install" \
                    and evs[mine[0][0]]["flags"]["replace"]:
                # the listed finding is the window in which the name check legitimately passed: when the replacing
                # install read the history, it was empty or its last revision was failed or uninstalled (not somebody's
                # pending record)
                seen = [y for y in evs[mine[0][0]:i] if y["ev"] == "call" and y["proc"] == x["proc"] and y["kind"] == "store"
                        and y["verb"] == "query"]
                st0 = (seen[0] if seen else evs[mine[0][0]])["state"]["store"]
                if not st0 or st0[str(max(int(k) for k in st0))]["st"] in ("failed", "uninstalled"):
                    tr.append(("KF-L24-replace-supersedes-running-install", i))
    return tr


KF_RELEVANT = {
    "KF-L2-install-final-write-swallowed": {"C01_Success"},
    "KF-L2-upgrade-supersede-swallowed": {"C01_OneDeployed", "C01_Success"},
    "KF-L2-rollback-supersede-swallowed": {"C01_OneDeployed", "C01_Success"},
    "KF-L14-hook-create-failure-skips-policy-deletes": {"C12_DeletedByPolicy"},
    "KF-L23-prune-deletes-pending-record-of-running-operation": {"C09_Quiescent", "C09_UniqueCreator", "C09_LoserClean", "C09_OneAtATime", "C09_HandsOff",
                                                                 "C01_OneDeployed", "C01_Success", "C02_Success"},
    "KF-L24-replace-supersedes-running-install": {"C09_Quiescent", "C09_LoserClean", "C09_OneAtATime", "C09_HandsOff", "C01_OneDeployed", "C01_Success",
                                                  "C02_Success"},
    "KF-L22-atomic-rollback-races-with-upgrade": {"C09_Quiescent", "C09_OneAtATime", "C09_HandsOff", "C01_OneDeployed", "C01_Success", "C02_Success",
                                                  "C03_AtomicUpgrade"},
    "KF-L1-replace-keeps-older-deployed": {"C01_OneDeployed", "C01_Success", "C02_Success"},
    "KF-L15-atomic-rollback-ignores-history-max": {"C01_Prune"},
    "KF-L5-obsolete-resource-errors-swallowed": {"C03_Error"},
    "KF-L3-rollback-hook-failure-leaves-pending": {"C03_Failed", "C03_AtomicUpgrade"},
    "KF-L4-atomic-rollback-fails-no-resource-found": {"C03_AtomicUpgrade"},
    "KF-L7-uninstall-skips-other-policy-values": {"C02_Uninstall"},
    "KF-L6-unstructured-two-way-merge": {"C02_Success", "C03_AtomicUpgrade"},
    "KF-L28-rollback-diffs-against-undeployed-last-revision": {"C02_Success"},
    "KF-L29-template-with-explicit-dry-run-value-contacts-cluster": {"C06_ClientOnlySilent"},
}
# findings whose damage persists in the ledger: later states of the same scenario stay affected
KF_PERSIST = {"KF-L24-replace-supersedes-running-install", "KF-L23-prune-deletes-pending-record-of-running-operation", "KF-L22-atomic-rollback-races-with-upgrade", "KF-L2-upgrade-supersede-swallowed", "KF-L2-rollback-supersede-swallowed",
              "KF-L1-replace-keeps-older-deployed"}


def _match_one(m, o):
    """Python mirror of HelmProps!MatchOne, used ONLY to decide which listed finding (if any) explains a
    violation that TLC already reported; never to produce a verdict"""
    if o is None:
        return False
    return ((m["f1"] == "-" or o["f1"] == m["f1"]) and (m["f2"] == "-" or o["f2"] == m["f2"])
            and (m["pol"] == "none" or o["pol"] == m["pol"]) and o["own"] == "me")


def mismatching(man, cluster):
    return {r for r, m in man.items() if not _match_one(m, cluster.get(r))}


def explains(kf, name, evs, b, e):
    """does the listed finding kf, triggered in the operation evs[b..e], explain violation `name` there?
    Findings whose trigger is broad get a second, specific condition on the offending objects."""
    be, en = evs[b], evs[e]
    pre, post = be["state"], en["state"]
    fl = be["flags"]
    if kf == "KF-L6-unstructured-two-way-merge":
        if fl.get("takeOwnership"):
            return False          # --take-ownership merges three-way (kube.Client.UpdateThreeWayMerge)
        if not post["store"]:
            return False
        top = post["store"][str(max(int(k) for k in post["store"]))]
        bad = mismatching(top["man"], post["cluster"])
        # only custom-kind objects that already existed when the operation began may be off
        return bool(bad) and all(is_custom(top["man"][r]["kind"]) and r in pre["cluster"] for r in bad)
    if kf == "KF-L7-uninstall-skips-other-policy-values":
        last = pre["store"][str(max(int(k) for k in pre["store"]))]
        left = {r for r, m in last["man"].items() if m["pol"] != "keep" and r in post["cluster"]}
        return bool(left) and all(last["man"][r]["pol"] == "other" for r in left)
    if kf == "KF-L29-template-with-explicit-dry-run-value-contacts-cluster":
        return en.get("reqw", 0) == 0          # only reads
    if kf == "KF-L28-rollback-diffs-against-undeployed-last-revision":
        if not post["store"]:
            return False
        cur = pre["store"][str(max(int(k) for k in pre["store"]))]["man"]
        new = post["store"][str(max(int(k) for k in post["store"]))]["man"]
        deps = [v["man"] for v in pre["store"].values() if v["st"] == "deployed"]
        # left behind: in a deployed manifest, not in the new one, still there - only what the last revision did not name
        left = {r for dm in deps for r in dm if r not in new and r in post["cluster"] and post["cluster"][r].get("pol") != "keep"}
        # off: named by the new manifest but different - only where last and new manifest say the same (nothing to patch)
        off = mismatching(new, post["cluster"])
        return bool(left or off) and all(r not in cur for r in left) and all(r in cur and cur[r] == new[r] for r in off)
    if kf == "KF-L4-atomic-rollback-fails-no-resource-found":
        return "with the name" in en.get("err", "") and "found" in en.get("err", "")
    if kf == "KF-L5-obsolete-resource-errors-swallowed":
        lib = vlib.CHARTS.get(be.get("chart", ""), {"res": {}, "hooks": {}})
        new_ids = set(lib["res"]) if be["op"] != "rollback" else set()
        injs = [x for x in evs[b:e + 1] if x["ev"] == "call" and x["inj"] and x["proc"] == be["proc"]]
        # the rejected call addressed an object that is not part of the new manifest (obsolete resource)
        return all(x["kind"] == "res" and x["verb"] in ("GET", "DELETE") and (be["op"] == "rollback" or x["id"] not in new_ids)
                   for x in injs)
    return True


def classify(viol, evs, listed):
    """returns the id of the listed known finding that explains this violation, or None"""
    name, sid, line, ev = viol
    ops = ops_of(evs)
    for kf, start in kf_triggers(evs):
        if kf not in listed or name not in KF_RELEVANT.get(kf, ()):
            continue
        if line < start:
            continue
        if kf in KF_PERSIST:
            return kf
        # otherwise the violation must lie within the triggering operation
        for b, e in ops:
            if (b == start or e == start) and b <= line <= e:
                if explains(kf, name, evs, b, e):
                    return kf
    return None


# ---------------------------------------------------------------------------------------

def assign_drivers(raws, drivers, prefix, cli=0):
    scs = []
    for i, r in enumerate(raws):
        drv = drivers[i % len(drivers)]
        risky = any(st.get("step") == "op" and (st["crash"] or (st["fault"] and st["flab"]["kind"] == "store"))
                    for st in r["steps"])
        if drv == "memory" and risky:
            drv = "secret"      # memory storage lives in the dying process: no crash / storage-fault replay on it
        sc = vlib.tlc_scenario_to_harness(r, "%s%d" % (prefix, i), drv)
        # a share of the scenarios is driven through the command line (pkg/cmd: flag parsing and wiring)
        whole = bool(cli and (i % cli == 0) and "sched" not in sc)
        for st in sc["steps"]:
            # --install exists only in pkg/cmd: such a step always goes through the command line, the others follow
            # the share chosen for the scenario
            if "op" in st and (whole or st.get("flags", {}).get("install")):
                st["via"] = "cli"
                st["flags"].pop("cancelled", None)
                st["flags"].pop("postRender", None)
        for st in sc["steps"]:
            if "op" in st and st.get("via") != "cli":
                st["flags"].pop("tplDry", None)       # a spelling of the command line only
        scs.append(sc)
    return scs


def race_run(d, scs, seed, tier):
    """C09, second sentence: the same operations run freely (no schedule) in a binary built with -race,
    plus several goroutines hammering one storage backend. The race detector's report is an observation
    the property names; it is outside the specification (DESIGN section 8)."""
    hvr = vlib.build_hv("hv", race=True)
    free = []
    # (on the memory driver the stored records ARE the callers' release objects (L13), so any reader of the
    # store races with the operation that still mutates them; free runs use the Kubernetes-backed drivers,
    # the memory driver itself is exercised by `hv stress` at the driver interface)
    # (operations driven through pkg/cmd share the command package's global settings: two command lines in one
    #  process race on them, which two helm processes do not; they are left out of the free runs)
    nocli = [s_ for s_ in scs if not any(st.get("via") == "cli" for st in s_["steps"])]
    for s in [s_ for s_ in nocli if s_["driver"] != "memory"][: (40 if tier == "quick" else 300)]:
        c = dict(s)
        c["sched"] = [{"k": "free", "p": 0}]
        free.append(c)
    sf = os.path.join(d, "race.ndjson")
    with open(sf, "w") as f:
        for s in free:
            f.write(json.dumps(s) + "\n")
    env = dict(os.environ, GORACE="halt_on_error=0 exitcode=66")
    rc1, out1, _ = vlib.sh([hvr, "run", "-charts", os.path.join(vlib.SPEC, "charts.json"), "-in", sf, "-out", os.path.join(d, "race.trace.ndjson")],
                           cwd=vlib.ROOT, env=env, timeout=1800, check=False)
    rc2, out2, _ = vlib.sh([hvr, "stress", "-seed", str(seed), "-g", "8", "-k", "200" if tier == "quick" else "2000"],
                           cwd=vlib.ROOT, env=env, timeout=1800, check=False)
    races = out1.count("WARNING: DATA RACE") + out2.count("WARNING: DATA RACE")
    panics = out2.count("STRESS-PANIC")
    if rc1 not in (0, 66) or rc2 not in (0, 66):
        raise Inconclusive("race run failed (%d, %d):\n%s\n%s" % (rc1, rc2, out1[-2000:], out2[-2000:]))
    rep = None
    if races or panics:
        rep = os.path.join(d, "race_report.txt")
        open(rep, "w").write(out1 + "\n" + out2)
    return dict(races=races, panics=panics, free_runs=len(free), report=rep)


def run_exhaustive(d, mc, tier, timeout, cfg=None):
    if cfg is None:
        cfg = mc + ("_thorough.cfg" if tier == "thorough" and os.path.exists(os.path.join(d, mc + "_thorough.cfg")) else ".cfg")
    rc, out, dt = vlib.tlc(d, mc + ".tla", cfg, workers=16, timeout=timeout, extra=["-lncheck", "final"] if False else [])
    gen, dist, depth = vlib.tlc_stats(out)
    err = vlib.tlc_failed(out)
    return dict(cfg=cfg, generated=gen, distinct=dist, depth=depth, seconds=round(dt, 1), error=err, out=out)


def describe(sc):
    parts = []
    for s in sc["steps"]:
        if "op" in s:
            fl = {k: v for k, v in s.get("flags", {}).items() if v not in (False, 0, "")}
            x = s["op"] + ((" " + s["chart"]) if s.get("chart") else "")
            if fl:
                x += " " + json.dumps(fl, sort_keys=True)
            if s.get("fault"):
                x += " fault@%d(%s)" % (s["fault"], s.get("expect", ""))
            if s.get("crash"):
                x += " crash@%d" % s["crash"]
            parts.append(x)
        elif "edit" in s:
            parts.append("edit %s.%s=%s" % (s["edit"]["res"], s["edit"]["field"], s["edit"]["value"]))
        elif "oobnew" in s:
            parts.append("oobnew %s(%s)" % (s["oobnew"]["res"], s["oobnew"]["own"]))
        elif "oobdel" in s:
            parts.append("oobdel " + s["oobdel"])
        elif "oobunkeep" in s:
            parts.append("oobunkeep " + s["oobunkeep"])
        elif "oobkeep" in s:
            parts.append("oobkeep " + s["oobkeep"])
    pre = ",".join("%s:%s" % (p["res"], p["own"]) for p in sc.get("pre", []))
    return "[%s] pre{%s} %s" % (sc["driver"], pre, " ; ".join(parts))


def evaluate(pid, d, scs, traces, want_conformance=True):
    """conformance + monitor on the traces; returns dict with violations / known / divergences"""
    bysid = {s["id"]: s for s in scs}
    res = dict(divergences=[], violations=[], known=collections.Counter(), states=0, accepted=0)
    if want_conformance:
        conf = [t for t in traces if bysid[t[0]]["driver"] != "memory"]
        acc, div, states = vlib.validate_traces(d, conf)
        res["accepted"] = len(acc)
        res["accepted_ids"] = acc
        res["divergences"] = [(sid, within, ev) for sid, within, ev in div]
        res["states"] += states
    viols, mstates = vlib.monitor(d, traces)
    res["mon_states"] = mstates
    listed = {k["id"] for k in vlib.load_known() if k.get("status", "known") == "known"}
    tdict = dict(traces)
    mine = set(CHECKS[pid])
    for v in viols:
        name, sid, line, ev = v
        if name not in mine:
            continue
        kf = classify(v, tdict[sid], listed)
        if kf:
            res["known"][kf] += 1
        else:
            res["violations"].append(v)
    return res


def preemption_sweep(raws, seed, tier):
    """single-preemption schedules for C09: for ordered pairs (A, B) of the operations the generators drew, A is
    stopped after k visible calls (every k), B then runs alone until it has returned, then A finishes. From an empty
    history and from a deployed one. The interleavings random simulation rarely draws (B arrives late, while A holds
    a pending record) are thereby enumerated; each one is a behaviour of Helm.tla like any other and is validated."""
    ops, seen = [], set()
    for r in raws:
        for st in r["steps"]:
            if "op" in st and st["op"] in ("install", "upgrade") and not st.get("fault") and not st.get("crash"):
                key = json.dumps([st["op"], st.get("chart"), {k: v for k, v in st["flags"].items() if v}], sort_keys=True)
                if key not in seen:
                    seen.add(key)
                    o = {"op": st["op"], "flags": dict(st["flags"])}
                    if st.get("chart"):
                        o["chart"] = st["chart"]
                    ops.append(o)
    ops.sort(key=lambda o: json.dumps(o, sort_keys=True))
    rnd = random.Random(seed)
    pairs = [(a, b) for a in ops for b in ops]
    rnd.shuffle(pairs)
    budget = 60 if tier == "quick" else 600          # pairs; every pair is run for every k
    pre = [{"res": "by1", "kind": "ConfigMap", "own": "none", "f1": "x", "f2": "-", "keep": False}]
    out = []
    for pi, (a, b) in enumerate(pairs[:budget]):
        deployed = (a["op"] == "upgrade" or b["op"] == "upgrade" or pi % 2 == 0) and not (a["op"] == "install" and b["op"] == "install" and pi % 2)
        for k in range(0, 13):
            sc = {"id": "pre%d_%d" % (pi, k), "driver": "secret", "pre": pre,
                  "steps": [dict(a, proc=1, **({"via": "cli"} if a["flags"].get("install") else {})),
                            dict(b, proc=2, **({"via": "cli"} if b["flags"].get("install") else {}))],
                  "sched": [{"k": "b", "p": 1}] + [{"k": "c", "p": 1}] * k + [{"k": "b", "p": 2}, {"k": "r", "p": 2}, {"k": "r", "p": 1}]}
            if deployed:
                sc["setup"] = [{"op": "install", "chart": "cA", "flags": {}}]
            out.append(sc)
    # ... and from a history of nine revisions on the memory driver (the next revision number has two digits:
    # its records are kept in a sorted list that is searched by key)
    longs = [(a, b) for a, b in pairs if a["op"] == "upgrade" and b["op"] == "upgrade"
             and not a["flags"].get("install") and not b["flags"].get("install")][: (4 if tier == "quick" else 40)]
    setup9 = [{"op": "install", "chart": "cA", "flags": {}}] + [{"op": "upgrade", "chart": ["cB", "cA"][i % 2], "flags": {}} for i in range(8)]
    for pi, (a, b) in enumerate(longs):
        for k in range(0, 13):
            out.append({"id": "prel%d_%d" % (pi, k), "driver": "memory", "pre": pre, "setup": setup9,
                        "steps": [dict(a, proc=1), dict(b, proc=2)],
                        "sched": [{"k": "b", "p": 1}] + [{"k": "c", "p": 1}] * k + [{"k": "b", "p": 2}, {"k": "r", "p": 2}, {"k": "r", "p": 1}]})
    return out


def binding_self_test(d, scs, traces, accepted):
    """the two verdict channels must bind: a trace that the specification accepted is (a) corrupted in one logged
    field, (b) robbed of one call event - both must be REJECTED by trace validation - and (c) given an end state with
    two deployed revisions, which the monitor must report. Anything else means the machinery is vacuous: exit 2."""
    bysid = {s["id"]: s for s in scs}
    acc = set(accepted)
    pick = None
    for sid, evs in traces:
        if sid not in acc or bysid[sid]["driver"] == "memory":
            continue
        ups = [i for i, e in enumerate(evs) if e["ev"] == "call" and e["kind"] == "store" and e["verb"] == "update" and e["ok"]
               and e["state"]["store"].get(str(e["rev"]), {}).get("st") == "deployed"]
        posts = [i for i, e in enumerate(evs) if e["ev"] == "call" and e["kind"] == "res" and e["verb"] == "POST" and e["ok"]]
        if ups and posts and evs[-1]["ev"] == "end" and len(evs[-1]["state"]["store"]) >= 2:
            pick = (sid, evs, ups[0], posts[0])
            break
    if pick is None:
        return dict(ran=False, reason="no accepted trace with an update-to-deployed, a create and two revisions")
    sid, evs, iu, ip = pick
    a = json.loads(json.dumps(evs))
    a[iu]["state"]["store"][str(a[iu]["rev"])]["st"] = "failed"          # (a) one logged status is wrong
    b = json.loads(json.dumps(evs))
    del b[ip]                                                            # (b) one call is missing
    c = json.loads(json.dumps(evs))
    for r in c[-1]["state"]["store"].values():                           # (c) an end state the property forbids
        r["st"] = "deployed"
        if "label" in r:
            r["label"] = "deployed"
    sd = vlib._subdir(d, "selftest")
    out = {}
    for name, tr in (("corrupted_field", a), ("dropped_event", b)):
        acc2, div2, _ = vlib.validate_traces(sd, [(sid, tr)])
        out[name + "_rejected"] = not acc2
    viols, _ = vlib.monitor(sd, [(sid, c)])
    out["forbidden_state_reported"] = any(v[0] == "C01_OneDeployed" for v in viols)
    out["ran"] = True
    out["scenario"] = describe(bysid[sid])
    if not (out["corrupted_field_rejected"] and out["dropped_event_rejected"] and out["forbidden_state_reported"]):
        raise Inconclusive("binding self-test failed (%s): the specification does not bind the traces" % out)
    return out


def run(pid, tier, seed, replay=None):
    t0 = time.time()
    fam = FAMILY[pid]
    hv = vlib.build_hv()
    d = vlib.workdir(pid)
    viol_dir = os.path.join(vlib.WORK, pid + "_violations" + vlib.work_tag())
    os.makedirs(viol_dir, exist_ok=True)

    if replay:
        sc = json.load(open(replay))
        if "ready_case" in sc:
            import fam_wait
            rv, _ = fam_wait.run_ready(tier, d, replay_case=sc["ready_case"])
            for check, c, o in rv:
                print("VIOLATION property=%s replay=%s check=%s case=%s expected=%s observed=%s %s" % (
                    pid, replay, check, fam_wait.describe_ready(c), o["want"], o["got"], o["err"]))
            return 1 if rv else 0
        if "wait_case" in sc:
            import fam_wait
            wv, wk, _ = fam_wait.run_sub(pid, tier, seed, d, replay_case=sc["wait_case"])
            for check, c, o in wv:
                print("VIOLATION property=%s replay=%s check=%s case=%s observed=%s" % (
                    pid, replay, check, fam_wait.describe(c), "ok at tick %d" % o["rettick"] if o["ok"] else "error: " + o["err"].replace("\n", " | ")))
            for kf in wk:
                print("KNOWN-FINDING: property=%s %s" % (pid, kf))
            return 1 if wv else 0
        scs = [sc]
        tf, _ = vlib.run_scenarios(hv, scs, d, "replay")
        traces = vlib.split_traces(vlib.load_trace(tf))
        res = evaluate(pid, d, scs, traces, want_conformance=sc["driver"] != "memory")
        for sid, within, ev in res["divergences"]:
            log("DIVERGENCE (trace of the real code is not a behaviour of Helm.tla) at event %d: %s" % (within, json.dumps(ev)[:400] if ev else "end"))
        for name, sid, line, ev in res["violations"]:
            print("VIOLATION property=%s replay=%s check=%s line=%d" % (pid, replay, name, line))
        for kf, n in res["known"].items():
            print("KNOWN-FINDING: property=%s %s" % (pid, kf))
        return 1 if res["violations"] else 0

    # 2. exhaustive model check of the specification (one or several configurations)
    cfgs = [None] + list(fam.get("extra_mc", [])) + (list(fam.get("extra_mc_thorough", [])) if tier == "thorough" else [])
    exs = []
    for c in cfgs:
        ex = run_exhaustive(d, fam["mc"], tier, timeout=1500 if tier == "quick" else 5400, cfg=c)
        if ex["error"]:
            # a model-level violation is a lead, never a verdict (DESIGN 2.4 case 2)
            log("MODEL: exhaustive run of %s reported: %s" % (ex["cfg"], ex["error"]))
            log(ex["out"][-3000:])
            raise Inconclusive("the specification violates its own invariants in %s; see log" % ex["cfg"])
        exs.append(ex)
    ex = dict(cfg="+".join(e["cfg"] for e in exs), generated=sum(e["generated"] for e in exs),
              distinct=sum(e["distinct"] for e in exs), depth=max(e["depth"] for e in exs),
              seconds=round(sum(e["seconds"] for e in exs), 1))

    # 3-4. scenarios from TLC, replayed on the real code
    n = fam[tier]
    gens = [fam["gen"] + ".cfg"] + list(fam.get("extra_gen", []))
    raws = []
    for gi, gcfg in enumerate(gens):
        r, gout = vlib.generate(d, fam["gen"] + ".tla", gcfg, max(10, n // len(gens) if (gi == 0 or fam.get("gen_split")) else n // (3 * len(gens))),
                                fam.get("gen_depth", 400), seed + 1000 * gi,
                                timeout=900 if tier == "quick" else 3600)
        raws += r
    # operation-level cover: EVERY behaviour of a small menu (all operation sequences up to the bound) is exported
    # by a breadth-first TLC run and replayed as well
    enum_n = 0
    enum_from = len(raws)
    for ecfg in fam.get("enum", []) + (fam.get("enum_thorough", []) if tier == "thorough" else []):
        r, _ = vlib.generate(d, fam["gen"] + ".tla", ecfg, 0, 0, seed, timeout=1500, exhaustive=True)
        seen = {json.dumps(x["steps"], sort_keys=True) for x in raws}
        r = [x for x in r if json.dumps(x["steps"], sort_keys=True) not in seen]
        enum_n += len(r)
        raws += r
    if len(raws) < 10:
        raise Inconclusive("scenario generator produced only %d scenarios" % len(raws))
    scs = assign_drivers(raws, fam["drivers"], "s", cli=fam.get("cli", 4))
    presweep_n = 0
    if pid == "C09":
        ps = preemption_sweep(scs, seed, tier)
        for i, sc_ in enumerate(ps):
            if sc_["driver"] != "memory":
                sc_["driver"] = ["secret", "configmap"][i % 2]
        presweep_n = len(ps)
        scs += ps
    # pinned scenarios: histories that once exposed a defect (regress/*.json), replayed in every run
    reg_n = 0
    for f in sorted(glob.glob(os.path.join(vlib.ROOT, "regress", "*.json"))):
        sc = json.load(open(f))
        if pid in sc.get("props", []):
            scs.append({k: v for k, v in sc.items() if k not in ("props", "why")})
            reg_n += 1
    tf, rdt = vlib.run_scenarios(hv, scs, d)
    events = vlib.load_trace(tf)
    notes = vlib.notes_of(events)
    traces = vlib.split_traces(events)
    if len(traces) != len(scs):
        raise Inconclusive("harness ran %d of %d scenarios" % (len(traces), len(scs)))
    sched_div = sum(1 for v in notes.values() if "sched-diverged" in v)

    # fault sweep: for some fault-free base scenarios, the last operation is re-run with a fault at EVERY
    # call position (1..number of visible calls observed in the fault-free run)
    sweep_n = 0
    if fam.get("sweep"):
        nb = fam["sweep"][0 if tier == "quick" else 1]
        bysid0 = {s_["id"]: s_ for s_ in scs}
        sweeps = []
        cands = {}
        for sid, evs in traces:
            sc = bysid0[sid]
            ops = [st for st in sc["steps"] if "op" in st]
            # (earlier operations of the base may have failed: what they left behind is part of the history)
            if not ops or ops[-1].get("fault") or any(st.get("crash") for st in ops):
                continue
            if ops[-1]["op"] == "uninstall" and not fam.get("sweep_uninstall"):
                continue
            if ops[-1]["flags"].get("dryRun") or ops[-1]["flags"].get("dryRunOption"):
                continue
            ends = [e for e in evs if e["ev"] == "end"]
            if not ends or ends[-1]["calls"] < 3:
                continue
            # one base per distinct (operation, flags, chart, history length): spread the sweep over flag combinations
            sig = (ops[-1]["op"] + ("+install" if ops[-1]["flags"].get("install") else ""), ops[-1].get("chart", ""),
                   json.dumps({k: v for k, v in ops[-1]["flags"].items() if v}, sort_keys=True),
                   json.dumps([(st["op"], st.get("chart", ""), bool(st.get("fault"))) for st in ops[:-1]]))
            cands.setdefault(sig, []).append((ends[-1]["calls"], sid))
        rnd = random.Random(seed)
        bykind = {}
        for g in sorted(cands):
            bykind.setdefault(g[0], []).append(g)
        for k in bykind:
            rnd.shuffle(bykind[k])
            bykind[k].sort(key=lambda g: -len(json.loads(g[2])))      # most flags first within an operation kind
        order = []
        while len(order) < nb and any(bykind.values()):
            for k in sorted(bykind):                                   # round-robin over operation kinds
                if bykind[k] and len(order) < nb:
                    order.append(bykind[k].pop(0))
        picked = [max(cands[sig]) for sig in order]
        if fam.get("sweep_enum"):
            # fault ENUMERATION: every enumerated short history is a base as well (every call position of its last operation)
            enum_ids = {"s%d" % i for i in range(enum_from, len(raws))}
            have = {sid for _, sid in picked}
            for sig in sorted(cands):
                for calls, sid in cands[sig]:
                    if sid in enum_ids and sid not in have:
                        picked.append((calls, sid))
                        have.add(sid)
        for calls, sid in picked:
            sc = bysid0[sid]
            for k in range(1, calls + 1):
                c = json.loads(json.dumps(sc))
                c["id"] = "%s_f%d" % (sid, k)
                last = [st for st in c["steps"] if "op" in st][-1]
                last["fault"] = k
                sweeps.append(c)
        if sweeps:
            tf2, _ = vlib.run_scenarios(hv, sweeps, d, "sweep")
            ev2 = vlib.load_trace(tf2)
            tr2 = vlib.split_traces(ev2)
            scs += sweeps
            traces += tr2
            events += ev2
            sweep_n = len(sweeps)

    race = None
    if pid == "C09":
        race = race_run(d, scs, seed, tier)

    # 5-6. conformance and verdict
    res = evaluate(pid, d, scs, traces)
    selftest = binding_self_test(d, scs, traces, res.get("accepted_ids", []))
    bysid = {s["id"]: s for s in scs}

    # fault plans must have hit a call (a dead plan would make fault coverage vacuous)
    planned = hit = drift = 0
    for sid, evs in traces:
        sc = bysid[sid]
        for e in evs:
            if e["ev"] == "end":
                st = sc["steps"][e["step"]]
                if st.get("fault"):
                    planned += 1
                    if e["faulthit"]:
                        hit += 1
                        if e["faulthit"] != st.get("expect"):
                            drift += 1

    out_viol = []
    seen = set()
    for name, sid, line, ev in res["violations"]:
        key = (name, sid)
        if key in seen:
            continue
        seen.add(key)
        path = os.path.join(viol_dir, "%s_%s.json" % (name, sid))
        json.dump(bysid[sid], open(path, "w"))
        # reproduce once more before reporting (DESIGN section 7)
        out_viol.append((name, sid, path))
    for kf, cnt in sorted(res["known"].items()):
        print("KNOWN-FINDING: property=%s %s (%d observed states)" % (pid, kf, cnt))
    for name, sid, path in out_viol[:20]:
        print("VIOLATION property=%s replay=%s check=%s scenario=%s" % (pid, path, name, describe(bysid[sid])))
    for sid, within, ev in res["divergences"][:10]:
        dpath = os.path.join(viol_dir, "divergence_%s.json" % sid)
        json.dump(bysid[sid], open(dpath, "w"))
        log("DIVERGENCE (trace of the real code is not a behaviour of Helm.tla): scenario %s at event %d: %s (scenario kept in %s)"
            % (describe(bysid[sid]), within, json.dumps({k: ev[k] for k in ("ev", "kind", "verb", "id", "ok", "inj")}) if ev else "end", dpath))

    distinct_end = len({json.dumps(evs[-1]["state"], sort_keys=True) for _, evs in traces})
    ops_run = sum(1 for e in events if e["ev"] == "begin")
    samples = [describe(s) for s in scs[:3]]
    cov = {
        "states": ex["distinct"], "transitions": ex["generated"],
        "traces_validated_against_impl": res["accepted"],
        "samples": samples,
        "exhaustive": True,
        "exhaustive_config": ex["cfg"], "exhaustive_depth": ex["depth"], "exhaustive_seconds": ex["seconds"],
        "scenarios_generated_by_tlc": len(scs), "operations_replayed_on_real_code": ops_run,
        "trace_events": len(events), "trace_validation_states": res["states"],
        "conformance_divergences": len(res["divergences"]),
        "monitor_checks": CHECKS[pid], "monitor_states": res["mon_states"],
        "distinct_observed_end_states": distinct_end,
        "fault_plans": planned, "fault_plans_that_hit_a_call": hit, "fault_hits_on_a_sibling_call_of_the_same_batch": drift,
        "known_findings_observed": dict(res["known"]),
        "scenarios_driven_through_the_command_line": sum(1 for s_ in scs if any(st.get("via") == "cli" for st in s_["steps"])),
        "schedules_not_followed_by_the_real_code": sched_div,
        "fault_sweep_scenarios_every_call_position": sweep_n,
        "pinned_regression_scenarios": reg_n,
        "preemption_sweep_scenarios": presweep_n,
        "binding_self_test": selftest,
        "scenarios_from_exhaustive_enumeration_of_short_operation_sequences": enum_n,
        "race_detector": race,
        "evaluations": len(scs), "distinct_nontrivial": distinct_end,
        "rule": "scenarios are behaviours of Helm.tla drawn by TLC -simulate (seeded); distinct_nontrivial counts distinct "
                "projected end states (ledger + cluster) observed from the real code",
        "checker_cmd": "tlc %s.tla -config %s ; tlc HelmTrace.tla ; tlc HelmMon.tla" % (fam["mc"], ex["cfg"]),
    }
    assumptions = [
        "simcluster implements REST semantics (GET/LIST/POST 409/PUT/PATCH strategic+merge/DELETE 404) like a real API server for the kinds used",
        "readiness and hook outcomes are scripted through the waiter (kube.Client.GetWaiter overridden), everything else is the production client",
        "faults: one injected rejection (HTTP 403 / storage error / wait error) per operation; a crash makes every later call of the process fail",
    ]
    nviol = len(out_viol)
    # readiness waiting: the real waiters on scripted status sequences (tools/fam_wait.py)
    if pid in ("C12", "C03", "C02"):
        import fam_wait
        wv, wk, wcov = fam_wait.run_sub(pid, tier, seed, d)
        cov["wait_sub_family"] = wcov
        for kf, cnt in sorted(wk.items()):
            print("KNOWN-FINDING: property=%s %s (%d cases of the wait sub-family)" % (pid, kf, cnt))
        seenw = set()
        for check, c, o in wv:
            key = json.dumps(c, sort_keys=True)
            if key in seenw:
                continue
            seenw.add(key)
            path = os.path.join(viol_dir, "%s_wait_%d.json" % (check, len(seenw)))
            json.dump({"wait_case": c}, open(path, "w"))
            if len(seenw) <= 20:
                print("VIOLATION property=%s replay=%s check=%s case=%s observed=%s" % (
                    pid, path, check, fam_wait.describe(c), "ok at tick %d" % o["rettick"] if o["ok"] else "error: " + o["err"].replace("\n", " | ")))
        nviol += len(seenw)
        if pid == "C03":
            # the legacy strategy's readiness rules, case by case (spec/Ready.tla)
            rv, rcov = fam_wait.run_ready(tier, d)
            cov["legacy_readiness_sub_family"] = rcov
            for i, (check, c, o) in enumerate(rv):
                path = os.path.join(viol_dir, "%s_%d.json" % (check, i + 1))
                json.dump({"ready_case": c}, open(path, "w"))
                if i < 20:
                    print("VIOLATION property=%s replay=%s check=%s case=%s expected=%s observed=%s %s" % (
                        pid, path, check, fam_wait.describe_ready(c), o["want"], o["got"], o["err"]))
            nviol += len(rv)
        assumptions.append("wait sub-family: objects live in client-go's fake dynamic client; statuses are published 250 ms apart; a wait that "
                           "is expected to end well and reports its own timeout is repeated once, alone and slowly, before it counts")
    if race and (race["races"] or race["panics"]):
        rp = os.path.join(viol_dir, "race_report.txt")
        os.replace(race["report"], rp)
        print("VIOLATION property=%s replay=%s check=race-detector races=%d panics=%d" % (pid, rp, race["races"], race["panics"]))
        nviol += 1
    vlib.write_evidence(pid, tier, seed, "fault_enumeration" if pid == "C03" else "model_checking", cov,
                        time.time() - t0, nviol, assumptions)
    if nviol:
        return 1
    if planned and hit == 0:
        raise Inconclusive("no fault plan hit a call: fault coverage would be vacuous")
    return 0
