#!/usr/bin/env python3
"""print the markdown table of seeded changes (/verif/seeded/*/meta.json) for DESIGN.md"""
import json, glob, os, re
rows = []
for d in sorted(glob.glob('/verif/seeded/*')):
    mf = os.path.join(d, 'meta.json')
    if not os.path.exists(mf):
        continue
    m = json.load(open(mf))
    first_run = m.get('evaluation', {})
    ev = m.get('evaluation_after_strengthening') or first_run
    first = ev.get('first_violation', '')
    chk = re.search(r'check=([A-Za-z0-9_\-@\[\]\. ]+?)( scenario=| case=|$)', first)
    caught = 'yes' if ev.get('check_exit') == 1 and ev.get('violation_lines', 0) > 0 else ('inconclusive' if ev.get('check_exit') == 2 else 'NO')
    if caught == 'yes' and ev is not first_run:
        caught = 'yes (after strengthening)'
    esc = lambda t: t.replace('|', '/').replace('\n', ' ')
    rows.append((os.path.basename(d), esc(m.get('title', ''))[:90], esc(m.get('needs', '') or '')[:140],
                 caught, (chk.group(1) if chk else '')[:40]))
print('| id | seeded change | needs | caught | by predicate |')
print('|---|---|---|---|---|')
for r in rows:
    print('| %s | %s | %s | %s | %s |' % r)
