#!/usr/bin/env python3
"""manifest_add.py <pid> <category> <engine> <text> <note> <technique> [design_ref]: register a check in MANIFEST.json"""
import json, sys
pid, cat, engine, text, note, tech = sys.argv[1:7]
ref = sys.argv[7] if len(sys.argv) > 7 else "DESIGN 5-" + pid
m = json.load(open('/verif/MANIFEST.json'))
m['checks'] = [c for c in m['checks'] if c['property_id'] != pid]
m['checks'].append({"property_id": pid, "quick_cmd": "./check %s --tier quick" % pid, "thorough_cmd": "./check %s --tier thorough" % pid,
                    "evidence_file": "/verif/evidence/%s.json" % pid, "replay_cmd_template": "./check %s --replay {path}" % pid,
                    "engine": engine, "level_claimed": {"category": cat, "text": text, "design_ref": ref}, "level_note": note, "technique": tech})
m['checks'].sort(key=lambda c: c['property_id'])
m['not_applicable'] = [x for x in m.get('not_applicable', []) if x['property_id'] != pid]
names = {e['name'] for e in m.get('engines', [])}
if engine not in names:
    m.setdefault('engines', []).append({"name": engine, "path": "/verif/tools/fam_%s.py" % pid.lower(), "serves_properties": [pid], "kind_free_text": "satellite TLA+ specification + Go harness (see DESIGN 0.4)"})
else:
    for e in m['engines']:
        if e['name'] == engine and pid not in e['serves_properties']:
            e['serves_properties'].append(pid)
json.dump(m, open('/verif/MANIFEST.json', 'w'), indent=1)
