"""C14 (values that violate a chart's schema are never rendered or deployed): spec/Schema.tla (SchemaValid, the
gate, MC_Schema case space), harness hv_deps c14 (real action.Install / Upgrade / Lint over the simulated cluster,
request log + storage call log), verdict by spec/SchemaObs.tla.  The pipeline is shared with C11 (fam_c11.run_family)."""
import fam_c11


def run(pid, tier, seed, replay=None):
    return fam_c11.run_family(pid, tier, seed, replay)
