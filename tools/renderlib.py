"""Shared machinery of the render family (C05: tools/fam_c05.py, C08: tools/fam_c08.py).

  spec/RenderBase.tla   data, reference function F, C08 predicates
  spec/Render.tla       the render pipeline as a state machine (IterateMap / HostChange)
  spec/RenderCases.tla  bounded input spaces;  spec/MC_RenderGen.tla exports them as JSON
  spec/RenderObs.tla    monitor: judges observations of the real code
  spec/Batch.tla        perform / batchPerform;  spec/BatchObs.tla monitor of the real kube.Client
  harness/cmd/hv_render the Go side
"""
import json, os, re, shutil, threading, time
import vlib
from vlib import Inconclusive, log

KNOWN_FILE = os.environ.get("VERIF_KNOWN_FINDINGS", vlib.KNOWN)   # (override only to try proposed entries)


def load_known(pid):
    out = {}
    if os.path.exists(KNOWN_FILE):
        for l in open(KNOWN_FILE):
            l = l.strip()
            if l.startswith("{"):       # ("fixed: ..." lines record repaired defects; they suppress nothing)
                k = json.loads(l)
                if k.get("status", "known") == "known" and k.get("property") == pid:
                    out[k["id"]] = k
    return out


def read_ndjson(path):
    return [json.loads(l) for l in open(path) if l.strip()]


def write_ndjson(path, items):
    with open(path, "w") as f:
        for it in items:
            f.write(json.dumps(it) + "\n")


def tlc_ok(out):
    return "Model checking completed. No error has been found." in out


def run_gen(d, cfg, timeout):
    """MC_RenderGen: TLC enumerates the bounded input space and writes cases_*.ndjson / mc_*.ndjson"""
    rc, out, dt = vlib.tlc(d, "MC_RenderGen.tla", cfg, workers=1, timeout=timeout)
    if not tlc_ok(out):
        raise Inconclusive("case enumeration (%s) failed:\n%s" % (cfg, out[-3000:]))
    return dt


def run_mc(d, module, cfg, inputs=None, workers=4, timeout=900, extra=()):
    """exhaustive TLC run; returns dict(generated, distinct, depth, seconds, ok, out)"""
    if inputs:
        shutil.copy(os.path.join(d, inputs), os.path.join(d, "mc_inputs.ndjson"))
    rc, out, dt = vlib.tlc(d, module, cfg, workers=workers, timeout=timeout, extra=list(extra))
    gen, dist, depth = vlib.tlc_stats(out)
    return dict(cfg=cfg, generated=gen, distinct=dist, depth=depth, seconds=round(dt, 1), ok=tlc_ok(out), out=out)


def violated_invariants(out):
    c = {}
    for m in re.finditer(r"Invariant (\w+) is violated", out):
        c[m.group(1)] = c.get(m.group(1), 0) + 1
    return c


class RealCodeCrash(Exception):
    """the harness process died of a Go runtime fatal error raised inside the REAL render code (helm.sh/helm/...):
    behaviour of the code under test, not a failure of the machinery"""
    def __init__(self, what, out, args):
        super().__init__(what)
        self.what, self.out, self.args = what, out, args


def crash_in_real_code(out):
    """a Go runtime fatal error (concurrent map access) or a race report whose first frame outside the runtime /
    standard library belongs to helm and not to the harness; returns a one-line description or None"""
    m = re.search(r"fatal error: (concurrent map[^\n]*)|WARNING: DATA RACE", out)
    if not m:
        return None
    frames = []
    for line in out[m.start():].splitlines()[1:80]:
        fm = re.match(r"^([A-Za-z0-9_./\-]+(?:/v\d+)?[A-Za-z0-9_./\-]*\.[^\s(]+)\(", line)
        if fm:
            frames.append(fm.group(1))
        if line.startswith("goroutine ") and frames:
            break
    for f in frames:
        if f.startswith("verif/harness/"):
            return None
        if f.startswith("helm.sh/helm/"):
            return "%s in %s" % (m.group(0).strip(), f)
    return None


def harness(hv, args, timeout):
    rc, out, dt = vlib.sh([hv] + args, cwd=vlib.ROOT, timeout=timeout, check=False)
    if rc != 0:
        what = crash_in_real_code(out)
        if what:
            raise RealCodeCrash(what, out, args)
        raise Inconclusive("harness %s failed (%d):\n%s" % (" ".join(args[:1]), rc, out[-3000:]))
    return dt


def spec_tables():
    """InstallOrder / UninstallOrder as written in spec/RenderBase.tla"""
    txt = open(os.path.join(vlib.SPEC, "RenderBase.tla")).read()
    out = {}
    for name in ("InstallOrder", "UninstallOrder"):
        m = re.search(r"^%s == <<(.*?)>>" % name, txt, re.S | re.M)
        out[name] = re.findall(r'"([^"]*)"', m.group(1))
    return out


def order_key(tab, k):
    return (0, tab.index(k), "") if k in tab else (1, 0, k)


def order_probe(hv, d, meta, seed=1):
    """when the kind tables of the code are not those of the specification: look for kinds whose relative order the
    two tables predict differently, run the REAL sort on them and let RenderOrderObs judge the output against the
    specification's fixed tables. returns [(check name, case)] of observed violations, and the number of cases tried"""
    spec = spec_tables()
    cases = []
    for table, sname, cname in (("install", "InstallOrder", "installOrder"), ("uninstall", "UninstallOrder", "uninstallOrder")):
        s, c = spec[sname], meta[cname]
        if s == c:
            continue
        uni = sorted(set(s) | set(c) | {"Aaaa", "Mmmm", "Zzzz"})
        wit = []
        for i, a in enumerate(uni):
            for b in uni[i + 1:]:
                if (order_key(s, a) < order_key(s, b)) != (order_key(c, a) < order_key(c, b)):
                    wit.append((a, b))
        # prefer witnesses that involve a kind on which the tables disagree about membership
        wit.sort(key=lambda p: (not ((p[0] in s) != (p[0] in c) or (p[1] in s) != (p[1] in c)), p))
        for a, b in wit[:12]:
            cases.append({"table": table, "kinds": [a, b], "alpha": [], "out": []})
            cases.append({"table": table, "kinds": [b, a, b], "alpha": [], "out": []})
    if not cases:
        return [], 0
    cf, of = os.path.join(d, "order_cases.ndjson"), os.path.join(d, "order_obs.ndjson")
    write_ndjson(cf, cases)
    harness(hv, ["sortprobe", "-in", cf, "-out", of], 300)
    viol, _, _ = monitor(d, "RenderOrderObs.tla", "ordermon", of, "", par=1)
    obs = read_ndjson(of)
    return [(name, obs[idx]) for idx, name in viol], len(cases)


def monitor(d, module, cfgname, obsfile, extra_consts, par=6, timeout=900):
    """run the TLA+ monitor `module` over the observations, in `par` chunks in parallel.
    returns (viol=[(line index, name)], known=[(line index, name, kf id)], states)"""
    lines = [l for l in open(obsfile) if l.strip()]
    n = len(lines)
    if n == 0:
        return [], [], 0
    par = max(1, min(par, (n + 199) // 200))
    size = (n + par - 1) // par
    jobs = []
    for k in range(par):
        part = lines[k * size:(k + 1) * size]
        if not part:
            continue
        of = "%s_%d.ndjson" % (cfgname, k)
        with open(os.path.join(d, of), "w") as f:
            f.writelines(part)
        cfg = "%s_%d.cfg" % (cfgname, k)
        with open(os.path.join(d, cfg), "w") as f:
            f.write("SPECIFICATION %s\nCONSTANT ObsFile = \"%s\"\n%sCHECK_DEADLOCK FALSE\n"
                    % ("MSpec" if module.startswith("Batch") else "Spec", of, extra_consts))
        jobs.append((k * size, len(part), cfg))
    res = [None] * len(jobs)

    def work(i):
        off, cnt, cfg = jobs[i]
        try:
            res[i] = vlib.tlc(d, module, cfg, workers=1, timeout=timeout)
        except Inconclusive as e:
            res[i] = e

    ths = [threading.Thread(target=work, args=(i,)) for i in range(len(jobs))]
    [t.start() for t in ths]
    [t.join() for t in ths]
    viol, known, states = [], [], 0
    for (off, cnt, cfg), r in zip(jobs, res):
        if isinstance(r, Exception):
            raise r
        rc, out, dt = r
        if '"OBSMETA"' in out:
            raise Inconclusive("the kind / path tables of the code differ from those of spec/RenderBase.tla "
                               "(the specification must be brought up to date before it can judge)")
        m = re.search(r'<<"OBSDONE", (\d+)>>', out)
        if not m or int(m.group(1)) != cnt or not tlc_ok(out):
            raise Inconclusive("monitor %s did not consume its observations (%s of %d):\n%s"
                               % (cfg, m.group(1) if m else "?", cnt, out[-3000:]))
        states += cnt
        for m in re.finditer(r'<<"OBSVIOL", (\d+), "(\w+)">>', out):
            viol.append((off + int(m.group(1)) - 1, m.group(2)))
        for m in re.finditer(r'<<"OBSKNOWN", (\d+), "(\w+)", "([\w\-]+)">>', out):
            known.append((off + int(m.group(1)) - 1, m.group(2), m.group(3)))
    return viol, known, states


RENDER_CONSTS = 'CONSTANT MetaFile = "meta.json"\n'


def describe_case(o):
    c = o["case"]
    fs = []
    for f in c["files"]:
        fs.append("%d:[%s]" % (f["p"], ",".join("%s/%s%s" % (x["k"][:3], x["c"], "" if x["g"] == "LIT" else "/" + x["g"]) for x in f["docs"])))
    extra = []
    for k in ("parts", "notes", "subs", "crds"):
        if c.get(k):
            extra.append("%s=%s" % (k, ",".join(map(str, c[k]))))
    for k in ("subNotes", "dns"):
        if c.get(k):
            extra.append(k)
    if c.get("decl", "none") != "none":
        extra.append("decl=" + c["decl"])
    if c.get("schema", "none") != "none":
        extra.append("schema=%s@%s" % (c["schema"], c.get("schemaAt")))
    return "%s %s %s" % (c.get("fam"), " ".join(fs), " ".join(extra))


def replay_render(hv, d, line, seed, args, prefix):
    """re-run one (already refined) case; returns (viol names, known [(name, kf)], observation)"""
    cf = os.path.join(d, "replay_case.ndjson")
    of = os.path.join(d, "replay_obs.ndjson")
    write_ndjson(cf, [line])
    harness(hv, ["render", "-in", cf, "-out", of, "-seed", str(seed)] + args, 600)
    if not os.path.exists(os.path.join(d, "meta.json")):
        harness(hv, ["meta", "-out", os.path.join(d, "meta.json")], 120)
    viol, known, _ = monitor(d, "RenderObs.tla", "replaymon", of, RENDER_CONSTS, par=1)
    obs = read_ndjson(of)[0]
    return ([n for _, n in viol if n.startswith(prefix)], [(n, k) for _, n, k in known if n.startswith(prefix)], obs)


def case_line_of(obs):
    """observation -> replayable case line (refined, with the drawn spelling)"""
    return {"id": obs["id"], "case": obs["case"], "fmt": obs["fmt"], "refined": True}
