"""Shared machinery of the render family (C05: tools/fam_c05.py, C08: tools/fam_c08.py).

  spec/RenderBase.tla   data, reference function F, C08 predicates
  spec/Render.tla       the render pipeline as a state machine (IterateMap / HostChange)
  spec/RenderCases.tla  bounded input spaces;  spec/MC_RenderGen.tla exports them as JSON
  spec/RenderObs.tla    monitor: judges observations of the real code
  spec/Batch.tla        perform / batchPerform;  spec/BatchObs.tla monitor of the real kube.Client
  harness/cmd/hv_render the Go side
"""
import json, os, re, shutil, threading, time
import vlib
from vlib import Inconclusive, log

KNOWN_FILE = os.environ.get("VERIF_KNOWN_FINDINGS", vlib.KNOWN)   # (override only to try proposed entries)


def load_known(pid):
    out = {}
    if os.path.exists(KNOWN_FILE):
        for l in open(KNOWN_FILE):
            l = l.strip()
            if l.startswith("{"):       # ("fixed: ..." lines record repaired defects; they suppress nothing)
                k = json.loads(l)
                if k.get("status", "known") == "known" and k.get("property") == pid:
                    out[k["id"]] = k
    return out


def read_ndjson(path):
    return [json.loads(l) for l in open(path) if l.strip()]


def write_ndjson(path, items):
    with open(path, "w") as f:
        for it in items:
            f.write(json.dumps(it) + "\n")


def tlc_ok(out):
    return "Model checking completed. No error has been found." in out


def run_gen(d, cfg, timeout):
    """MC_RenderGen: TLC enumerates the bounded input space and writes cases_*.ndjson / mc_*.ndjson"""
    rc, out, dt = vlib.tlc(d, "MC_RenderGen.tla", cfg, workers=1, timeout=timeout)
    if not tlc_ok(out):
        raise Inconclusive("case enumeration (%s) failed:\n%s" % (cfg, out[-3000:]))
    return dt


def run_mc(d, module, cfg, inputs=None, workers=4, timeout=900, extra=()):
    """exhaustive TLC run; returns dict(generated, distinct, depth, seconds, ok, out)"""
    if inputs:
        shutil.copy(os.path.join(d, inputs), os.path.join(d, "mc_inputs.ndjson"))
    rc, out, dt = vlib.tlc(d, module, cfg, workers=workers, timeout=timeout, extra=list(extra))
    gen, dist, depth = vlib.tlc_stats(out)
    return dict(cfg=cfg, generated=gen, distinct=dist, depth=depth, seconds=round(dt, 1), ok=tlc_ok(out), out=out)


def violated_invariants(out):
    c = {}
    for m in re.finditer(r"Invariant (\w+) is violated", out):
        c[m.group(1)] = c.get(m.group(1), 0) + 1
    return c


def harness(hv, args, timeout):
    rc, out, dt = vlib.sh([hv] + args, cwd=vlib.ROOT, timeout=timeout, check=False)
    if rc != 0:
        raise Inconclusive("harness %s failed (%d):\n%s" % (" ".join(args[:1]), rc, out[-3000:]))
    return dt


def monitor(d, module, cfgname, obsfile, extra_consts, par=6, timeout=900):
    """run the TLA+ monitor `module` over the observations, in `par` chunks in parallel.
    returns (viol=[(line index, name)], known=[(line index, name, kf id)], states)"""
    lines = [l for l in open(obsfile) if l.strip()]
    n = len(lines)
    if n == 0:
        return [], [], 0
    par = max(1, min(par, (n + 199) // 200))
    size = (n + par - 1) // par
    jobs = []
    for k in range(par):
        part = lines[k * size:(k + 1) * size]
        if not part:
            continue
        of = "%s_%d.ndjson" % (cfgname, k)
        with open(os.path.join(d, of), "w") as f:
            f.writelines(part)
        cfg = "%s_%d.cfg" % (cfgname, k)
        with open(os.path.join(d, cfg), "w") as f:
            f.write("SPECIFICATION %s\nCONSTANT ObsFile = \"%s\"\n%sCHECK_DEADLOCK FALSE\n"
                    % ("MSpec" if module.startswith("Batch") else "Spec", of, extra_consts))
        jobs.append((k * size, len(part), cfg))
    res = [None] * len(jobs)

    def work(i):
        off, cnt, cfg = jobs[i]
        try:
            res[i] = vlib.tlc(d, module, cfg, workers=1, timeout=timeout)
        except Inconclusive as e:
            res[i] = e

    ths = [threading.Thread(target=work, args=(i,)) for i in range(len(jobs))]
    [t.start() for t in ths]
    [t.join() for t in ths]
    viol, known, states = [], [], 0
    for (off, cnt, cfg), r in zip(jobs, res):
        if isinstance(r, Exception):
            raise r
        rc, out, dt = r
        if '"OBSMETA"' in out:
            raise Inconclusive("the kind / path tables of the code differ from those of spec/RenderBase.tla "
                               "(the specification must be brought up to date before it can judge)")
        m = re.search(r'<<"OBSDONE", (\d+)>>', out)
        if not m or int(m.group(1)) != cnt or not tlc_ok(out):
            raise Inconclusive("monitor %s did not consume its observations (%s of %d):\n%s"
                               % (cfg, m.group(1) if m else "?", cnt, out[-3000:]))
        states += cnt
        for m in re.finditer(r'<<"OBSVIOL", (\d+), "(\w+)">>', out):
            viol.append((off + int(m.group(1)) - 1, m.group(2)))
        for m in re.finditer(r'<<"OBSKNOWN", (\d+), "(\w+)", "([\w\-]+)">>', out):
            known.append((off + int(m.group(1)) - 1, m.group(2), m.group(3)))
    return viol, known, states


RENDER_CONSTS = 'CONSTANT MetaFile = "meta.json"\n'


def describe_case(o):
    c = o["case"]
    fs = []
    for f in c["files"]:
        fs.append("%d:[%s]" % (f["p"], ",".join("%s/%s%s" % (x["k"][:3], x["c"], "" if x["g"] == "LIT" else "/" + x["g"]) for x in f["docs"])))
    extra = []
    for k in ("parts", "notes", "subs", "crds"):
        if c.get(k):
            extra.append("%s=%s" % (k, ",".join(map(str, c[k]))))
    for k in ("subNotes", "dns"):
        if c.get(k):
            extra.append(k)
    if c.get("decl", "none") != "none":
        extra.append("decl=" + c["decl"])
    if c.get("schema", "none") != "none":
        extra.append("schema=%s@%s" % (c["schema"], c.get("schemaAt")))
    return "%s %s %s" % (c.get("fam"), " ".join(fs), " ".join(extra))


def replay_render(hv, d, line, seed, args, prefix):
    """re-run one (already refined) case; returns (viol names, known [(name, kf)], observation)"""
    cf = os.path.join(d, "replay_case.ndjson")
    of = os.path.join(d, "replay_obs.ndjson")
    write_ndjson(cf, [line])
    harness(hv, ["render", "-in", cf, "-out", of, "-seed", str(seed)] + args, 600)
    if not os.path.exists(os.path.join(d, "meta.json")):
        harness(hv, ["meta", "-out", os.path.join(d, "meta.json")], 120)
    viol, known, _ = monitor(d, "RenderObs.tla", "replaymon", of, RENDER_CONSTS, par=1)
    obs = read_ndjson(of)[0]
    return ([n for _, n in viol if n.startswith(prefix)], [(n, k) for _, n, k in known if n.startswith(prefix)], obs)


def case_line_of(obs):
    """observation -> replayable case line (refined, with the drawn spelling)"""
    return {"id": obs["id"], "case": obs["case"], "fmt": obs["fmt"], "refined": True}
