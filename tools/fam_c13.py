"""C13 - upgrade carries user values forward exactly as the chosen flag says.

  1. TLC explores every chain install ; (upgrade(mode, values, chart version) | rollback(target))*
     of spec/ValuesChainMC.tla up to MaxLen steps and compares, revision by revision, the
     CODE-SHAPED policy (reuseValues: CoalesceTables(new, deployed.Config), chart.Values :=
     CoalesceValues(deployed.Chart, deployed.Config), prepareRollback) with the PROPERTY-SHAPED
     one (spec/ValuesChain.tla: hist / defs per revision): the model check; differences are
     exported with the chain ("diffs") - leads, no verdict.
  2. the chains are replayed with the REAL action.Install / action.Upgrade / action.Rollback over
     the simulated cluster (harness/cmd/hv_values c13; secret, configmap and memory release
     storage); after every step Release.Config of every stored revision and the .Values probe
     rendered into its manifest are read back.
  3. TLC reads chains + observations (spec/ValuesChainObs.tla) and evaluates the C13 predicates on
     the observed records; a failing predicate is a VIOLATION unless it lies in the lineage of the
     listed known finding L18 (null laid over a set key with reuse / reset-then-reuse).
"""
import json, os, re, time, collections
import vlib, valueslib as vl
from vlib import Inconclusive, log

CHECKS = ["C13_Config", "C13_Effective", "C13_Rollback", "C13_NullUniform", "C13_Stored"]
KF_L18 = "KF-L18-reuse-values-null-dropped"
KF_SUBDEP = "KF-C13-reuse-values-stored-chart-without-dependencies"
DRIVERS = ["secret", "configmap", "memory"]

# exhaustive configurations (constants, replay cap) and simulation (constants, behaviours) per tier
PLAN = {
    "quick": dict(ex=[(dict(MaxLen=3, Full=False), 8000)], sim=[(dict(MaxLen=4, Full=False), 1500), (dict(MaxLen=4, Full=True), 400)]),
    # (chains of 4 steps are no longer enumerated exhaustively: with failing steps and flag combinations that space has
    #  tens of millions of chains; they are drawn by simulation instead)
    "thorough": dict(ex=[(dict(MaxLen=3, Full=False), 30000), (dict(MaxLen=3, Full=True), 20000)],
                     sim=[(dict(MaxLen=4, Full=False), 15000), (dict(MaxLen=5, Full=True), 3000)]),
}


def describe(c):
    parts = []
    for s in c["steps"]:
        if s["op"] == "rollback":
            parts.append(("(its own rollback to %d)" if s.get("auto") else "rollback to %d") % s["target"])
        elif s["op"] == "install":
            parts.append("install chart%d %s" % (s["chart"], vl.show(s["vals"])))
        else:
            names = {"default": "", "reset": " --reset-values", "reuse": " --reuse-values", "rtr": " --reset-then-reuse-values"}
            flag = "".join(names[m] for m in s["mode"].split("+"))
            parts.append("upgrade%s chart%d %s%s" % (flag, s["chart"], vl.show(s["vals"]), (" --atomic" if s.get("atomic") else "") + (" (cluster update fails)" if s.get("fail") else "")))
    return "[%s] %s" % (c.get("driver", "secret"), " ; ".join(parts))


def judge(d, hv, chains):
    vl.write_ndjson(os.path.join(d, "chains.ndjson"), chains)
    hdt = vl.run_harness(hv, "c13", d, "chains.ndjson", "cobs.ndjson")
    nobs = sum(1 for _ in open(os.path.join(d, "cobs.ndjson")))
    if nobs != len(chains):
        raise Inconclusive("harness wrote %d observations for %d chains" % (nobs, len(chains)))
    vl.write_cfg(d, "ValuesChainObs.cfg", {}, subst=[("Defaults", "DefaultsObs"), ("SubDefaults", "SubDefaultsObs")], post="Done")
    out, states, mdt = vl.run_monitor(d, "ValuesChainObs.tla", "ValuesChainObs.cfg", len(chains), timeout=3000)
    m = re.search(r'<<"OBSECHO", (\d+), "([^"]*)", "([^"]*)">>', out)
    if m:
        raise Inconclusive("the harness did not run the chain TLC exported (line %s, %s) %s" % m.groups())
    m = re.search(r'<<"OBSFAIL", (\d+), (\d+), "([^"]*)", "([^"]*)">>', out)
    if m:
        raise Inconclusive("operation %s of chain %s did not run as the chain plans (outcome / revision statuses): %s (%s)"
                           % (m.group(2), m.group(3), m.group(4), describe(chains[int(m.group(1)) - 1])))
    viols = []
    for m in re.finditer(r'<<"OBSVIOL", (\d+), "([A-Za-z0-9_]+)", (\d+), "([^"]*)", "([^"]*)">>', out):
        viols.append((m.group(2), chains[int(m.group(1)) - 1], int(m.group(3)), m.group(5)))
    revs = ops = 0
    for l in open(os.path.join(d, "cobs.ndjson")):
        o = json.loads(l)
        ops += len(o["steps"])
        revs += sum(len(s["revs"]) for s in o["steps"])
    return viols, dict(harness_s=round(hdt, 1), monitor_s=round(mdt, 1), monitor_states=states,
                       operations_run=ops, revision_records_read=revs)


def report(pid, viols, viol_dir, listed, replay_path=None):
    known = collections.Counter()
    real = []
    for check, c, step, shape in viols:
        if shape == "L18" and check in ("C13_Config", "C13_Effective") and KF_L18 in listed:
            known[KF_L18] += 1
        elif (shape == "SUBDEP" and check == "C13_Effective" and c.get("driver", "secret") in ("secret", "configmap")
              and KF_SUBDEP in listed):
            # the release record read back from Secret / ConfigMap storage has no dependencies
            known[KF_SUBDEP] += 1
        else:
            real.append((check, c, step))
    for kf, n in sorted(known.items()):
        print("KNOWN-FINDING: property=%s %s (%d observed revisions)" % (pid, kf, n))
    seen, shown = set(), 0
    for check, c, step in real:
        key = (check, c["id"])
        if key in seen:
            continue
        seen.add(key)
        path = replay_path
        if path is None:
            path = os.path.join(viol_dir, "%s_%s.json" % (check, re.sub(r"[^A-Za-z0-9_]", "_", c["id"])))
            json.dump(c, open(path, "w"))
        if shown < 25:
            print("VIOLATION property=%s replay=%s check=%s step=%d chain=%s" % (pid, path, check, step, describe(c)))
            shown += 1
    if len(seen) > shown:
        print("... and %d more violating (check, chain) pairs; replay files in %s" % (len(seen) - shown, viol_dir))
    return len(seen), known


def run(pid, tier, seed, replay=None):
    t0 = time.time()
    hv = vlib.build_hv("hv_values")
    d = vlib.workdir(pid)
    viol_dir = os.path.join(vlib.WORK, pid + "_violations" + vlib.work_tag())
    os.makedirs(viol_dir, exist_ok=True)
    listed = vl.known_ids()

    if replay:
        c = json.load(open(replay))
        chains = c if isinstance(c, list) else [c]
        viols, st = judge(d, hv, chains)
        n, known = report(pid, viols, viol_dir, listed, replay_path=replay)
        return 1 if n else 0

    if tier not in PLAN:
        raise Inconclusive("unknown tier " + tier)
    chains, runs, model_diffs, leads = [], [], collections.Counter(), []
    states = transitions = 0
    tmo = 900 if tier == "quick" else 3000
    ndefaults = None
    for consts, cap in PLAN[tier]["ex"]:
        vl.write_cfg(d, "ValuesChainMC_run.cfg", dict(Term=False, **consts), constraint="ExportBatch",
                     subst=[("Defaults", "DefaultsDef"), ("SubDefaults", "SubDefaultsDef")])
        cs, st = vl.enumerate_exhaustive(d, "ValuesChainMC.tla", "ValuesChainMC_run.cfg", tmo)
        if not cs:
            raise Inconclusive("TLC exported no chain")
        states += st["distinct"]
        transitions += st["generated"]
        for c in cs:
            for x in c["diffs"]:
                model_diffs[x] += 1
                if x.startswith("L:") and len(leads) < 40:
                    leads.append("%s: %s" % (x, describe(c)))
        # chains of different configurations carry different chart-version lists: judged separately
        picked, sampled = vl.sample(cs, cap, seed)
        runs.append((consts, picked))
        log("C13 %s: %d chains enumerated by TLC in %.0fs (%d states), %d replayed" % (consts, len(cs), st["seconds"], st["distinct"], len(picked)))
        chains.append(dict(constants=consts, enumerated=len(cs), replayed=len(picked), sampled_by_seed=sampled,
                           tlc_states=st["distinct"], tlc_seconds=st["seconds"]))
    for consts, num in PLAN[tier]["sim"]:
        vl.write_cfg(d, "ValuesChainMC_sim.cfg", dict(Term=True, **consts), constraint="ExportOne",
                     subst=[("Defaults", "DefaultsDef"), ("SubDefaults", "SubDefaultsDef")])
        cs, st = vl.enumerate_simulate(d, "ValuesChainMC.tla", "ValuesChainMC_sim.cfg", num, consts["MaxLen"] + 2, seed, tmo)
        for c in cs:
            c["id"] = "sim_" + c["id"]
            for x in c["diffs"]:
                model_diffs["sim:" + x] += 1
        runs.append((consts, cs))
        log("C13 simulate %s: %d distinct chains (seed %d) in %.0fs" % (consts, len(cs), seed, st["seconds"]))
        chains.append(dict(constants=consts, simulated=len(cs), seed=seed, tlc_seconds=st["seconds"]))

    all_viols, jst_all, replayed = [], [], []
    disagree = 0
    for consts, cs in runs:
        for i, c in enumerate(cs):
            c["driver"] = DRIVERS[(i + seed) % len(DRIVERS)]
        viols, jst = judge(d, hv, cs)
        all_viols += viols
        jst_all.append(jst)
        replayed += cs
        # conformance of the code-shaped model: it predicted a difference exactly for the chains that violate
        bad = {c["id"] for _, c, _, _ in viols}
        disagree += sum(1 for c in cs if bool(c["diffs"]) != (c["id"] in bad))
    n, known = report(pid, all_viols, viol_dir, listed)

    ends = set()
    for c in replayed:
        ends.add(json.dumps(c["steps"], sort_keys=True))
    nontrivial = sum(1 for c in replayed if any(s["op"] == "rollback" or s["mode"] not in ("", "default") for s in c["steps"]))
    cov = {
        "states": states, "transitions": transitions,
        "traces_validated_against_impl": len(replayed),
        "samples": [describe(c) for c in (replayed[len(replayed) // 5], replayed[len(replayed) // 2], replayed[-1])],
        "exhaustive": True,
        "configurations": chains,
        "model_check": "code-shaped reuseValues / prepareRollback chain compared with the property-shaped hist/defs chain, revision by revision, on every chain",
        "model_differences": dict(model_diffs), "model_leads": leads,
        "chains_where_model_and_real_code_disagree": disagree,
        "chains_replayed_on_real_code": len(replayed),
        "operations_run_on_real_code": sum(j["operations_run"] for j in jst_all),
        "revision_records_read": sum(j["revision_records_read"] for j in jst_all),
        "verdict_by": "TLC (spec/ValuesChainObs.tla) evaluating " + ", ".join(CHECKS) + " on the observed Release.Config / rendered probe of every stored revision",
        "judge": jst_all,
        "known_findings_observed": dict(known),
        "evaluations": len(replayed), "distinct_nontrivial": min(nontrivial, len(ends)),
        "rule": "chains are the complete states of ValuesChainMC.tla (exhaustive breadth-first, replay sampled by seed above the cap, plus seeded -simulate of longer chains); "
                "distinct_nontrivial counts distinct chains with at least one reset / reuse / reset-then-reuse upgrade or a rollback",
        "checker_cmd": "tlc ValuesChainMC.tla ; hv_values c13 ; tlc ValuesChainObs.tla",
    }
    assumptions = [
        "an upgrade either succeeds or fails at its cluster update (recorded as a failed revision, the deployed one stays); other failure points and crashes are the subject of C01/C03",
        "root chart only (no subcharts); value trees over the keys a (with b, c below), k, n; scalars tagged by the step that supplied them",
        "simulated cluster and scripted waiter as for the core family; release storage on secrets, configmaps (JSON round trip) and memory",
        "a null-valued key and a missing key are the same observation for what templates see; in the recorded Config they are different",
    ]
    vlib.write_evidence(pid, tier, seed, "model_checking", cov, time.time() - t0, n, assumptions)
    if disagree and not n:
        log("note: %d chains where the code-shaped model and the real code disagree about a difference (no property verdict)" % disagree)
    return 1 if n else 0
