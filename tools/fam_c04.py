"""C04 - every value comes from the highest-precedence source that defines it.

  1. TLC enumerates the bounded input space of spec/ValuesMC.tla family by family (exhaustive
     breadth-first runs; in addition seeded -simulate draws from the larger universes) and, for
     every case, compares the CODE-SHAPED operators (transcribed MergeMaps / coalesce* / MergeValues
     order / strvals parser) with the PROPERTY-SHAPED oracle (spec/Values.tla Exp / Ok, ValuesSet
     SetPath): the model check. Differences are exported with the case ("diffs") - leads, no verdict.
  2. every exported case is run on the REAL code by harness/cmd/hv_values (values.Options.MergeValues,
     chartutil.CoalesceValues, ToRenderValues, engine.Render of a {{ toJson .Values }} probe in every
     chart level, deep equality of chart defaults / caller maps before and after);
  3. TLC reads cases + observations (spec/ValuesObs.tla) and evaluates the property predicates on the
     observed values; a failing predicate is a VIOLATION unless a listed known finding names that input.
"""
import json, os, re, time, collections
import vlib, valueslib as vl
from vlib import Inconclusive, log

CHECKS = ["C04_NoPanic", "C04_Refusal", "C04_SetPath", "C04_UserPrecedence", "C04_CoalesceRefusal",
          "C04_RootPrecedence", "C04_ScopePrecedence", "C04_NullRemovesKey", "C04_CommandLine", "C04_InputsUnmodified"]

# family -> (constants, replay cap) per tier; cap None = replay every enumerated case
PLAN = {
    "quick": [
        ("pair",  dict(Full=False, SetPairs=False), None),
        ("repeat", dict(Full=False, SetPairs=False), None),
        ("cli",   dict(Full=False, SetPairs=False), None),
        ("mdoc",  dict(Full=False, SetPairs=False), None),
        ("deep",  dict(Full=False, SetPairs=False), None),
        ("sub2",  dict(Full=False, SetPairs=False), None),
        ("deepsub", dict(Full=False, SetPairs=False), None),
        ("sub3",  dict(Full=False, SetPairs=False), 6000),
        ("flags", dict(Full=False, SetPairs=False), None),
        ("set",   dict(Full=False, SetPairs=False), None),
    ],
    "thorough": [
        ("pair",  dict(Full=True, SetPairs=False), None),
        ("repeat", dict(Full=True, SetPairs=False), None),
        ("cli",   dict(Full=True, SetPairs=False), None),
        ("mdoc",  dict(Full=True, SetPairs=False), None),
        ("deep",  dict(Full=True, SetPairs=False), None),
        ("sub2",  dict(Full=True, SetPairs=False), None),
        ("deepsub", dict(Full=True, SetPairs=False), None),
        ("sub3",  dict(Full=True, SetPairs=False), None),
        ("flags", dict(Full=True, SetPairs=False), None),
        ("set",   dict(Full=True, SetPairs=True), None),
    ],
}
# seeded simulation beyond the exhaustive universes: (family, constants, number of behaviours)
SIMS = {
    "quick": [("pair", dict(Full=True, SetPairs=False), 1000), ("flags", dict(Full=True, SetPairs=False), 1000),
              ("set", dict(Full=True, SetPairs=True), 1000)],
    "thorough": [("flags", dict(Full=True, SetPairs=True), 6000), ("set", dict(Full=True, SetPairs=True), 6000)],
}
NSTAGES = {"repeat": 5, "cli": 6, "mdoc": 4, "pair": 2, "deep": 2, "deepsub": 3, "sub2": 3, "sub3": 4, "flags": 8, "set": 2}

# ---------------------------------------------------------------------------------------
# known findings: recognised by the specific input

KF_SET_EMPTY = "KF-C04-set-empty-value-after-index-key-lost"
RE_SET_EMPTY = re.compile(r"\[\d+\]\.(?:[^=,.\[\]\\]|\\.)+=$")


def known_for(case, check):
    """id of the known finding whose signature this (case, failing check) matches, or None"""
    if case.get("fam") == "set" and check == "C04_SetPath":
        exprs = case.get("flags", {}).get("set", [])
        # signature: the LAST assignment of a --set expression has an empty value and its path ends
        # <list>[i].<key>  (strvals listItem returns without setIndex when key() hits end of input)
        if exprs and RE_SET_EMPTY.search(exprs[-1]):
            return KF_SET_EMPTY
    return None


def describe(c):
    def cv(x):
        return " --- ".join(vl.show(d) for d in x["docs"]) if x.get("docs") else vl.show(x["vals"])
    ch = " > ".join("%s=%s" % (x["name"], cv(x)) for x in c["charts"])
    fl = " ".join("--%s '%s'" % ({"json": "set-json", "set": "set", "str": "set-string", "file": "set-file", "lit": "set-literal"}[k], e)
                  for k in ("json", "set", "str", "file", "lit") for e in c["flags"].get(k, []))
    if c.get("fileorder") and c["fileorder"] != list(range(1, len(c["files"]) + 1)):
        fl = "-f order %s %s" % ("".join(str(i) for i in c["fileorder"]), fl)
    return "charts[%s] files[%s] %s" % (ch, ", ".join(" --- ".join(vl.show(d) for d in c["filedocs"][i]) if i < len(c.get("filedocs") or []) and c["filedocs"][i] else vl.show(f)
                                                        for i, f in enumerate(c["files"])), fl)


BATCH = 40000     # observations per TLC monitor run (memory of ndJsonDeserialize)


def judge(d, hv, cases):
    """run the real code on the cases and let TLC judge; returns (violations [(check, case)], stats)"""
    vl.write_ndjson(os.path.join(d, "cases_all.ndjson"), cases)
    hdt = vl.run_harness(hv, "c04", d, "cases_all.ndjson", "obs_all.ndjson")
    obs_lines = [l for l in open(os.path.join(d, "obs_all.ndjson")) if l.strip()]
    if len(obs_lines) != len(cases):
        raise Inconclusive("harness wrote %d observations for %d cases" % (len(obs_lines), len(cases)))
    vl.write_cfg(d, "ValuesObs.cfg", {}, post="Done")
    viols, states, mdt = [], 0, 0.0
    for lo in range(0, len(cases), BATCH):
        part = cases[lo:lo + BATCH]
        vl.write_ndjson(os.path.join(d, "cases.ndjson"), part)
        open(os.path.join(d, "obs.ndjson"), "w").writelines(obs_lines[lo:lo + BATCH])
        out, st, dt = vl.run_monitor(d, "ValuesObs.tla", "ValuesObs.cfg", len(part), timeout=3000)
        states += st
        mdt += dt
        m = re.search(r'<<"OBSECHO", (\d+), "([^"]*)">>', out)
        if m:
            raise Inconclusive("the harness did not run the case TLC exported (line %s, %s)" % (m.group(1), m.group(2)))
        for m in re.finditer(r'<<"OBSVIOL", (\d+), "([A-Za-z0-9_]+)", "([^"]*)">>', out):
            viols.append((m.group(2), part[int(m.group(1)) - 1]))
    obs_stats = collections.Counter()
    for l in obs_lines:
        o = json.loads(l)
        obs_stats["refused" if not o["merge"]["ok"] else "coalesce-refused" if not o["root"]["ok"] else "values"] += 1
    return viols, dict(harness_s=round(hdt, 1), monitor_s=round(mdt, 1), monitor_states=states, outcomes=dict(obs_stats))


def report(pid, viols, viol_dir, listed, replay_path=None):
    """prints KNOWN-FINDING / VIOLATION lines; returns (#violations, known counter)"""
    known = collections.Counter()
    real = []
    for check, c in viols:
        kf = known_for(c, check)
        if kf and kf in listed:
            known[kf] += 1
        else:
            real.append((check, c))
    for kf, n in sorted(known.items()):
        print("KNOWN-FINDING: property=%s %s (%d cases)" % (pid, kf, n))
    seen = set()
    shown = 0
    for check, c in real:
        key = (check, c["id"])
        if key in seen:
            continue
        seen.add(key)
        path = replay_path
        if path is None:
            path = os.path.join(viol_dir, "%s_%s.json" % (check, re.sub(r"[^A-Za-z0-9_]", "_", c["id"])))
            json.dump(c, open(path, "w"))
        if shown < 25:
            print("VIOLATION property=%s replay=%s check=%s case=%s" % (pid, path, check, describe(c)))
            shown += 1
    if len(seen) > shown:
        print("... and %d more violating (check, case) pairs; replay files in %s" % (len(seen) - shown, viol_dir))
    return len(seen), known


def run(pid, tier, seed, replay=None):
    t0 = time.time()
    hv = vlib.build_hv("hv_values")
    d = vlib.workdir(pid)
    viol_dir = os.path.join(vlib.WORK, pid + "_violations" + vlib.work_tag())
    os.makedirs(viol_dir, exist_ok=True)
    listed = vl.known_ids()

    if replay:
        c = json.load(open(replay))
        cases = c if isinstance(c, list) else [c]
        viols, st = judge(d, hv, cases)
        n, known = report(pid, viols, viol_dir, listed, replay_path=replay)
        return 1 if n else 0

    if tier not in PLAN:
        raise Inconclusive("unknown tier " + tier)
    cases, fam_stats, model_diffs = [], {}, collections.Counter()
    leads = []
    states = transitions = 0
    tlc_timeout = 900 if tier == "quick" else 3000
    for fam, consts, cap in PLAN[tier]:
        cfg = "ValuesMC_run.cfg"
        vl.write_cfg(d, cfg, dict(Family=fam, Term=False, **consts), constraint="ExportBatch")
        cs, st = vl.enumerate_exhaustive(d, "ValuesMC.tla", cfg, tlc_timeout)
        if not cs:
            raise Inconclusive("TLC exported no case for family " + fam)
        states += st["distinct"]
        transitions += st["generated"]
        for c in cs:
            for x in c["diffs"]:
                model_diffs[fam + ":" + x] += 1
                if x.startswith("L:") and len(leads) < 40:
                    leads.append("%s %s: %s" % (x, c["id"], describe(c)))
        picked, sampled = vl.sample(cs, cap, seed)
        fam_stats[fam] = dict(constants=consts, enumerated=len(cs), replayed=len(picked), sampled_by_seed=sampled,
                              tlc_states=st["distinct"], tlc_seconds=st["seconds"])
        cases += picked
        log("C04 %s: %d cases enumerated by TLC in %.0fs (%d states), %d replayed" % (fam, len(cs), st["seconds"], st["distinct"], len(picked)))
    nsim = 0
    for fam, consts, num in SIMS[tier]:
        cfg = "ValuesMC_sim.cfg"
        vl.write_cfg(d, cfg, dict(Family=fam, Term=True, **consts), constraint="ExportOne")
        cs, st = vl.enumerate_simulate(d, "ValuesMC.tla", cfg, num, NSTAGES[fam] + 2, seed, tlc_timeout)
        for c in cs:
            c["id"] = "sim_" + c["id"]
            for x in c["diffs"]:
                model_diffs["sim-" + fam + ":" + x] += 1
                if x.startswith("L:") and len(leads) < 40:
                    leads.append("%s %s: %s" % (x, c["id"], describe(c)))
        fam_stats["sim-" + fam] = dict(constants=consts, simulated=len(cs), tlc_seconds=st["seconds"], seed=seed)
        nsim += len(cs)
        cases += cs
        log("C04 simulate %s: %d distinct cases (seed %d) in %.0fs" % (fam, len(cs), seed, st["seconds"]))

    viols, jst = judge(d, hv, cases)
    n, known = report(pid, viols, viol_dir, listed)

    nontrivial = len({json.dumps([c["charts"], c["files"], c["flags"]], sort_keys=True) for c in cases
                      if len([1 for ch in c["charts"] if ch["vals"].get("m")]) + len([1 for f in c["files"] if f.get("m")])
                      + sum(len(v) for v in c["flags"].values()) >= 2})
    cov = {
        "states": states, "transitions": transitions,
        "traces_validated_against_impl": len(cases),
        "samples": [describe(c) for c in (cases[len(cases) // 7], cases[len(cases) // 2], cases[-1])],
        "exhaustive": True,
        "families": fam_stats,
        "model_check": "code-shaped operators (MergeMaps, coalesceTablesFullKey, coalesceValues, coalesceDeps, MergeValues family order, "
                       "strvals parser) compared with the property-shaped oracle on every enumerated case",
        "model_differences": dict(model_diffs),
        "model_leads": leads,
        "cases_replayed_on_real_code": len(cases), "of_which_from_seeded_simulation": nsim,
        "verdict_by": "TLC (spec/ValuesObs.tla) evaluating the property-shaped predicates on the observed values; checks " + ", ".join(CHECKS),
        "judge": jst,
        "known_findings_observed": dict(known),
        "evaluations": len(cases), "distinct_nontrivial": nontrivial,
        "rule": "cases are the states of ValuesMC.tla at the last stage (exhaustive breadth-first per family, plus seeded -simulate); "
                "distinct_nontrivial counts distinct inputs with at least two non-empty sources",
        "checker_cmd": "tlc ValuesMC.tla (per family) ; hv_values c04 ; tlc ValuesObs.tla",
    }
    assumptions = [
        "value trees: keys {a,b} (plus escaped-dot key a.b for --set), depth <= 2 under a subchart key, scalars tagged by source; the key 'global' is not used (C11)",
        "a null-valued key and a missing key are the same observation (the property speaks of the value a template sees)",
        "where a higher map lies over an intermediate scalar/list/null over a lower map, and where a source sets a subchart's key itself to a non-map, "
        "the property does not fix the answer: every reading is accepted / the values are not judged (spec/Values.tla Ok, ValuesProps.tla SubKeyClobbered)",
        "documented --set type rules are the table DocTyped of spec/ValuesSet.tla; yaml / json / sprig toJson libraries are trusted",
    ]
    vlib.write_evidence(pid, tier, seed, "model_checking", cov, time.time() - t0, n, assumptions)
    return 1 if n else 0
