"""C11 (subchart scoping / enabling) and, through run_family, C14 (schema gate).

Pipeline of one check (DESIGN 1, 2.3, 2.4; CONVENTIONS):
  1. rebuild the family's harness command (hv_deps) against the tree under test;
  2. TLC explores the case builder of spec/Deps.tla (C11: MC_Deps) or spec/Schema.tla (C14: MC_Schema)
     exhaustively: every complete case is checked by the model-level invariant (the code-shaped and the
     property-shaped transcription agree, or the case has the shape of an understood lead) and exported as JSON;
     C11 additionally draws seeded random cases from a space too large to enumerate (TLC -simulate, MC_DepsSim);
  3. hv_deps builds the real charts of every case and runs the real code (chartutil.ProcessDependencies,
     ToRenderValues, engine.Render, action.Install / Upgrade / Lint over the simulated cluster), one
     observation line per case;
  4. verdict: TLC evaluates the property predicates of DepsObs.tla / SchemaObs.tla on the observation file
     (ndJsonDeserialize); a failing predicate is a VIOLATION unless it has the shape of a listed known finding
     AND the observation is what the code-shaped model predicts for that shape;
  5. a case on which the two transcriptions disagree (a model-level lead) must show up as a failing
     predicate on the real code, otherwise the run is inconclusive (unreproduced model counterexample).
"""
import json, os, re, glob, time, shutil, collections, hashlib, random
from concurrent.futures import ThreadPoolExecutor
import vlib
from vlib import Inconclusive, log

FAM = {
    "C11": dict(mc="MC_Deps", sim="MC_DepsSim", sim_depth=30, sim_n=dict(quick=400, thorough=6000),
                hv="c11", obs="DepsObs", export="DepsExport", inv="AgreeInv",
                # hist_share: the part of the cases (seeded) that also takes the history route: real install, then upgrades
                hist_share=dict(quick=5, thorough=2)),
    # cli_share: the part of the cases (seeded choice) that is also run through the helm command line (pkg/cmd)
    "C14": dict(mc="MC_Schema", sim=None, hv="c14", obs="SchemaObs", export="SchemaExport", inv="SchemaInv",
                cli_share=dict(quick=4, thorough=1),
                # history route: every case whose values violate a schema (both kinds of first revision) + a seeded share of the
                # rest (one kind, drawn)
                hist_share=dict(quick=10, thorough=2)),
}
SPEC_FILES = ["Deps.tla", "Schema.tla"]


def tlc_workers(tier):
    return int(os.environ.get("VERIF_TLC_WORKERS", "4" if tier == "quick" else "8"))


# ---------------------------------------------------------------------------------------
# cases

def read_gen(d):
    out = []
    for f in sorted(glob.glob(os.path.join(d, "gen", "*.json"))):
        try:
            out.append(json.load(open(f)))
        except Exception as e:
            raise Inconclusive("unreadable case file %s: %s" % (f, e))
    return out


def clear_gen(d):
    g = os.path.join(d, "gen")
    shutil.rmtree(g, ignore_errors=True)
    os.makedirs(g)


def enumerate_cases(d, fam, tier, timeout):
    """exhaustive TLC run of the case builder: model check + export"""
    clear_gen(d)
    cfg = fam["mc"] + ("_thorough.cfg" if tier == "thorough" else ".cfg")
    rc, out, dt = vlib.tlc(d, fam["mc"] + ".tla", cfg, extra=["-continue"], workers=tlc_workers(tier), timeout=timeout)
    gen, dist, depth = vlib.tlc_stats(out)
    leads = len(re.findall(r"Invariant %s\w* is violated" % fam["inv"], out))
    if "Model checking completed" not in out and not leads:
        raise Inconclusive("exhaustive TLC run of %s did not complete:\n%s" % (cfg, out[-3000:]))
    if re.search(r"Error: (?!Invariant)", out) and "is violated" not in out:
        raise Inconclusive("TLC error in %s:\n%s" % (cfg, out[-3000:]))
    cases = read_gen(d)
    return dict(cfg=cfg, generated=gen, distinct=dist, depth=depth, seconds=round(dt, 1), model_leads_outside_known_shapes=leads), cases


def simulate_cases(d, fam, n, seed, timeout):
    """seeded random walks through the builder of the wide shape"""
    clear_gen(d)
    rc, out, dt = vlib.tlc(d, fam["mc"] + ".tla", fam["sim"] + ".cfg",
                           extra=["-simulate", "num=%d" % n, "-depth", str(fam["sim_depth"]), "-seed", str(seed), "-continue"],
                           workers=1, timeout=timeout)
    if "Error:" in out and "The number of states generated" not in out and "is violated" not in out:
        raise Inconclusive("simulation run failed:\n" + out[-3000:])
    m = re.search(r"The number of states generated: (\d+)", out)
    states = int(m.group(1)) if m else 0
    leads = len(re.findall(r"Invariant %s\w* is violated" % fam["inv"], out))
    cases = read_gen(d)
    return dict(cfg=fam["sim"] + ".cfg", walks=n, states=states, seconds=round(dt, 1), model_leads_outside_known_shapes=leads), cases


def dedup(cases):
    seen, out = set(), []
    for c in cases:
        k = json.dumps(c["case"], sort_keys=True)
        if k in seen:
            continue
        seen.add(k)
        out.append(c)
    return out


# ---------------------------------------------------------------------------------------
# real code

def run_harness(hv, cmd, cases, d, name="cases"):
    cf, of = os.path.join(d, name + ".ndjson"), os.path.join(d, name + ".obs.ndjson")
    with open(cf, "w") as f:
        for c in cases:
            f.write(json.dumps(c) + "\n")
    j = int(os.environ.get("VERIF_HV_WORKERS", "12"))
    rc, out, dt = vlib.sh([hv, cmd, "-in", cf, "-out", of, "-j", str(j)], cwd=vlib.ROOT, timeout=3000, check=False)
    if rc != 0:
        raise Inconclusive("harness %s failed (%d):\n%s" % (cmd, rc, out[-3000:]))
    lines = [l for l in open(of) if l.strip()]
    if len(lines) != len(cases):
        raise Inconclusive("harness observed %d of %d cases" % (len(lines), len(cases)))
    return lines, dt


OBS_RE = re.compile(r'"(OBS[A-Z]+) (\d+) (\w+) (\d+) ([^ ]*) ;"')


def judge(d, obsmod, lines, name="judge", chunks=4, timeout=1500):
    """TLC evaluates the predicates of <obsmod>.tla on the observation lines.
    returns [(tag, line index (0-based), check, op, kf string)]"""
    chunks = max(1, min(chunks, len(lines) // 200 + 1))
    size = (len(lines) + chunks - 1) // chunks
    parts = [(k * size, lines[k * size:(k + 1) * size]) for k in range(chunks) if lines[k * size:(k + 1) * size]]

    def one(arg):
        k, (off, ls) = arg
        dk = os.path.join(d, "%s_%d" % (name, k))
        shutil.rmtree(dk, ignore_errors=True)
        os.makedirs(dk)
        for f in SPEC_FILES + [obsmod + ".tla", obsmod + ".cfg"]:
            shutil.copy(os.path.join(d, f), dk)
        with open(os.path.join(dk, "obs.ndjson"), "w") as f:
            f.writelines(ls)
        rc, out, dt = vlib.tlc(dk, obsmod + ".tla", obsmod + ".cfg", workers=1, timeout=timeout)
        gen, dist, depth = vlib.tlc_stats(out)
        if "Model checking completed. No error has been found." not in out or depth != len(ls) + 1:
            raise Inconclusive("%s did not consume its observations (%d of %d):\n%s" % (obsmod, depth - 1, len(ls), out[-3000:]))
        res = [(m.group(1), off + int(m.group(2)) - 1, m.group(3), int(m.group(4)), m.group(5)) for m in OBS_RE.finditer(out)]
        return res, dist

    with ThreadPoolExecutor(max_workers=len(parts)) as ex:
        rs = list(ex.map(one, enumerate(parts)))
    found, states = [], 0
    for r, s in rs:
        found += r
        states += s
    return found, states


# ---------------------------------------------------------------------------------------

def short(leaves):
    return "{" + ", ".join("%s=%s" % (".".join(l["p"]), l["v"]) for l in sorted(leaves, key=lambda l: l["p"])) + "}"


def describe(cf):
    c = cf["case"]
    parts = []
    for ch, cd in sorted(c["charts"].items(), key=lambda kv: (kv[0] != "root", kv[0])):
        deps = []
        for dp in cd["deps"]:
            s = dp["name"] + (" as " + dp["alias"] if dp["alias"] else "")
            if dp["cond"]:
                s += " if " + ",".join(".".join(p) for p in dp["cond"])
            if dp["tags"]:
                s += " tags " + ",".join(dp["tags"])
            deps.append(s)
        sch = ""
        if cd["schema"]:
            sch = " schema[" + "; ".join("%s@%s(%s)" % (k["k"], ".".join(k["p"]) or "/", ",".join(k["a"])) for k in cd["schema"]) + "]"
        parts.append("%s%s%s defaults%s%s" % (ch, " -> [" + "; ".join(deps) + "]" if deps else "", sch, short(cd["defaults"]),
                                             " +crds" if cd.get("crds") and cd["schema"] else ""))
    return "%s: %s | file%s set%s" % (cf["id"], " || ".join(parts), short(c["user"]), short(c["uset"]))


CLI_FLAGS = ["--skip-crds", "--no-hooks", "--force", "--create-namespace", "--atomic"]


def mark_cli(cases, share, seed):
    """seeded choice of the cases that also go through the command line (1 of `share`; every case with
    schema-invalid values counts double in the draw), and of the one flag tried alone on each of them"""
    rnd = random.Random(seed)
    for cf in cases:
        invalid = bool(cf.get("exp", {}).get("invalid"))
        if share <= 1 or rnd.randrange(share) == 0 or (invalid and rnd.randrange(share) == 0):
            cf["cli"] = True
            cf["cliflag"] = rnd.choice(CLI_FLAGS)


def op_name(line, op):
    """display name of operation number op (1-based) of an observation line"""
    try:
        o = json.loads(line)["ops"][op - 1]
        return o["mode"] + ("[" + o["flags"] + "]" if o.get("flags") else "") + ("+skip" if o["skip"] and not o.get("flags") else "")
    except Exception:
        return "op%d" % op


def listed_known(pid):
    return {k["id"] for k in vlib.load_known() if k.get("status", "known") == "known" and k.get("property") == pid}


def classify(found, listed):
    """-> violations {(line, check, op)}, known Counter(kf), machinery [(line, check, op)]"""
    viols, known, mach = set(), collections.Counter(), []
    for tag, line, check, op, kf in found:
        if tag == "OBSMACH":
            mach.append((line, check, op))
        elif tag == "OBSKNOWN" and kf and all(k in listed for k in kf.split("+")):
            known[kf] += 1
        else:
            viols.add((line, check, op))
    return viols, known, mach


def c11_conformance(cases, lines):
    """how many observations equal what the code-shaped model exported for the case"""
    same = 0
    for cf, l in zip(cases, lines):
        e = cf.get("exp")
        if not e or "enabledCode" not in e:
            continue
        o = json.loads(l)
        if not o.get("aok"):
            continue
        rend = sorted(tuple(p) for p in o["rendered"])
        if rend != sorted(tuple(p) for p in e["enabledCode"]):
            continue
        cs = {tuple(s["P"]): sorted((tuple(x["p"]), x["v"]) for x in s["leaves"]) for s in e["scope"]}
        rs = {tuple(s["P"]): sorted((tuple(x["p"]), x["v"]) for x in s["leaves"]) for s in o["seen"]}
        same += cs == rs
    return same


def signature(pid, line):
    o = json.loads(line)
    if pid == "C11":
        sig = [o.get("rendered"), sorted((tuple(s["P"]), tuple(sorted((tuple(x["p"]), x["v"]) for x in s["leaves"]))) for s in o.get("seen", [])),
               o.get("schemaErr"), o.get("named")]
        nontrivial = len(o.get("rendered", [])) + len(o.get("named", [])) >= 1
    else:
        sig = [sorted((tuple(s["P"]), tuple(sorted((tuple(x["p"]), x["v"]) for x in s["leaves"]))) for s in o.get("finals", [])),
               [(v["P"], v["valid"]) for v in o.get("lib", [])],
               [(p["mode"], p["skip"], p["ok"], p["schemaErr"], p["named"], min(p["writes"], 1), min(p["renders"], 1)) for p in o.get("ops", [])],
               [k for k in json.loads(json.dumps(o["case"]))["charts"].items()]]
        nontrivial = len(o.get("lib", [])) >= 1
    return hashlib.sha1(json.dumps(sig, sort_keys=True, default=str).encode()).hexdigest(), nontrivial


def run_family(pid, tier, seed, replay=None):
    t0 = time.time()
    fam = FAM[pid]
    hv = vlib.build_hv("hv_deps")
    d = vlib.workdir(pid)
    viol_dir = os.path.join(vlib.WORK, pid + "_violations" + vlib.work_tag())
    if not replay:
        shutil.rmtree(viol_dir, ignore_errors=True)      # replay files of this run only
    os.makedirs(viol_dir, exist_ok=True)
    listed = listed_known(pid)

    if replay:
        cf = json.load(open(replay))
        if "hist_share" in fam:
            cf.setdefault("hist", True)
        if "cli_share" in fam:
            cf.setdefault("cli", True)
            cf.setdefault("cliflag", CLI_FLAGS[0])
        lines, _ = run_harness(hv, fam["hv"], [cf], d, "replay")
        found, _ = judge(d, fam["obs"], lines, "replayjudge", 1)
        viols, known, mach = classify(found, listed)
        if mach:
            raise Inconclusive("machinery check failed on the replayed case: %s" % sorted(set(c for _, c, _ in mach)))
        for (_, check, op) in sorted(viols):
            print("VIOLATION property=%s replay=%s check=%s%s" % (pid, replay, check, " op=" + op_name(lines[0], op) if op else ""))
        for kf, n in sorted(known.items()):
            print("KNOWN-FINDING: property=%s %s" % (pid, kf))
        return 1 if viols else 0

    # 2. TLC: model check + enumeration of the bounded case space
    ex, cases = enumerate_cases(d, fam, tier, timeout=900 if tier == "quick" else 5400)
    n_ex = len(cases)
    sim = None
    if fam.get("sim"):
        sim, more = simulate_cases(d, fam, fam["sim_n"][tier], seed, timeout=900 if tier == "quick" else 3600)
        cases = dedup(cases + more)
    if len(cases) < 20:
        raise Inconclusive("TLC exported only %d cases" % len(cases))
    if ex["model_leads_outside_known_shapes"] or (sim and sim["model_leads_outside_known_shapes"]):
        log("MODEL: the transcriptions disagree on cases outside the understood shapes (a lead; decided below on the real code)")

    if "cli_share" in fam:
        mark_cli(cases, fam["cli_share"][tier], seed)
    if "hist_share" in fam:
        rnd = random.Random(seed)
        for cf in cases:
            share = fam["hist_share"][tier]
            if cf.get("exp", {}).get("invalid"):
                cf["hist"] = True
            elif share <= 1 or rnd.randrange(share) == 0:
                cf["hist"] = True
                if share > 1:
                    cf["histfirst"] = rnd.choice(["skipinstall", "laxinstall"])

    # 3. the real code
    lines, hdt = run_harness(hv, fam["hv"], cases, d)

    # 4. verdict by TLA+ predicates on the observations
    found, mon_states = judge(d, fam["obs"], lines, chunks=4 if tier == "quick" else 8)
    viols, known, mach = classify(found, listed)
    if mach:
        byc = collections.Counter(c for _, c, _ in mach)
        ln = mach[0][0]
        raise Inconclusive("machinery checks failed %s; first: %s" % (dict(byc), describe(cases[ln])))

    # 5. model-level leads must reproduce on the real code
    failing_lines = {l for (_, l, _, _, _) in found}
    unreproduced = [cf for i, cf in enumerate(cases) if cf.get("exp", {}).get("agree") is False and i not in failing_lines]

    # a violation is reported only if it shows again when the case is run a second time (DESIGN 7)
    out_viol = []
    if viols:
        vlines = sorted({l for (l, _, _) in viols})
        again_lines, _ = run_harness(hv, fam["hv"], [cases[l] for l in vlines], d, "again")
        again_found, _ = judge(d, fam["obs"], again_lines, "againjudge", 2)
        av, _, _ = classify(again_found, listed)
        again = {(vlines[l], check, op) for (l, check, op) in av}
        stable = viols & again
        if not stable:
            raise Inconclusive("%d violating observations did not reproduce on a second run" % len(viols))
        byline = collections.defaultdict(list)
        for (l, check, op) in sorted(stable):
            byline[l].append(check if not op else "%s@%s" % (check, op_name(lines[l], op)))
        for l, checks in byline.items():
            path = os.path.join(viol_dir, "%s.json" % cases[l]["id"])
            json.dump(cases[l], open(path, "w"))
            cs = sorted(set(checks))
            out_viol.append((path, cs[:4] + (["(+%d more)" % (len(cs) - 4)] if len(cs) > 4 else []), cases[l]))

    for kf, n in sorted(known.items()):
        print("KNOWN-FINDING: property=%s %s (%d failing checks, all in that shape)" % (pid, kf, n))
    for path, checks, cf in out_viol[:25]:
        print("VIOLATION property=%s replay=%s checks=%s case=%s" % (pid, path, ",".join(checks), describe(cf)))
    if len(out_viol) > 25:
        print("(%d further violating cases under %s)" % (len(out_viol) - 25, viol_dir))

    sigs = [signature(pid, l) for l in lines]
    distinct = len({s for s, nt in sigs if nt})
    by_shape = collections.Counter(cf["shape"] for cf in cases)
    cov = {
        "states": ex["distinct"] + (sim["states"] if sim else 0), "transitions": ex["generated"] + (sim["states"] if sim else 0),
        "traces_validated_against_impl": len(cases),
        "samples": [describe(cases[i]) for i in sorted({0, len(cases) // 2, len(cases) - 1})],
        "exhaustive": True,
        "exhaustive_config": ex["cfg"], "exhaustive_cases": n_ex, "exhaustive_seconds": ex["seconds"],
        "exhaustive_builder_states": ex["distinct"],
        "simulated": sim, "cases_total": len(cases), "cases_by_shape": dict(by_shape),
        "model_invariant": fam["inv"], "model_invariant_violations": ex["model_leads_outside_known_shapes"] + (sim["model_leads_outside_known_shapes"] if sim else 0),
        "harness_seconds": round(hdt, 1), "monitor": fam["obs"] + ".tla", "monitor_states": mon_states,
        "verdict_by": "TLA+ predicates of %s.tla evaluated by TLC on the observation file (ndJsonDeserialize); "
                      "no comparison in Python" % fam["obs"],
        "known_findings_observed": dict(known),
        "evaluations": len(cases), "distinct_nontrivial": distinct,
        "rule": "cases are the complete states of the case builder (chart tree x one choice per value slot) enumerated by TLC, plus "
                "seeded -simulate walks where a shape is too large; distinct_nontrivial counts distinct observation signatures "
                "(what was rendered / seen / rejected by the real code) among cases in which the property has something to decide",
        "checker_cmd": "tlc %s.tla -config %s -continue ; hv_deps %s ; tlc %s.tla" % (fam["mc"], ex["cfg"], fam["hv"], fam["obs"]),
    }
    if pid == "C11":
        cov["model_cases_where_transcriptions_agree"] = sum(1 for c in cases if c.get("exp", {}).get("agree") is True)
        cov["model_leads_in_known_shapes"] = sum(1 for c in cases if c.get("exp", {}).get("agree") is False and c["exp"].get("lead"))
        cov["model_leads_not_reproduced_on_real_code"] = len(unreproduced)
        cov["observations_equal_to_code_shaped_model"] = c11_conformance(cases, lines)
        hs = [json.loads(l) for l in lines if '"hist":true' in l]
        cov["cases_on_history_route"] = len(hs)
        cov["history_route_installs_ok"] = sum(1 for o in hs if o["iok"])
        cov["history_route_upgrades_run"] = sum(len(o["ups"]) for o in hs)
        assumptions = [
            "bounded space: trees to depth 3 (root, mid, leaf, oth), keys {a,b,en,flag,global,tags}, no lists / nulls (C04), no import-values; "
            "condition paths point into the dependency's own section, at a parent flag or at a global flag (not into a sibling's section)",
            "tags below the first level are set only in the root `tags` table (the documented place)",
            "where a condition path points into a SIBLING dependency's section and is decided by that sibling's own default values, the "
            "property does not say whether a sibling that ends up disabled still lends its defaults: both outcomes are accepted (Deps.tla ExpEs)",
            "probe templates ({{ toJson .Values }}) report what a chart sees; hooks / CRDs / notes are attributed by their template path",
            "history route (seeded share of the cases): real action.Install with the case's values, then action.Upgrade with an empty values map in "
            "the default / reuse-values / reset-then-reuse-values / reset-values modes over the simulated cluster (Secrets storage); CRDs in the "
            "cluster are attributed to the chart directory that ships them",
        ]
    else:
        ops = [p for l in lines for p in json.loads(l).get("ops", [])]
        cov["operations_run_on_real_code"] = len(ops)
        cov["operations_on_history_route"] = sum(1 for p in ops if p["mode"].startswith("hist-"))
        cov["history_route_rejections"] = sum(1 for p in ops if p["mode"].startswith("hist-") and p["schemaErr"])
        cov["operations_through_command_line"] = sum(1 for p in ops if p["mode"].startswith("cli-"))
        cov["cases_also_run_through_command_line"] = sum(1 for c in cases if c.get("cli"))
        cov["operations_by_mode"] = dict(collections.Counter(p["mode"] for p in ops))
        cov["rejections_expected_and_observed"] = sum(1 for p in ops if p["schemaErr"] and not p["skip"])
        cov["schema_library_crosscheck"] = "SchemaValid (TLA+) = santhosh-tekuri/jsonschema on every (schema, observed final values) pair: check EvalAgrees"
        assumptions = [
            "schema family: type, required, enum, minimum/maximum, nested object, additionalProperties:false over scalar / table values (no $ref, lists, nulls)",
            "simcluster implements REST semantics for ConfigMaps, Secrets (release records) and CustomResourceDefinitions; readiness is scripted",
            "a render is observed through the `lookup` call of the root probe template (request log); template mode and lint cannot be observed that way",
            "with skip-schema-validation only install / upgrade / template are required not to reject (helm lint still validates the root values file)",
            "history route: first revision by install with skip-schema-validation or by the schema-less chart of the same version, then upgrades "
            "with an empty values map (default / reuse / reset-then-reuse / reset); the values in force are observed from a dry-run twin with the gate off",
            "command-line runs (pkg/cmd through the verif-tagged NewRootCmdWithConfigForVerif) use an injected action.Configuration over the "
            "simulated cluster; they are serialised because pkg/cmd keeps its settings in package globals",
        ]
    vlib.write_evidence(pid, tier, seed, "model_checking", cov, time.time() - t0, len(out_viol), assumptions)
    if out_viol:
        return 1
    if unreproduced:
        raise Inconclusive("%d model-level leads did not reproduce on the real code (the code-shaped model misrepresents the code), e.g. %s"
                           % (len(unreproduced), describe(unreproduced[0])))
    return 0


def run(pid, tier, seed, replay=None):
    return run_family(pid, tier, seed, replay)
