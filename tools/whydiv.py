#!/usr/bin/env python3
"""whydiv.py <scenario.json|ndjson line>: replay one scenario, validate its trace against Helm.tla and, if it is
rejected, show the events around the first unexplained one (debugging aid for conformance divergences)."""
import sys, json, os
sys.path.insert(0, os.path.dirname(os.path.abspath(__file__)))
import vlib
sc = json.load(open(sys.argv[1]))
hv = vlib.build_hv()
d = vlib.workdir("whydiv")
tf, _ = vlib.run_scenarios(hv, [sc], d)
traces = vlib.split_traces(vlib.load_trace(tf))
acc, div, _ = vlib.validate_traces(d, traces)
print("accepted" if acc else "REJECTED", div[0][1] if div else "")
if div:
    sid, within, ev = div[0]
    evs = traces[0][1]
    for i, e in enumerate(evs[max(0, within - 14): within + 3]):
        j = max(0, within - 14) + i
        mark = ">>" if j == within else "  "
        print(mark, j, e["ev"], e["proc"], e["kind"], e["verb"], e["id"], "ok" if e["ok"] else "FAIL", "inj" if e["inj"] else "",
              e.get("op", ""), json.dumps({k: v for k, v in (e.get("flags") or {}).items() if v}) if e["ev"] == "begin" else "",
              {k: v["st"] for k, v in e["state"]["store"].items()})
