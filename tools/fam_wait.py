"""Readiness waiting (spec/WaitBase.tla, Wait.tla, MC_Wait.tla, WaitObs.tla) - a sub-family of C12, C03 and C02.

In the core specification a wait is one call whose outcome TLC chooses; the real waiters are replaced there by a
scripted one.  This sub-family covers the code that is thereby left unobserved (pkg/kube/statuswait.go,
internal/statusreaders): TLC enumerates every case (method, strategy, objects with the SCRIPT of statuses the
cluster publishes for them), checks the wait state machine on each and exports it with the expected outcome;
harness/fam/wait publishes the scripts through a fake dynamic client while the REAL Waiter method runs and records
how and at which tick it ended; TLC (WaitObs.tla) recomputes the expectation from the echoed case and judges.

  C12  hook      WatchUntilReady: a hook counts as completed only when its Job is Complete / its Pod Succeeded
  C03  wait(jobs) Wait / WaitWithJobs: a resource that never becomes ready ends the wait with an error
  C02  delete    WaitForDelete (uninstall --wait): ends well only when every object is gone
"""
import json, os, re, collections
import vlib
from vlib import Inconclusive, log

METHODS = {"C12": ("hook",), "C03": ("wait", "waitjobs"), "C02": ("delete",)}
KF = {"L26": "KF-L26-waitfordelete-ends-before-first-status", "L27": "KF-L27-wait-takes-failed-pod-as-ready"}


def describe(c):
    objs = "; ".join("%s %s" % (o["kind"], " -> ".join(o["script"])) for o in c["objs"])
    return "[wait sub-family] %s (%s strategy) on %s" % (c["method"], c["strategy"], objs)


def judge(d, hv, cases, listed):
    with open(os.path.join(d, "wait_run.ndjson"), "w") as f:
        for c in cases:
            f.write(json.dumps(c) + "\n")
    rc, out, hdt = vlib.sh([hv, "-par", "48", "-step", "250", "wait_run.ndjson", "wait_obs.ndjson"], cwd=d, timeout=5400, check=False)
    if rc != 0:
        raise Inconclusive("hv_wait failed (%d):\n%s" % (rc, out[-2000:]))
    obs = [json.loads(l) for l in open(os.path.join(d, "wait_obs.ndjson"))]
    if len(obs) != len(cases):
        raise Inconclusive("hv_wait wrote %d observations for %d cases" % (len(obs), len(cases)))
    rc, out, mdt = vlib.tlc(d, "WaitObs.tla", "WaitObs.cfg", workers=1, timeout=1800)
    err = vlib.tlc_failed(out)
    gen, dist, depth = vlib.tlc_stats(out)
    if err or dist != len(obs) + 1:
        raise Inconclusive("WaitObs did not judge all %d observations (%s, %d states):\n%s" % (len(obs), err, dist, out[-2000:]))
    m = re.search(r'<<"WAITHARNESS", (\d+), "([^"]*)">>', out)
    if m:
        raise Inconclusive("the wait harness could not run case %s: %s" % (m.group(1), m.group(2)))
    viols, known = [], collections.Counter()
    for m in re.finditer(r'<<"WAITVIOL", (\d+), "([A-Za-z0-9_]+)", "([^"]*)">>', out):
        i, check, tag = int(m.group(1)) - 1, m.group(2), m.group(3)
        kf = KF.get(tag)
        if kf and kf in listed:
            known[kf] += 1
        else:
            viols.append((check, obs[i]["case"], obs[i]))
    retried = sum(1 for o in obs if o.get("retried"))
    return viols, known, dict(harness_s=round(hdt, 1), monitor_s=round(mdt, 1), retried_after_deadline=retried)


def describe_ready(c):
    return "[legacy readiness] " + json.dumps(c, sort_keys=True)


def run_ready(tier, d, replay_case=None):
    """legacy readiness rules (spec/Ready.tla) on the real ReadyChecker: returns (violations, coverage)"""
    hv = vlib.build_hv("hv_ready")
    cases_file = os.path.join(d, "ready_cases.ndjson")
    gen = dist = 0
    if replay_case is not None:
        with open(cases_file, "w") as f:
            f.write(json.dumps({"case": replay_case, "want": ""}) + "\n")
    else:
        if os.path.exists(cases_file):
            os.remove(cases_file)
        cfg = "MC_Ready.cfg" if tier == "quick" else "MC_Ready_thorough.cfg"
        rc, out, dt = vlib.tlc(d, "MC_Ready.tla", cfg, workers=4, timeout=1800)
        err = vlib.tlc_failed(out)
        if err:
            log("MODEL: %s reported: %s" % (cfg, err))
            raise Inconclusive("the readiness specification violates its own invariants (%s)" % cfg)
        gen, dist, depth = vlib.tlc_stats(out)
    n = sum(1 for _ in open(cases_file))
    rc, out, hdt = vlib.sh([hv, "ready_cases.ndjson", "ready_obs.ndjson"], cwd=d, timeout=1800, check=False)
    if rc != 0:
        raise Inconclusive("hv_ready failed (%d):\n%s" % (rc, out[-2000:]))
    obs = [json.loads(l) for l in open(os.path.join(d, "ready_obs.ndjson"))]
    if len(obs) != n:
        raise Inconclusive("hv_ready wrote %d observations for %d cases" % (len(obs), n))
    rc, out, mdt = vlib.tlc(d, "ReadyObs.tla", "ReadyObs.cfg", workers=1, timeout=1800)
    err = vlib.tlc_failed(out)
    g2, d2, _ = vlib.tlc_stats(out)
    if err or d2 != n + 1:
        raise Inconclusive("ReadyObs did not judge all %d observations (%s, %d states):\n%s" % (n, err, d2, out[-2000:]))
    m = re.search(r'<<"READYHARNESS", (\d+), "([^"]*)">>', out)
    if m:
        raise Inconclusive("the readiness harness could not run case %s: %s" % (m.group(1), m.group(2)))
    viols = []
    for m in re.finditer(r'<<"READYVIOL", (\d+), "([A-Za-z]+)", "([a-z]+)", "([a-z]+)">>', out):
        i = int(m.group(1)) - 1
        viols.append(("C03_LegacyReady", obs[i]["case"], dict(want=m.group(3), got=m.group(4), err=obs[i].get("err", ""))))
    kinds = collections.Counter(o["case"]["kind"] for o in obs)
    return viols, dict(cases=n, tlc_states=dist, kinds=dict(kinds), harness_s=round(hdt, 1), monitor_s=round(mdt, 1))


def run_sub(pid, tier, seed, d, replay_case=None):
    """returns (violations [(check, case, observation)], known Counter, coverage dict)"""
    listed = {k["id"] for k in vlib.load_known() if k.get("status", "known") == "known"}
    hv = vlib.build_hv("hv_wait")
    if replay_case is not None:
        viols, known, st = judge(d, hv, [replay_case], listed)
        return viols, known, st
    cfg = "MC_Wait.cfg" if tier == "quick" else "MC_Wait_thorough.cfg"
    cases_file = os.path.join(d, "wait_cases.ndjson")
    if os.path.exists(cases_file):
        os.remove(cases_file)
    rc, out, dt = vlib.tlc(d, "MC_Wait.tla", cfg, workers=4, timeout=1800)
    err = vlib.tlc_failed(out)
    if err:
        log("MODEL: %s reported: %s" % (cfg, err))
        raise Inconclusive("the wait specification violates its own invariants (%s)" % cfg)
    gen, dist, depth = vlib.tlc_stats(out)
    allc = [json.loads(l) for l in open(cases_file)]
    cases = [c for c in allc if c["method"] in METHODS[pid]]
    if not cases:
        raise Inconclusive("MC_Wait exported no case for " + pid)
    viols, known, st = judge(d, hv, cases, listed)
    cov = dict(st, cases_enumerated=len(allc), cases_replayed=len(cases), tlc_states=dist, tlc_generated=gen,
               expected_timeouts=sum(1 for c in cases if not c["ok"]), cfg=cfg,
               known_findings_observed=dict(known))
    return viols, known, cov
