"""C20 - malformed external input produces an error, never a crash.

Pipeline (spec/Shapes.tla, spec/MC_Shapes.tla, harness/fam/shapes):
  1. TLC enumerates the cases: every document type {Chart.yaml, values.yaml, subchart values, values.schema.json, index.yaml,
     Chart.lock, plugin.yaml, provenance block, stored release record} with one (quick) or two (thorough) of its fields
     replaced by a shape {absent, null, scalar of the wrong type, empty list, list containing null, map, deeply nested};
     every text of <= 3 (quick) / 4 (thorough) tokens from the alphabets of manifest streams, --set strings and .helmignore
     lines; every release store of 3 records over {intact + 10 damage kinds} x {secrets, configmaps}, with the
     specification's verdict which records are readable;
  2. `hv_misc shapes-run` turns each case into real input and feeds it to helm's public entry points in child processes,
     each call under recover, each case under a watchdog; a dying child (stack overflow, fatal error) is attributed to
     the case it had begun;
  3. postcondition: every entry point returned (value or error) - no panic, no hang, no crash - and List / Query return
     exactly the readable records.
Byte-level fuzzing is out of scope of this technique.
"""
import glob, json, os, re, time
import vlib
from vlib import Inconclusive, log

PID = "C20"
QUICK = dict(cfg="MC_Shapes.cfg", tlc_workers=4, go_workers=8, tlc_timeout=900)
THOROUGH = dict(cfg="MC_Shapes_thorough.cfg", tlc_workers=6, go_workers=12, tlc_timeout=3000)


def dev_paths(case):
    return [".".join(d["path"]) for d in case["devs"]]


# known findings: (id, regex on the panic site, predicate on the case) - active only when listed in KNOWN_FINDINGS.jsonl
KF_TABLE = [
    ("KF-L10-secrets-get-nil-deref", r"storage/driver\.\(\*Secrets\)\.Get",
     lambda c: (c["mode"] == "store" and c["drv"] == "secrets") or (c["mode"] == "doc" and c["doc"] == "release")),
    ("KF-L10-import-values-assertion", r"chart/v2/util\.processImportValues",
     lambda c: c["mode"] == "doc" and c["doc"] == "chartyaml" and any("import-values" in p for p in dev_paths(c))),
    ("KF-L10-index-null-entry", r"pkg/repo\.ChartVersions\.Less|pkg/repo\.IndexFile\.Get|downloader\.\(\*ChartDownloader\)\.scanReposForURL|pkg/repo\.\(\*IndexFile\)\.Merge .*index\.go:257",
     lambda c: c["mode"] == "doc" and c["doc"] == "index" and any(
         (re.fullmatch(r"entries\.chart\.\d+", ".".join(d["path"])) and d["shape"] == "null") or
         (".".join(d["path"]) == "entries.chart" and d["shape"] == "listnull") for d in c["devs"])),
    ("KF-C20-lint-null-maintainer", r"lint/rules\.validateChartMaintainer",
     lambda c: c["mode"] == "doc" and c["doc"] == "chartyaml" and any(p.startswith("maintainers") for p in dev_paths(c))),
    ("KF-C20-release-record-without-info-or-chart",
     r"pkg/action\.\(\*Status\)\.Run|pkg/action\.\(\*GetMetadata\)\.Run|pkg/action\.\(\*List\)\.filterStateMask|pkg/action\.\(\*Upgrade\)\.prepareUpgrade|chart/v2/util\.coalesceValues"
     r"|pkg/cmd\.getReleaseHistory|pkg/cmd\.statusPrinter\.WriteTable|pkg/cmd\.newGetNotesCmd",   # the same records printed by helm history / helm get all
     lambda c: c["mode"] == "doc" and c["doc"] == "release" and any(
         p == "" or p.startswith("info") or p.startswith("chart") for p in dev_paths(c))),
    ("KF-C20-index-merge-into-index-without-entries", r"pkg/repo\.\(\*IndexFile\)\.Merge .*index\.go:259",
     lambda c: c["mode"] == "doc" and c["doc"] == "index" and any(p in ("entries", "") for p in dev_paths(c))),
]


def known_for(v, case, listed):
    if v["kind"] != "panic":
        return None
    for kid, site_re, pred in KF_TABLE:
        if kid in listed and re.search(site_re, v.get("site", "")) and pred(case):
            return kid
    return None


def judge(o):
    """violations of the postcondition in one observation"""
    out = []
    c = o["case"]
    if o.get("hang"):
        out.append(dict(kind="hang", entry=o["hang"], site="", detail="did not return within the watchdog time"))
    if o.get("crash"):
        out.append(dict(kind="crash", entry="?", site="", detail=o["crash"][:400]))
    for e in o.get("entries") or []:
        if e["out"] == "panic":
            out.append(dict(kind="panic", entry=re.sub(r" sh\.helm\.release\.\S+", "", e["name"]), site=e.get("site", ""), detail=e.get("msg", "")))
    if c["mode"] == "store" and not o.get("crash") and not o.get("hang"):
        keys, getok = o.get("keys") or [], set(o.get("getok") or [])
        must = same_ok = 0
        for k, rec in zip(keys, c["store"]):
            nm = re.sub(r"^sh\.helm\.release\.v1\.", "", k)
            if rec["readable"] == "yes":
                must += 1
                for what in ("listed", "queried"):
                    if nm not in (o.get(what) or []):
                        out.append(dict(kind="readable_record_not_" + what, entry=what, site="", detail="%s is intact but missing from %s" % (nm, o.get(what))))
                if k not in getok:
                    out.append(dict(kind="readable_record_not_gettable", entry="Get", site="", detail=nm))
            elif rec["readable"] == "no":
                if k in getok:
                    out.append(dict(kind="unreadable_record_returned_by_get", entry="Get", site="", detail="%s (%s)" % (nm, rec["damage"])))
            else:
                same_ok += 1 if k in getok else 0
        for what, name in (("listed", "List"), ("queried", "Query")):
            ent = next((e for e in o["entries"] if e["name"] == name), None)
            if ent is None:
                continue
            if ent["out"] == "ok":
                if len(o.get(what) or []) != must + same_ok:
                    out.append(dict(kind="%s_is_not_exactly_the_readable_records" % what, entry=name, site="",
                                    detail="%s returned %s; %d intact + %d damaged-but-decodable records are readable" % (name, o.get(what), must, same_ok)))
            elif ent["out"] == "err" and must + same_ok > 0:
                out.append(dict(kind="%s_failed_although_readable_records_exist" % name.lower(), entry=name, site="", detail=ent.get("msg", "")))
    return out


def describe(o):
    c = o["case"]
    if c["mode"] == "doc":
        what = "%s with %s" % (c["doc"], ", ".join("%s=%s" % (".".join(d["path"]) or "<document>", d["shape"]) for d in c["devs"]) or "no deviation")
    elif c["mode"] == "tokens":
        what = "%s text %r" % (c["fam"], o["input"][:120]) if o.get("input") is not None and not o.get("crash") else "%s tokens %s" % (c["fam"], c["toks"])
    else:
        what = "%s store [%s]" % (c["drv"], ", ".join(r["damage"] for r in c["store"]))
    return what


def run_cases(d, hv, cases, P):
    with open(os.path.join(d, "cases.ndjson"), "w") as f:
        for c in cases:
            f.write(json.dumps(c) + "\n")
    rc, out, dt = vlib.sh([hv, "shapes-run", "-cases", "cases.ndjson", "-out", "obs.ndjson", "-workers", str(P["go_workers"]),
                           "-tmp", os.path.join(d, "tmp")], cwd=d, timeout=3300)
    obs = [json.loads(l) for l in open(os.path.join(d, "obs.ndjson")) if l.strip()]
    return obs, dt, out


def run(pid, tier, seed, replay=None):
    t0 = time.time()
    P = THOROUGH if tier == "thorough" else QUICK
    hv = vlib.build_hv("hv_misc")
    d = vlib.workdir(PID)
    listed = {k["id"] for k in vlib.load_known() if k.get("status", "known") == "known"}
    if replay:
        rp = json.load(open(replay))
        obs, _, _ = run_cases(d, hv, [rp["case"]], dict(P, go_workers=1))
        bad, seen = 0, set()
        for o in obs:
            if o.get("skip"):
                raise Inconclusive("the harness could not build the case: " + o["skip"])
            for v in judge(o):
                kf = known_for(v, o["case"], listed)
                key = (kf, v["kind"], v["entry"], v["site"])
                if key in seen:
                    continue
                seen.add(key)
                if kf:
                    print("KNOWN-FINDING: property=%s %s entry=%s site=%s" % (PID, kf, v["entry"], v["site"]))
                else:
                    bad += 1
                    print("VIOLATION property=%s replay=%s check=%s input=%s entry=%s site=%s %s" %
                          (PID, replay, v["kind"], describe(o), v["entry"], v["site"], v["detail"][:200]))
        return 1 if bad else 0
    viol_dir = os.path.join(vlib.WORK, PID + "_violations" + vlib.work_tag())
    os.makedirs(viol_dir, exist_ok=True)

    os.makedirs(os.path.join(d, "gen"), exist_ok=True)
    rc, out, tlc_dt = vlib.tlc(d, "MC_Shapes.tla", P["cfg"], workers=P["tlc_workers"], timeout=P["tlc_timeout"])
    err = vlib.tlc_failed(out)
    if err:
        log(out[-3000:])
        raise Inconclusive("Shapes.tla: TLC failed: %s" % err)
    gen, dist, depth = vlib.tlc_stats(out)
    seen, cases = set(), []
    for p in glob.glob(os.path.join(d, "gen", "s*.json")):
        t = open(p).read().strip()
        if t not in seen:
            seen.add(t)
            cases.append(json.loads(t))
    consts = json.load(open(os.path.join(d, "shapes_consts.json")))
    nfam, ndmg = len(consts["families"]), len(consts["damages"])
    recs = max(len(c["store"]) for c in cases)
    ndrv = len({c["drv"] for c in cases if c["mode"] == "store"})
    not_cases = nfam + ndrv * sum(ndmg ** n for n in range(recs))
    if len(cases) != dist - not_cases:
        raise Inconclusive("TLC found %d states (%d of them partial) but exported %d distinct cases" % (dist, not_cases, len(cases)))
    cases.sort(key=lambda c: json.dumps(c, sort_keys=True))
    # pinned inputs: cases that once exposed a defect (regress/C20/*.json), run after the enumerated ones
    pinned = [json.load(open(f))["case"] for f in sorted(glob.glob(os.path.join(vlib.ROOT, "regress", PID, "*.json")))]
    cases += [c for c in pinned if c not in cases]

    obs, go_dt, gout = run_cases(d, hv, cases, P)
    not_run = len(cases) - len(obs)
    if not_run and not any(o.get("hang") or o.get("crash") for o in obs):
        raise Inconclusive("harness observed %d of %d cases\n%s" % (len(obs), len(cases), gout[-2000:]))
    if not_run:
        log("C20: %d cases were not run: the workers stop after repeated hangs / crashes (the failures found are reported below)" % not_run)
    skipped = [o for o in obs if o.get("skip")]
    if skipped:
        raise Inconclusive("the harness could not build %d cases, e.g. %s: %s" % (len(skipped), describe(skipped[0]), skipped[0]["skip"][:300]))

    known, viol = {}, {}
    kinds, calls, outs = {}, 0, {"ok": 0, "err": 0, "panic": 0}
    entry_names = set()
    for o in obs:
        for e in o.get("entries") or []:
            calls += 1
            outs[e["out"]] = outs.get(e["out"], 0) + 1
            entry_names.add(re.sub(r" sh\.helm\.release\.\S+", "", e["name"]))
        for v in judge(o):
            kf = known_for(v, o["case"], listed)
            if kf:
                known[kf] = known.get(kf, 0) + 1
                continue
            sig = (v["kind"], v["site"] or v["entry"])
            kinds[v["kind"]] = kinds.get(v["kind"], 0) + 1
            cur = viol.get(sig)
            size = (len(o["case"]["devs"]) + len(o["case"]["toks"]) + sum(1 for r in o["case"]["store"] if r["damage"] != "intact"), o["idx"])
            if cur is None or size < cur[0]:
                viol[sig] = (size, o, v, (cur[3] if cur else 0) + 1)
            else:
                viol[sig] = (cur[0], cur[1], cur[2], cur[3] + 1)
    for kf, n in sorted(known.items()):
        print("KNOWN-FINDING: property=%s %s (%d calls)" % (PID, kf, n))
    # one line per distinct failure (kind, site), with the smallest input that shows it
    order = sorted(viol, key=lambda s: (s[0] != "crash", s[0] != "hang", s))
    for i, sig in enumerate(order[:40]):
        size, o, v, n = viol[sig]
        path = os.path.join(viol_dir, "s%d.json" % i)
        json.dump(dict(case=o["case"]), open(path, "w"))
        print("VIOLATION property=%s replay=%s check=%s input=%s entry=%s site=%s %s (%d cases)" %
              (PID, path, v["kind"], describe(o), v["entry"], v["site"], v["detail"][:160], n))

    per_mode = {}
    for c in cases:
        k = c["mode"] + ":" + (c["doc"] if c["mode"] == "doc" else c["fam"] if c["mode"] == "tokens" else c["drv"])
        per_mode[k] = per_mode.get(k, 0) + 1
    nontrivial = sum(1 for o in obs if any(e["out"] == "ok" for e in o.get("entries") or []) and any(e["out"] != "ok" for e in o.get("entries") or []))
    cov = {
        "evaluations": calls, "distinct_nontrivial": nontrivial,
        "rule": "cases are the states of Shapes.tla (documents with <= %s deviating fields, token texts, damaged stores), enumerated exhaustively by TLC; "
                "evaluations = calls of public entry points made under recover + watchdog in child processes; distinct_nontrivial = cases in which at "
                "least one entry point accepted the input and at least one rejected it (the input got past the first parser)" % ("2" if tier == "thorough" else "1"),
        "samples": [dict(input=describe(o), text=(o.get("input") or "")[:200], entries=[(e["name"], e["out"]) for e in (o.get("entries") or [])[:6]])
                    for o in obs[:: max(1, len(obs) // 3)][:3]],
        "states": dist, "transitions": gen, "cases": len(cases), "cases_not_run_after_repeated_hangs_or_crashes": not_run, "cases_per_family": per_mode,
        "entry_points": sorted(entry_names), "calls_by_outcome": outs,
        "calls_excused_by_known_findings": known, "distinct_failures": len(order), "failure_kinds": kinds,
        "exhaustive_config": P["cfg"], "tlc_seconds": round(tlc_dt, 1), "replay_seconds": round(go_dt, 1),
        "checker_cmd": "tlc MC_Shapes.tla -config %s ; hv_misc shapes-run" % P["cfg"],
    }
    assumptions = [
        "structured shapes only: byte-level fuzzing of the parsers is out of scope of this technique",
        "deep = 64 nested levels; the watchdog gives every case 20 s; a child process is limited to 256 MB of stack and 6 GB of address space",
        "storage: secrets and configmaps drivers over client-go's fake clientset; which damaged records count as readable is fixed by Shapes.tla "
        "(framing damage: unreadable; decodable but incomplete records: whatever the driver's own Get says)",
        "provenance blocks are signed with a generated key so that parsing of the block is reached after the signature check",
        "Kubernetes is not contacted: install / upgrade / rollback / uninstall run as dry-run against the printing fake client",
    ]
    vlib.write_evidence(PID, tier, seed, "exploration", cov, time.time() - t0, len(order), assumptions)
    log("C20: %d cases, %d entry-point calls (%s), TLC %.0fs, replay %.0fs, %d distinct failures, known: %s"
        % (len(cases), calls, json.dumps(outs), tlc_dt, go_dt, len(order), json.dumps(known)))
    return 1 if order else 0
