"""Shared machinery of the Archive.tla family (C15, C16).

Pipeline of one check (DESIGN 2.3 / 2.4, CONVENTIONS):
  1. rebuild hv_archive against the tree under test;
  2. TLC explores Archive.tla over the bounded case space (invariants on the model; for C15 the
     enumeration and the expected relation) and EXPORTS every abstract case as NDJSON;
  3. hv_archive concretises every case (seeded) and runs it on the real helm code, one observation
     per run;
  4. ArchiveObs.tla reads the observations back (ndJsonDeserialize) and judges them with predicates
     written in TLA+; a failing predicate prints one OBSVIOL line;
  5. every OBSVIOL is re-run once more from its replay file before it is reported as a VIOLATION.
"""
import json, os, re, time, collections
import vlib
from vlib import Inconclusive, log

CHUNK = 60000       # observations per monitor run
MAX_REPORT = 12     # VIOLATION lines printed per check name (every one is counted)


def read_ndjson(path):
    return [json.loads(l) for l in open(path) if l.strip()]


def write_ndjson(path, rows):
    with open(path, "w") as f:
        for r in rows:
            f.write(json.dumps(r) + "\n")


def model_check(d, module, cfg, workers, timeout):
    """exhaustive TLC run; returns dict(generated, distinct, depth, seconds, violated=<invariant name or None>)"""
    rc, out, dt = vlib.tlc(d, module, cfg, workers=workers, timeout=timeout)
    gen, dist, depth = vlib.tlc_stats(out)
    violated = None
    m = re.search(r"Invariant (\w+) is violated", out)
    if m:
        violated = m.group(1)
    elif vlib.tlc_failed(out):
        raise Inconclusive("TLC failed on %s/%s:\n%s" % (module, cfg, out[-3000:]))
    m = re.search(r'<<"(C1[56]CASES)", (\d+)>>', out)
    return dict(cfg=cfg, generated=gen, distinct=dist, depth=depth, seconds=round(dt, 1), violated=violated,
                cases=int(m.group(2)) if m else 0, out=out)


def run_harness(hv, mode, cases, out, seed, reps, workers=8, extra=(), timeout=3000):
    cmd = [hv, mode, "-cases", cases, "-out", out, "-seed", str(seed), "-reps", str(reps), "-workers", str(workers)] + list(extra)
    rc, o, dt = vlib.sh(cmd, cwd=vlib.ROOT, timeout=timeout, check=False)
    if rc != 0:
        raise Inconclusive("hv_archive %s failed (%d):\n%s" % (mode, rc, o[-3000:]))
    return dt


def monitor(d, obs_rows, family, base_cfg, timeout=1500, workers=4):
    """judge observations with ArchiveObs.tla; returns (lines, states) where lines = [(tag, global index, args)]"""
    lines, states = [], 0
    tmpl = open(os.path.join(d, base_cfg)).read()
    for c0 in range(0, len(obs_rows), CHUNK):
        chunk = obs_rows[c0:c0 + CHUNK]
        name = "%s_obs_%d.ndjson" % (family.lower(), c0 // CHUNK)
        write_ndjson(os.path.join(d, name), chunk)
        cfg = "ArchiveObs_%s_%d.cfg" % (family, c0 // CHUNK)
        open(os.path.join(d, cfg), "w").write(re.sub(r'ObsFile = "[^"]*"', 'ObsFile = "%s"' % name, tmpl))
        rc, out, dt = vlib.tlc(d, "ArchiveObs.tla", cfg, workers=workers, timeout=timeout)
        gen, dist, depth = vlib.tlc_stats(out)
        if vlib.tlc_failed(out) or dist != len(chunk):
            raise Inconclusive("monitor did not judge every observation (%d of %d):\n%s" % (dist, len(chunk), out[-3000:]))
        states += dist
        for m in re.finditer(r'<<"(OBSVIOL|OBSKNOWN|OBSDIV|OBSNOTE)", (\d+), ((?:"[^"]*"(?:, )?)+)>>', out):
            args = re.findall(r'"([^"]*)"', m.group(3))
            lines.append((m.group(1), c0 + int(m.group(2)) - 1, args))
    return lines, states


def listed_known(pid):
    return {k["id"]: k for k in vlib.load_known() if k.get("status", "known") == "known" and k.get("property") == pid}


def keyed(lines, obs_rows):
    """monitor lines with the observation index replaced by (case id, rep)"""
    return [(tag, (obs_rows[idx]["id"], obs_rows[idx]["rep"]), args) for tag, idx, args in lines]


def verdict(pid, klines, case_of, seed, tier, viol_dir, confirm_batch):
    """turn keyed monitor lines into VIOLATION / KNOWN-FINDING output.  case_of(id) -> abstract case.
    confirm_batch([(case, rep)]) -> {(case id, rep): set of check names failing when these cases are run again}."""
    listed = listed_known(pid)
    viol = collections.OrderedDict()      # (case id, rep) -> set(check)
    known = collections.Counter()
    divs, notes = [], collections.Counter()
    for tag, key, args in klines:
        if tag == "OBSVIOL":
            viol.setdefault(key, set()).add(args[0])
        elif tag == "OBSKNOWN":
            if args[1] in listed:
                known[args[1]] += 1
            else:
                viol.setdefault(key, set()).add(args[0] + ":" + args[1])
        elif tag == "OBSDIV":
            divs.append((key, args[0]))
        else:
            notes[args[0]] += 1
    # at most MAX_REPORT replay files per distinct first check; every violating observation is counted
    chosen, per = [], collections.Counter()
    for key, checks in viol.items():
        first = sorted(checks)[0]
        if per[first] < MAX_REPORT:
            per[first] += 1
            chosen.append(key)
    again = confirm_batch([(case_of(cid), rep) for cid, rep in chosen]) if chosen else {}
    os.makedirs(viol_dir, exist_ok=True)
    unconfirmed, printed = 0, 0
    for cid, rep in chosen:
        checks = viol[(cid, rep)]
        if not (set(c.split(":")[0] for c in checks) & again.get((cid, rep), set())):
            unconfirmed += 1
            log("UNCONFIRMED: %s case %d rep %d (%s) did not fail again" % (pid, cid, rep, sorted(checks)))
            continue
        path = os.path.join(viol_dir, "case_%d_rep%d.json" % (cid, rep))
        json.dump(dict(property=pid, seed=seed, rep=rep, tier=tier, checks=sorted(checks), case=case_of(cid)), open(path, "w"), indent=1)
        printed += 1
        print("VIOLATION property=%s replay=%s check=%s" % (pid, path, ",".join(sorted(checks))))
    for kf, n in known.items():
        print("KNOWN-FINDING: property=%s %s observations=%d site=%s" % (pid, kf, n, listed[kf].get("site", "")))
    nviol = len(viol) - unconfirmed
    if nviol > printed:
        log("%d further violating observation(s) of the same checks not listed (evidence counts all)" % (nviol - printed))
    return dict(violations=nviol, unconfirmed=unconfirmed, known=dict(known), divergences=divs, notes=dict(notes), printed=printed)


def failing(klines):
    """{(case id, rep): set(check names)} of the OBSVIOL / OBSKNOWN lines of a monitor run"""
    out = {}
    for tag, key, args in klines:
        if tag in ("OBSVIOL", "OBSKNOWN"):
            out.setdefault(key, set()).add(args[0])
    return out
