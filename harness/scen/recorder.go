// Package scen runs scenarios (sequences of helm operations with fault, crash and
// schedule plans) against the real pkg/action code on a simulated cluster and
// records one trace event per storage / cluster / waiter call, each with the
// full projected abstract state. The traces are what spec/HelmMon.tla (property
// monitor) and spec/HelmTrace.tla (conformance) consume.
package scen

import (
	"fmt"
	"strconv"
	"sync"
)

// Event is one line of the NDJSON trace.
type Event struct {
	Seq  int    `json:"seq"`
	Proc int    `json:"proc"`
	Step int    `json:"step"` // index of the scenario step this event belongs to
	Ev   string `json:"ev"`   // reset | begin | call | end | crash | edit
	// call fields (kind/verb/id also describe edits)
	Kind  string `json:"kind"` // store | res | wait | edit | oobdel | oobkeep
	Verb  string `json:"verb"`
	ID    string `json:"id"` // resource / hook id, revision, or query kind
	OK    bool   `json:"ok"`
	Inj   bool   `json:"inj"` // the failure was injected by the fault plan
	Code  int    `json:"code"`
	Rev   int    `json:"rev"` // store calls: the revision addressed (0 for queries)
	Field string `json:"field"`
	Value string `json:"value"`
	// begin fields
	Op    string         `json:"op"`
	Chart string         `json:"chart"`
	Vals  string         `json:"vals"`
	Flags map[string]any `json:"flags"`
	// end fields
	Err      string   `json:"err"`
	FaultHit string   `json:"faulthit"` // end: description of the call the fault plan hit ("" if none)
	Calls    int      `json:"calls"`    // end: number of visible calls of the operation
	Info     string   `json:"info"`     // response of uninstall
	Reqs     int      `json:"reqs"`     // end: HTTP requests of any kind the operation sent (storage, discovery, ... included)
	ReqW     int      `json:"reqw"`     // ... of which not GET
	Kept     []string `json:"kept"`     // end of uninstall: names listed in the response as kept by resource policy
	// full abstract state after the event
	State *State `json:"state"`
	// scenario id on reset
	Scenario string `json:"scenario"`
	Driver   string `json:"driver"`
}

// NormFlags gives every flag the trace specification reads a value.
func NormFlags(f map[string]any) map[string]any {
	out := map[string]any{
		"replace": false, "atomic": false, "cleanupOnFail": false, "keepHistory": false, "noHooks": false,
		"maxHistory": 0, "version": 0, "dryRun": false, "takeOwnership": false, "clientOnly": false,
		"createNamespace": false, "skipCRDs": false, "force": false, "install": false, "includeCRDs": false,
	}
	for k, v := range f {
		out[k] = v
	}
	if o, _ := out["dryRunOption"].(string); o == "client" || o == "server" || o == "true" {
		out["dryRun"] = true
	}
	for _, k := range []string{"maxHistory", "version"} {
		if fv, ok := out[k].(float64); ok {
			out[k] = int(fv)
		}
	}
	return out
}

// procState is the per-operation plan and progress.
type procState struct {
	step    int
	ordinal int // visible calls so far
	faultAt int
	crashAt int
	dead    bool
	faulted bool
	// description of the call the fault hit (for scenario validity)
	faultDesc string
	active    bool
}

// Recorder serialises visible calls, applies fault / crash plans and logs events.
type Recorder struct {
	mu     sync.Mutex // protects everything below
	callMu sync.Mutex // held for the duration of one visible call: calls are atomic
	events []Event
	seq    int
	procs  map[int]*procState
	snap   func() *State
	// Gate, when non-nil, is consulted before every visible call of a process and
	// blocks until the scheduler grants it (C09 schedule replay).
	Gate func(proc int)
	// GateDone is called when a call finished (so the scheduler can move on).
	GateDone func(proc int)
}

func NewRecorder(snap func() *State) *Recorder {
	return &Recorder{procs: map[int]*procState{}, snap: snap}
}

func (r *Recorder) proc(p int) *procState {
	ps := r.procs[p]
	if ps == nil {
		ps = &procState{}
		r.procs[p] = ps
	}
	return ps
}

// Plan installs the fault / crash plan for the next operation of proc.
func (r *Recorder) Plan(proc, step, faultAt, crashAt int) {
	r.mu.Lock()
	defer r.mu.Unlock()
	*r.proc(proc) = procState{step: step, faultAt: faultAt, crashAt: crashAt, active: true}
}

func (r *Recorder) Finish(proc int) (dead, faulted bool, ordinal int, faultDesc string) {
	r.mu.Lock()
	defer r.mu.Unlock()
	ps := r.proc(proc)
	ps.active = false
	return ps.dead, ps.faulted, ps.ordinal, ps.faultDesc
}

func (r *Recorder) Dead(proc int) bool {
	r.mu.Lock()
	defer r.mu.Unlock()
	return r.proc(proc).dead
}

// Log appends a non-call event (begin/end/edit/reset) with a fresh snapshot.
// It is serialised with the visible calls: a call that is in flight (its effect applied, its event not
// yet written) must not leak into the snapshot of another process's begin / end event.
func (r *Recorder) Log(e Event) {
	r.callMu.Lock()
	defer r.callMu.Unlock()
	r.mu.Lock()
	defer r.mu.Unlock()
	r.seq++
	e.Seq = r.seq
	if e.State == nil && r.snap != nil {
		e.State = r.snap()
	}
	r.events = append(r.events, e)
}

// ResetLog drops everything logged so far (used after scenario setup).
func (r *Recorder) ResetLog() {
	r.mu.Lock()
	defer r.mu.Unlock()
	r.events = nil
	r.seq = 0
}

func (r *Recorder) Events() []Event {
	r.mu.Lock()
	defer r.mu.Unlock()
	out := make([]Event, len(r.events))
	copy(out, r.events)
	for i := range out {
		if out[i].Flags == nil {
			out[i].Flags = map[string]any{} // TLC's JSON reader has no null
		}
		if out[i].Kept == nil {
			out[i].Kept = []string{}
		}
	}
	return out
}

// Verdict of Enter.
type Verdict int

const (
	Proceed Verdict = iota // run the call
	Reject                 // injected fault: fail the call without touching shared state
	DeadV                  // process is dead: fail silently, log nothing
)

// Enter is called at the start of a visible call. eligible says whether the fault
// plan may hit this call. If Proceed or Reject is returned the caller MUST call Exit.
func (r *Recorder) Enter(proc int, kind, verb, id string, eligible bool) Verdict {
	r.mu.Lock()
	ps := r.proc(proc)
	if ps.dead || !ps.active {
		dead := ps.dead
		r.mu.Unlock()
		if dead {
			return DeadV
		}
		// calls outside a planned operation (should not happen): let through unlogged
		r.callMu.Lock()
		return Proceed
	}
	r.mu.Unlock()

	if r.Gate != nil {
		r.Gate(proc)
	}
	r.callMu.Lock()

	r.mu.Lock()
	defer r.mu.Unlock()
	ps.ordinal++
	if ps.crashAt != 0 && ps.ordinal == ps.crashAt {
		ps.dead = true
		r.seq++
		r.events = append(r.events, Event{Seq: r.seq, Proc: proc, Step: ps.step, Ev: "crash", Kind: kind, Verb: verb, ID: id, State: r.snap()})
		r.callMu.Unlock()
		if r.GateDone != nil {
			r.GateDone(proc)
		}
		return DeadV
	}
	if ps.faultAt != 0 && ps.ordinal == ps.faultAt {
		ps.faultDesc = fmt.Sprintf("%s %s %s", kind, verb, id)
		if eligible {
			ps.faulted = true
			return Reject
		}
	}
	return Proceed
}

// Exit logs the call event (with the post-state) and releases the call lock.
func (r *Recorder) Exit(proc int, kind, verb, id string, ok, injected bool, code int) {
	r.mu.Lock()
	ps := r.proc(proc)
	if ps.active {
		r.seq++
		rev := 0
		if kind == "store" {
			rev, _ = strconv.Atoi(id)
		}
		r.events = append(r.events, Event{Seq: r.seq, Proc: proc, Step: ps.step, Ev: "call", Kind: kind, Verb: verb, ID: id, OK: ok, Inj: injected, Code: code, Rev: rev, State: r.snap()})
	}
	r.mu.Unlock()
	r.callMu.Unlock()
	if r.GateDone != nil {
		r.GateDone(proc)
	}
}
