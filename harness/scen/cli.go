//go:build verif

package scen

import (
	"bytes"
	"fmt"
	"io"
	"os"
	"path/filepath"
	"strconv"
	"strings"

	"helm.sh/helm/v4/pkg/action"
	chartutil "helm.sh/helm/v4/pkg/chart/v2/util"
	helmcmd "helm.sh/helm/v4/pkg/cmd"
)

// cliArgs turns an operation step into the helm command line a user would type.
func cliArgs(s Step, chartDir string) []string {
	f := s.Flags
	if f == nil {
		f = map[string]any{}
	}
	dry := func(a []string) []string {
		if o := flagS(f, "dryRunOption"); o != "" {
			return append(a, "--dry-run="+o)
		}
		if flagB(f, "dryRun") {
			return append(a, "--dry-run")
		}
		return a
	}
	add := func(a []string, flag, name string) []string {
		if flagB(f, flag) {
			return append(a, name)
		}
		return a
	}
	common := []string{"--namespace", RelNS, "--wait"}
	switch s.Op {
	case "install":
		if flagB(f, "clientOnly") {
			a := append([]string{"template", RelName, chartDir, "--namespace", RelNS}, []string{}...)
			a = add(a, "replace", "--replace")
			a = add(a, "noHooks", "--no-hooks")
			a = add(a, "skipCRDs", "--skip-crds")
			a = add(a, "createNamespace", "--create-namespace")
			if o := flagS(f, "tplDry"); o != "" {
				a = append(a, "--dry-run="+o) // whatever the value, template stays a client-only dry run
			}
			a = add(a, "includeCRDs", "--include-crds")
			return a
		}
		if t := flagS(f, "tpl"); t != "" && (flagB(f, "dryRun") || flagS(f, "dryRunOption") != "") {
			// a server-side dry run spelled "helm template --validate [--dry-run=...]"
			a := []string{"template", RelName, chartDir, "--namespace", RelNS, "--validate"}
			if i := strings.Index(t, "-"); i >= 0 {
				a = append(a, "--dry-run="+t[i+1:])
			}
			a = add(a, "noHooks", "--no-hooks")
			a = add(a, "skipCRDs", "--skip-crds")
			a = add(a, "createNamespace", "--create-namespace")
			a = add(a, "takeOwnership", "--take-ownership")
			a = add(a, "atomic", "--atomic")
			a = add(a, "force", "--force")
			a = add(a, "includeCRDs", "--include-crds")
			return a
		}
		a := append([]string{"install", RelName, chartDir}, common...)
		a = add(a, "replace", "--replace")
		a = add(a, "atomic", "--atomic")
		a = add(a, "noHooks", "--no-hooks")
		a = add(a, "takeOwnership", "--take-ownership")
		a = add(a, "createNamespace", "--create-namespace")
		a = add(a, "skipCRDs", "--skip-crds")
		a = add(a, "force", "--force")
		return dry(a)
	case "upgrade":
		a := append([]string{"upgrade", RelName, chartDir}, common...)
		a = add(a, "atomic", "--atomic")
		a = add(a, "cleanupOnFail", "--cleanup-on-fail")
		a = add(a, "noHooks", "--no-hooks")
		a = add(a, "takeOwnership", "--take-ownership")
		a = add(a, "force", "--force")
		a = add(a, "install", "--install")
		a = add(a, "createNamespace", "--create-namespace")
		a = add(a, "skipCRDs", "--skip-crds")
		a = append(a, "--history-max", strconv.Itoa(flagI(f, "maxHistory")))
		return dry(a)
	case "rollback":
		a := []string{"rollback", RelName}
		if v := flagI(f, "version"); v != 0 {
			a = append(a, strconv.Itoa(v))
		}
		a = append(a, common...)
		a = add(a, "noHooks", "--no-hooks")
		a = add(a, "cleanupOnFail", "--cleanup-on-fail")
		a = add(a, "force", "--force")
		a = append(a, "--history-max", strconv.Itoa(flagI(f, "maxHistory")))
		if flagB(f, "dryRun") && flagB(f, "dryTrue") {
			return append(a, "--dry-run=true") // the same boolean flag, spelled with a value
		}
		return add(a, "dryRun", "--dry-run")
	case "test":
		return []string{"test", RelName, "--namespace", RelNS}
	case "uninstall":
		a := append([]string{"uninstall", RelName}, common...)
		a = add(a, "keepHistory", "--keep-history")
		a = add(a, "noHooks", "--no-hooks")
		if flagB(f, "dryRun") && flagB(f, "dryTrue") {
			return append(a, "--dry-run=true")
		}
		return add(a, "dryRun", "--dry-run")
	}
	return nil
}

// runCLI executes the step through pkg/cmd (flag parsing and command wiring included) against cfg.
func (e *Env) runCLI(cfg *action.Configuration, s Step) (string, error) {
	chartDir := ""
	if s.Chart != "" {
		ch, err := BuildChart(s.Chart, e.Lib[s.Chart])
		if err != nil {
			return "", err
		}
		tmp, err := os.MkdirTemp("", "hvcli")
		if err != nil {
			return "", err
		}
		defer os.RemoveAll(tmp)
		if err := chartutil.SaveDir(ch, tmp); err != nil {
			return "", err
		}
		chartDir = filepath.Join(tmp, s.Chart)
	}
	args := cliArgs(s, chartDir)
	if args == nil {
		return "", fmt.Errorf("no command line for %s", s.Op)
	}
	var out bytes.Buffer
	root, err := helmcmd.NewRootCmdWithConfigForVerif(cfg, &out, args)
	if err != nil {
		return "", err
	}
	root.SetArgs(args)
	root.SetOut(&out)
	root.SetErr(io.Discard)
	err = root.Execute()
	return out.String(), err
}
