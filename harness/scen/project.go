package scen

import (
	"crypto/sha256"
	"encoding/hex"
	"encoding/json"
	"fmt"
	"sort"
	"strconv"
	"strings"

	rspb "helm.sh/helm/v4/pkg/release/v1"
	"sigs.k8s.io/yaml"

	"verif/harness/simcluster"
)

// ---- abstraction function (shared by both conformance directions) ---------------

// MRes is the abstract form of one manifest document.
type MRes struct {
	Kind string `json:"kind"`
	F1   string `json:"f1"`
	F2   string `json:"f2"`
	Pol  string `json:"pol"` // none | keep | other
	Ver  string `json:"ver"` // version part of apiVersion
}

// HRec is the abstract form of one hook of a release record.
type HRec struct {
	ID     string   `json:"id"`
	Kind   string   `json:"kind"`
	Events []string `json:"events"`
	Weight int      `json:"weight"`
	Pols   []string `json:"pols"`
	Keep   bool     `json:"keep"` // the hook manifest carries helm.sh/resource-policy: keep
}

// Rec is the abstract form of a stored release record.
type Rec struct {
	Rev   int             `json:"rev"`   // revision in the record body
	St    string          `json:"st"`    // status in the record body
	Label string          `json:"label"` // status label of the storage object ("" if unknown)
	Chart string          `json:"chart"`
	Cfg   string          `json:"cfg"`  // digest of Config
	ManD  string          `json:"mand"` // digest of Manifest text
	Man   map[string]MRes `json:"man"`  // parsed manifest: id -> fields
	Hooks []HRec          `json:"hooks"`
}

// Obj is the abstract form of a live cluster object.
type Obj struct {
	Kind string `json:"kind"`
	F1   string `json:"f1"`
	F2   string `json:"f2"`
	Own  string `json:"own"` // me | othername | otherns | partial | none
	Pol  string `json:"pol"` // live resource-policy annotation: none | keep | other
	Dig  string `json:"dig"` // digest of the whole object minus resourceVersion (byte-identity checks)
}

// State is the projected abstract state logged with every event.
type State struct {
	Store   map[string]Rec `json:"store"`   // key: revision from the storage key
	Cluster map[string]Obj `json:"cluster"` // key: object name
	// Foreign is a digest of every stored record of OTHER releases in the namespace (names "rel2", "re"):
	// objects outside the release, which no operation on the release may create, change or delete
	Foreign string `json:"foreign"`
}

const (
	RelName = "rel"
	RelNS   = "ns1"
)

func digest(b []byte) string {
	h := sha256.Sum256(b)
	return hex.EncodeToString(h[:6])
}

func str(v interface{}) string {
	if v == nil {
		return "-"
	}
	return fmt.Sprint(v)
}

func nested(o map[string]interface{}, path ...string) interface{} {
	var cur interface{} = o
	for _, p := range path {
		m, ok := cur.(map[string]interface{})
		if !ok {
			return nil
		}
		cur = m[p]
	}
	return cur
}

func fieldPath(kind string) []string {
	switch kind {
	case "ConfigMap":
		return []string{"data"}
	case "Service":
		return []string{"spec", "selector"}
	case "CustomResourceDefinition":
		return []string{"metadata", "annotations"}
	default:
		return []string{"spec"}
	}
}

func policyOf(o map[string]interface{}) string {
	v := nested(o, "metadata", "annotations", "helm.sh/resource-policy")
	if v == nil {
		return "none"
	}
	if strings.ToLower(strings.TrimSpace(fmt.Sprint(v))) == "keep" {
		return "keep"
	}
	return "other"
}

// SplitDocs splits a manifest stream into documents, independently of helm's splitter.
func SplitDocs(m string) []string {
	var docs []string
	var cur []string
	flush := func() {
		d := strings.Join(cur, "\n")
		if strings.TrimSpace(d) != "" {
			docs = append(docs, d)
		}
		cur = nil
	}
	for _, line := range strings.Split(m, "\n") {
		if strings.HasPrefix(line, "---") {
			flush()
			continue
		}
		cur = append(cur, line)
	}
	flush()
	return docs
}

// ParseManifest maps a manifest text to its abstract form.
func ParseManifest(m string) map[string]MRes {
	out := map[string]MRes{}
	for _, d := range SplitDocs(m) {
		var o map[string]interface{}
		if err := yaml.Unmarshal([]byte(d), &o); err != nil || o == nil {
			continue
		}
		name := str(nested(o, "metadata", "name"))
		kind := str(o["kind"])
		fp := fieldPath(kind)
		out[name] = MRes{
			Kind: kind,
			F1:   str(nested(o, append(fp, "f1")...)),
			F2:   str(nested(o, append(fp, "f2")...)),
			Pol:  policyOf(o),
			Ver:  verOf(str(o["apiVersion"])),
		}
	}
	return out
}

func verOf(apiVersion string) string {
	if i := strings.LastIndex(apiVersion, "/"); i >= 0 {
		return apiVersion[i+1:]
	}
	return apiVersion
}

func projectRelease(r *rspb.Release) Rec {
	rec := Rec{Rev: r.Version, Man: map[string]MRes{}, Hooks: []HRec{}}
	if r.Info != nil {
		rec.St = string(r.Info.Status)
	}
	if r.Chart != nil && r.Chart.Metadata != nil {
		rec.Chart = r.Chart.Metadata.Name
	}
	cfg, _ := json.Marshal(r.Config)
	if len(r.Config) == 0 {
		cfg = []byte("{}")
	}
	rec.Cfg = digest(cfg)
	rec.ManD = digest([]byte(r.Manifest))
	rec.Man = ParseManifest(r.Manifest)
	for _, h := range r.Hooks {
		hr := HRec{ID: h.Name, Kind: h.Kind, Weight: h.Weight, Events: []string{}, Pols: []string{},
			Keep: strings.Contains(h.Manifest, "helm.sh/resource-policy: keep")}
		for _, e := range h.Events {
			hr.Events = append(hr.Events, string(e))
		}
		for _, p := range h.DeletePolicies {
			hr.Pols = append(hr.Pols, string(p))
		}
		sort.Strings(hr.Pols)
		rec.Hooks = append(rec.Hooks, hr)
	}
	sort.Slice(rec.Hooks, func(i, j int) bool { return rec.Hooks[i].ID < rec.Hooks[j].ID })
	return rec
}

func ownership(o map[string]interface{}) string {
	mb := nested(o, "metadata", "labels", "app.kubernetes.io/managed-by")
	rn := nested(o, "metadata", "annotations", "meta.helm.sh/release-name")
	rns := nested(o, "metadata", "annotations", "meta.helm.sh/release-namespace")
	if mb == nil && rn == nil && rns == nil {
		return "none"
	}
	if mb == nil || rn == nil || rns == nil || str(mb) != "Helm" {
		return "partial"
	}
	if str(rn) != RelName {
		return "othername"
	}
	if str(rns) != RelNS {
		return "otherns"
	}
	return "me"
}

func projectObject(o map[string]interface{}) Obj {
	kind := str(o["kind"])
	fp := fieldPath(kind)
	c := deepCopyMap(o)
	if md, ok := c["metadata"].(map[string]interface{}); ok {
		delete(md, "resourceVersion")
	}
	b, _ := json.Marshal(c)
	return Obj{
		Kind: kind,
		F1:   str(nested(o, append(fp, "f1")...)),
		F2:   str(nested(o, append(fp, "f2")...)),
		Own:  ownership(o),
		Pol:  policyOf(o),
		Dig:  digest(b),
	}
}

func deepCopyMap(m map[string]interface{}) map[string]interface{} {
	b, _ := json.Marshal(m)
	var out map[string]interface{}
	_ = json.Unmarshal(b, &out)
	return out
}

// ProjectCluster projects every non-record object of the release namespace.
func ProjectCluster(sim *simcluster.Sim) map[string]Obj {
	out := map[string]Obj{}
	for k, o := range sim.Snapshot() {
		if simcluster.IsReleaseRecordName(k.Name) || k.Resource == "namespaces" {
			continue
		}
		out[k.Name] = projectObject(o)
	}
	return out
}

// ProjectStore projects the ledger as read back through the driver API.
func ProjectStore(rels []*rspb.Release, labelOf func(rev int) string) map[string]Rec {
	out := map[string]Rec{}
	for _, r := range rels {
		rec := projectRelease(r)
		if labelOf != nil {
			rec.Label = labelOf(r.Version)
		}
		out[strconv.Itoa(r.Version)] = rec
	}
	return out
}
