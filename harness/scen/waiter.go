package scen

import (
	"errors"
	"fmt"
	"time"

	"helm.sh/helm/v4/pkg/kube"
)

// Client is the real kube.Client with only the waiter replaced: readiness is a
// cluster-side outcome that the scenario chooses (the anchors of C03 / C12
// prescribe "scripted hook outcomes via the waiter stub").
type Client struct {
	*kube.Client
	R    *Recorder
	Proc int
}

func (c *Client) GetWaiter(ws kube.WaitStrategy) (kube.Waiter, error) {
	// same strategy validation as kube.Client.GetWaiter: an unset strategy is an error there too
	switch ws {
	case kube.LegacyStrategy, kube.StatusWatcherStrategy, kube.HookOnlyStrategy:
		return &waiter{c: c}, nil
	default:
		return nil, errors.New("unknown wait strategy")
	}
}

type waiter struct{ c *Client }

func ids(rs kube.ResourceList) string {
	s := ""
	for i, r := range rs {
		if i > 0 {
			s += ","
		}
		s += r.Name
	}
	return s
}

func (w *waiter) do(verb, id string) error {
	switch w.c.R.Enter(w.c.Proc, "wait", verb, id, true) {
	case DeadV:
		return ErrDead
	case Reject:
		w.c.R.Exit(w.c.Proc, "wait", verb, id, false, true, 0)
		return fmt.Errorf("injected: %s of %s failed", verb, id)
	}
	w.c.R.Exit(w.c.Proc, "wait", verb, id, true, false, 0)
	return nil
}

func (w *waiter) Wait(rs kube.ResourceList, _ time.Duration) error { return w.do("wait", "all") }
func (w *waiter) WaitWithJobs(rs kube.ResourceList, _ time.Duration) error {
	return w.do("wait", "all")
}
func (w *waiter) WaitForDelete(rs kube.ResourceList, _ time.Duration) error {
	// not a fault point of any listed property; kept out of the visible call sequence
	return nil
}
func (w *waiter) WatchUntilReady(rs kube.ResourceList, _ time.Duration) error {
	return w.do("watch", ids(rs))
}
