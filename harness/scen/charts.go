package scen

import (
	"encoding/json"
	"fmt"
	"os"
	"sort"
	"strings"

	chart "helm.sh/helm/v4/pkg/chart/v2"
	"helm.sh/helm/v4/pkg/chart/v2/loader"
)

// ResDef is one manifest resource of a chart descriptor (spec/charts.json, the
// single source of truth shared with the TLA+ modules via JsonDeserialize).
type ResDef struct {
	Kind string `json:"kind"` // ConfigMap | Service | Widget
	F1   string `json:"f1"`   // "-" = field absent
	F2   string `json:"f2"`
	Pol  string `json:"pol"` // none | keep | other
	Lbl  string `json:"lbl"` // a value the template hard-codes for app.kubernetes.io/managed-by ("" = none)
	Ver  string `json:"ver"` // API version of custom kinds (the same object served as verif.example/v1 and /v2)
}

type HookDef struct {
	Kind   string   `json:"kind"` // Job | ConfigMap
	Events []string `json:"events"`
	Weight int      `json:"weight"`
	Pols   []string `json:"pols"`
	File   string   `json:"file"` // template file name (hooks are pre-ordered by kind, then by path)
	Sp     bool     `json:"sp"`
	Keep   bool     `json:"keep"` // the hook object also carries helm.sh/resource-policy: keep   // write the annotation lists with a blank after each comma ("a, b")
}

type ChartDef struct {
	Res   map[string]ResDef  `json:"res"`
	Hooks map[string]HookDef `json:"hooks"`
	CRDs  []string           `json:"crds"`
	// OneFile puts all manifest resources into ONE template file, separated by "--- # <id>" lines (a separator
	// with a trailing comment is valid YAML); otherwise every resource has its own file.
	OneFile bool `json:"onefile"`
	// Lookup: the first template asks the cluster for a bystander object (lookup "v1" "ConfigMap" ...); a client-only
	// rendering must answer that without sending anything
	Lookup bool `json:"lookup"`
}

type ChartLib map[string]ChartDef

func LoadChartLib(path string) (ChartLib, error) {
	b, err := os.ReadFile(path)
	if err != nil {
		return nil, err
	}
	var lib ChartLib
	if err := json.Unmarshal(b, &lib); err != nil {
		return nil, err
	}
	return lib, nil
}

func fieldBlock(indent string, d ResDef) string {
	var sb strings.Builder
	if d.F1 != "-" && d.F1 != "" {
		fmt.Fprintf(&sb, "%sf1: %q\n", indent, d.F1)
	}
	if d.F2 != "-" && d.F2 != "" {
		fmt.Fprintf(&sb, "%sf2: %q\n", indent, d.F2)
	}
	return sb.String()
}

func resTemplate(id string, d ResDef) string {
	var sb strings.Builder
	switch d.Kind {
	case "ConfigMap":
		sb.WriteString("apiVersion: v1\nkind: ConfigMap\n")
	case "Service":
		sb.WriteString("apiVersion: v1\nkind: Service\n")
	case "Widget":
		v := d.Ver
		if v == "" {
			v = "v1"
		}
		sb.WriteString("apiVersion: verif.example/" + v + "\nkind: Widget\n")
	case "Gadget":
		sb.WriteString("apiVersion: verif.example/v1\nkind: Gadget\n")
	case "CustomResourceDefinition":
		// a CRD shipped in templates/ (not crds/): an ordinary, cluster-scoped, typed manifest resource; its two
		// abstract fields live in annotations (a typed object keeps no unknown spec fields)
		sb.WriteString("apiVersion: apiextensions.k8s.io/v1\nkind: CustomResourceDefinition\n")
		fmt.Fprintf(&sb, "metadata:\n  name: %s\n", id)
		if d.Lbl != "" {
			fmt.Fprintf(&sb, "  labels:\n    app.kubernetes.io/managed-by: %s\n", d.Lbl)
		}
		ann := fieldBlock("    ", d)
		switch d.Pol {
		case "keep":
			ann += "    helm.sh/resource-policy: keep\n"
		case "other":
			ann += "    helm.sh/resource-policy: retain\n"
		}
		if ann != "" {
			sb.WriteString("  annotations:\n" + ann)
		}
		fmt.Fprintf(&sb, "spec:\n  group: verif.example\n  scope: Namespaced\n  names:\n    kind: K%s\n    plural: %ss\n  versions:\n  - name: v1\n    served: true\n    storage: true\n    schema:\n      openAPIV3Schema:\n        type: object\n", id, id)
		return sb.String()
	default:
		panic("unknown kind " + d.Kind)
	}
	fmt.Fprintf(&sb, "metadata:\n  name: %s\n", id)
	if d.Lbl != "" {
		fmt.Fprintf(&sb, "  labels:\n    app.kubernetes.io/managed-by: %s\n", d.Lbl)
	}
	switch d.Pol {
	case "keep":
		sb.WriteString("  annotations:\n    helm.sh/resource-policy: keep\n")
	case "other":
		sb.WriteString("  annotations:\n    helm.sh/resource-policy: retain\n")
	}
	fb := ""
	switch d.Kind {
	case "ConfigMap":
		fb = fieldBlock("  ", d)
		if fb != "" {
			sb.WriteString("data:\n" + fb)
		}
	case "Service":
		fb = fieldBlock("    ", d)
		sb.WriteString("spec:\n  ports:\n  - port: 80\n")
		if fb != "" {
			sb.WriteString("  selector:\n" + fb)
		}
	default:
		fb = fieldBlock("  ", d)
		if fb != "" {
			sb.WriteString("spec:\n" + fb)
		}
	}
	return sb.String()
}

func hookTemplate(id string, h HookDef) string {
	var sb strings.Builder
	switch h.Kind {
	case "Job":
		sb.WriteString("apiVersion: batch/v1\nkind: Job\n")
	default:
		sb.WriteString("apiVersion: v1\nkind: ConfigMap\n")
	}
	sep := ","
	if h.Sp {
		sep = ", "
	}
	fmt.Fprintf(&sb, "metadata:\n  name: %s\n  annotations:\n    \"helm.sh/hook\": %s\n    \"helm.sh/hook-weight\": \"%d\"\n", id, strings.Join(h.Events, sep), h.Weight)
	if len(h.Pols) > 0 {
		fmt.Fprintf(&sb, "    \"helm.sh/hook-delete-policy\": %s\n", strings.Join(h.Pols, sep))
	}
	if h.Keep {
		sb.WriteString("    helm.sh/resource-policy: keep\n")
	}
	if h.Kind == "Job" {
		sb.WriteString("spec:\n  template:\n    spec:\n      restartPolicy: Never\n      containers:\n      - name: c\n        image: busybox\n")
	} else {
		sb.WriteString("data:\n  hook: \"yes\"\n")
	}
	return sb.String()
}

// BuildChart turns a descriptor into a real chart through the real loader.
func BuildChart(name string, d ChartDef) (*chart.Chart, error) {
	files := []*loader.BufferedFile{
		{Name: "Chart.yaml", Data: []byte(fmt.Sprintf("apiVersion: v2\nname: %s\nversion: 1.0.0\n%s", name,
			map[bool]string{true: "kubeVersion: \">=1.0.0-0\"\n", false: ""}[d.Lookup]))}, // (a constraint that any version meets)
		{Name: "values.yaml", Data: []byte("{}\n")},
	}
	ids := make([]string, 0)
	for id := range d.Res {
		ids = append(ids, id)
	}
	sort.Strings(ids)
	if d.OneFile && len(ids) > 0 {
		var sb strings.Builder
		for i, id := range ids {
			if i > 0 {
				sb.WriteString("--- # " + id + "\n")
			}
			sb.WriteString(resTemplate(id, d.Res[id]))
		}
		files = append(files, &loader.BufferedFile{Name: "templates/all.yaml", Data: []byte(sb.String())})
	} else {
		for i, id := range ids {
			t := resTemplate(id, d.Res[id])
			if d.Lookup && i == 0 {
				t = "{{- $seen := lookup \"v1\" \"ConfigMap\" \"" + RelNS + "\" \"by1\" }}\n" + t
			}
			files = append(files, &loader.BufferedFile{Name: "templates/" + id + ".yaml", Data: []byte(t)})
		}
	}
	hids := make([]string, 0)
	for id := range d.Hooks {
		hids = append(hids, id)
	}
	sort.Strings(hids)
	for _, id := range hids {
		fn := d.Hooks[id].File
		if fn == "" {
			fn = id + ".yaml"
		}
		files = append(files, &loader.BufferedFile{Name: "templates/" + fn, Data: []byte(hookTemplate(id, d.Hooks[id]))})
	}
	for _, id := range d.CRDs {
		crd := fmt.Sprintf("apiVersion: apiextensions.k8s.io/v1\nkind: CustomResourceDefinition\nmetadata:\n  name: %s\nspec:\n  group: verif.example\n  names:\n    kind: K%s\n    plural: %ss\n  scope: Namespaced\n", id, id, id)
		files = append(files, &loader.BufferedFile{Name: "crds/" + id + ".yaml", Data: []byte(crd)})
	}
	return loader.LoadFiles(files)
}
