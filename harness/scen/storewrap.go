package scen

import (
	"errors"
	"sort"
	"strconv"
	"strings"

	rspb "helm.sh/helm/v4/pkg/release/v1"
	"helm.sh/helm/v4/pkg/storage/driver"
)

// ErrInjected is returned by a storage call the fault plan made fail.
var ErrInjected = errors.New("injected storage fault")

// ErrDead is returned by every call of a process after its crash point.
var ErrDead = errors.New("process is dead")

// WrapDriver records every driver call as one visible call and applies the
// fault / crash plan of the calling process. Writes (Create/Update/Delete) are
// fault-eligible; reads are not (the properties speak of storage *write* failures).
type WrapDriver struct {
	D    driver.Driver
	R    *Recorder
	Proc int
}

func revOfKey(key string) string {
	i := strings.LastIndex(key, ".v")
	if i < 0 {
		return key
	}
	return key[i+2:]
}

func queryID(l map[string]string) string {
	ks := make([]string, 0, len(l))
	for k := range l {
		if k == "name" || k == "owner" {
			continue
		}
		ks = append(ks, k+"="+l[k])
	}
	sort.Strings(ks)
	if len(ks) == 0 {
		return "history"
	}
	return strings.Join(ks, ",")
}

func (w *WrapDriver) Name() string { return w.D.Name() }

func (w *WrapDriver) call(verb, id string, eligible bool, fn func() error) error {
	switch w.R.Enter(w.Proc, "store", verb, id, eligible) {
	case DeadV:
		return ErrDead
	case Reject:
		w.R.Exit(w.Proc, "store", verb, id, false, true, 0)
		return ErrInjected
	}
	err := fn()
	w.R.Exit(w.Proc, "store", verb, id, err == nil, false, 0)
	return err
}

func (w *WrapDriver) Create(key string, rls *rspb.Release) error {
	return w.call("create", strconv.Itoa(rls.Version), true, func() error { return w.D.Create(key, rls) })
}

func (w *WrapDriver) Update(key string, rls *rspb.Release) error {
	return w.call("update", strconv.Itoa(rls.Version), true, func() error { return w.D.Update(key, rls) })
}

func (w *WrapDriver) Delete(key string) (r *rspb.Release, err error) {
	err = w.call("delete", revOfKey(key), true, func() error {
		var e error
		r, e = w.D.Delete(key)
		return e
	})
	return r, err
}

func (w *WrapDriver) Get(key string) (r *rspb.Release, err error) {
	err = w.call("get", revOfKey(key), false, func() error {
		var e error
		r, e = w.D.Get(key)
		return e
	})
	return r, err
}

func (w *WrapDriver) List(filter func(*rspb.Release) bool) (rs []*rspb.Release, err error) {
	err = w.call("list", "all", false, func() error {
		var e error
		rs, e = w.D.List(filter)
		return e
	})
	return rs, err
}

func (w *WrapDriver) Query(labels map[string]string) (rs []*rspb.Release, err error) {
	err = w.call("query", queryID(labels), false, func() error {
		var e error
		rs, e = w.D.Query(labels)
		return e
	})
	return rs, err
}
