package scen

import (
	"sync"
	"time"
)

// Token is one step of a schedule exported from a TLC behaviour of Helm.tla:
// "b" process p begins its operation, "c" p performs its next visible call, "e" p returns;
// "r" (preemption sweeps) p runs on alone until it has returned.
type Token struct {
	K string `json:"k"`
	P int    `json:"p"`
}

type arrival struct {
	proc int
	kind string // call | end
}

// scheduler replays an interleaving: every visible call (and the return) of every process
// waits at the gate until the schedule grants it, so the order of shared-state accesses IS the
// schedule. If the real code does not follow the schedule (a process wants to return where the
// specification expects a call, or the other way round) the schedule is abandoned and all
// processes run freely; the run is then marked diverged.
type scheduler struct {
	arrive   chan arrival
	done     chan int
	mu       sync.Mutex
	grant    map[int]chan struct{}
	free     bool
	Diverged bool
}

func newScheduler(procs []int) *scheduler {
	s := &scheduler{arrive: make(chan arrival, 1024), done: make(chan int, 1024), grant: map[int]chan struct{}{}}
	for _, p := range procs {
		s.grant[p] = make(chan struct{}, 1024)
	}
	return s
}

func (s *scheduler) isFree() bool {
	s.mu.Lock()
	defer s.mu.Unlock()
	return s.free
}

func (s *scheduler) gate(proc int, kind string) {
	if s.isFree() {
		return
	}
	s.arrive <- arrival{proc, kind}
	<-s.grant[proc]
}

func (s *scheduler) release() {
	s.mu.Lock()
	s.free = true
	s.mu.Unlock()
	for _, ch := range s.grant {
		for i := 0; i < 512; i++ {
			select {
			case ch <- struct{}{}:
			default:
			}
		}
	}
}

// waitArrival waits until process p has an arrival pending; returns its kind or "" on timeout.
func (s *scheduler) waitArrival(parked map[int][]string, p int) string {
	for len(parked[p]) == 0 {
		select {
		case a := <-s.arrive:
			parked[a.proc] = append(parked[a.proc], a.kind)
		case <-time.After(10 * time.Second):
			return ""
		}
	}
	return parked[p][0]
}

// RunConcurrent runs the op steps of sc concurrently (one goroutine and one Configuration per
// process) under sc.Sched.
func (e *Env) RunConcurrent(sc Scenario, first int) {
	steps := map[int]Step{}
	idx := map[int]int{}
	var procs []int
	for i := first; i < len(sc.Steps); i++ {
		s := sc.Steps[i]
		if s.Op == "" {
			continue
		}
		steps[s.Proc] = s
		idx[s.Proc] = i
		procs = append(procs, s.Proc)
	}
	sch := newScheduler(procs)
	e.Rec.Gate = func(proc int) { sch.gate(proc, "call") }
	e.Rec.GateDone = func(proc int) {
		if !sch.isFree() {
			sch.done <- proc
		}
	}
	e.endGate = func(proc int) { sch.gate(proc, "end") }
	var wg sync.WaitGroup
	finished := make(chan int, 16)
	parked := map[int][]string{}
	started := map[int]bool{}
	abort := func() {
		sch.Diverged = true
		sch.release()
	}
	for _, t := range sc.Sched {
		if sch.isFree() {
			break
		}
		if t.K == "free" { // no schedule: all operations run freely (used under the race detector)
			sch.release()
			break
		}
		switch t.K {
		case "b":
			st, ok := steps[t.P]
			if !ok || started[t.P] {
				abort()
				continue
			}
			started[t.P] = true
			wg.Add(1)
			go func(p int, st Step) {
				defer wg.Done()
				e.RunOp(p, idx[p], st)
				finished <- p
			}(t.P, st)
			if sch.waitArrival(parked, t.P) == "" {
				abort()
			}
		case "r": // let process p run on alone until it has returned
			for !sch.isFree() {
				got := sch.waitArrival(parked, t.P)
				if got == "" {
					abort()
					break
				}
				parked[t.P] = parked[t.P][1:]
				sch.grant[t.P] <- struct{}{}
				if got == "end" {
					select {
					case <-finished:
					case <-time.After(10 * time.Second):
						abort()
					}
					break
				}
				select {
				case <-sch.done:
				case <-time.After(10 * time.Second):
					abort()
				}
			}
		case "c", "e":
			want := "call"
			if t.K == "e" {
				want = "end"
			}
			got := sch.waitArrival(parked, t.P)
			if got != want {
				abort()
				continue
			}
			parked[t.P] = parked[t.P][1:]
			sch.grant[t.P] <- struct{}{}
			if t.K == "c" {
				select {
				case <-sch.done:
				case <-time.After(10 * time.Second):
					abort()
				}
			} else {
				select {
				case <-finished:
				case <-time.After(10 * time.Second):
					abort()
				}
			}
		}
	}
	// start whatever the schedule did not start, then let everything finish
	for _, p := range procs {
		if !started[p] {
			started[p] = true
			if !(len(sc.Sched) == 1 && sc.Sched[0].K == "free") {
				sch.Diverged = true
			}
			wg.Add(1)
			go func(p int, st Step) {
				defer wg.Done()
				e.RunOp(p, idx[p], st)
			}(p, steps[p])
		}
	}
	sch.release()
	wg.Wait()
	e.Rec.Gate, e.Rec.GateDone, e.endGate = nil, nil, nil
	if sch.Diverged {
		e.Rec.Log(Event{Ev: "note", Kind: "sched-diverged", OK: false})
	}
}
