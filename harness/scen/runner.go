package scen

import (
	"bytes"
	"compress/gzip"
	"context"
	"crypto/sha1"
	"encoding/base64"
	"encoding/json"
	"fmt"
	"io"
	"sort"
	"strconv"
	"strings"
	"time"

	"helm.sh/helm/v4/pkg/action"
	chartutil "helm.sh/helm/v4/pkg/chart/v2/util"
	"helm.sh/helm/v4/pkg/kube"
	rspb "helm.sh/helm/v4/pkg/release/v1"
	"helm.sh/helm/v4/pkg/storage"
	"helm.sh/helm/v4/pkg/storage/driver"

	"verif/harness/simcluster"
)

// ---- scenario format (DESIGN §2.7) -----------------------------------------------

type PreObj struct {
	Res  string `json:"res"`
	Kind string `json:"kind"`
	Own  string `json:"own"` // none | othername | otherns | partial | me
	F1   string `json:"f1"`
	F2   string `json:"f2"`
	Keep bool   `json:"keep"`
}

type Step struct {
	// operation step
	Op     string         `json:"op,omitempty"` // install | upgrade | rollback | uninstall
	Chart  string         `json:"chart,omitempty"`
	Vals   string         `json:"vals,omitempty"` // JSON object
	Flags  map[string]any `json:"flags,omitempty"`
	Fault  int            `json:"fault,omitempty"`  // ordinal of the visible call to fail (0 = none)
	Crash  int            `json:"crash,omitempty"`  // ordinal of the visible call before which the process dies
	Expect string         `json:"expect,omitempty"` // "kind verb id" of the call the specification expects the fault to hit
	Proc   int            `json:"proc,omitempty"`
	Via    string         `json:"via,omitempty"` // "cli": run through pkg/cmd (command line) instead of the action API
	// environment steps
	Edit      *EditStep `json:"edit,omitempty"`
	OobDel    string    `json:"oobdel,omitempty"`
	OobNew    *PreObj   `json:"oobnew,omitempty"` // somebody else creates an object
	OobKeep   string    `json:"oobkeep,omitempty"`
	OobUnkeep string    `json:"oobunkeep,omitempty"`
	OobDisown string    `json:"oobdisown,omitempty"` // somebody relabels the object: managed-by no longer says Helm
}

type EditStep struct {
	Res   string `json:"res"`
	Field string `json:"field"`
	Value string `json:"value"`
}

// PreRec is one ready-made release record.
type PreRec struct {
	Rev   int    `json:"rev"`
	St    string `json:"st"`
	Chart string `json:"chart"`
}

type Scenario struct {
	ID     string   `json:"id"`
	Driver string   `json:"driver"` // memory | secret | configmap
	Pre    []PreObj `json:"pre,omitempty"`
	Steps  []Step   `json:"steps"`
	// Sched, when present, runs all op steps concurrently under this schedule (C09).
	Sched []Token `json:"sched,omitempty"`
	// Setup steps are run sequentially before the trace starts (to reach a populated history).
	Setup []Step `json:"setup,omitempty"`
	// PreLedger: records written straight into release storage before the trace starts - histories that no
	// sequence of successful operations produces (two deployed revisions, a revision left pending, ...)
	PreLedger []PreRec `json:"preledger,omitempty"`
}

// ---- environment --------------------------------------------------------------------

type Env struct {
	Sim    *simcluster.Sim
	Rec    *Recorder
	Lib    ChartLib
	Driver string
	mem    *driver.Memory
	// FailRes, when set, makes the matching requests on release resources fail with a 500 (used by
	// harnesses that drive operations outside a fault plan, e.g. the C13 chains)
	FailRes func(method, id string) bool
	// endGate, when set, is waited on before an operation's return is logged (schedule replay)
	endGate func(proc int)
}

func flagB(f map[string]any, k string) bool {
	v, ok := f[k]
	if !ok {
		return false
	}
	b, _ := v.(bool)
	return b
}

func flagI(f map[string]any, k string) int {
	switch v := f[k].(type) {
	case float64:
		return int(v)
	case int:
		return v
	}
	return 0
}

func flagS(f map[string]any, k string) string {
	s, _ := f[k].(string)
	return s
}

func NewEnv(lib ChartLib, drv string) *Env {
	e := &Env{Sim: simcluster.New(), Lib: lib, Driver: drv}
	if drv == "memory" {
		e.mem = driver.NewMemory()
		e.mem.SetNamespace(RelNS)
	}
	e.Sim.Put(simcluster.Key{Group: "", Version: "v1", Resource: "namespaces", Name: RelNS}, map[string]interface{}{"metadata": map[string]interface{}{}})
	e.seedForeign()
	e.Rec = NewRecorder(e.Snapshot)
	e.Sim.Hook = e.hook
	return e
}

// ForeignNames are other releases living in the same namespace and storage: one whose name extends the
// release name and one that is a prefix of it.
var ForeignNames = []string{RelName + "2", RelName[:2]}

// seedForeign stores a short history (revision 1 superseded, revision 2 deployed) for each foreign release,
// through the raw driver and outside any recorded operation.
func (e *Env) seedForeign() {
	d := e.rawDriver(-1)
	for _, n := range ForeignNames {
		for v, st := range []rspb.Status{rspb.StatusSuperseded, rspb.StatusDeployed} {
			r := &rspb.Release{Name: n, Namespace: RelNS, Version: v + 1, Manifest: "# foreign\n",
				Info: &rspb.Info{Status: st, Description: "foreign"}}
			if err := d.Create(fmt.Sprintf("sh.helm.release.v1.%s.v%d", n, v+1), r); err != nil {
				panic("harness: cannot seed foreign release: " + err.Error())
			}
		}
	}
}

// seedRecord renders the chart like a client-only dry run does and stores the result as revision pr.Rev with status
// pr.St through the raw driver (no recorded call).
func (e *Env) seedRecord(pr PreRec) error {
	ch, err := BuildChart(pr.Chart, e.Lib[pr.Chart])
	if err != nil {
		return err
	}
	in := action.NewInstall(e.Config(-1))
	in.ReleaseName, in.Namespace = RelName, RelNS
	in.DryRun, in.ClientOnly, in.Replace = true, true, true
	rel, err := in.Run(ch, map[string]interface{}{})
	if err != nil {
		return err
	}
	rel.Version = pr.Rev
	rel.Info.Status = rspb.Status(pr.St)
	rel.Info.Description = "ready-made"
	return e.rawDriver(-1).Create(fmt.Sprintf("sh.helm.release.v1.%s.v%d", RelName, pr.Rev), rel)
}

func nameOfKey(key string) string {
	k := strings.TrimPrefix(key, "sh.helm.release.v1.")
	if i := strings.LastIndex(k, ".v"); i >= 0 {
		return k[:i]
	}
	return k
}

func foreignDigest(parts []string) string {
	sort.Strings(parts)
	h := sha1.Sum([]byte(strings.Join(parts, "\n")))
	return fmt.Sprintf("%d:%x", len(parts), h[:6])
}

// hook makes every non-storage HTTP request of a planned operation a visible call.
func (e *Env) hook(proc int, method string, key simcluster.Key, storageReq bool) (int, func(int)) {
	if proc < 0 {
		return 0, nil
	}
	if storageReq {
		return 0, nil
	}
	if key.Resource == "namespaces" && method == "GET" {
		// resource.Info.Get probes the namespace after a 404; not a call on a release resource
		return 0, nil
	}
	id := key.Name
	if id == "" {
		id = key.Resource
	}
	if e.FailRes != nil && e.FailRes(method, id) {
		return 500, nil
	}
	switch e.Rec.Enter(proc, "res", method, id, true) {
	case DeadV:
		return 503, nil
	case Reject:
		return 403, func(status int) { e.Rec.Exit(proc, "res", method, id, false, true, status) }
	}
	return 0, func(status int) { e.Rec.Exit(proc, "res", method, id, status < 300, false, status) }
}

func (e *Env) rawDriver(proc int) driver.Driver {
	switch e.Driver {
	case "memory":
		return e.mem
	case "configmap":
		f := &simcluster.Factory{RT: e.Sim.Transport(proc), Namespace: RelNS}
		cs, _ := f.KubernetesClientSet()
		return driver.NewConfigMaps(cs.CoreV1().ConfigMaps(RelNS))
	default:
		f := &simcluster.Factory{RT: e.Sim.Transport(proc), Namespace: RelNS}
		cs, _ := f.KubernetesClientSet()
		return driver.NewSecrets(cs.CoreV1().Secrets(RelNS))
	}
}

// Config builds a fresh action.Configuration for one process (as one helm invocation would).
func (e *Env) Config(proc int) *action.Configuration {
	f := &simcluster.Factory{RT: e.Sim.Transport(proc), Namespace: RelNS}
	kc := &Client{Client: &kube.Client{Factory: f, Namespace: RelNS}, R: e.Rec, Proc: proc}
	st := storage.Init(&WrapDriver{D: e.rawDriver(proc), R: e.Rec, Proc: proc})
	return &action.Configuration{
		RESTClientGetter: nil, // set per operation when the chart has crds/ (installCRDs needs a RESTMapper)
		Releases:         st,
		KubeClient:       kc,
		Capabilities:     chartutil.DefaultCapabilities.Copy(),
		HookOutputFunc:   func(_, _, _ string) io.Writer { return io.Discard },
	}
}

func decodeRecord(data string) (*rspb.Release, error) {
	b, err := base64.StdEncoding.DecodeString(data)
	if err != nil {
		return nil, err
	}
	if len(b) > 3 && b[0] == 0x1f && b[1] == 0x8b {
		zr, err := gzip.NewReader(bytes.NewReader(b))
		if err != nil {
			return nil, err
		}
		b, err = io.ReadAll(zr)
		if err != nil {
			return nil, err
		}
	}
	var r rspb.Release
	if err := json.Unmarshal(b, &r); err != nil {
		return nil, err
	}
	return &r, nil
}

// Snapshot projects ledger and cluster. For the Kubernetes-backed drivers the
// ledger is read from the stored objects themselves (key revision, body, status
// label), for the memory driver through the driver API.
func (e *Env) Snapshot() *State {
	st := &State{Store: map[string]Rec{}, Cluster: ProjectCluster(e.Sim)}
	if e.Driver == "memory" {
		rels, _ := e.mem.Query(map[string]string{"name": RelName, "owner": "helm"})
		st.Store = ProjectStore(rels, nil)
		all, _ := e.mem.List(func(r *rspb.Release) bool { return r.Name != RelName })
		parts := []string{}
		for _, r := range all {
			b, _ := json.Marshal(r)
			parts = append(parts, string(b))
		}
		st.Foreign = foreignDigest(parts)
		return st
	}
	foreign := []string{}
	for k, o := range e.Sim.Snapshot() {
		if !simcluster.IsReleaseRecordName(k.Name) {
			continue
		}
		if nameOfKey(k.Name) != RelName {
			b, _ := json.Marshal(o)
			foreign = append(foreign, k.Resource+"/"+k.Name+"="+string(b))
			continue
		}
		var data string
		if k.Resource == "secrets" {
			raw, _ := nested(o, "data", "release").(string)
			b, _ := base64.StdEncoding.DecodeString(raw)
			data = string(b)
		} else {
			data, _ = nested(o, "data", "release").(string)
		}
		rev := revOfKey(k.Name)
		r, err := decodeRecord(data)
		if err != nil {
			st.Store[rev] = Rec{Rev: -1, St: "undecodable", Man: map[string]MRes{}, Hooks: []HRec{}}
			continue
		}
		rec := projectRelease(r)
		rec.Label = str(nested(o, "metadata", "labels", "status"))
		st.Store[rev] = rec
	}
	st.Foreign = foreignDigest(foreign)
	return st
}

// ---- pre-existing objects and out-of-band edits --------------------------------------

func kindKey(kind, name string) simcluster.Key {
	switch kind {
	case "Service":
		return simcluster.Key{Group: "", Version: "v1", Resource: "services", Namespace: RelNS, Name: name}
	case "Widget":
		return simcluster.Key{Group: "verif.example", Version: "v1", Resource: "widgets", Namespace: RelNS, Name: name}
	case "Gadget":
		return simcluster.Key{Group: "verif.example", Version: "v1", Resource: "gadgets", Name: name} // cluster-scoped
	case "Job":
		return simcluster.Key{Group: "batch", Version: "v1", Resource: "jobs", Namespace: RelNS, Name: name}
	case "CustomResourceDefinition":
		return simcluster.Key{Group: "apiextensions.k8s.io", Version: "v1", Resource: "customresourcedefinitions", Name: name}
	default:
		return simcluster.Key{Group: "", Version: "v1", Resource: "configmaps", Namespace: RelNS, Name: name}
	}
}

func (e *Env) putPre(p PreObj) {
	kind := p.Kind
	if kind == "" {
		kind = "ConfigMap"
	}
	md := map[string]interface{}{}
	lbl := map[string]interface{}{}
	ann := map[string]interface{}{}
	switch p.Own {
	case "me":
		lbl["app.kubernetes.io/managed-by"] = "Helm"
		ann["meta.helm.sh/release-name"] = RelName
		ann["meta.helm.sh/release-namespace"] = RelNS
	case "othername":
		lbl["app.kubernetes.io/managed-by"] = "Helm"
		ann["meta.helm.sh/release-name"] = "someoneelse"
		ann["meta.helm.sh/release-namespace"] = RelNS
	case "otherns":
		lbl["app.kubernetes.io/managed-by"] = "Helm"
		ann["meta.helm.sh/release-name"] = RelName
		ann["meta.helm.sh/release-namespace"] = "otherns"
	case "partial":
		// one of the three ownership marks is missing: which one alternates with the object's name and field
		if (len(p.Res)+len(p.F1))%2 == 0 {
			lbl["app.kubernetes.io/managed-by"] = "Helm"
			ann["meta.helm.sh/release-name"] = RelName
		} else {
			ann["meta.helm.sh/release-name"] = RelName
			ann["meta.helm.sh/release-namespace"] = RelNS
		}
	}
	if p.Keep {
		ann["helm.sh/resource-policy"] = "keep"
	}
	if len(lbl) > 0 {
		md["labels"] = lbl
	}
	if len(ann) > 0 {
		md["annotations"] = ann
	}
	o := map[string]interface{}{"metadata": md}
	fields := map[string]interface{}{}
	if p.F1 != "" && p.F1 != "-" {
		fields["f1"] = p.F1
	}
	if p.F2 != "" && p.F2 != "-" {
		fields["f2"] = p.F2
	}
	fp := fieldPath(kind)
	cur := o
	for i, seg := range fp {
		nx, _ := cur[seg].(map[string]interface{})
		if nx == nil {
			nx = map[string]interface{}{}
			cur[seg] = nx
		}
		if i == len(fp)-1 {
			for k, v := range fields { // (the field block may share its map with other entries, e.g. annotations)
				nx[k] = v
			}
		}
		cur = nx
	}
	e.Sim.Put(kindKey(kind, p.Res), o)
}

func (e *Env) findObj(name string) (simcluster.Key, bool) {
	for _, k := range e.Sim.Keys() {
		if k.Name == name && !simcluster.IsReleaseRecordName(k.Name) {
			return k, true
		}
	}
	return simcluster.Key{}, false
}

func (e *Env) applyEnvStep(i int, s Step) {
	switch {
	case s.Edit != nil:
		k, ok := e.findObj(s.Edit.Res)
		if !ok {
			return // nothing to edit (e.g. the create was the call the fault plan hit): no event
		}
		if ok {
			e.Sim.Mutate(k, func(o map[string]interface{}) {
				kind := str(o["kind"])
				fp := append(fieldPath(kind), s.Edit.Field)
				cur := o
				for _, seg := range fp[:len(fp)-1] {
					nx, _ := cur[seg].(map[string]interface{})
					if nx == nil {
						nx = map[string]interface{}{}
						cur[seg] = nx
					}
					cur = nx
				}
				if s.Edit.Value == "-" {
					delete(cur, fp[len(fp)-1])
				} else {
					cur[fp[len(fp)-1]] = s.Edit.Value
				}
			})
		}
		e.Rec.Log(Event{Step: i, Ev: "edit", Kind: "edit", ID: s.Edit.Res, Verb: s.Edit.Field + "=" + s.Edit.Value, Field: s.Edit.Field, Value: s.Edit.Value, OK: true})
	case s.OobNew != nil:
		if _, ok := e.findObj(s.OobNew.Res); ok {
			return
		}
		e.putPre(*s.OobNew)
		e.Rec.Log(Event{Step: i, Ev: "edit", Kind: "oobnew", ID: s.OobNew.Res, Field: "", Value: s.OobNew.Own, OK: true})
	case s.OobDel != "":
		k, ok := e.findObj(s.OobDel)
		if !ok {
			return
		}
		e.Sim.Remove(k)
		e.Rec.Log(Event{Step: i, Ev: "edit", Kind: "oobdel", ID: s.OobDel, OK: true})
	case s.OobUnkeep != "":
		if _, ok := e.findObj(s.OobUnkeep); !ok {
			return
		}
		if k, ok := e.findObj(s.OobUnkeep); ok {
			e.Sim.Mutate(k, func(o map[string]interface{}) {
				md, _ := o["metadata"].(map[string]interface{})
				if ann, _ := md["annotations"].(map[string]interface{}); ann != nil {
					delete(ann, "helm.sh/resource-policy")
				}
			})
		}
		e.Rec.Log(Event{Step: i, Ev: "edit", Kind: "oobunkeep", ID: s.OobUnkeep, OK: true})
	case s.OobDisown != "":
		k, ok := e.findObj(s.OobDisown)
		if !ok {
			return
		}
		e.Sim.Mutate(k, func(o map[string]interface{}) {
			md, _ := o["metadata"].(map[string]interface{})
			lbl, _ := md["labels"].(map[string]interface{})
			if lbl == nil {
				lbl = map[string]interface{}{}
				md["labels"] = lbl
			}
			lbl["app.kubernetes.io/managed-by"] = "someone-else"
		})
		e.Rec.Log(Event{Step: i, Ev: "edit", Kind: "oobdisown", ID: s.OobDisown, OK: true})
	case s.OobKeep != "":
		if _, ok := e.findObj(s.OobKeep); !ok {
			return
		}
		if k, ok := e.findObj(s.OobKeep); ok {
			e.Sim.Mutate(k, func(o map[string]interface{}) {
				md, _ := o["metadata"].(map[string]interface{})
				ann, _ := md["annotations"].(map[string]interface{})
				if ann == nil {
					ann = map[string]interface{}{}
					md["annotations"] = ann
				}
				ann["helm.sh/resource-policy"] = "keep"
			})
		}
		e.Rec.Log(Event{Step: i, Ev: "edit", Kind: "oobkeep", ID: s.OobKeep, OK: true})
	}
}

// ---- running operations ----------------------------------------------------------------

// OpResult is what one operation returned.
type OpResult struct {
	Err  string
	Info string
	Rel  *rspb.Release
}

func parseVals(s string) map[string]interface{} {
	if s == "" {
		return map[string]interface{}{}
	}
	var m map[string]interface{}
	if err := json.Unmarshal([]byte(s), &m); err != nil {
		panic("bad vals " + s)
	}
	return m
}

// RunOp executes one operation step with the real action code. Panics inside
// helm are reported as errors of the form "PANIC: ...".
func (e *Env) RunOp(proc, i int, s Step) (res OpResult) {
	cfg := e.Config(proc)
	reqs0, reqw0 := e.Sim.CountBy(proc)
	e.Rec.Plan(proc, i, s.Fault, s.Crash)
	e.Rec.Log(Event{Proc: proc, Step: i, Ev: "begin", Op: s.Op, Chart: s.Chart, Vals: s.Vals, Flags: NormFlags(s.Flags), OK: true})
	defer func() {
		if r := recover(); r != nil {
			res.Err = fmt.Sprintf("PANIC: %v", r)
		}
		dead, faulted, calls, fdesc := e.Rec.Finish(proc)
		if dead {
			res.Err = "CRASHED"
			return // a dead process reports nothing
		}
		if !faulted {
			fdesc = ""
		}
		if e.endGate != nil {
			e.endGate(proc)
		}
		e.Rec.Log(Event{Proc: proc, Step: i, Ev: "end", Op: s.Op, OK: res.Err == "", Err: res.Err, Info: res.Info, Kept: keptNames(res.Info), FaultHit: fdesc, Calls: calls,
			Reqs: func() int { a, _ := e.Sim.CountBy(proc); return a - reqs0 }(), ReqW: func() int { _, w := e.Sim.CountBy(proc); return w - reqw0 }()})
	}()
	f := s.Flags
	if f == nil {
		f = map[string]any{}
	}
	timeout := 5 * time.Second
	if s.Via == "cli" {
		if len(e.Lib[s.Chart].CRDs) > 0 || e.Lib[s.Chart].Lookup {
			cfg.RESTClientGetter = &simcluster.Getter{F: &simcluster.Factory{RT: e.Sim.Transport(proc), Namespace: RelNS}}
		}
		out, err := e.runCLI(cfg, s)
		if err != nil {
			res.Err = err.Error()
		}
		if s.Op == "uninstall" {
			res.Info = out // the response's Info is what the command prints before its closing line
		}
		return res
	}
	switch s.Op {
	case "install":
		ch, err := BuildChart(s.Chart, e.Lib[s.Chart])
		if err != nil {
			return OpResult{Err: "chart: " + err.Error()}
		}
		if len(e.Lib[s.Chart].CRDs) > 0 || e.Lib[s.Chart].Lookup {
			cfg.RESTClientGetter = &simcluster.Getter{F: &simcluster.Factory{RT: e.Sim.Transport(proc), Namespace: RelNS}}
		}
		in := action.NewInstall(cfg)
		in.ReleaseName, in.Namespace = RelName, RelNS
		if flagB(f, "postRender") {
			in.PostRenderer = labelPostRenderer{}
		}
		in.Replace = flagB(f, "replace")
		in.Atomic = flagB(f, "atomic")
		in.DisableHooks = flagB(f, "noHooks")
		in.TakeOwnership = flagB(f, "takeOwnership")
		in.DryRun = flagB(f, "dryRun")
		in.DryRunOption = flagS(f, "dryRunOption")
		in.ClientOnly = flagB(f, "clientOnly")
		in.CreateNamespace = flagB(f, "createNamespace")
		in.SkipCRDs = flagB(f, "skipCRDs")
		in.IncludeCRDs = flagB(f, "includeCRDs") && (flagB(f, "dryRun") || flagS(f, "dryRunOption") != "") // (helm template only)
		in.Force = flagB(f, "force")
		in.Timeout = timeout
		in.WaitStrategy = kube.StatusWatcherStrategy // the scenarios are "helm ... --wait"
		rel, err := in.RunWithContext(opCtx(f), ch, parseVals(s.Vals))
		res.Rel = rel
		if err != nil {
			res.Err = err.Error()
		}
	case "upgrade":
		ch, err := BuildChart(s.Chart, e.Lib[s.Chart])
		if err != nil {
			return OpResult{Err: "chart: " + err.Error()}
		}
		up := action.NewUpgrade(cfg)
		up.Namespace = RelNS
		if flagB(f, "postRender") {
			up.PostRenderer = labelPostRenderer{}
		}
		up.Atomic = flagB(f, "atomic")
		up.CleanupOnFail = flagB(f, "cleanupOnFail")
		up.DisableHooks = flagB(f, "noHooks")
		up.MaxHistory = flagI(f, "maxHistory")
		up.TakeOwnership = flagB(f, "takeOwnership")
		up.DryRun = flagB(f, "dryRun")
		up.DryRunOption = flagS(f, "dryRunOption")
		up.ResetValues = flagB(f, "resetValues")
		up.ReuseValues = flagB(f, "reuseValues")
		up.ResetThenReuseValues = flagB(f, "resetThenReuseValues")
		up.Force = flagB(f, "force")
		up.Timeout = timeout
		up.WaitStrategy = kube.StatusWatcherStrategy
		rel, err := up.RunWithContext(opCtx(f), RelName, ch, parseVals(s.Vals))
		res.Rel = rel
		if err != nil {
			res.Err = err.Error()
		}
	case "rollback":
		rb := action.NewRollback(cfg)
		rb.Version = flagI(f, "version")
		rb.DisableHooks = flagB(f, "noHooks")
		rb.MaxHistory = flagI(f, "maxHistory")
		rb.CleanupOnFail = flagB(f, "cleanupOnFail")
		rb.DryRun = flagB(f, "dryRun")
		rb.Force = flagB(f, "force")
		rb.Timeout = timeout
		rb.WaitStrategy = kube.StatusWatcherStrategy
		if err := rb.Run(RelName); err != nil {
			res.Err = err.Error()
		}
	case "uninstall":
		un := action.NewUninstall(cfg)
		un.KeepHistory = flagB(f, "keepHistory")
		un.DisableHooks = flagB(f, "noHooks")
		un.DryRun = flagB(f, "dryRun")
		un.Timeout = timeout
		un.WaitStrategy = kube.StatusWatcherStrategy
		r, err := un.Run(RelName)
		if r != nil {
			res.Info = r.Info
			res.Rel = r.Release
		}
		if err != nil {
			res.Err = err.Error()
		}
	case "test":
		rt := action.NewReleaseTesting(cfg)
		rt.Namespace = RelNS
		rt.Timeout = timeout
		rel, err := rt.Run(RelName)
		res.Rel = rel
		if err != nil {
			res.Err = err.Error()
		}
	default:
		res.Err = "unknown op " + s.Op
	}
	return res
}

// opCtx: a dry run started after the user already hit ctrl-C (context cancelled) must still be a dry run.
// Only dry runs get a cancelled context: for real runs cancellation races with the operation itself.
func opCtx(f map[string]any) context.Context {
	if flagB(f, "cancelled") && (flagB(f, "dryRun") || flagS(f, "dryRunOption") != "") {
		ctx, cancel := context.WithCancel(context.Background())
		cancel()
		return ctx
	}
	return context.Background()
}

// keptNames extracts the object names from the "[Kind] name" lines of UninstallReleaseResponse.Info.
func keptNames(info string) []string {
	out := []string{}
	for _, l := range strings.Split(info, "\n") {
		l = strings.TrimSpace(l)
		if strings.HasPrefix(l, "[") {
			if i := strings.Index(l, "] "); i > 0 {
				out = append(out, strings.TrimSpace(l[i+2:]))
			}
		}
	}
	return out
}

// labelPostRenderer stands for "a post-renderer is configured": it passes the manifest through
// (adding a comment line), which must not make a dry run write anything.
type labelPostRenderer struct{}

func (labelPostRenderer) Run(in *bytes.Buffer) (*bytes.Buffer, error) {
	out := bytes.NewBufferString("# post-rendered\n")
	out.Write(in.Bytes())
	return out, nil
}

// Run executes a whole scenario sequentially and returns its trace.
func Run(lib ChartLib, sc Scenario) []Event {
	e := NewEnv(lib, sc.Driver)
	for _, p := range sc.Pre {
		e.putPre(p)
	}
	for i, s := range sc.Setup {
		e.RunOp(9, i, s)
	}
	for _, pr := range sc.PreLedger {
		if err := e.seedRecord(pr); err != nil {
			panic("harness: cannot write the ready-made record: " + err.Error())
		}
	}
	e.Rec.ResetLog()
	e.Rec.Log(Event{Ev: "reset", Scenario: sc.ID, Driver: sc.Driver, OK: true})
	for i, s := range sc.Steps {
		if s.Op == "" {
			e.applyEnvStep(i, s)
			continue
		}
		if len(sc.Sched) > 0 {
			e.RunConcurrent(sc, i)
			break
		}
		p := s.Proc
		if p == 0 {
			p = 1
		}
		e.RunOp(p, i, s)
	}
	return e.Rec.Events()
}

// Describe renders a short human-readable form of an event (for debugging).
func (ev Event) Describe() string {
	switch ev.Ev {
	case "call":
		r := "ok"
		if !ev.OK {
			r = "FAIL"
			if ev.Inj {
				r = "INJ"
			}
		}
		return fmt.Sprintf("  %-5s %-6s %-18s %s", ev.Kind, ev.Verb, ev.ID, r)
	case "begin":
		fl, _ := json.Marshal(ev.Flags)
		return fmt.Sprintf("BEGIN %s %s %s", ev.Op, ev.Chart, fl)
	case "end":
		var sb strings.Builder
		fmt.Fprintf(&sb, "END ok=%v err=%q", ev.OK, ev.Err)
		if ev.State != nil {
			sb.WriteString(" store={")
			for i := 1; i < 12; i++ {
				if r, ok := ev.State.Store[strconv.Itoa(i)]; ok {
					fmt.Fprintf(&sb, "%d:%s ", i, r.St)
				}
			}
			sb.WriteString("} cluster={")
			for k, o := range ev.State.Cluster {
				fmt.Fprintf(&sb, "%s:%s/%s/%s ", k, o.F1, o.F2, o.Own)
			}
			sb.WriteString("}")
		}
		return sb.String()
	default:
		return fmt.Sprintf("%s %s %s %s", strings.ToUpper(ev.Ev), ev.Kind, ev.Verb, ev.ID)
	}
}
