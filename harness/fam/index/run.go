package index

import (
	"bufio"
	"bytes"
	"encoding/json"
	"flag"
	"fmt"
	"io"
	"log/slog"
	"math/rand"
	"os"
	"path/filepath"
	"regexp"
	"runtime/debug"
	"strings"
	"sync"

	chart "helm.sh/helm/v4/pkg/chart/v2"
	chartutil "helm.sh/helm/v4/pkg/chart/v2/util"
	"helm.sh/helm/v4/pkg/downloader"
	"helm.sh/helm/v4/pkg/getter"
	"helm.sh/helm/v4/pkg/registry"
	"helm.sh/helm/v4/pkg/repo"
	"sigs.k8s.io/yaml"
)

func Register(c map[string]func(args []string) error) {
	c["index-vocab"] = cmdVocab
	c["index-run"] = cmdRun
}

// Case is one index file enumerated by TLC (Index.tla CaseRecord); only what the replay needs.
type Case struct {
	Code    int   `json:"code"`
	Entries []int `json:"entries"` // kind ids, file order
	Loaded  []int `json:"loaded"`  // positions, the spec's own sorted order (fed to the tag matcher)
	// the dependency list the resolver is given: all queries as ranges in this order; SameChart: every
	// dependency names the same chart (under aliases), else each names a chart of its own
	SameChart bool  `json:"sameChart"`
	DepOrder  []int `json:"depOrder"`
}

type Res struct {
	Pos   int    `json:"pos,omitempty"`   // position (1-based) of the returned entry, 0 = none
	Vid   int    `json:"vid,omitempty"`   // version string id of the returned version, 0 = none
	Err   string `json:"err,omitempty"`   // returned error
	Panic string `json:"panic,omitempty"` // recovered panic value
	Site  string `json:"site,omitempty"`  // first helm frame of the panic
}

// Obs is what one concretisation of one case showed.  Per-query results are integers:
// > 0 the position (get, rcv) or version string id (tag, lock) returned, 0 an error was returned,
// -1 a panic, -2 a value that is none of the case's; the texts of errors that are not the plain
// "not found" kind and of panics are in Notes.
type Obs struct {
	Code    int      `json:"code"`
	Conc    int      `json:"conc"`
	Format  string   `json:"format"`
	Load    Res      `json:"load"`
	Order   []int    `json:"order"`             // positions of the loaded entries, as loaded
	Get     []int    `json:"get,omitempty"`     // per query: IndexFile.Get
	Tag     []int    `json:"tag,omitempty"`     // per query: GetTagMatchingVersionOrConstraint
	SortAPI []int    `json:"sortapi,omitempty"` // MustAdd + SortEntries
	SortErr Res      `json:"sorterr"`
	Rcv     []int    `json:"rcv,omitempty"`  // per query: ChartDownloader.ResolveChartVersion
	Lock    []int    `json:"lock,omitempty"` // per query: Manager.Update -> resolver
	Deep    bool     `json:"deep"`
	Notes   []string `json:"notes,omitempty"`
}

// put records r as the integer result of query q of route what.
func (o *Obs) put(list *[]int, what string, q int, r Res, byVid bool) {
	v := r.Pos
	if byVid {
		v = r.Vid
	}
	switch {
	case r.Panic != "":
		v = -1
		o.Notes = append(o.Notes, fmt.Sprintf("%s[%d] panic: %s @ %s", what, q+1, r.Panic, r.Site))
	case r.Err != "":
		v = 0
		if strings.HasPrefix(r.Err, "unexpected") {
			o.Notes = append(o.Notes, fmt.Sprintf("%s[%d] %s", what, q+1, r.Err))
		}
	case v <= 0:
		v = -2
		o.Notes = append(o.Notes, fmt.Sprintf("%s[%d] returned %q, not an entry of the case", what, q+1, r.Site))
	}
	*list = append(*list, v)
}

const chartName = "dep"
const repoURL = "http://repo.c18.test/charts"

var helmFrame = regexp.MustCompile(`(?m)^(helm\.sh/helm/v4/[^\s(]+(?:\([^)]*\))?[^\s(]*)\(.*\n\s+(\S+):(\d+)`)

// guard runs f, converting a panic into a Res.
func guard(f func() Res) (r Res) {
	defer func() {
		if p := recover(); p != nil {
			r = Res{Panic: fmt.Sprint(p)}
			st := string(debug.Stack())
			if i := strings.Index(st, "panic("); i >= 0 {
				st = st[i:]
			}
			if m := helmFrame.FindStringSubmatch(st); m != nil {
				file := m[2]
				if i := strings.Index(file, "/pkg/"); i >= 0 {
					file = file[i+1:]
				} else if i := strings.Index(file, "/internal/"); i >= 0 {
					file = file[i+1:]
				}
				r.Site = m[1] + " " + file + ":" + m[3]
			}
		}
	}()
	return f()
}

type ctx struct {
	badSalt int
	v       *Vocab
	conc Conc
	vid  map[string]int
}

// entryDoc is the document of one entry at position p (1-based) of kind k.
func (c *ctx) entryDoc(name string, p int, k AbsKind) any {
	if k.Null {
		return nil
	}
	m := map[string]any{"digest": fmt.Sprintf("e%d", p), "created": "2024-01-02T03:04:05Z"}
	if k.URL {
		m["urls"] = []string{fmt.Sprintf("%s/%s-e%d.tgz", repoURL, name, p)}
	}
	if k.Meta {
		m["name"] = name
		m["version"] = c.conc.Strings[k.Vid-1]
		if p%2 == 0 {
			m["apiVersion"] = "v2"
		}
		m["description"] = "entry " + fmt.Sprint(p)
		if k.Dep {
			m["deprecated"] = true
		}
		if k.Bad { // one way of not validating per spelling and position
			switch (p + c.badSalt) % 6 {
			case 0:
				m["version"] = invalidStrings[(p+c.badSalt)%len(invalidStrings)]
			case 1:
				m["dependencies"] = []any{map[string]any{"name": "lib", "version": "1.0.0", "repository": repoURL, "alias": "not a valid alias!"}}
			case 2:
				m["dependencies"] = []any{nil}
			case 3:
				m["name"] = "some/" + name
			case 4:
				m["type"] = "no-such-type"
			case 5:
				m["maintainers"] = []any{nil}
			}
		}
	}
	return m
}

func (c *ctx) indexBytes(cs Case, names []string, asJSON bool) []byte {
	entries := map[string]any{}
	for _, n := range names {
		list := []any{}
		for i, kid := range cs.Entries {
			list = append(list, c.entryDoc(n, i+1, c.v.Abs.Kinds[kid-1]))
		}
		entries[n] = list
	}
	doc := map[string]any{"apiVersion": "v1", "generated": "2024-01-02T03:04:05Z", "entries": entries}
	if asJSON {
		b, _ := json.Marshal(doc)
		return b
	}
	b, _ := yaml.Marshal(doc)
	return b
}

func posOfDigest(d string) int {
	var p int
	if _, err := fmt.Sscanf(d, "e%d", &p); err != nil {
		return -1
	}
	return p
}

var urlPos = regexp.MustCompile(`-e(\d+)\.tgz$`)

func posOfURL(u string) int {
	m := urlPos.FindStringSubmatch(u)
	if m == nil {
		return -1
	}
	var p int
	fmt.Sscan(m[1], &p)
	return p
}

func errStr(err error) string {
	if err == nil {
		return ""
	}
	s := err.Error()
	if len(s) > 160 {
		s = s[:160]
	}
	if s == "" {
		s = "error"
	}
	return s
}

// shallow: LoadIndexFile, Get, tag matching, MustAdd+SortEntries
func (c *ctx) shallow(dir string, cs Case, o *Obs) {
	asJSON := (cs.Code+o.Conc)%2 == 1
	o.Format = "yaml"
	if asJSON {
		o.Format = "json"
	}
	path := filepath.Join(dir, "index.yaml")
	os.WriteFile(path, c.indexBytes(cs, []string{chartName}, asJSON), 0o644)
	var idx *repo.IndexFile
	o.Load = guard(func() Res {
		i, err := repo.LoadIndexFile(path)
		if err != nil {
			return Res{Err: errStr(err)}
		}
		idx = i
		return Res{}
	})
	if idx != nil {
		bad := guard(func() Res {
			for _, cv := range idx.Entries[chartName] {
				o.Order = append(o.Order, posOfDigest(cv.Digest))
			}
			return Res{}
		})
		if bad.Panic != "" { // a nil entry left in the loaded list
			o.Load = bad
			o.Load.Err = "loaded list holds a nil entry"
			idx = nil
		}
	}
	if idx != nil {
		for qi, q := range c.conc.Queries {
			q := q
			o.put(&o.Get, "get", qi, guard(func() Res {
				cv, err := idx.Get(chartName, q)
				if err != nil {
					return Res{Err: errStr(err)}
				}
				return Res{Pos: posOfDigest(cv.Digest), Vid: c.vid[cv.Version], Site: cv.Version}
			}), false)
		}
	}
	// OCI tag matching over the version strings in the order the specification loads them
	tags := []string{}
	for _, p := range cs.Loaded {
		tags = append(tags, c.conc.Strings[c.v.Abs.Kinds[cs.Entries[p-1]-1].Vid-1])
	}
	for qi, q := range c.conc.Queries {
		q := q
		o.put(&o.Tag, "tag", qi, guard(func() Res {
			t, err := registry.GetTagMatchingVersionOrConstraint(tags, q)
			if err != nil {
				return Res{Err: errStr(err)}
			}
			return Res{Vid: c.vid[t], Site: t}
		}), true)
	}
	// the API route to an unsorted index: MustAdd (validates) then SortEntries
	o.SortErr = guard(func() Res {
		ix := repo.NewIndexFile()
		for i, kid := range cs.Entries {
			k := c.v.Abs.Kinds[kid-1]
			if k.Null || !k.Meta {
				continue
			}
			md := &chart.Metadata{Name: chartName, Version: c.conc.Strings[k.Vid-1], APIVersion: "v2"}
			if k.Bad { // MustAdd validates: an entry that does not validate is refused
				switch (i + 1 + c.badSalt) % 3 {
				case 0:
					md.Type = "no-such-type"
				case 1:
					md.Dependencies = []*chart.Dependency{{Name: "lib", Version: "1.0.0", Alias: "not a valid alias!"}}
				default:
					md.Version = invalidStrings[(i+c.badSalt)%len(invalidStrings)]
				}
			}
			_ = ix.MustAdd(md, fmt.Sprintf("%s-e%d.tgz", chartName, i+1), repoURL, fmt.Sprintf("e%d", i+1))
		}
		ix.SortEntries()
		o.SortAPI = []int{}
		for _, cv := range ix.Entries[chartName] {
			o.SortAPI = append(o.SortAPI, posOfDigest(cv.Digest))
		}
		return Res{}
	})
}

// fakeGetter serves a fixed chart archive for every URL (the downloads of Manager.Update).
type fakeGetter struct{ data []byte }

func (g fakeGetter) Get(_ string, _ ...getter.Option) (*bytes.Buffer, error) {
	return bytes.NewBuffer(g.data), nil
}

var archiveOnce sync.Once
var archiveData []byte

func someArchive(dir string) []byte {
	archiveOnce.Do(func() {
		ch := &chart.Chart{Metadata: &chart.Metadata{APIVersion: "v2", Name: "payload", Version: "0.1.0"}}
		p, err := chartutil.Save(ch, dir)
		if err != nil {
			panic(err)
		}
		archiveData, _ = os.ReadFile(p)
	})
	return archiveData
}

func depName(q int) string { return fmt.Sprintf("d%d", q+1) }

var missingRe = regexp.MustCompile(`"(d\d+)" \(repository "[^"]*", version "([^"]*)"\)`)

// deep: ChartDownloader.ResolveChartVersion and Manager.Update (internal/resolver) over a
// configured repository whose cached index is the case's file.
func (c *ctx) deep(dir string, cs Case, o *Obs) {
	o.Deep = true
	cache := filepath.Join(dir, "cache")
	os.RemoveAll(cache)
	os.MkdirAll(cache, 0o755)
	repoCfg := filepath.Join(dir, "repositories.yaml")
	rf := repo.NewFile()
	rf.Add(&repo.Entry{Name: "r", URL: repoURL})
	rf.WriteFile(repoCfg, 0o644)
	cache1 := filepath.Join(dir, "cache1") // the chart alone: ChartDownloader
	os.RemoveAll(cache1)
	os.MkdirAll(cache1, 0o755)
	os.WriteFile(filepath.Join(cache1, "r-index.yaml"), c.indexBytes(cs, []string{chartName}, (cs.Code+o.Conc)%2 == 1), 0o644)
	names := []string{}
	for q := range c.conc.Queries {
		names = append(names, depName(q))
	}
	os.WriteFile(filepath.Join(cache, "r-index.yaml"), c.indexBytes(cs, names, (cs.Code+o.Conc)%2 == 0), 0o644)
	providers := getter.Providers{{Schemes: []string{"http", "https"}, New: func(...getter.Option) (getter.Getter, error) {
		return fakeGetter{someArchive(dir)}, nil
	}}}
	for qi, q := range c.conc.Queries {
		q := q
		o.put(&o.Rcv, "rcv", qi, guard(func() Res {
			dl := downloader.ChartDownloader{Out: io.Discard, Getters: providers, RepositoryConfig: repoCfg, RepositoryCache: cache1}
			u, err := dl.ResolveChartVersion("r/"+chartName, q)
			if err != nil {
				return Res{Err: errStr(err)}
			}
			return Res{Pos: posOfURL(u.String()), Site: u.String()}
		}), false)
	}
	// resolver: one chart whose dependencies d1..dQ carry the queries as version ranges
	lock := make([]Res, len(c.conc.Queries))
	defer func() {
		for qi, r := range lock {
			o.put(&o.Lock, "lock", qi, r, true)
		}
	}()
	update := func(qs []int) (locked map[int]string, res Res) {
		cdir := filepath.Join(dir, "parent")
		os.RemoveAll(cdir)
		os.MkdirAll(cdir, 0o755)
		md := &chart.Metadata{APIVersion: "v2", Name: "parent", Version: "0.1.0"}
		for _, q := range qs {
			d := &chart.Dependency{Name: depName(q), Version: c.conc.Queries[q], Repository: repoURL}
			if cs.SameChart {
				d.Name, d.Alias = depName(0), fmt.Sprintf("a%d", q+1)
			}
			md.Dependencies = append(md.Dependencies, d)
		}
		b, _ := yaml.Marshal(md)
		os.WriteFile(filepath.Join(cdir, "Chart.yaml"), b, 0o644)
		res = guard(func() Res {
			m := &downloader.Manager{Out: io.Discard, ChartPath: cdir, SkipUpdate: true, Getters: providers,
				RepositoryConfig: repoCfg, RepositoryCache: cache, Verify: downloader.VerifyNever}
			if err := m.Update(); err != nil {
				return Res{Err: err.Error() + " "}
			}
			return Res{}
		})
		if res.Err != "" || res.Panic != "" {
			return nil, res
		}
		lb, err := os.ReadFile(filepath.Join(cdir, "Chart.lock"))
		if err != nil {
			return nil, Res{Err: "no Chart.lock written: " + err.Error()}
		}
		var lock chart.Lock
		if err := yaml.Unmarshal(lb, &lock); err != nil {
			return nil, Res{Err: "Chart.lock unreadable: " + err.Error()}
		}
		locked = map[int]string{}
		for i, d := range lock.Dependencies {
			if cs.SameChart { // the lock keeps the order of the dependency list
				if i < len(qs) {
					locked[qs[i]] = d.Version
				}
				continue
			}
			var q int
			fmt.Sscanf(d.Name, "d%d", &q)
			locked[q-1] = d.Version
		}
		return locked, Res{}
	}
	var good []int
	order := make([]int, 0, len(c.conc.Queries))
	for _, q := range cs.DepOrder {
		order = append(order, q-1)
	}
	if len(order) != len(c.conc.Queries) {
		order = order[:0]
		for q := range c.conc.Queries {
			order = append(order, q)
		}
	}
	byRange := map[string]int{}
	for q, s := range c.conc.Queries {
		byRange[s] = q
	}
	for _, q := range order {
		if c.v.Cok[q] {
			good = append(good, q)
		} else { // a range that does not parse fails the whole resolution: one run each
			_, r := update([]int{q})
			if r.Err == "" && r.Panic == "" {
				r = Res{Vid: -1, Site: "a lock for a range that is not a constraint"}
			}
			lock[q] = r
		}
	}
	for pass := 0; pass < 2 && len(good) > 0; pass++ {
		locked, r := update(good)
		if r.Panic != "" {
			for _, q := range good {
				lock[q] = r
			}
			return
		}
		if r.Err != "" {
			ms := missingRe.FindAllStringSubmatch(r.Err, -1)
			full := r.Err
			if len(ms) == 0 || pass == 1 {
				for _, q := range good {
					lock[q] = Res{Err: "unexpected: " + errStr(fmt.Errorf("%s", full))}
				}
				return
			}
			miss := map[int]bool{}
			for _, m := range ms {
				if cs.SameChart { // all dependencies carry one name: the range tells them apart
					if q, ok := byRange[m[2]]; ok {
						miss[q] = true
					}
					continue
				}
				var q int
				fmt.Sscanf(m[1], "d%d", &q)
				miss[q-1] = true
			}
			var rest []int
			for _, q := range good {
				if miss[q] {
					lock[q] = Res{Err: "no version satisfies"}
				} else {
					rest = append(rest, q)
				}
			}
			good = rest
			continue
		}
		for _, q := range good {
			v, ok := locked[q]
			if !ok {
				lock[q] = Res{Err: "unexpected: dependency missing from Chart.lock"}
				continue
			}
			vid := c.vid[v]
			if vid == 0 {
				vid = -1
			}
			lock[q] = Res{Vid: vid, Site: v}
		}
		return
	}
}

// cmdRun: hv_misc index-run -vocab V -cases cases.ndjson -out obs.ndjson [-deep-len 3 -deep-sample N -seed S]
func cmdRun(args []string) error {
	fs := flag.NewFlagSet("index-run", flag.ExitOnError)
	vocabF := fs.String("vocab", "index_vocab.json", "vocabulary")
	casesF := fs.String("cases", "", "cases NDJSON (TLC export)")
	outF := fs.String("out", "", "observations NDJSON")
	deepLen := fs.Int("deep-len", 3, "cases with at most this many entries also go through ChartDownloader and Manager/resolver")
	deepSample := fs.Int("deep-sample", 0, "number of longer cases that also do")
	seed := fs.Int64("seed", 1, "seed")
	workers := fs.Int("workers", 8, "parallel workers")
	tmp := fs.String("tmp", "", "scratch directory")
	deepAll := fs.Bool("deep-all", false, "every concretisation goes through the downloader and the resolver (replay)")
	fs.Parse(args)
	slog.SetDefault(slog.New(slog.NewTextHandler(io.Discard, nil)))
	var v Vocab
	b, err := os.ReadFile(*vocabF)
	if err != nil {
		return err
	}
	if err := json.Unmarshal(b, &v); err != nil {
		return err
	}
	f, err := os.Open(*casesF)
	if err != nil {
		return err
	}
	defer f.Close()
	var cases []Case
	sc := bufio.NewScanner(f)
	sc.Buffer(make([]byte, 1<<20), 1<<26)
	for sc.Scan() {
		if len(bytes.TrimSpace(sc.Bytes())) == 0 {
			continue
		}
		var cs Case
		if err := json.Unmarshal(sc.Bytes(), &cs); err != nil {
			return err
		}
		cases = append(cases, cs)
	}
	// which longer cases go deep
	deepPick := map[int]bool{}
	var long []int
	for i, cs := range cases {
		if len(cs.Entries) > *deepLen {
			long = append(long, i)
		}
	}
	rng := rand.New(rand.NewSource(*seed))
	rng.Shuffle(len(long), func(i, j int) { long[i], long[j] = long[j], long[i] })
	for i := 0; i < *deepSample && i < len(long); i++ {
		deepPick[long[i]] = true
	}
	if *tmp == "" {
		*tmp, _ = os.MkdirTemp("", "c18")
	}
	out, err := os.Create(*outF)
	if err != nil {
		return err
	}
	defer out.Close()
	w := bufio.NewWriterSize(out, 1<<20)
	defer w.Flush()
	var mu sync.Mutex
	var wg sync.WaitGroup
	jobs := make(chan int, 256)
	for wk := 0; wk < *workers; wk++ {
		wg.Add(1)
		dir := filepath.Join(*tmp, fmt.Sprintf("w%d", wk))
		os.MkdirAll(dir, 0o755)
		someArchive(*tmp)
		go func() {
			defer wg.Done()
			for i := range jobs {
				cs := cases[i]
				for ci, conc := range v.Concs {
					c := &ctx{v: &v, conc: conc, vid: map[string]int{}, badSalt: cs.Code + ci + int(*seed)}
					for vi, s := range conc.Strings {
						c.vid[s] = vi + 1
					}
					o := Obs{Code: cs.Code, Conc: ci}
					c.shallow(dir, cs, &o)
					if len(cs.Entries) <= *deepLen || deepPick[i] {
						if *deepAll || ci == (cs.Code%len(v.Concs)) {
							c.deep(dir, cs, &o)
						}
					}
					ob, _ := json.Marshal(o)
					mu.Lock()
					w.Write(ob)
					w.WriteByte('\n')
					mu.Unlock()
				}
			}
		}()
	}
	for i := range cases {
		jobs <- i
	}
	close(jobs)
	wg.Wait()
	fmt.Fprintf(os.Stderr, "index-run: %d cases x %d concretisations\n", len(cases), len(v.Concs))
	return nil
}
