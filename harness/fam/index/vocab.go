// Package index is the Go side of C18 (Index.tla): it gives the abstract version strings and
// queries of IndexKinds.tla concrete spellings, asks Masterminds/semver (trusted) which constraint
// admits which version, and replays the index files TLC enumerated on the real code
// (repo.LoadIndexFile, IndexFile.Get, SortEntries, registry.GetTagMatchingVersionOrConstraint,
// downloader.ChartDownloader.ResolveChartVersion, downloader.Manager.Update -> internal/resolver).
package index

import (
	"encoding/json"
	"flag"
	"fmt"
	"math/rand"
	"os"
	"reflect"
	"strings"

	"github.com/Masterminds/semver/v3"
)

type AbsString struct {
	Rank  int  `json:"rank"`
	Pre   bool `json:"pre"`
	Build bool `json:"build"`
	Leadv bool `json:"leadv"`
	Valid bool `json:"valid"`
}

type AbsKind struct {
	Vid  int  `json:"vid"`
	Null bool `json:"null"`
	Meta bool `json:"meta"`
	URL  bool `json:"url"`
	Dep  bool `json:"dep"` // deprecated: true
	Bad  bool `json:"bad"` // the entry does not pass chart validation
}

type AbsQuery struct {
	Type string `json:"type"`
	Vid  int    `json:"vid"`
	Form string `json:"form"`
	A    int    `json:"a"`
	B    int    `json:"b"`
}

type KindsFile struct {
	Strings []AbsString `json:"strings"`
	Kinds   []AbsKind   `json:"kinds"`
	Queries []AbsQuery  `json:"queries"`
}

// Conc is one concrete spelling of every abstract string and query.
type Conc struct {
	Strings []string `json:"strings"` // index vid-1
	Queries []string `json:"queries"` // index query id-1
}

// Vocab is what TLC reads (sat, cok) and what the replay uses (concs).
type Vocab struct {
	Seed    int64     `json:"seed"`
	Abs     KindsFile `json:"abs"`
	Sat     [][]bool  `json:"sat"` // [query][vid]
	Cok     []bool    `json:"cok"`
	Concs   []Conc    `json:"concs"`
	Rejects int       `json:"rejected_concretisations"`
}

var preTags = []string{"alpha", "beta.2", "rc.1", "0", "alpha.beta", "rc.0.x"}
var buildTags = []string{"b7", "build.11", "exp.sha.5114f85", "001", "x-y.z"}
var invalidStrings = []string{"1.2.x", "latest", "1..2", "a.b.c", "1.2.3.4", "1.2.3-", "v", "1,2,3", "1.2.3+", "..", "-1.0.0"}
var badConstraints = []string{"=>> 1", "not a constraint", ">= 1.0.0 <", "1.x.x.x.x", "~>", "<<1.0.0"}

// concretise draws one spelling of every abstract string and query.
func concretise(abs KindsFile, rng *rand.Rand, style int) (Conc, error) {
	// rank -> (major, minor, patch), increasing in the position chosen by style
	maxRank := 0
	for _, s := range abs.Strings {
		if s.Rank > maxRank {
			maxRank = s.Rank
		}
	}
	base := [3]int{rng.Intn(4), rng.Intn(12), rng.Intn(9)}
	if style == 1 {
		base[0] = 0 // 0.x versions: caret is narrow
	}
	trip := make([][3]int, maxRank+1)
	cur := base
	pos := []int{1, 0, 2, 1}[style]
	for r := 1; r <= maxRank; r++ {
		cur[pos] += 1 + rng.Intn(3)
		if pos < 2 && rng.Intn(2) == 0 {
			cur[2] = rng.Intn(5)
		}
		if style == 3 && r == 3 { // ranks 3.. are in the next major
			cur[0]++
			cur[1] = rng.Intn(3)
		}
		trip[r] = cur
	}
	plain := func(r int) string { return fmt.Sprintf("%d.%d.%d", trip[r][0], trip[r][1], trip[r][2]) }
	pre := preTags[rng.Intn(len(preTags))]
	b1 := rng.Intn(len(buildTags))
	b2 := (b1 + 1 + rng.Intn(len(buildTags)-1)) % len(buildTags)
	c := Conc{}
	nbuild := 0
	for _, s := range abs.Strings {
		if !s.Valid {
			c.Strings = append(c.Strings, invalidStrings[rng.Intn(len(invalidStrings))])
			continue
		}
		v := plain(s.Rank)
		if !s.Pre && !s.Build && !s.Leadv && trip[s.Rank][2] == 0 && rng.Intn(2) == 0 {
			v = fmt.Sprintf("%d.%d", trip[s.Rank][0], trip[s.Rank][1]) // short spelling, valid for helm
		}
		if s.Pre {
			v += "-" + pre
		}
		if s.Build {
			if nbuild == 0 {
				v += "+" + buildTags[b1]
			} else {
				v += "+" + buildTags[b2]
			}
			nbuild++
		}
		if s.Leadv {
			v = "v" + v
		}
		c.Strings = append(c.Strings, v)
	}
	sp := func() string {
		if rng.Intn(2) == 0 {
			return " "
		}
		return ""
	}
	for _, q := range abs.Queries {
		var s string
		switch q.Form {
		case "empty":
			s = ""
		case "exact":
			s = c.Strings[q.Vid-1]
		case "ge":
			s = ">=" + sp() + plain(q.A)
		case "gt":
			s = ">" + sp() + plain(q.A)
		case "lt":
			s = "<" + sp() + plain(q.A)
		case "le":
			s = "<=" + sp() + plain(q.A)
		case "caret":
			s = "^" + plain(q.A)
		case "tilde":
			s = "~" + plain(q.A)
		case "range":
			s = plain(q.A) + " - " + plain(q.B)
		case "gepre":
			s = ">=" + sp() + plain(q.A) + "-0"
		case "ltpre":
			s = "<" + sp() + plain(q.A) + "-0"
		case "neq":
			s = "!=" + sp() + plain(q.A)
		case "or":
			s = "=" + plain(q.A) + " || =" + plain(q.B)
		case "star":
			s = []string{"*", "x", "X", ">=0.0.0"}[rng.Intn(4)]
		case "bad":
			s = badConstraints[rng.Intn(len(badConstraints))]
		default:
			return c, fmt.Errorf("unknown query form %q", q.Form)
		}
		c.Queries = append(c.Queries, s)
	}
	return c, nil
}

// relation asks the library: which query string parses as a constraint, which version it admits.
func relation(abs KindsFile, c Conc) (sat [][]bool, cok []bool, err error) {
	vers := make([]*semver.Version, len(c.Strings))
	for i, s := range c.Strings {
		v, e := semver.NewVersion(s)
		if abs.Strings[i].Valid != (e == nil) {
			return nil, nil, fmt.Errorf("string %q: valid=%v but library says %v", s, abs.Strings[i].Valid, e)
		}
		vers[i] = v
	}
	// the precedence the spec assumes (rank, pre < release; build and v ignored) is the library's
	key := func(s AbsString) int {
		k := 2 * s.Rank
		if !s.Pre {
			k++
		}
		return k
	}
	for i := range vers {
		for j := range vers {
			if vers[i] == nil || vers[j] == nil {
				continue
			}
			want := 0
			if key(abs.Strings[i]) < key(abs.Strings[j]) {
				want = -1
			} else if key(abs.Strings[i]) > key(abs.Strings[j]) {
				want = 1
			}
			if got := vers[i].Compare(vers[j]); got != want {
				return nil, nil, fmt.Errorf("precedence of %q vs %q: library %d, abstract %d", c.Strings[i], c.Strings[j], got, want)
			}
		}
	}
	seen := map[string]int{}
	for i, s := range c.Strings {
		if j, ok := seen[s]; ok {
			return nil, nil, fmt.Errorf("strings %d and %d are both %q", j+1, i+1, s)
		}
		seen[s] = i
	}
	for qi, q := range c.Queries {
		if _, ok := seen[q]; ok && abs.Queries[qi].Type != "exact" {
			return nil, nil, fmt.Errorf("query %q equals a version string but is not typed exact", q)
		}
		con, e := semver.NewConstraint(q)
		cok = append(cok, e == nil)
		row := make([]bool, len(vers))
		if e == nil {
			for vi, v := range vers {
				row[vi] = v != nil && con.Check(v)
			}
		}
		sat = append(sat, row)
	}
	for qi, q := range abs.Queries {
		if q.Form == "bad" && cok[qi] {
			return nil, nil, fmt.Errorf("%q parses as a constraint", c.Queries[qi])
		}
		if q.Type == "constraint" && q.Form != "bad" && !cok[qi] {
			return nil, nil, fmt.Errorf("%q does not parse as a constraint", c.Queries[qi])
		}
	}
	return sat, cok, nil
}

// cmdVocab: hv_misc index-vocab -kinds index_kinds.json -seed S -n N -out index_vocab.json
func cmdVocab(args []string) error {
	fs := flag.NewFlagSet("index-vocab", flag.ExitOnError)
	kinds := fs.String("kinds", "index_kinds.json", "abstract strings/kinds/queries exported by TLC")
	seed := fs.Int64("seed", 1, "seed")
	n := fs.Int("n", 2, "number of concretisations sharing one satisfaction relation")
	out := fs.String("out", "index_vocab.json", "output")
	fs.Parse(args)
	var abs KindsFile
	b, err := os.ReadFile(*kinds)
	if err != nil {
		return err
	}
	if err := json.Unmarshal(b, &abs); err != nil {
		return err
	}
	rng := rand.New(rand.NewSource(*seed))
	style := int(*seed) % 4
	if style < 0 {
		style = -style
	}
	v := Vocab{Seed: *seed, Abs: abs}
	for tries := 0; len(v.Concs) < *n && tries < 400; tries++ {
		c, err := concretise(abs, rng, style)
		if err != nil {
			return err
		}
		sat, cok, err := relation(abs, c)
		if err != nil {
			v.Rejects++
			if tries > 300 {
				return fmt.Errorf("cannot concretise: %v", err)
			}
			continue
		}
		if len(v.Concs) == 0 {
			v.Sat, v.Cok = sat, cok
		} else if !reflect.DeepEqual(sat, v.Sat) || !reflect.DeepEqual(cok, v.Cok) {
			v.Rejects++ // another relation: would need its own TLC run
			continue
		}
		v.Concs = append(v.Concs, c)
	}
	if len(v.Concs) == 0 {
		return fmt.Errorf("no concretisation found")
	}
	ob, _ := json.Marshal(v)
	if err := os.WriteFile(*out, ob, 0o644); err != nil {
		return err
	}
	fmt.Fprintf(os.Stderr, "index-vocab: %d concretisation(s), style %d, e.g. %s | %s\n", len(v.Concs), style,
		strings.Join(v.Concs[0].Strings, " "), strings.Join(v.Concs[0].Queries, " ; "))
	return nil
}
