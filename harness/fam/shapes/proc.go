package shapes

import (
	"bufio"
	"bytes"
	"encoding/json"
	"flag"
	"fmt"
	"io"
	"log/slog"
	"os"
	"os/exec"
	"path/filepath"
	"runtime/debug"
	"strings"
	"sync"
	"syscall"
	"time"
)

func Register(c map[string]func(args []string) error) {
	c["shapes-run"] = cmdRun
	c["shapes-child"] = cmdChild
}

func readCases(path string) ([]Case, error) {
	f, err := os.Open(path)
	if err != nil {
		return nil, err
	}
	defer f.Close()
	var cases []Case
	sc := bufio.NewScanner(f)
	sc.Buffer(make([]byte, 1<<20), 1<<26)
	for sc.Scan() {
		if len(bytes.TrimSpace(sc.Bytes())) == 0 {
			continue
		}
		var cs Case
		if err := json.Unmarshal(sc.Bytes(), &cs); err != nil {
			return nil, err
		}
		cases = append(cases, cs)
	}
	return cases, nil
}

// cmdChild: run the cases idx = from, from+stride, ... of the case file, one observation per line.
// Before a case starts, a {"begin": idx} line is written, so that the parent knows which case a dying
// process was in.
func cmdChild(args []string) error {
	fs := flag.NewFlagSet("shapes-child", flag.ExitOnError)
	casesF := fs.String("cases", "", "cases NDJSON")
	outF := fs.String("out", "", "observations NDJSON (appended)")
	from := fs.Int("from", 0, "first case index")
	stride := fs.Int("stride", 1, "index stride")
	timeout := fs.Duration("timeout", 20*time.Second, "watchdog per case")
	depth := fs.Int("depth", 64, "nesting depth of the deep shape")
	tmp := fs.String("tmp", "", "scratch directory")
	fs.Parse(args)
	debug.SetMaxStack(256 << 20) // runaway recursion dies quickly instead of eating a gigabyte
	var lim syscall.Rlimit
	lim.Cur, lim.Max = 6<<30, 6<<30
	syscall.Setrlimit(syscall.RLIMIT_AS, &lim)
	slog.SetDefault(slog.New(slog.NewTextHandler(io.Discard, nil)))
	os.Stdout, _ = os.OpenFile(os.DevNull, os.O_WRONLY, 0)
	cases, err := readCases(*casesF)
	if err != nil {
		return err
	}
	out, err := os.OpenFile(*outF, os.O_APPEND|os.O_CREATE|os.O_WRONLY, 0o644)
	if err != nil {
		return err
	}
	defer out.Close()
	e := &env{dir: *tmp, depth: *depth, statusTable: os.Getenv("HV_C20_STATUS_TABLE") == "1"}
	os.MkdirAll(e.dir, 0o755)
	for idx := *from; idx < len(cases); idx += *stride {
		fmt.Fprintf(out, "{\"begin\": %d}\n", idx)
		cs := cases[idx]
		obs := &Obs{Idx: idx, Case: cs}
		e.obs = obs
		done := make(chan error, 1)
		go func() {
			var err error
			defer func() {
				if p := recover(); p != nil { // a panic of the harness itself, not under call()
					err = fmt.Errorf("harness panic: %v\n%s", p, debug.Stack())
				}
				done <- err
			}()
			switch cs.Mode {
			case "doc":
				err = e.runDoc(cs, idx)
				if err == nil {
					e.runValuesReaders(cs, idx)
				}
			case "tokens":
				err = e.runTokens(cs, idx)
			case "store":
				err = e.runStore(cs, idx)
			default:
				err = fmt.Errorf("unknown mode %q", cs.Mode)
			}
		}()
		select {
		case err := <-done:
			if err != nil {
				obs.Skip = err.Error()
			}
		case <-time.After(*timeout):
			e.mu.Lock()
			obs.Hang = e.current
			e.mu.Unlock()
			b, _ := json.Marshal(obs)
			out.Write(append(b, '\n'))
			out.Sync()
			os.Exit(3) // the stuck goroutine cannot be stopped: the parent restarts after this case
		}
		b, _ := json.Marshal(obs)
		out.Write(append(b, '\n'))
	}
	return nil
}

// cmdRun: the parent.  hv_misc shapes-run -cases F -out O -workers K
func cmdRun(args []string) error {
	fs := flag.NewFlagSet("shapes-run", flag.ExitOnError)
	casesF := fs.String("cases", "", "cases NDJSON")
	outF := fs.String("out", "", "observations NDJSON")
	workers := fs.Int("workers", 8, "child processes")
	timeout := fs.Duration("timeout", 20*time.Second, "watchdog per case")
	depth := fs.Int("depth", 64, "nesting depth of the deep shape")
	tmp := fs.String("tmp", "", "scratch directory")
	fs.Parse(args)
	cases, err := readCases(*casesF)
	if err != nil {
		return err
	}
	if *tmp == "" {
		*tmp, _ = os.MkdirTemp("", "c20")
	}
	os.MkdirAll(*tmp, 0o755)
	self, err := os.Executable()
	if err != nil {
		return err
	}
	var wg sync.WaitGroup
	var mu sync.Mutex
	restarts := 0
	const giveUp = 3 // a worker stops after this many hangs / crashes: the failure is established, the rest would only cost time
	notRun := 0
	for w := 0; w < *workers; w++ {
		wg.Add(1)
		go func(w int) {
			defer wg.Done()
			part := filepath.Join(*tmp, fmt.Sprintf("obs_%d.ndjson", w))
			os.Remove(part)
			from := w
			failures := 0
			for from < len(cases) {
				if failures >= giveUp {
					mu.Lock()
					notRun += (len(cases) - from + *workers - 1) / *workers
					mu.Unlock()
					break
				}
				var stderr bytes.Buffer
				cmd := exec.Command(self, "shapes-child", "-cases", *casesF, "-out", part, "-from", fmt.Sprint(from), "-stride", fmt.Sprint(*workers),
					"-timeout", timeout.String(), "-depth", fmt.Sprint(*depth), "-tmp", filepath.Join(*tmp, fmt.Sprintf("w%d", w)))
				cmd.Stderr = &stderr
				cmd.Env = append(os.Environ(), "GOTRACEBACK=single")
				runErr := cmd.Run()
				// where did it stop?
				last, finished := lastBegun(part)
				if runErr == nil {
					break
				}
				mu.Lock()
				restarts++
				mu.Unlock()
				failures++
				if last < 0 {
					appendLine(part, Obs{Idx: from, Case: cases[from], Crash: "child could not start: " + runErr.Error() + " " + tail(stderr.String(), 600)})
					from += *workers
					continue
				}
				if !finished { // died inside case `last` without writing its observation
					appendLine(part, Obs{Idx: last, Case: cases[last], Crash: runErr.Error() + ": " + crashWords(stderr.String())})
				}
				from = last + *workers
			}
		}(w)
	}
	wg.Wait()
	out, err := os.Create(*outF)
	if err != nil {
		return err
	}
	defer out.Close()
	bw := bufio.NewWriterSize(out, 1<<20)
	defer bw.Flush()
	n := 0
	for w := 0; w < *workers; w++ {
		f, err := os.Open(filepath.Join(*tmp, fmt.Sprintf("obs_%d.ndjson", w)))
		if err != nil {
			continue
		}
		sc := bufio.NewScanner(f)
		sc.Buffer(make([]byte, 1<<20), 1<<26)
		for sc.Scan() {
			if bytes.HasPrefix(sc.Bytes(), []byte("{\"begin\"")) {
				continue
			}
			bw.Write(sc.Bytes())
			bw.WriteByte('\n')
			n++
		}
		f.Close()
	}
	fmt.Fprintf(os.Stderr, "shapes-run: %d cases, %d observations, %d child restarts, %d cases not run after repeated hangs or crashes\n", len(cases), n, restarts, notRun)
	return nil
}

func appendLine(path string, o Obs) {
	f, err := os.OpenFile(path, os.O_APPEND|os.O_CREATE|os.O_WRONLY, 0o644)
	if err != nil {
		return
	}
	defer f.Close()
	b, _ := json.Marshal(o)
	f.Write(append(b, '\n'))
}

// lastBegun: index of the last case the child began, and whether its observation follows.
func lastBegun(path string) (int, bool) {
	f, err := os.Open(path)
	if err != nil {
		return -1, false
	}
	defer f.Close()
	last, finished := -1, false
	sc := bufio.NewScanner(f)
	sc.Buffer(make([]byte, 1<<20), 1<<26)
	for sc.Scan() {
		var b struct {
			Begin *int `json:"begin"`
			Idx   *int `json:"idx"`
		}
		if json.Unmarshal(sc.Bytes(), &b) != nil {
			continue
		}
		if b.Begin != nil {
			last, finished = *b.Begin, false
		} else if b.Idx != nil && *b.Idx == last {
			finished = true
		}
	}
	return last, finished
}

func tail(s string, n int) string {
	if len(s) > n {
		return s[len(s)-n:]
	}
	return s
}

// crashWords: the first lines of a fatal error plus the first helm frames.
func crashWords(stderr string) string {
	lines := strings.Split(stderr, "\n")
	var out []string
	for i, l := range lines {
		if strings.HasPrefix(l, "fatal error:") || strings.HasPrefix(l, "runtime: goroutine stack exceeds") || strings.HasPrefix(l, "panic:") {
			out = append(out, l)
		}
		if strings.HasPrefix(l, "helm.sh/helm/v4/") && len(out) < 8 {
			out = append(out, strings.TrimSpace(l))
			if i+1 < len(lines) {
				out = append(out, strings.TrimSpace(lines[i+1]))
			}
		}
	}
	if len(out) == 0 {
		return tail(stderr, 400)
	}
	return strings.Join(out, " | ")
}
