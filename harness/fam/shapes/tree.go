// Package shapes is the Go side of C20 (Shapes.tla): it turns every case TLC enumerated (a document
// with one or two fields replaced by a shape, a text assembled from tokens, a release store with
// damaged records) into real input and feeds it to helm's public entry points in a child process,
// each call under recover and a watchdog.
package shapes

import (
	"encoding/json"
	"fmt"
	"strconv"

	"sigs.k8s.io/yaml"
)

type Dev struct {
	Path  []string `json:"path"`
	Shape string   `json:"shape"`
}

type Rec struct {
	Damage   string `json:"damage"`
	Readable string `json:"readable"`
}

type Case struct {
	Mode  string `json:"mode"`
	Doc   string `json:"doc"`
	Fam   string `json:"fam"`
	Toks  []int  `json:"toks"`
	Drv   string `json:"drv"`
	Devs  []Dev  `json:"devs"`
	Store []Rec  `json:"store"`
}

func deepValue(depth int) any {
	var v any = "bottom"
	for i := 0; i < depth; i++ {
		if i%2 == 0 {
			v = map[string]any{"a": v}
		} else {
			v = []any{v}
		}
	}
	return v
}

// shapeValue: the value a shape stands for at a place whose nominal value is old.
func shapeValue(shape string, old any, depth int) (any, bool) {
	switch shape {
	case "absent":
		return nil, true
	case "null":
		return nil, false
	case "wrongscalar":
		switch old.(type) {
		case string:
			return 42, false
		case float64, int, bool:
			return "str", false
		default:
			return "scalar", false
		}
	case "emptylist":
		return []any{}, false
	case "listnull":
		return []any{nil}, false
	case "map":
		if _, ok := old.(map[string]any); ok {
			return map[string]any{"k": nil, "": "v"}, false
		}
		return map[string]any{"k": "v"}, false
	case "deep":
		return deepValue(depth), false
	case "twonulls": // two nulls in a row in front of the list's own elements
		l, _ := old.([]any)
		return append([]any{nil, nil}, l...), false
	case "nullthenempty": // a null directly followed by an element without any field
		l, _ := old.([]any)
		return append([]any{nil, map[string]any{}}, l...), false
	}
	panic("unknown shape " + shape)
}

// apply returns the tree with the value at path replaced by the shape; gone = the root itself is absent.
func apply(root any, path []string, shape string, depth int) (out any, gone bool, err error) {
	if len(path) == 0 {
		v, absent := shapeValue(shape, root, depth)
		return v, absent, nil
	}
	switch node := root.(type) {
	case map[string]any:
		k := path[0]
		child, ok := node[k]
		if len(path) == 1 {
			v, absent := shapeValue(shape, child, depth)
			if absent {
				delete(node, k)
			} else {
				node[k] = v
			}
			return node, false, nil
		}
		if !ok {
			return nil, false, fmt.Errorf("nominal document has no %q", k)
		}
		nc, _, err := apply(child, path[1:], shape, depth)
		if err != nil {
			return nil, false, err
		}
		node[k] = nc
		return node, false, nil
	case []any:
		i, err := strconv.Atoi(path[0])
		if err != nil || i < 0 || i >= len(node) {
			return nil, false, fmt.Errorf("nominal document has no element %q", path[0])
		}
		if len(path) == 1 {
			v, absent := shapeValue(shape, node[i], depth)
			if absent {
				node[i] = removed{} // swept after all deviations are applied, so that indexes stay valid
				return node, false, nil
			}
			node[i] = v
			return node, false, nil
		}
		nc, _, err := apply(node[i], path[1:], shape, depth)
		if err != nil {
			return nil, false, err
		}
		node[i] = nc
		return node, false, nil
	}
	return nil, false, fmt.Errorf("path %v leaves the nominal document", path)
}

// removed marks a list element that a deviation deleted.
type removed struct{}

// sweep drops the list elements marked as removed.
func sweep(v any) any {
	switch n := v.(type) {
	case map[string]any:
		for k, c := range n {
			n[k] = sweep(c)
		}
		return n
	case []any:
		out := make([]any, 0, len(n))
		for _, c := range n {
			if _, gone := c.(removed); gone {
				continue
			}
			out = append(out, sweep(c))
		}
		return out
	}
	return v
}

func mustTree(y string) any {
	var v any
	if err := yaml.Unmarshal([]byte(y), &v); err != nil {
		panic(err)
	}
	return v
}

func clone(v any) any {
	b, _ := json.Marshal(v)
	var o any
	json.Unmarshal(b, &o)
	return o
}

// serialise: YAML (or JSON when asJSON) of the tree; an absent root is an empty file.
func serialise(tree any, gone bool, asJSON bool) []byte {
	if gone {
		return []byte{}
	}
	if asJSON {
		b, _ := json.Marshal(tree)
		return b
	}
	b, err := yaml.Marshal(tree)
	if err != nil {
		b, _ = json.Marshal(tree)
	}
	return b
}

// ---------------------------------------------------------------------------------------------
// nominal documents

const nominalChartYAML = `
apiVersion: v2
name: parent
version: 1.2.3
type: application
kubeVersion: ">=1.20.0-0"
description: a chart
keywords: [k]
sources: ["https://example.test/src"]
maintainers:
- name: m
  email: m@example.test
  url: https://example.test
annotations: {a: b}
dependencies:
- name: sub
  version: 0.1.0
  repository: https://repo.c20.test/charts
  condition: sub.enabled
  tags: [t]
  import-values:
  - child: exports.data
    parent: imported
  - data
`

const nominalValues = `
replicas: 1
name: n
list: [a, b]
sub: {enabled: true, x: 1}
tags: {t: true}
global: {g: 1}
imported: {own: 1}
`

const nominalSubValues = `
exports: {data: {k: v}}
global: {}
x: 0
`

const nominalSchema = `
$schema: http://json-schema.org/draft-07/schema#
type: object
properties:
  replicas: {type: integer, minimum: 0}
  name: {type: string}
  list: {type: array, items: {type: string}}
  sub: {type: object}
required: [replicas]
`

const nominalSubChartYAML = `
apiVersion: v2
name: sub
version: 0.1.0
`

const nominalLock = `
generated: "2024-01-02T03:04:05Z"
digest: sha256:0000000000000000000000000000000000000000000000000000000000000000
dependencies:
- name: sub
  version: 0.1.0
  repository: https://repo.c20.test/charts
`

const nominalIndex = `
apiVersion: v1
generated: "2024-01-02T03:04:05Z"
entries:
  chart:
  - name: chart
    version: 1.0.0
    apiVersion: v2
    urls: ["https://repo.c20.test/charts/chart-1.0.0.tgz"]
    created: "2024-01-02T03:04:05Z"
    digest: aaaa
    dependencies:
    - name: d
      version: 1.0.0
      repository: https://repo.c20.test/charts
    maintainers:
    - name: m
    annotations: {a: b}
  - name: chart
    version: 1.1.0-rc.1
    urls: ["chart-1.1.0-rc.1.tgz"]
    created: "2024-01-02T03:04:05Z"
    digest: bbbb
  other:
  - name: other
    version: 0.0.1
    urls: ["other-0.0.1.tgz"]
`

const nominalPlugin = `
name: myplugin
version: 0.1.0
usage: use it
description: a plugin
command: "$HELM_PLUGIN_DIR/bin/run"
platformCommand:
- os: linux
  arch: amd64
  command: echo
  args: [a]
ignoreFlags: false
hooks: {install: "echo hi"}
platformHooks:
  install:
  - os: linux
    command: echo
    args: [x]
downloaders:
- command: bin/dl
  protocols: [myproto]
`

const nominalProv = `
meta:
  apiVersion: v2
  name: chart
  version: 1.0.0
  dependencies:
  - name: d
    version: 1.0.0
sums:
  files:
    chart-1.0.0.tgz: sha256:PLACEHOLDER
  images: {}
`

const tplConfigMap = `apiVersion: v1
kind: ConfigMap
metadata:
  name: {{ .Release.Name }}-{{ .Values.name | default "x" | toString | trunc 10 }}
  annotations:
    replicas: {{ .Values.replicas | quote }}
data:
  g: {{ .Values.global.g | quote }}
  subx: {{ .Values.sub.x | toString | quote }}
  tag: {{ index .Values.tags "t" | quote }}
  imported: {{ toYaml .Values.imported | quote }}
{{- range $i, $v := .Values.list }}
  item{{ $i }}: {{ $v | quote }}
{{- end }}
  helper: {{ include "parent.h" . | quote }}
  tpl: {{ tpl (toJson .Values.imported) . | quote }}
`

const tplHelpers = `{{- define "parent.h" -}}
{{- if .Values.sub.enabled }}on{{ else }}off{{ end -}}
{{- end -}}
`

const tplNotes = `replicas={{ .Values.replicas }} name={{ .Values.name }}
`

const tplSubConfigMap = `apiVersion: v1
kind: ConfigMap
metadata:
  name: {{ .Release.Name }}-sub
data:
  x: {{ .Values.x | quote }}
  g: {{ toYaml .Values.global | quote }}
  exports: {{ toYaml .Values.exports | quote }}
`
