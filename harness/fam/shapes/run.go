package shapes

import (
	"archive/tar"
	"bytes"
	"compress/gzip"
	"context"
	"crypto"
	"crypto/sha256"
	"encoding/base64"
	"encoding/hex"
	"encoding/json"
	"fmt"
	"io"
	"os"
	"path/filepath"
	"regexp"
	"runtime/debug"
	"sort"
	"strings"
	"sync"
	"time"

	"golang.org/x/crypto/openpgp"           //nolint
	"golang.org/x/crypto/openpgp/clearsign" //nolint
	"golang.org/x/crypto/openpgp/packet"    //nolint
	corev1 "k8s.io/api/core/v1"
	metav1 "k8s.io/apimachinery/pkg/apis/meta/v1"
	k8sfake "k8s.io/client-go/kubernetes/fake"

	"helm.sh/helm/v4/pkg/action"
	chart "helm.sh/helm/v4/pkg/chart/v2"
	"helm.sh/helm/v4/pkg/chart/v2/loader"
	chartutil "helm.sh/helm/v4/pkg/chart/v2/util"
	"helm.sh/helm/v4/pkg/cli"
	"helm.sh/helm/v4/pkg/cli/values"
	"helm.sh/helm/v4/pkg/downloader"
	"helm.sh/helm/v4/pkg/engine"
	"helm.sh/helm/v4/pkg/getter"
	"helm.sh/helm/v4/pkg/ignore"
	kubefake "helm.sh/helm/v4/pkg/kube/fake"
	"helm.sh/helm/v4/pkg/lint"
	"helm.sh/helm/v4/pkg/plugin"
	"helm.sh/helm/v4/pkg/provenance"
	releaseutil "helm.sh/helm/v4/pkg/release/util"
	release "helm.sh/helm/v4/pkg/release/v1"
	"helm.sh/helm/v4/pkg/repo"
	"helm.sh/helm/v4/pkg/storage"
	"helm.sh/helm/v4/pkg/storage/driver"
	"helm.sh/helm/v4/pkg/strvals"
)

// Entry is the outcome of one entry point on one case.
type Entry struct {
	Name string `json:"name"`
	Out  string `json:"out"` // ok | err | panic
	Msg  string `json:"msg,omitempty"`
	Site string `json:"site,omitempty"` // first helm frame of a panic
}

type Obs struct {
	Idx     int      `json:"idx"`
	Case    Case     `json:"case"`
	Input   string   `json:"input,omitempty"` // the concrete text, shortened
	Entries []Entry  `json:"entries"`
	Hang    string   `json:"hang,omitempty"`  // entry point that did not return within the watchdog time
	Crash   string   `json:"crash,omitempty"` // the child process died (stack overflow, fatal error): its last words
	Skip    string   `json:"skip,omitempty"`  // the harness could not build the case
	Listed  []string `json:"listed,omitempty"`
	Queried []string `json:"queried,omitempty"`
	GetOK   []string `json:"getok,omitempty"`
	Keys    []string `json:"keys,omitempty"`
}

var helmFrame = regexp.MustCompile(`(?m)^(helm\.sh/helm/v4/[^\s(]+(?:\([^)]*\))?[^\s(]*)\(.*\n\s+(\S+):(\d+)`)

type env struct {
	statusTable bool // also run `helm status -o table` (set by HV_C20_STATUS_TABLE=1, for the replay of the reported finding)
	dir         string
	obs         *Obs
	current     string
	mu          sync.Mutex
	depth       int
	key         *openpgp.Entity
}

// call runs one entry point under recover.
func (e *env) call(name string, f func() error) {
	e.mu.Lock()
	e.current = name
	e.mu.Unlock()
	ent := Entry{Name: name, Out: "ok"}
	func() {
		defer func() {
			if p := recover(); p != nil {
				ent.Out = "panic"
				ent.Msg = fmt.Sprint(p)
				st := string(debug.Stack())
				if i := strings.Index(st, "panic("); i >= 0 {
					st = st[i:]
				}
				if m := helmFrame.FindStringSubmatch(st); m != nil {
					file := m[2]
					if i := strings.Index(file, "/pkg/"); i >= 0 {
						file = file[i+1:]
					} else if i := strings.Index(file, "/internal/"); i >= 0 {
						file = file[i+1:]
					}
					ent.Site = m[1] + " " + file + ":" + m[3]
				} else {
					ent.Site = "no helm frame: " + firstLines(st, 6)
				}
			}
		}()
		if err := f(); err != nil {
			ent.Out = "err"
			ent.Msg = err.Error()
		}
	}()
	if len(ent.Msg) > 200 {
		ent.Msg = ent.Msg[:200]
	}
	e.obs.Entries = append(e.obs.Entries, ent)
}

func firstLines(s string, n int) string {
	l := strings.SplitN(s, "\n", n+1)
	if len(l) > n {
		l = l[:n]
	}
	return strings.Join(l, " | ")
}

func short(b []byte) string {
	if len(b) > 400 {
		return string(b[:400]) + "..."
	}
	return string(b)
}

// ---------------------------------------------------------------------------------------------
// documents

func (e *env) shaped(nominal string, devs []Dev, only string, doc string) (any, bool, error) {
	tree := mustTree(nominal)
	gone := false
	if doc != only {
		return tree, false, nil
	}
	for _, d := range devs {
		var err error
		tree, gone, err = apply(tree, d.Path, d.Shape, e.depth)
		if err != nil {
			return nil, false, err
		}
	}
	return sweep(tree), gone, nil
}

func (e *env) runDoc(cs Case, idx int) error {
	switch cs.Doc {
	case "chartyaml", "values", "subvalues", "schema", "lock":
		return e.runChart(cs, idx)
	case "index":
		return e.runIndex(cs, idx)
	case "plugin":
		return e.runPlugin(cs, idx)
	case "provblock":
		return e.runProv(cs, idx)
	case "release":
		return e.runRelease(cs, idx)
	}
	return fmt.Errorf("unknown document type %q", cs.Doc)
}

func (e *env) chartFiles(cs Case, idx int) ([]*loader.BufferedFile, error) {
	var files []*loader.BufferedFile
	add := func(name string, data []byte) { files = append(files, &loader.BufferedFile{Name: name, Data: data}) }
	for _, d := range []struct{ doc, file, nominal string }{
		{"chartyaml", "Chart.yaml", nominalChartYAML}, {"values", "values.yaml", nominalValues},
		{"schema", "values.schema.json", nominalSchema}, {"lock", "Chart.lock", nominalLock},
		{"subvalues", "charts/sub/values.yaml", nominalSubValues}} {
		tree, gone, err := e.shaped(d.nominal, cs.Devs, d.doc, cs.Doc)
		if err != nil {
			return nil, err
		}
		if gone && d.doc == cs.Doc && len(cs.Devs) > 0 && len(cs.Devs[0].Path) == 0 && cs.Devs[0].Shape == "absent" {
			if d.doc == "chartyaml" {
				add(d.file, []byte{})
			}
			continue // the file itself is missing
		}
		b := serialise(tree, gone, d.doc == "schema" || (d.doc == cs.Doc && idx%3 == 1))
		if d.doc == cs.Doc {
			e.obs.Input = d.file + ": " + short(b)
		}
		add(d.file, b)
	}
	add("templates/cm.yaml", []byte(tplConfigMap))
	add("templates/_helpers.tpl", []byte(tplHelpers))
	add("templates/NOTES.txt", []byte(tplNotes))
	add("charts/sub/Chart.yaml", []byte(nominalSubChartYAML))
	add("charts/sub/templates/cm.yaml", []byte(tplSubConfigMap))
	add(".helmignore", []byte("*.swp\n.git/\n"))
	return files, nil
}

func (e *env) runChart(cs Case, idx int) error {
	files, err := e.chartFiles(cs, idx)
	if err != nil {
		return err
	}
	load := func() (*chart.Chart, error) {
		cp := make([]*loader.BufferedFile, len(files))
		for i, f := range files {
			cp[i] = &loader.BufferedFile{Name: f.Name, Data: append([]byte(nil), f.Data...)}
		}
		return loader.LoadFiles(cp)
	}
	var loaded bool
	e.call("loader.LoadFiles", func() error {
		ch, err := load()
		loaded = err == nil && ch != nil
		return err
	})
	dir := filepath.Join(e.dir, "chart", "parent")
	os.RemoveAll(filepath.Join(e.dir, "chart"))
	for _, f := range files {
		p := filepath.Join(dir, f.Name)
		os.MkdirAll(filepath.Dir(p), 0o755)
		os.WriteFile(p, f.Data, 0o644)
	}
	e.call("loader.LoadDir", func() error { _, err := loader.LoadDir(dir); return err })
	userVals := map[string]any{"replicas": 2, "sub": map[string]any{"x": 5}}
	e.call("lint.RunAll", func() error { lint.RunAll(dir, userVals, "ns"); return nil })
	e.call("action.Lint", func() error { action.NewLint().Run([]string{dir}, userVals); return nil })
	e.call("action.Dependency.List", func() error { return action.NewDependency().List(dir, io.Discard) })
	e.call("action.Show", func() error {
		_, err := action.NewShow(action.ShowAll, &action.Configuration{}).Run(dir)
		return err
	})
	e.call("action.Package", func() error {
		pk := action.NewPackage()
		pk.Destination = filepath.Join(e.dir, "chart", "out")
		os.MkdirAll(pk.Destination, 0o755)
		p, err := pk.Run(dir, nil)
		if err == nil {
			_, err = loader.LoadFile(p)
		}
		return err
	})
	e.call("downloader.Manager.Build", func() error {
		m := &downloader.Manager{Out: io.Discard, ChartPath: dir, SkipUpdate: true, Getters: getter.Providers{},
			RepositoryConfig: filepath.Join(e.dir, "no-repositories.yaml"), RepositoryCache: filepath.Join(e.dir, "cache")}
		return m.Build()
	})
	if !loaded {
		return nil
	}
	e.call("Chart.Validate", func() error { ch, _ := load(); return ch.Validate() })
	e.call("chartutil.ProcessDependencies", func() error {
		ch, _ := load()
		return chartutil.ProcessDependencies(ch, clone(userVals).(map[string]any))
	})
	e.call("chartutil.CoalesceValues", func() error {
		ch, _ := load()
		_, err := chartutil.CoalesceValues(ch, clone(userVals).(map[string]any))
		return err
	})
	e.call("chartutil.MergeValues", func() error {
		ch, _ := load()
		_, err := chartutil.MergeValues(ch, clone(userVals).(map[string]any))
		return err
	})
	e.call("chartutil.ValidateAgainstSchema", func() error {
		ch, _ := load()
		return chartutil.ValidateAgainstSchema(ch, clone(userVals).(map[string]any))
	})
	e.call("ToRenderValues+engine.Render", func() error {
		ch, _ := load()
		v := clone(userVals).(map[string]any)
		if err := chartutil.ProcessDependencies(ch, v); err != nil {
			return err
		}
		rv, err := chartutil.ToRenderValues(ch, v, chartutil.ReleaseOptions{Name: "r", Namespace: "ns", IsInstall: true}, chartutil.DefaultCapabilities)
		if err != nil {
			return err
		}
		out, err := engine.Render(ch, rv)
		if err != nil {
			return err
		}
		_, _, err = releaseutil.SortManifests(out, nil, releaseutil.InstallOrder)
		return err
	})
	e.call("action.Install(dry-run,client-only)", func() error {
		ch, _ := load()
		cfg := &action.Configuration{Releases: storage.Init(driver.NewMemory()), KubeClient: &kubefake.PrintingKubeClient{Out: io.Discard},
			Capabilities: chartutil.DefaultCapabilities}
		in := action.NewInstall(cfg)
		in.DryRun, in.ClientOnly, in.ReleaseName, in.Namespace, in.Replace = true, true, "r", "ns", true
		_, err := in.Run(ch, clone(userVals).(map[string]any))
		return err
	})
	return nil
}

// ---------------------------------------------------------------------------------------------

type bytesGetter struct{ data []byte }

func (g bytesGetter) Get(string, ...getter.Option) (*bytes.Buffer, error) {
	return bytes.NewBuffer(append([]byte(nil), g.data...)), nil
}

func (e *env) runIndex(cs Case, idx int) error {
	tree, gone, err := e.shaped(nominalIndex, cs.Devs, "index", "index")
	if err != nil {
		return err
	}
	b := serialise(tree, gone, idx%2 == 1)
	e.obs.Input = "index.yaml: " + short(b)
	cache := filepath.Join(e.dir, "icache")
	os.RemoveAll(cache)
	os.MkdirAll(cache, 0o755)
	path := filepath.Join(cache, "r-index.yaml")
	os.WriteFile(path, b, 0o644)
	repoCfg := filepath.Join(e.dir, "irepositories.yaml")
	rf := repo.NewFile()
	rf.Add(&repo.Entry{Name: "r", URL: "https://repo.c20.test/charts"})
	rf.WriteFile(repoCfg, 0o644)
	var ix *repo.IndexFile
	e.call("repo.LoadIndexFile", func() error {
		i, err := repo.LoadIndexFile(path)
		if err == nil {
			ix = i
		}
		return err
	})
	providers := getter.Providers{{Schemes: []string{"http", "https"}, New: func(...getter.Option) (getter.Getter, error) { return bytesGetter{b}, nil }}}
	e.call("ChartDownloader.ResolveChartVersion(name)", func() error {
		dl := downloader.ChartDownloader{Out: io.Discard, Getters: providers, RepositoryConfig: repoCfg, RepositoryCache: cache}
		_, err := dl.ResolveChartVersion("r/chart", "")
		return err
	})
	e.call("ChartDownloader.ResolveChartVersion(url)", func() error {
		dl := downloader.ChartDownloader{Out: io.Discard, Getters: providers, RepositoryConfig: repoCfg, RepositoryCache: cache}
		_, err := dl.ResolveChartVersion("https://repo.c20.test/charts/chart-1.0.0.tgz", "")
		return err
	})
	e.call("repo.FindChartInRepoURL", func() error {
		os.Setenv("HELM_CACHE_HOME", filepath.Join(e.dir, "helmcache"))
		_, err := repo.FindChartInRepoURL("https://repo.c20.test/charts", "chart", providers)
		return err
	})
	e.call("ChartRepository.DownloadIndexFile", func() error {
		r, err := repo.NewChartRepository(&repo.Entry{Name: "dl", URL: "https://repo.c20.test/charts"}, providers)
		if err != nil {
			return err
		}
		r.CachePath = filepath.Join(e.dir, "dlcache")
		_, err = r.DownloadIndexFile()
		return err
	})
	if ix == nil {
		return nil
	}
	e.call("IndexFile.Get(empty)", func() error { _, err := ix.Get("chart", ""); return err })
	e.call("IndexFile.Get(version)", func() error { _, err := ix.Get("chart", "1.0.0"); return err })
	e.call("IndexFile.Get(constraint)", func() error { _, err := ix.Get("chart", ">=1.0.0-0"); return err })
	e.call("IndexFile.Has", func() error { ix.Has("chart", "1.1.0-rc.1"); ix.Has("other", "0.0.1"); return nil })
	e.call("IndexFile.SortEntries", func() error { ix.SortEntries(); return nil })
	e.call("IndexFile.Merge", func() error {
		o := repo.NewIndexFile()
		o.MustAdd(&chart.Metadata{APIVersion: "v2", Name: "chart", Version: "2.0.0"}, "chart-2.0.0.tgz", "https://x.test", "d")
		o.Merge(ix)
		ix.Merge(o)
		return nil
	})
	e.call("IndexFile.WriteFile", func() error { return ix.WriteFile(filepath.Join(cache, "out.yaml"), 0o644) })
	return nil
}

func (e *env) runPlugin(cs Case, idx int) error {
	tree, gone, err := e.shaped(nominalPlugin, cs.Devs, "plugin", "plugin")
	if err != nil {
		return err
	}
	b := serialise(tree, gone, false)
	e.obs.Input = "plugin.yaml: " + short(b)
	base := filepath.Join(e.dir, "plugins")
	os.RemoveAll(base)
	pdir := filepath.Join(base, "myplugin")
	os.MkdirAll(pdir, 0o755)
	os.WriteFile(filepath.Join(pdir, "plugin.yaml"), b, 0o644)
	var pl *plugin.Plugin
	e.call("plugin.LoadDir", func() error {
		p, err := plugin.LoadDir(pdir)
		if err == nil {
			pl = p
		}
		return err
	})
	e.call("plugin.LoadAll", func() error { _, err := plugin.LoadAll(base); return err })
	e.call("plugin.FindPlugins", func() error { _, err := plugin.FindPlugins(base); return err })
	e.call("getter.All", func() error {
		s := cli.New()
		s.PluginsDirectory = base
		ps := getter.All(s)
		for _, p := range ps {
			p.Provides("myproto")
		}
		_, err := ps.ByScheme("myproto")
		return err
	})
	if pl == nil {
		return nil
	}
	e.call("Plugin.PrepareCommand", func() error { _, _, err := pl.PrepareCommand([]string{"x"}); return err })
	e.call("plugin.PrepareCommands(hooks)", func() error {
		for _, ev := range []string{"install", "update", "delete"} {
			if cmds := pl.Metadata.PlatformHooks[ev]; len(cmds) > 0 {
				plugin.PrepareCommands(cmds, true, nil)
			}
			_ = pl.Metadata.Hooks[ev]
		}
		return nil
	})
	return nil
}

func sha(b []byte) string {
	h := sha256.Sum256(b)
	return hex.EncodeToString(h[:])
}

func (e *env) signer() (*openpgp.Entity, error) {
	if e.key != nil {
		return e.key, nil
	}
	k, err := openpgp.NewEntity("C20 signer", "", "c20@example.test", &packet.Config{RSABits: 1024, DefaultHash: crypto.SHA256})
	if err != nil {
		return nil, err
	}
	var sink bytes.Buffer
	if err := k.SerializePrivate(&sink, nil); err != nil {
		return nil, err
	}
	e.key = k
	return k, nil
}

func (e *env) runProv(cs Case, idx int) error {
	tree, _, err := e.shaped(nominalProv, cs.Devs, "provblock", "provblock")
	if err != nil {
		return err
	}
	dir := filepath.Join(e.dir, "prov")
	os.RemoveAll(dir)
	os.MkdirAll(dir, 0o755)
	archive := []byte("not really an archive, only its digest matters here")
	apath := filepath.Join(dir, "chart-1.0.0.tgz")
	os.WriteFile(apath, archive, 0o644)
	m, _ := tree.(map[string]any)
	var parts [][]byte
	for _, k := range []string{"meta", "sums"} {
		v, ok := m[k]
		if !ok {
			continue // the part is absent
		}
		b := serialise(v, false, false)
		b = bytes.ReplaceAll(b, []byte("PLACEHOLDER"), []byte(sha(archive)))
		parts = append(parts, bytes.TrimRight(b, "\n"))
	}
	body := bytes.Join(parts, []byte("\n...\n"))
	body = append(body, '\n')
	e.obs.Input = "provenance body: " + short(body)
	key, err := e.signer()
	if err != nil {
		return err
	}
	var signed bytes.Buffer
	w, err := clearsign.Encode(&signed, key.PrivateKey, &packet.Config{DefaultHash: crypto.SHA256})
	if err != nil {
		return err
	}
	w.Write(body)
	if err := w.Close(); err != nil {
		return err
	}
	os.WriteFile(apath+".prov", signed.Bytes(), 0o644)
	ring := filepath.Join(dir, "pub.gpg")
	var pub bytes.Buffer
	key.Serialize(&pub)
	os.WriteFile(ring, pub.Bytes(), 0o644)
	e.call("Signatory.Verify", func() error {
		s, err := provenance.NewFromKeyring(ring, "")
		if err != nil {
			return err
		}
		_, err = s.Verify(apath, apath+".prov")
		return err
	})
	e.call("downloader.VerifyChart", func() error { _, err := downloader.VerifyChart(apath, ring); return err })
	e.call("action.Verify", func() error { v := action.NewVerify(); v.Keyring = ring; return v.Run(apath) })
	// and the raw body without any signature
	os.WriteFile(apath+".prov", body, 0o644)
	e.call("Signatory.Verify(unsigned)", func() error {
		s, err := provenance.NewFromKeyring(ring, "")
		if err != nil {
			return err
		}
		_, err = s.Verify(apath, apath+".prov")
		return err
	})
	return nil
}

// ---------------------------------------------------------------------------------------------
// stored release records

func encodeBody(b []byte) string {
	var buf bytes.Buffer
	w, _ := gzip.NewWriterLevel(&buf, gzip.BestCompression)
	w.Write(b)
	w.Close()
	return base64.StdEncoding.EncodeToString(buf.Bytes())
}

func nominalRelease(name string, version int, status release.Status) *release.Release {
	rel := release.Mock(&release.MockReleaseOptions{Name: name, Version: version, Status: status, Namespace: "ns"})
	rel.Config = map[string]any{"replicas": 3}
	rel.Chart.Values = map[string]any{"replicas": 1, "name": "n"}
	rel.Info.Notes = "notes"
	return rel
}

// noKey: the stored object has no `release` key at all
const noKey = "\x00no release key"

type store struct {
	drv     driver.Driver
	setBody func(key, body string) error
}

func newStore(kind string) *store {
	cs := k8sfake.NewSimpleClientset()
	switch kind {
	case "secrets":
		impl := cs.CoreV1().Secrets("ns")
		return &store{drv: driver.NewSecrets(impl), setBody: func(key, body string) error {
			o, err := impl.Get(context.Background(), key, metav1.GetOptions{})
			if err != nil {
				return err
			}
			o.Data = map[string][]byte{"release": []byte(body)}
			if body == noKey {
				o.Data = map[string][]byte{"other": []byte("x")}
			}
			_, err = impl.Update(context.Background(), o, metav1.UpdateOptions{})
			return err
		}}
	default:
		impl := cs.CoreV1().ConfigMaps("ns")
		return &store{drv: driver.NewConfigMaps(impl), setBody: func(key, body string) error {
			o, err := impl.Get(context.Background(), key, metav1.GetOptions{})
			if err != nil {
				return err
			}
			o.Data = map[string]string{"release": body}
			if body == noKey {
				o.Data = map[string]string{"other": "x"}
			}
			_, err = impl.Update(context.Background(), o, metav1.UpdateOptions{})
			return err
		}}
	}
}

var _ = corev1.Secret{}

func key(name string, v int) string { return fmt.Sprintf("sh.helm.release.v1.%s.v%d", name, v) }

func (e *env) runRelease(cs Case, idx int) error {
	kind := []string{"secrets", "configmaps"}[idx%2]
	st := newStore(kind)
	good := nominalRelease("other", 1, release.StatusDeployed)
	if err := st.drv.Create(key("other", 1), good); err != nil {
		return err
	}
	rel := nominalRelease("rel", 1, release.StatusDeployed)
	if err := st.drv.Create(key("rel", 1), rel); err != nil {
		return err
	}
	jb, _ := json.Marshal(rel)
	var tree any
	json.Unmarshal(jb, &tree)
	gone := false
	for _, d := range cs.Devs {
		var err error
		tree, gone, err = apply(tree, d.Path, d.Shape, e.depth)
		if err != nil {
			return err
		}
	}
	body := serialise(sweep(tree), gone, true)
	e.obs.Input = kind + " record body: " + short(body)
	if err := st.setBody(key("rel", 1), encodeBody(body)); err != nil {
		return err
	}
	e.storeOps(st, []string{key("other", 1), key("rel", 1)})
	cfg := &action.Configuration{Releases: storage.Init(st.drv), KubeClient: &kubefake.PrintingKubeClient{Out: io.Discard},
		Capabilities: chartutil.DefaultCapabilities}
	e.call("Storage.History", func() error { _, err := cfg.Releases.History("rel"); return err })
	e.call("Storage.Last", func() error { _, err := cfg.Releases.Last("rel"); return err })
	e.call("Storage.Deployed", func() error { _, err := cfg.Releases.Deployed("rel"); return err })
	e.call("action.Status", func() error {
		s := action.NewStatus(cfg)
		s.ShowResourcesTable = false
		_, err := s.Run("rel")
		return err
	})
	e.call("action.Get", func() error { _, err := action.NewGet(cfg).Run("rel"); return err })
	e.call("action.GetValues", func() error {
		g := action.NewGetValues(cfg)
		g.AllValues = true
		_, err := g.Run("rel")
		return err
	})
	e.call("action.GetMetadata", func() error { _, err := action.NewGetMetadata(cfg).Run("rel"); return err })
	e.call("action.History", func() error { _, err := action.NewHistory(cfg).Run("rel"); return err })
	e.call("action.List", func() error {
		l := action.NewList(cfg)
		l.All = true
		l.SetStateMask()
		_, err := l.Run()
		return err
	})
	// the commands that print stored records, in every output format
	os.Setenv("HELM_DRIVER", "memory")
	for _, format := range []string{"table", "json", "yaml"} {
		format := format
		e.call("helm list -o "+format, func() error {
			_, err := runCLI(cfg, []string{"list", "--all", "--namespace", "ns", "-o", format})
			return err
		})
		e.call("helm history -o "+format, func() error {
			_, err := runCLI(cfg, []string{"history", "rel", "--namespace", "ns", "-o", format})
			return err
		})
		// (status as a table, get all and get hooks used to dereference a null entry of the hooks list: repaired in b127997)
		e.call("helm status -o "+format, func() error {
			_, err := runCLI(cfg, []string{"status", "rel", "--namespace", "ns", "-o", format})
			return err
		})
	}
	e.call("helm get all", func() error { _, err := runCLI(cfg, []string{"get", "all", "rel", "--namespace", "ns"}); return err })
	for _, what := range []string{"values", "manifest", "notes", "hooks"} {
		what := what
		e.call("helm get "+what, func() error { _, err := runCLI(cfg, []string{"get", what, "rel", "--namespace", "ns"}); return err })
	}
	e.call("helm get metadata -o json", func() error {
		_, err := runCLI(cfg, []string{"get", "metadata", "rel", "--namespace", "ns", "-o", "json"})
		return err
	})
	e.call("action.Upgrade(dry-run)", func() error {
		ch, err := loader.LoadFiles([]*loader.BufferedFile{{Name: "Chart.yaml", Data: []byte(nominalSubChartYAML)},
			{Name: "templates/cm.yaml", Data: []byte(tplSubConfigMap)}, {Name: "values.yaml", Data: []byte(nominalSubValues)}})
		if err != nil {
			return err
		}
		u := action.NewUpgrade(cfg)
		u.DryRun, u.Namespace, u.ReuseValues = true, "ns", true
		_, err = u.Run("rel", ch, map[string]any{})
		return err
	})
	e.call("action.Rollback(dry-run)", func() error {
		r := action.NewRollback(cfg)
		r.DryRun = true
		return r.Run("rel")
	})
	e.call("action.Uninstall(dry-run)", func() error {
		u := action.NewUninstall(cfg)
		u.DryRun = true
		_, err := u.Run("rel")
		return err
	})
	return nil
}

func (e *env) storeOps(st *store, keys []string) {
	e.obs.Keys = keys
	for _, k := range keys {
		k := k
		e.call("Get "+k, func() error {
			_, err := st.drv.Get(k)
			if err == nil {
				e.obs.GetOK = append(e.obs.GetOK, k)
			}
			return err
		})
	}
	names := func(rs []*release.Release) []string {
		out := []string{}
		for _, r := range rs {
			if r == nil {
				out = append(out, "<nil>")
				continue
			}
			out = append(out, fmt.Sprintf("%s.v%d", r.Name, r.Version))
		}
		sort.Strings(out)
		return out
	}
	e.call("List", func() error {
		rs, err := st.drv.List(func(*release.Release) bool { return true })
		e.obs.Listed = names(rs)
		return err
	})
	e.call("Query", func() error {
		rs, err := st.drv.Query(map[string]string{"owner": "helm"})
		e.obs.Queried = names(rs)
		return err
	})
}

func (e *env) runStore(cs Case, idx int) error {
	st := newStore(cs.Drv)
	slots := []struct {
		name string
		v    int
	}{{"a", 1}, {"a", 2}, {"b", 1}}
	var keys []string
	for i, rec := range cs.Store {
		s := slots[i%len(slots)]
		status := release.StatusSuperseded
		if i > 0 {
			status = release.StatusDeployed
		}
		rel := nominalRelease(s.name, s.v, status)
		k := key(s.name, s.v)
		keys = append(keys, k)
		if err := st.drv.Create(k, rel); err != nil {
			return err
		}
		jb, _ := json.Marshal(rel)
		gz, _ := base64.StdEncoding.DecodeString(encodeBody(jb))
		var body string
		switch rec.Damage {
		case "intact":
			continue
		case "notbase64":
			body = "!!! this is not base64 !!!"
		case "badgzip":
			body = base64.StdEncoding.EncodeToString(append([]byte{0x1f, 0x8b, 0x08, 0, 0, 0, 0, 0}, []byte("garbage after the gzip magic")...))
		case "truncated":
			body = base64.StdEncoding.EncodeToString(gz[:len(gz)/2])
		case "notjson":
			body = encodeBody([]byte("this is not JSON"))
		case "jsonlist":
			body = encodeBody([]byte("[1, 2]"))
		case "wrongtype":
			body = encodeBody([]byte(`{"name": 5, "version": "x", "info": []}`))
		case "jsonnull":
			body = encodeBody([]byte("null"))
		case "emptyobject":
			body = encodeBody([]byte("{}"))
		case "nokey":
			body = noKey
		case "emptyvalue":
			body = ""
		case "onebyte":
			body = base64.StdEncoding.EncodeToString([]byte{0x1f})
		case "twobytes":
			body = base64.StdEncoding.EncodeToString([]byte{0x1f, 0x8b})
		case "nullinfo", "nullchart":
			var tree map[string]any
			json.Unmarshal(jb, &tree)
			tree[strings.TrimPrefix(rec.Damage, "null")] = nil
			nb, _ := json.Marshal(tree)
			body = encodeBody(nb)
		default:
			return fmt.Errorf("unknown damage %q", rec.Damage)
		}
		if err := st.setBody(k, body); err != nil {
			return err
		}
	}
	e.storeOps(st, keys)
	stg := storage.Init(st.drv)
	e.call("Storage.ListReleases", func() error { _, err := stg.ListReleases(); return err })
	e.call("Storage.History(a)", func() error { _, err := stg.History("a"); return err })
	e.call("Storage.Last(a)", func() error { _, err := stg.Last("a"); return err })
	e.call("Storage.Deployed(a)", func() error { _, err := stg.Deployed("a"); return err })
	e.call("Storage.DeployedAll(b)", func() error { _, err := stg.DeployedAll("b"); return err })
	return nil
}

// ---------------------------------------------------------------------------------------------
// token texts

var manifestTokens = []string{
	"---", "--- ", "---\r", "...", "", "# a comment",
	"apiVersion: v1\nkind: ConfigMap\nmetadata:\n  name: a",
	"kind: [", "null", "- a\n- b", "plain scalar",
	"apiVersion: v1\nkind: Pod\nmetadata:\n  name: h\n  annotations:\n    helm.sh/hook: pre-install,bogus\n    helm.sh/hook-weight: x\n    helm.sh/hook-delete-policy: \"\"",
	"apiVersion: v1\nkind: List\nitems: [null]", "{}", "kind: 5\nmetadata: 7",
	"metadata:\n  annotations: [helm.sh/hook]\n  name: {a: b}",
}

var strvalsTokens = []string{"a", "b", ".", "=", ",", "[", "]", "0", "1", "{", "}", "\\", "null", "-1", "65537", "\"", " ",
	strings.Repeat("x.", 40)}

var ignoreTokens = []string{"", "# c", "*", "**", "/", "!", "!x", "a/", "/a", "a/**/b", "[", "[a-", "\\", "a b ", "*.tgz", "x\\"}

func text(toks []int, alphabet []string, sep string) (string, error) {
	parts := []string{}
	for _, t := range toks {
		if t < 1 || t > len(alphabet) {
			return "", fmt.Errorf("token %d outside the alphabet of %d", t, len(alphabet))
		}
		parts = append(parts, alphabet[t-1])
	}
	return strings.Join(parts, sep), nil
}

type fakeInfo struct {
	name string
	dir  bool
}

func (f fakeInfo) Name() string       { return f.name }
func (f fakeInfo) Size() int64        { return 1 }
func (f fakeInfo) Mode() os.FileMode  { return 0o644 }
func (f fakeInfo) ModTime() time.Time { return time.Time{} }
func (f fakeInfo) IsDir() bool        { return f.dir }
func (f fakeInfo) Sys() any           { return nil }

func (e *env) runTokens(cs Case, idx int) error {
	switch cs.Fam {
	case "manifest":
		s, err := text(cs.Toks, manifestTokens, "\n")
		if err != nil {
			return err
		}
		e.obs.Input = short([]byte(s))
		var split map[string]string
		e.call("releaseutil.SplitManifests", func() error { split = releaseutil.SplitManifests(s); return nil })
		e.call("releaseutil.SortManifests(install)", func() error {
			_, _, err := releaseutil.SortManifests(map[string]string{"parent/templates/a.yaml": s, "parent/templates/NOTES.txt": "n"}, nil, releaseutil.InstallOrder)
			return err
		})
		e.call("releaseutil.SortManifests(uninstall)", func() error {
			_, _, err := releaseutil.SortManifests(map[string]string{"parent/templates/a.yaml": s}, nil, releaseutil.UninstallOrder)
			return err
		})
		e.call("BySplitManifestsOrder", func() error {
			keys := []string{}
			for k := range split {
				keys = append(keys, k)
			}
			sort.Sort(releaseutil.BySplitManifestsOrder(keys))
			return nil
		})
	case "strvals":
		s, err := text(cs.Toks, strvalsTokens, "")
		if err != nil {
			return err
		}
		e.obs.Input = short([]byte(s))
		e.call("strvals.Parse", func() error { _, err := strvals.Parse(s); return err })
		e.call("strvals.ParseString", func() error { _, err := strvals.ParseString(s); return err })
		e.call("strvals.ParseInto", func() error {
			return strvals.ParseInto(s, map[string]any{"a": map[string]any{"b": []any{1, nil}}, "b": "str"})
		})
		e.call("strvals.ParseIntoString", func() error { return strvals.ParseIntoString(s, map[string]any{"a": []any{}}) })
		e.call("strvals.ParseJSON", func() error { return strvals.ParseJSON(s, map[string]any{"a": 1}) })
		e.call("strvals.ParseFile", func() error {
			_, err := strvals.ParseFile(s, func(rs []rune) (any, error) { return string(rs), nil })
			return err
		})
		e.call("strvals.ParseLiteral", func() error { _, err := strvals.ParseLiteral(s); return err })
		e.call("strvals.ParseLiteralInto", func() error { return strvals.ParseLiteralInto(s, map[string]any{"a": map[string]any{}}) })
		e.call("strvals.ToYAML", func() error { _, err := strvals.ToYAML(s); return err })
		e.call("values.Options.MergeValues", func() error {
			o := values.Options{Values: []string{s}, StringValues: []string{s}, JSONValues: []string{s}, LiteralValues: []string{s}}
			_, err := o.MergeValues(getter.Providers{})
			return err
		})
	case "ignore":
		s, err := text(cs.Toks, ignoreTokens, "\n")
		if err != nil {
			return err
		}
		e.obs.Input = short([]byte(s))
		var rules *ignore.Rules
		e.call("ignore.Parse", func() error {
			r, err := ignore.Parse(strings.NewReader(s))
			if err == nil {
				rules = r
			}
			return err
		})
		if rules != nil {
			e.call("Rules.Ignore", func() error {
				rules.AddDefaults()
				for _, p := range []string{"a", "a/b", "x.tgz", ".", "", "/abs", "a b ", "x\\", "templates/.dotfile", "[", "a/x/y/b"} {
					rules.Ignore(p, fakeInfo{filepath.Base(p), false})
					rules.Ignore(p, fakeInfo{filepath.Base(p), true})
				}
				return nil
			})
		}
		dir := filepath.Join(e.dir, "ign", "c")
		os.RemoveAll(filepath.Join(e.dir, "ign"))
		os.MkdirAll(filepath.Join(dir, "templates"), 0o755)
		os.MkdirAll(filepath.Join(dir, "a", "x"), 0o755)
		os.WriteFile(filepath.Join(dir, "Chart.yaml"), []byte(nominalSubChartYAML), 0o644)
		os.WriteFile(filepath.Join(dir, "templates", "cm.yaml"), []byte(tplSubConfigMap), 0o644)
		os.WriteFile(filepath.Join(dir, "a", "x", "b"), []byte("x"), 0o644)
		os.WriteFile(filepath.Join(dir, ".helmignore"), []byte(s), 0o644)
		e.call("loader.LoadDir(.helmignore)", func() error { _, err := loader.LoadDir(dir); return err })
	case "recursion":
		return e.runRecursion(cs)
	case "layout":
		return e.runLayout(cs)
	case "crds":
		return e.runCRDs(cs)
	default:
		return fmt.Errorf("unknown token family %q", cs.Fam)
	}
	return nil
}

// recursionBody: the body of a named template for one token of the "recursion" family.
func recursionBody(tok int) (string, error) {
	switch {
	case tok == 1:
		return "plain text", nil
	case tok >= 2 && tok <= 4: // include t_j
		return fmt.Sprintf(`[{{ include "t%d" . }}]`, tok-1), nil
	case tok == 5 || tok == 7: // tpl of a literal that includes t_1 / t_2
		return fmt.Sprintf("({{ tpl \"{{ include \\\"t%d\\\" . }}\" . }})", (tok-3)/2), nil
	case tok == 6 || tok == 8: // tpl of a value that includes t_1 / t_2
		return fmt.Sprintf("<{{ tpl .Values.call%d . }}>", (tok-4)/2), nil
	case tok == 9: // not in the enumerated alphabet (unbounded on the unchanged code): a value that runs tpl on itself
		return "{{ tpl .Values.selfref . }}", nil
	}
	return "", fmt.Errorf("token %d outside the recursion alphabet", tok)
}

const recursionValues = `call1: '{{ include "t1" . }}'
call2: '{{ include "t2" . }}'
call3: '{{ include "t3" . }}'
selfref: '{{ tpl .Values.selfref . }}'
`

func (e *env) runRecursion(cs Case) error {
	var helpers strings.Builder
	for i, t := range cs.Toks {
		b, err := recursionBody(t)
		if err != nil {
			return err
		}
		fmt.Fprintf(&helpers, "{{- define \"t%d\" -}}%s{{- end -}}\n", i+1, b)
	}
	e.obs.Input = short([]byte(helpers.String()))
	files := []*loader.BufferedFile{
		{Name: "Chart.yaml", Data: []byte("apiVersion: v2\nname: rec\nversion: 0.1.0\n")},
		{Name: "values.yaml", Data: []byte(recursionValues)},
		{Name: "templates/_helpers.tpl", Data: []byte(helpers.String())},
		{Name: "templates/cm.yaml", Data: []byte("apiVersion: v1\nkind: ConfigMap\nmetadata:\n  name: rec\ndata:\n  out: {{ include \"t1\" . | quote }}\n")},
	}
	load := func() (*chart.Chart, error) {
		cp := make([]*loader.BufferedFile, len(files))
		for i, f := range files {
			cp[i] = &loader.BufferedFile{Name: f.Name, Data: append([]byte(nil), f.Data...)}
		}
		return loader.LoadFiles(cp)
	}
	e.call("engine.Render", func() error {
		ch, err := load()
		if err != nil {
			return err
		}
		rv, err := chartutil.ToRenderValues(ch, map[string]any{}, chartutil.ReleaseOptions{Name: "r", Namespace: "ns", IsInstall: true}, chartutil.DefaultCapabilities)
		if err != nil {
			return err
		}
		_, err = engine.Render(ch, rv)
		return err
	})
	e.call("action.Install(dry-run,client-only)", func() error {
		ch, err := load()
		if err != nil {
			return err
		}
		cfg := &action.Configuration{Releases: storage.Init(driver.NewMemory()), KubeClient: &kubefake.PrintingKubeClient{Out: io.Discard},
			Capabilities: chartutil.DefaultCapabilities}
		in := action.NewInstall(cfg)
		in.DryRun, in.ClientOnly, in.ReleaseName, in.Namespace, in.Replace = true, true, "r", "ns", true
		_, err = in.Run(ch, map[string]any{})
		return err
	})
	dir := filepath.Join(e.dir, "rec", "rec")
	os.RemoveAll(filepath.Join(e.dir, "rec"))
	for _, f := range files {
		p := filepath.Join(dir, f.Name)
		os.MkdirAll(filepath.Dir(p), 0o755)
		os.WriteFile(p, f.Data, 0o644)
	}
	e.call("lint.RunAll", func() error { lint.RunAll(dir, map[string]any{}, "ns"); return nil })
	return nil
}

// values documents additionally go through the values-file readers
func (e *env) runValuesReaders(cs Case, idx int) {
	if cs.Doc != "values" && cs.Doc != "subvalues" {
		return
	}
	nominal := nominalValues
	if cs.Doc == "subvalues" {
		nominal = nominalSubValues
	}
	tree, gone, err := e.shaped(nominal, cs.Devs, cs.Doc, cs.Doc)
	if err != nil {
		return
	}
	b := serialise(tree, gone, idx%3 == 1)
	p := filepath.Join(e.dir, "vals.yaml")
	os.WriteFile(p, b, 0o644)
	e.call("chartutil.ReadValues", func() error {
		v, err := chartutil.ReadValues(b)
		if err != nil {
			return err
		}
		v.Table("sub")
		v.Table("global.g")
		v.PathValue("sub.enabled")
		v.PathValue("list")
		v.YAML()
		v.Encode(io.Discard)
		return nil
	})
	e.call("chartutil.ReadValuesFile", func() error { _, err := chartutil.ReadValuesFile(p); return err })
	e.call("loader.LoadValues", func() error { _, err := loader.LoadValues(bytes.NewReader(b)); return err })
	e.call("values.Options.MergeValues(file)", func() error {
		o := values.Options{ValueFiles: []string{p}, Values: []string{"sub.x=1", "list[1]=z"}}
		_, err := o.MergeValues(getter.Providers{})
		return err
	})
}

// ---------------------------------------------------------------------------------------------
// family "layout": which metadata files a chart and its vendored subchart have

const legacyRequirements = "dependencies:\n- name: sub\n  version: 0.1.0\n  repository: https://repo.c20.test/charts\n"
const legacyLock = "dependencies:\n- name: sub\n  version: 0.1.0\n  repository: https://repo.c20.test/charts\ndigest: sha256:00\ngenerated: \"2024-01-02T03:04:05Z\"\n"

// rawArchive packs files (names relative to the chart root) under prefix/ into a .tgz, whatever they are.
func rawArchive(prefix string, files []*loader.BufferedFile) []byte {
	var buf bytes.Buffer
	gz := gzip.NewWriter(&buf)
	tw := tar.NewWriter(gz)
	for _, f := range files {
		tw.WriteHeader(&tar.Header{Name: prefix + "/" + f.Name, Mode: 0o644, Size: int64(len(f.Data)), Typeflag: tar.TypeReg})
		tw.Write(f.Data)
	}
	tw.Close()
	gz.Close()
	return buf.Bytes()
}

func (e *env) runLayout(cs Case) error {
	sw := map[int]bool{}
	for _, t := range cs.Toks {
		if t < 1 || t > 7 {
			return fmt.Errorf("token %d outside the layout alphabet", t)
		}
		sw[t] = true
	}
	// 1 top Chart.yaml absent, 2 top requirements.yaml, 3 subchart Chart.yaml absent, 4 subchart requirements.yaml,
	// 5 subchart vendored as charts/sub-0.1.0.tgz, 6 top requirements.lock, 7 subchart requirements.lock
	sub := []*loader.BufferedFile{{Name: "values.yaml", Data: []byte(nominalSubValues)}, {Name: "templates/cm.yaml", Data: []byte(tplSubConfigMap)}}
	if !sw[3] {
		sub = append(sub, &loader.BufferedFile{Name: "Chart.yaml", Data: []byte(nominalSubChartYAML)})
	}
	if sw[4] {
		sub = append(sub, &loader.BufferedFile{Name: "requirements.yaml", Data: []byte("dependencies: []\n")})
	}
	if sw[7] {
		sub = append(sub, &loader.BufferedFile{Name: "requirements.lock", Data: []byte(legacyLock)})
	}
	top := []*loader.BufferedFile{{Name: "values.yaml", Data: []byte(nominalValues)}, {Name: "templates/cm.yaml", Data: []byte(tplSubConfigMap)}}
	if !sw[1] {
		top = append(top, &loader.BufferedFile{Name: "Chart.yaml", Data: []byte("apiVersion: v1\nname: parent\nversion: 1.2.3\n")})
	}
	if sw[2] {
		top = append(top, &loader.BufferedFile{Name: "requirements.yaml", Data: []byte(legacyRequirements)})
	}
	if sw[6] {
		top = append(top, &loader.BufferedFile{Name: "requirements.lock", Data: []byte(legacyLock)})
	}
	if sw[5] {
		top = append(top, &loader.BufferedFile{Name: "charts/sub-0.1.0.tgz", Data: rawArchive("sub", sub)})
	} else {
		for _, f := range sub {
			top = append(top, &loader.BufferedFile{Name: "charts/sub/" + f.Name, Data: f.Data})
		}
	}
	names := []string{}
	for _, f := range top {
		names = append(names, f.Name)
	}
	sort.Strings(names)
	e.obs.Input = strings.Join(names, " ")
	e.call("loader.LoadFiles", func() error {
		cp := make([]*loader.BufferedFile, len(top))
		for i, f := range top {
			cp[i] = &loader.BufferedFile{Name: f.Name, Data: append([]byte(nil), f.Data...)}
		}
		_, err := loader.LoadFiles(cp)
		return err
	})
	dir := filepath.Join(e.dir, "layout", "parent")
	os.RemoveAll(filepath.Join(e.dir, "layout"))
	for _, f := range top {
		p := filepath.Join(dir, f.Name)
		os.MkdirAll(filepath.Dir(p), 0o755)
		os.WriteFile(p, f.Data, 0o644)
	}
	e.call("loader.LoadDir", func() error { _, err := loader.LoadDir(dir); return err })
	e.call("loader.Load(dir)", func() error { _, err := loader.Load(dir); return err })
	arch := filepath.Join(e.dir, "layout", "parent-1.2.3.tgz")
	os.WriteFile(arch, rawArchive("parent", top), 0o644)
	e.call("loader.LoadArchive", func() error {
		f, err := os.Open(arch)
		if err != nil {
			return err
		}
		defer f.Close()
		_, err = loader.LoadArchive(f)
		return err
	})
	e.call("loader.LoadFile", func() error { _, err := loader.LoadFile(arch); return err })
	e.call("lint.RunAll", func() error { lint.RunAll(dir, map[string]any{}, "ns"); return nil })
	e.call("action.Dependency.List", func() error { return action.NewDependency().List(dir, io.Discard) })
	e.call("action.Show", func() error { _, err := action.NewShow(action.ShowAll, &action.Configuration{}).Run(arch); return err })
	return nil
}

// ---------------------------------------------------------------------------------------------
// family "crds": the documents of one file under crds/, through `helm template`

var crdDocs = []string{
	"apiVersion: apiextensions.k8s.io/v1\nkind: CustomResourceDefinition\nmetadata:\n  name: widgets.c20.test\nspec:\n  group: c20.test\n  names: {kind: Widget, plural: widgets}\n  scope: Namespaced\n  versions: [{name: v1, served: true, storage: true}]",
	"apiVersion: apiextensions.k8s.io/v1\nkind: CustomResourceDefinition\nmetadata:\n  name: gadgets.c20.test\nspec:\n  group: c20.test\n  names: {kind: Gadget, plural: gadgets}\n  scope: Cluster\n  versions: [{name: v1, served: true, storage: true}]",
	"# only a comment",
	"",
	"null",
}

func (e *env) runCRDs(cs Case) error {
	parts := []string{}
	for _, t := range cs.Toks {
		if t < 1 || t > len(crdDocs) {
			return fmt.Errorf("token %d outside the crds alphabet", t)
		}
		parts = append(parts, crdDocs[t-1])
	}
	text := strings.Join(parts, "\n---\n") + "\n"
	e.obs.Input = short([]byte(text))
	dir := filepath.Join(e.dir, "crdchart", "withcrds")
	os.RemoveAll(filepath.Join(e.dir, "crdchart"))
	for name, data := range map[string]string{
		"Chart.yaml":        "apiVersion: v2\nname: withcrds\nversion: 0.1.0\n",
		"values.yaml":       nominalSubValues,
		"templates/cm.yaml": tplSubConfigMap,
		"crds/crd.yaml":     text,
	} {
		p := filepath.Join(dir, name)
		os.MkdirAll(filepath.Dir(p), 0o755)
		os.WriteFile(p, []byte(data), 0o644)
	}
	os.Setenv("HELM_DRIVER", "memory")
	for _, flags := range [][]string{
		{"--include-crds", "--show-only", "templates/cm.yaml"},
		{"--include-crds", "--show-only", "crds/crd.yaml"},
		{"--include-crds"},
		{"--show-only", "templates/cm.yaml"},
		{},
	} {
		flags := flags
		e.call("helm template "+strings.Join(flags, " "), func() error {
			cfg := &action.Configuration{Releases: storage.Init(driver.NewMemory()), KubeClient: &kubefake.PrintingKubeClient{Out: io.Discard},
				Capabilities: chartutil.DefaultCapabilities}
			_, err := runCLI(cfg, append([]string{"template", "r", dir, "--namespace", "ns"}, flags...))
			return err
		})
	}
	e.call("loader.LoadDir", func() error {
		ch, err := loader.LoadDir(dir)
		if err == nil {
			ch.CRDObjects()
		}
		return err
	})
	e.call("action.Install(dry-run,client-only,include-crds)", func() error {
		ch, err := loader.LoadDir(dir)
		if err != nil {
			return err
		}
		cfg := &action.Configuration{Releases: storage.Init(driver.NewMemory()), KubeClient: &kubefake.PrintingKubeClient{Out: io.Discard},
			Capabilities: chartutil.DefaultCapabilities}
		in := action.NewInstall(cfg)
		in.DryRun, in.ClientOnly, in.ReleaseName, in.Namespace, in.Replace, in.IncludeCRDs = true, true, "r", "ns", true, true
		_, err = in.Run(ch, map[string]any{})
		return err
	})
	e.call("lint.RunAll", func() error { lint.RunAll(dir, map[string]any{}, "ns"); return nil })
	return nil
}
